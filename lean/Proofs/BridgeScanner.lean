import Generated.CoreScanner
import Proofs.PyNorm
import Model.Scan

set_option linter.unusedSimpArgs false
set_option linter.unusedVariables false
/-! Bridge (T) for C02: the Lean translation of `Scanner.includes` / `Scanner.is_last`, regenerated from /repo on every
    run, against the hand-written `Model.Scan.includes` / `isLast`. -/
namespace Proofs.BridgeScanner
open Model.Scan

def optNat : Option Nat → Py.V
  | some n => .int n
  | Option.none => .none

def theseV (xs : List (Option Nat)) : Py.V := .ints (xs.map (Option.map Int.ofNat))

/-- the scanner object as `includes`/`is_last` read it -/
def scanEnv (s : St) (endLine : Option Nat) : Py.Env := fun k =>
  if k = "self.from_line" then optNat s.frm
  else if k = "self.to_line" then optNat s.to
  else if k = "self.all_lines" then .bool s.all
  else if k = "self.these" then theseV s.these
  else if k = "self.csvpath.line_monitor.physical_end_line_number" then optNat endLine
  else .exc "AttributeError"

theorem eqOpt_nat (line : Nat) (x : Option Nat) :
    Py.eqOpt (.int line) (x.map Int.ofNat) = (x == some line) := by
  cases x with
  | none => simp [Py.eqOpt, Py.eqb, Py.num?]
  | some n =>
    simp only [Option.map, Py.eqOpt, Py.eqb, Py.num?]
    by_cases h : line = n
    · subst h; simp
    · have h' : n ≠ line := fun e => h e.symm
      rw [Bool.eq_iff_iff]; simp; omega

theorem any_these (line : Nat) (xs : List (Option Nat)) :
    (List.map (Option.map Int.ofNat) xs).any (Py.eqOpt (.int line)) = xs.contains (some line) := by
  induction xs with
  | nil => rfl
  | cons x xs ih =>
    simp only [List.map_cons, List.any_cons, ih, eqOpt_nat, List.contains_cons]
    congr 1
    cases x <;> rw [Bool.eq_iff_iff] <;> simp <;> exact eq_comm

theorem in_these (line : Nat) (xs : List (Option Nat)) :
    Py.in_ (.int line) (.ints (xs.map (Option.map Int.ofNat))) = .bool (xs.contains (some line)) := by
  simp only [Py.in_, Py.strict2, any_these]

macro "sc_norm" : tactic => `(tactic|
  simp [optNat, py_norm, theseV, in_these, Int.ofNat_le, Int.ofNat_lt, Int.natCast_inj, *])

theorem includes_bridge (s : St) (endLine : Option Nat) (line : Nat) (effs : List Py.Eff) :
    Generated.Scanner.Scanner.includes (scanEnv s endLine) (.int line) (.int (-1)) (.int (-1)) .none .none effs
      = .ok (.bool (includes s line)) effs := by
  obtain ⟨these, all, frm, to⟩ := s
  unfold Generated.Scanner.Scanner.includes includes
  simp only [scanEnv, String.reduceEq, if_true, if_false, ↓reduceIte]
  by_cases hc : some line ∈ these <;>
  cases frm with
  | none =>
    cases to with
    | none => cases all <;> sc_norm
    | some t => cases all <;> by_cases h1 : line < t <;> sc_norm
  | some f =>
    cases to with
    | none => cases all <;> by_cases h1 : f ≤ line <;> by_cases h2 : f = line <;> sc_norm <;> (try omega)
    | some t =>
      cases all <;> by_cases h1 : f ≤ line <;> by_cases h2 : f = line <;> by_cases h3 : t < f <;> by_cases h4 : t ≤ line <;>
        by_cases h5 : line ≤ f <;> by_cases h6 : line ≤ t <;> sc_norm <;> (try omega)

theorem len_these (xs : List (Option Nat)) : Py.len (.ints (xs.map (Option.map Int.ofNat))) = .int xs.length := by
  simp [Py.len]

theorem allInts_some (ys : List Nat) :
    Py.allInts ((ys.map some).map (Option.map Int.ofNat)) = some (ys.map Int.ofNat) := by
  induction ys with
  | nil => rfl
  | cons y ys ih => simp only [List.map_cons, Option.map, Py.allInts, ih]

theorem maxList_nat (ys : List Nat) : Py.maxList (ys.map Int.ofNat) = (maxThese (ys.map some)).map Int.ofNat := by
  induction ys with
  | nil => rfl
  | cons y ys ih =>
    simp only [List.map_cons, Py.maxList, maxThese, ih]
    cases maxThese (ys.map some) with
    | none => rfl
    | some m =>
      simp only [Option.map]
      congr 1
      by_cases h : m < y
      · have : (Int.ofNat y > Int.ofNat m) := by simp; omega
        simp [this]; omega
      · have : ¬ (Int.ofNat y > Int.ofNat m) := by simp; omega
        simp [this]; omega

theorem maxThese_cons_some (y : Nat) (ys : List Nat) : ∃ m, maxThese ((y :: ys).map some) = some m := by
  simp only [List.map_cons, maxThese]
  cases maxThese (ys.map some) <;> simp

theorem max_these (y : Nat) (ys : List Nat) :
    Py.max (.ints (((y :: ys).map some).map (Option.map Int.ofNat))) = optNat (maxThese ((y :: ys).map some)) := by
  have e2 := allInts_some (y :: ys)
  obtain ⟨m, hm⟩ := maxThese_cons_some y ys
  have hb : (Py.allInts (((y :: ys).map some).map (Option.map Int.ofNat))).bind Py.maxList = some (Int.ofNat m) := by
    rw [e2]; simp only [Option.bind]; rw [maxList_nat, hm]; rfl
  rw [hm]
  simp only [List.map_cons, Option.map] at hb ⊢
  simp only [Py.max, hb, optNat]
  rfl

theorem len_these' (ys : List Nat) :
    Py.len (.ints ((ys.map some).map (Option.map Int.ofNat))) = .int ys.length := by
  simp [Py.len]

macro "sl_norm" : tactic => `(tactic|
  simp [optNat, py_norm, Int.ofNat_le, Int.ofNat_lt, Int.natCast_inj, isLast, Py.len, Py.max, maxThese, *])

macro "sl_norm2" : tactic => `(tactic|
  simp [optNat, py_norm, Int.ofNat_le, Int.ofNat_lt, Int.natCast_inj, isLast, *])

set_option maxHeartbeats 1000000 in
/-- `is_last` for a scanner whose `these` holds no None (every scan part of class K) -/
theorem is_last_bridge (all : Bool) (frm to : Option Nat) (ys : List Nat) (endLine : Option Nat) (line : Nat)
    (effs : List Py.Eff) :
    Generated.Scanner.Scanner.is_last (scanEnv ⟨ys.map some, all, frm, to⟩ endLine) (.int line) (.int (-1)) (.int (-1))
        .none .none effs
      = .ok (.bool (isLast ⟨ys.map some, all, frm, to⟩ endLine line)) effs := by
  unfold Generated.Scanner.Scanner.is_last
  simp only [scanEnv, String.reduceEq, if_true, if_false, ↓reduceIte, theseV]
  cases ys with
  | nil =>
    rcases frm with _ | f <;> rcases to with _ | t <;> rcases endLine with _ | e <;> cases all <;>
      (try (by_cases h1 : t < f)) <;> (try (by_cases h2 : line = f <;> try subst f)) <;> (try (by_cases h3 : line = t <;> try subst t)) <;>
      (try (by_cases h4 : line = e <;> try subst e)) <;> sl_norm <;>
      (first | omega | (rw [Bool.eq_iff_iff]; simp; omega) | (split <;> sl_norm <;> omega) | skip)
  | cons y ys =>
    obtain ⟨m, hm⟩ := maxThese_cons_some y ys
    have hmax := max_these y ys
    have hlen := len_these' (y :: ys)
    rw [hm] at hmax
    have hne : (List.map some (y :: ys)).isEmpty = false := by simp
    have hlv : ∀ k, Py.letv (Py.V.ints (List.map (Option.map Int.ofNat) (List.map some (y :: ys)))) effs k
        = k (Py.V.ints (List.map (Option.map Int.ofNat) (List.map some (y :: ys)))) := fun k => rfl
    have hll : (y :: ys).length = ys.length + 1 := rfl
    rw [hll] at hlen
    generalize List.map some (y :: ys) = T at *
    generalize List.map (Option.map Int.ofNat) T = I at *
    simp only [optNat] at hmax
    clear hlv hll
    by_cases hml : m = line <;> (try subst m) <;>
    rcases frm with _ | f <;> rcases to with _ | t <;> rcases endLine with _ | e <;> cases all <;>
      (try (by_cases h1 : t < f)) <;> (try (by_cases h2 : line = f <;> try subst f)) <;> (try (by_cases h3 : line = t <;> try subst t)) <;>
      (try (by_cases h4 : line = e <;> try subst e)) <;> sl_norm2 <;>
      (first | omega | (rw [Bool.eq_iff_iff]; simp; omega) | (split <;> sl_norm2 <;> omega) | skip)

end Proofs.BridgeScanner
