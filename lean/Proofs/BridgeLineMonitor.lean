import Generated.CoreLineMonitor
import Proofs.PyNorm
import Model.RunLoop

set_option linter.unusedSimpArgs false
set_option linter.unusedVariables false

/-! Bridge (T) for the line monitor: the Lean translation of `LineMonitor.next_line` and `set_end_lines_and_reset` (regenerated from
    /repo on every run) against the run-loop model's `trackData` (the data counters) and the record index (the physical ones). -/
namespace Proofs.BridgeLineMonitor
open Model.Run

def optInt (none? : Bool) (z : Int) : Py.V := if none? then .none else .int z

/-- the monitor after `i` records: nothing is set before the first record -/
def monEnv (rest : Py.Env) (i : Nat) (dc dn : Int) : Py.Env := fun k =>
  if k = "self._physical_line_count" then optInt (i == 0) i
  else if k = "self._physical_line_number" then optInt (i == 0) ((i : Int) - 1)
  else if k = "self._data_line_count" then optInt (i == 0) dc
  else if k = "self._data_line_number" then optInt (i == 0) dn
  else rest k

def okVE : Py.H.Res → Option (Py.V × Py.Env)
  | .ok v e _ => some (v, e)
  | .raised _ _ _ => Option.none

macro "env_cases" : tactic => `(tactic| (
  funext k
  by_cases h1 : k = "self._physical_line_count" <;> by_cases h2 : k = "self._physical_line_number" <;>
  by_cases h3 : k = "self._data_line_count" <;> by_cases h4 : k = "self._data_line_number" <;>
  simp_all [monEnv, optInt, Py.upd] <;> omega))

theorem next_line_bridge (ext : Py.Ext) (rest : Py.Env) (i : Nat) (dc dn : Int) (lastLine : Py.V) (r : Rec) (effs : List Py.Eff) :
    okVE (Generated.LineMonitor.LineMonitor.next_line ext (monEnv rest i dc dn) lastLine (.strs r) effs) =
      some (.none, monEnv rest (i + 1) (trackData i r dc dn).1 (trackData i r dc dn).2) := by
  cases i with
  | zero =>
    cases r with
    | nil =>
      simp [py_core, py_norm, Py.len, Py.H.letv, Py.H.cond, Py.H.setattr, Py.H.ret, Py.H.bind, okVE, monEnv, optInt, trackData]
      env_cases
    | cons x xs =>
      have hne : ¬ ((xs.length : Int) + 1 ≤ 0) := by omega
      simp [py_core, py_norm, Py.len, Py.H.letv, Py.H.cond, Py.H.setattr, Py.H.ret, Py.H.bind, okVE, monEnv, optInt, trackData, hne]
      env_cases
  | succ j =>
    cases r with
    | nil =>
      simp [py_core, py_norm, Py.len, Py.H.letv, Py.H.cond, Py.H.setattr, Py.H.ret, Py.H.bind, okVE, monEnv, optInt, trackData, Py.upd]
      env_cases
    | cons x xs =>
      have hne : ¬ ((xs.length : Int) + 1 ≤ 0) := by omega
      by_cases hdc : dc = -1
      · subst hdc
        simp [py_core, py_norm, Py.len, Py.H.letv, Py.H.cond, Py.H.setattr, Py.H.ret, Py.H.bind, okVE, monEnv, optInt, trackData, Py.upd, hne]
        env_cases
      · simp [py_core, py_norm, Py.len, Py.H.letv, Py.H.cond, Py.H.setattr, Py.H.ret, Py.H.bind, okVE, monEnv, optInt, trackData, Py.upd, hne, hdc]
        env_cases

theorem setattr_ok (path : String) (v : Py.V) (env : Py.Env) (effs : List Py.Eff) (k : Py.Env → List Py.Eff → Py.H.Res)
    (h : Py.isExc v = false) :
    Py.H.setattr path v env effs k = k (Py.upd env path v) (effs ++ [{ name := "set " ++ path, args := [v] }]) := by
  cases v <;> simp [Py.isExc] at h <;> rfl

theorem letv_ok (v : Py.V) (env : Py.Env) (effs : List Py.Eff) (k : Py.V → Py.H.Res) (h : Py.isExc v = false) :
    Py.H.letv v env effs k = k v := by cases v <;> simp [Py.isExc] at h <;> rfl

theorem upd_other (e : Py.Env) (k k' : String) (v : Py.V) (h : ¬ k' = k) : Py.upd e k v k' = e k' := by simp [Py.upd, h]
theorem isExc_none : Py.isExc Py.V.none = false := rfl
theorem ret_none (e : Py.Env) (ef : List Py.Eff) : Py.H.ret Py.V.none e ef = .ok .none e ef := rfl
theorem bind_ok (v : Py.V) (e : Py.Env) (ef : List Py.Eff) (k : Py.V → Py.Env → List Py.Eff → Py.H.Res) :
    Py.H.bind (.ok v e ef) k = k v e ef := rfl

/-- `set_end_lines_and_reset`: the four end marks take the current counters, which are unset again -/
theorem set_end_bridge (ext : Py.Ext) (env : Py.Env) (effs : List Py.Eff)
    (h1 : Py.isExc (env "self._physical_line_count") = false) (h2 : Py.isExc (env "self._physical_line_number") = false)
    (h3 : Py.isExc (env "self._data_line_count") = false) (h4 : Py.isExc (env "self._data_line_number") = false) :
    ∃ env', okVE (Generated.LineMonitor.LineMonitor.set_end_lines_and_reset ext env effs) = some (.none, env') ∧
      env' "self._physical_end_line_count" = env "self._physical_line_count" ∧
      env' "self._physical_end_line_number" = env "self._physical_line_number" ∧
      env' "self._data_end_line_count" = env "self._data_line_count" ∧
      env' "self._data_end_line_number" = env "self._data_line_number" ∧
      env' "self._physical_line_count" = .none ∧ env' "self._physical_line_number" = .none ∧
      env' "self._data_line_count" = .none ∧ env' "self._data_line_number" = .none := by
  simp only [py_core]
  simp (config := { decide := true }) only [setattr_ok, letv_ok, bind_ok, ret_none, upd_other, isExc_none, h1, h2, h3, h4]
  simp [okVE, Py.upd, Py.H.setattr, Py.H.letv, Py.H.ret, Py.H.bind]

end Proofs.BridgeLineMonitor
