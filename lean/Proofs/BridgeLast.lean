import Generated.CoreLast
import Proofs.BridgeMatches

set_option linter.unusedSimpArgs false
set_option linter.unusedVariables false

/-! Bridge (T) for last(): the Lean translation of `Last._decide_match` (with `LineMonitor.is_last_line`), regenerated from /repo on
    every run, against its meaning stated outright: it holds on the file's last line and on the last line the scan part selects, and
    runs what it encloses exactly there, with the freeze lifted for the duration. -/
namespace Proofs.BridgeLast
open Proofs.BridgeMatches

/-- what `last()` reads -/
structure Facts (e : Py.Env) (endIdx : Option Nat) (i : Nat) (hasScanner scanLast : Bool) (n : Nat) (ext : Py.Ext) : Prop where
  endNo : e "self.matcher.csvpath.line_monitor._physical_end_line_number" = optNatV endIdx
  lineNo : e "self.matcher.csvpath.line_monitor._physical_line_number" = .int i
  lineNo' : e "self.matcher.csvpath.line_monitor.physical_line_number" = .int i
  scanner : e "self.matcher.csvpath.scanner" = (if hasScanner then .str "scanner" else .none)
  isLast : (ext "is_last" [.int i] e).1 = .bool scanLast
  arity : e "len(self.children)" = .int n

/-- does `last()` hold on this line? -/
def holds (endIdx : Option Nat) (i : Nat) (hasScanner scanLast : Bool) : Bool := (endIdx == some i) || (hasScanner && scanLast)

/-- what `last()` leaves behind -/
def lastFn (ext : Py.Ext) (m : Bool) (n : Nat) (e : Py.Env) : Py.Env :=
  if m && n == 1 then
    Py.upd (ext "child_matches" [] (Py.upd (Py.upd e "self.match" (.bool true)) "self.matcher.csvpath.is_frozen" (.bool false))).2
      "self.matcher.csvpath.is_frozen" (.bool true)
  else Py.upd e "self.match" (.bool m)

theorem last_bridge (ext : Py.Ext) (e : Py.Env) (skip : Py.V) (effs : List Py.Eff) (endIdx : Option Nat) (i : Nat)
    (hasScanner scanLast : Bool) (n : Nat) (hval : ∀ name a e, Py.isExc (ext name a e).1 = false)
    (hf : Facts e endIdx i hasScanner scanLast n ext) :
    okVE (Generated.Last.Last._decide_match ext e skip effs) =
      some (.none, lastFn ext (holds endIdx i hasScanner scanLast) n e) := by
  obtain ⟨f1, f2, f3, f4, f5, f6⟩ := hf
  have horacle : Py.H.oracle ext "is_last" [Py.V.int i] e = .bool scanLast := by simpa [Py.H.oracle, Py.firstExc] using f5
  have hcall : ∀ env effs k, Py.H.call ext "child_matches" [] env effs k =
      k (ext "child_matches" [] env).1 (ext "child_matches" [] env).2 (effs ++ [{ name := "call child_matches", args := [] }]) :=
    fun env effs k => call_ok _ _ _ _ _ _ rfl (hval _ _ _)
  simp only [py_core, f1, f2, f3, f4, f6, horacle]
  have key : endIdx = Option.none ∨ endIdx = some i ∨ ∃ e0, endIdx = some e0 ∧ ¬ e0 = i := by
    rcases endIdx with _ | e0
    · exact Or.inl rfl
    · by_cases he : e0 = i
      · exact Or.inr (Or.inl (by rw [he]))
      · exact Or.inr (Or.inr ⟨e0, rfl, he⟩)
  by_cases hn : n = 1
  · subst hn
    rcases key with h | h | ⟨e0, h, he⟩
    · subst h
      cases hasScanner <;> cases scanLast <;>
        simp [py_norm, optNatV, Py.H.bind, Py.H.ret, Py.H.letv, Py.H.cond, Py.H.setattr, Py.upd, hcall, okVE, lastFn, holds, *]
    · subst h
      cases hasScanner <;> cases scanLast <;>
        simp [py_norm, optNatV, Py.H.bind, Py.H.ret, Py.H.letv, Py.H.cond, Py.H.setattr, Py.upd, hcall, okVE, lastFn, holds, *]
    · subst h
      have hb : (e0 == i) = false := by simpa using he
      have he' : ¬ (e0 : Int) = (i : Int) := by omega
      cases hasScanner <;> cases scanLast <;>
        simp [py_norm, optNatV, Py.H.bind, Py.H.ret, Py.H.letv, Py.H.cond, Py.H.setattr, Py.upd, hcall, okVE, lastFn, holds, hb, he', *]
  · have hn' : ¬ (n : Int) = 1 := by omega
    rcases key with h | h | ⟨e0, h, he⟩
    · subst h
      cases hasScanner <;> cases scanLast <;>
        simp [py_norm, optNatV, Py.H.bind, Py.H.ret, Py.H.letv, Py.H.cond, Py.H.setattr, Py.upd, hcall, okVE, lastFn, holds, *]
    · subst h
      cases hasScanner <;> cases scanLast <;>
        simp [py_norm, optNatV, Py.H.bind, Py.H.ret, Py.H.letv, Py.H.cond, Py.H.setattr, Py.upd, hcall, okVE, lastFn, holds, *]
    · subst h
      have hb : (e0 == i) = false := by simpa using he
      have he' : ¬ (e0 : Int) = (i : Int) := by omega
      cases hasScanner <;> cases scanLast <;>
        simp [py_norm, optNatV, Py.H.bind, Py.H.ret, Py.H.letv, Py.H.cond, Py.H.setattr, Py.upd, hcall, okVE, lastFn, holds, hb, he', *]

end Proofs.BridgeLast
