import Generated.CoreWhen
import Proofs.BridgeMatches
import Model.WhenTop

set_option linter.unusedSimpArgs false
set_option linter.unusedVariables false

/-! Bridge (T) for the when/do operator: the Lean translation of `Equality._do_when` (regenerated from /repo on every run, heap
    mode) against `Model.WhenTop.whenDo`.  The two sides are arbitrary functions of the environment that keep `Contract`. -/
namespace Proofs.BridgeWhen
open Model.WhenTop Proofs.BridgeMatches
open Model.MatchTop (fold)

def world (ext : Py.Ext) (skip : Py.V) : World Py.Env where
  evalL e := (Py.isb (ext "left_matches" [skip] e).1 (.bool true), (ext "left_matches" [skip] e).2)
  evalR e := (ext "right_matches" [skip] e).2
  sentinel e := Py.truthy (e "self.sentinel")
  setSentinel e := Py.upd e "self.sentinel" (.bool true)
  defaultMatch e := Py.truthy (e "self.default_match()")
  setDoWhen b e := Py.upd e "self.DO_WHEN" (.bool b)
  setFrozen b e := Py.upd e "self.matcher.csvpath.is_frozen" (.bool b)

/-- what `_do_when` reads about its left-hand side and its surroundings -/
structure Facts (e : Py.Env) (dm nc a b : Bool) : Prop where
  andMode : e "self.matcher._AND" = .bool dm
  nocontrib : e "self._left_nocontrib(self.left)" = .bool nc
  isFn : e "isinstance(self.left, Function)" = .bool a
  overrides : e "self.left.override_frozen()" = .bool b

/-- what the bridge assumes of the world: calls return values and leave values in the environment; the left-hand side does not
    change the facts about itself -/
structure Contract (ext : Py.Ext) : Prop where
  value : ∀ name a e, Py.isExc (ext name a e).1 = false
  clean : ∀ name a e, Clean e → Clean (ext name a e).2
  facts : ∀ a e dm nc x y, Facts e dm nc x y → Facts (ext "left_matches" a e).2 dm nc x y

theorem facts_upd (e : Py.Env) (dm nc a b : Bool) (k : String) (v : Py.V) (h : Facts e dm nc a b)
    (h1 : ¬ "self.matcher._AND" = k) (h2 : ¬ "self._left_nocontrib(self.left)" = k)
    (h3 : ¬ "isinstance(self.left, Function)" = k) (h4 : ¬ "self.left.override_frozen()" = k) : Facts (Py.upd e k v) dm nc a b := by
  obtain ⟨f1, f2, f3, f4⟩ := h
  exact ⟨by simp [Py.upd, h1, f1], by simp [Py.upd, h2, f2], by simp [Py.upd, h3, f3], by simp [Py.upd, h4, f4]⟩

theorem when_bridge (ext : Py.Ext) (e : Py.Env) (skip : Py.V) (effs : List Py.Eff) (dm nc a b d : Bool)
    (hC : Contract ext) (hcl : Clean e) (hskip : Py.isExc skip = false) (hop : e "self.op" = .str "->")
    (hf : Facts e dm nc a b) (hd : e "self.default_match()" = .bool d) :
    okVE (Generated.When.Equality._do_when ext e skip effs) =
      some (.bool (whenDo (world ext skip) dm nc (a && b) e).1, (whenDo (world ext skip) dm nc (a && b) e).2) := by
  have hval := hC.value
  have hcl' : ∀ k, Py.isExc (e k) = false := hcl
  simp only [py_core]
  by_cases hs : Py.truthy (e "self.sentinel") = true
  · have hw : whenDo (world ext skip) dm nc (a && b) e = (d, e) := by
      simp only [whenDo, world, hs, if_true, hd]
      rfl
    rw [hw]
    mt_norm
  · have hs' : Py.truthy (e "self.sentinel") = false := by simpa using hs
    have hf1 : Facts (Py.upd e "self.sentinel" (.bool true)) dm nc a b :=
      facts_upd e dm nc a b _ _ hf (by decide) (by decide) (by decide) (by decide)
    have hcl1 : Clean (Py.upd e "self.sentinel" (.bool true)) := clean_upd _ _ _ hcl rfl
    have hf2 := hC.facts [skip] _ dm nc a b hf1
    have hcl2 : ∀ k, Py.isExc ((ext "left_matches" [skip] (Py.upd e "self.sentinel" (.bool true))).2 k) = false :=
      hC.clean "left_matches" [skip] _ hcl1
    have hv2 := hval "left_matches" [skip] (Py.upd e "self.sentinel" (.bool true))
    have hfe : Py.firstExc [skip] = Option.none := by cases skip <;> simp_all [Py.firstExc, Py.isExc]
    simp only [whenDo, world, hs', Bool.false_eq_true, if_false]
    simp only [cond_clean _ _ _ _ _ (hcl' _), hs', Bool.false_eq_true, if_false, setattr_bool, call_ok _ _ _ _ _ _ hfe hv2]
    obtain ⟨g1, g2, g3, g4⟩ := hf2
    have hcl3 : ∀ b' k, Py.isExc (Py.upd (ext "left_matches" [skip] (Py.upd e "self.sentinel" (.bool true))).2 "self.DO_WHEN" (.bool b') k) = false := fun b' k => clean_upd _ _ _ hcl2 rfl k
    have hfe' : ∀ env, Py.H.call ext "right_matches" [skip] env = fun effs k => k (ext "right_matches" [skip] env).1 (ext "right_matches" [skip] env).2 (effs ++ [{ name := "call right_matches", args := [skip] }]) := by
      intro env; funext effs k; exact call_ok _ _ _ _ _ _ hfe (hval _ _ _)
    by_cases hlm : Py.isb (ext "left_matches" [skip] (Py.upd e "self.sentinel" (.bool true))).1 (.bool true) = true
    · cases dm <;> cases nc <;> cases a <;> cases b <;>
        (mt_norm <;> simp [hfe', Py.upd])
    · have hlm' : Py.isb (ext "left_matches" [skip] (Py.upd e "self.sentinel" (.bool true))).1 (.bool true) = false := by simpa using hlm
      cases dm <;> cases nc <;> cases a <;> cases b <;>
        (mt_norm <;> simp [hfe', Py.upd])
end Proofs.BridgeWhen
