import Model.Matcher
import Proofs.RunLoop

namespace Proofs.Matcher
open Model.Interp Model.Val Model.Run

/-! ### effects and validity -/

def isInvalid : Effect → Bool
  | .invalid => true
  | _ => false

def isStop : Effect → Bool
  | .stop => true
  | _ => false

theorem applyEff_valid (v : View) (e : Effect) : (applyEff v e).valid = (v.valid && !isInvalid e) := by
  cases e <;> simp [applyEff, isInvalid]

theorem applyAll_valid (es : List Effect) : ∀ (v : View), (applyAll v es).valid = (v.valid && !es.any isInvalid) := by
  induction es with
  | nil => intro v; simp [applyAll]
  | cons e es ih =>
    intro v
    have := ih (applyEff v e)
    simp only [applyAll, List.foldl_cons] at this ⊢
    rw [this, applyEff_valid, List.any_cons]
    generalize es.any isInvalid = q
    cases v.valid <;> cases isInvalid e <;> cases q <;> rfl

theorem applyEff_stopped (v : View) (e : Effect) : (applyEff v e).stopped = (v.stopped || isStop e) := by
  cases e <;> simp [applyEff, isStop]

theorem applyAll_stopped (es : List Effect) : ∀ (v : View), (applyAll v es).stopped = (v.stopped || es.any isStop) := by
  induction es with
  | nil => intro v; simp [applyAll]
  | cons e es ih =>
    intro v
    have := ih (applyEff v e)
    simp only [applyAll, List.foldl_cons] at this ⊢
    rw [this, applyEff_stopped, List.any_cons]
    generalize es.any isStop = q
    cases v.stopped <;> cases isStop e <;> cases q <;> rfl

/-! ### the effects a line has, following the same cut as `matchExprs` -/

def effectsOf (env : Env) : List Node → View → List Effect
  | [], _ => []
  | e :: es, v =>
    if v.stopped then []
    else if v.skip then []
    else
      let r := evalExpr env v e
      r.2.1 ++ effectsOf env es (applyAll v r.2.1)

theorem matchExprs_valid (env : Env) : ∀ (es : List Node) (v : View) (f : Bool) (b : Option String),
    (matchExprs env es v f b).2.1.valid = (v.valid && !(effectsOf env es v).any isInvalid) := by
  intro es
  induction es with
  | nil => intro v f b; by_cases hk : v.skip = true <;> simp [matchExprs, effectsOf, hk]
  | cons e es ih =>
    intro v f b
    simp only [matchExprs, effectsOf]
    by_cases hs : v.stopped = true
    · simp [hs]
    · by_cases hk : v.skip = true
      · simp [hs, hk]
      · simp only [hs, hk, Bool.false_eq_true, if_false]
        rw [ih, applyAll_valid, List.any_append]
        generalize (evalExpr env v e).2.1.any isInvalid = q1
        generalize (effectsOf env es (applyAll v (evalExpr env v e).2.1)).any isInvalid = q2
        cases v.valid <;> cases q1 <;> cases q2 <;> rfl

/-! ### the cut -/

theorem matchExprs_stopped (env : Env) (e : Node) (es : List Node) (v : View) (f : Bool) (b : Option String)
    (h : v.stopped = true) : matchExprs env (e :: es) v f b = (false, v, b) := by
  simp [matchExprs, h]

theorem matchExprs_skip (env : Env) (e : Node) (es : List Node) (v : View) (f : Bool) (b : Option String)
    (hs : v.stopped = false) (h : v.skip = true) :
    matchExprs env (e :: es) v f b = (false, { v with skip := false }, b) := by
  simp [matchExprs, h, hs]

theorem matchExprs_step (env : Env) (e : Node) (es : List Node) (v : View) (f : Bool) (b : Option String)
    (hs : v.stopped = false) (hk : v.skip = false) :
    matchExprs env (e :: es) v f b =
      matchExprs env es (applyAll v (evalExpr env v e).2.1)
        (if env.dm then (f || !(!((evalExpr env v e).1 == some false))) else (f && !(!((evalExpr env v e).1 == some false))))
        (b.or (evalExpr env v e).2.2) := by
  simp [matchExprs, hs, hk]

/-! ### left to right, all hold / any holds -/

/-- sequential evaluation without any cut: the vote of every expression, each evaluated in the
    view its predecessors left -/
def votes (env : Env) : List Node → View → List Bool
  | [], _ => []
  | e :: es, v =>
    let r := evalExpr env v e
    (!(r.1 == some false)) :: votes env es (applyAll v r.2.1)

/-- no expression is reached with the stop or skip flag set -/
def Clean (env : Env) : List Node → View → Prop
  | [], v => v.skip = false
  | e :: es, v => v.stopped = false ∧ v.skip = false ∧ Clean env es (applyAll v (evalExpr env v e).2.1)

theorem matchExprs_clean (env : Env) : ∀ (es : List Node) (v : View) (f : Bool) (b : Option String),
    Clean env es v →
    (matchExprs env es v f b).1 =
      (if env.dm then (!f && (votes env es v).all id) else (!f || (votes env es v).any id)) := by
  intro es
  induction es with
  | nil => intro v f b hc; simp only [Clean] at hc; cases env.dm <;> simp [matchExprs, votes, hc]
  | cons e es ih =>
    intro v f b hc
    obtain ⟨hs, hk, hrest⟩ := hc
    rw [matchExprs_step env e es v f b hs hk, ih _ _ _ hrest]
    simp only [votes, List.all_cons, List.any_cons, id]
    generalize (votes env es (applyAll v (evalExpr env v e).2.1)).all id = qa
    generalize (votes env es (applyAll v (evalExpr env v e).2.1)).any id = qo
    cases env.dm <;> cases f <;> cases ((evalExpr env v e).1 == some false) <;> cases qa <;> cases qo <;> rfl

/-! ### validity never comes back (run level) -/

/-- a matcher that never sets the validity flag back to True -/
def ValidMono {σ : Type} (m : MatcherSem σ) : Prop :=
  ∀ ctx r s fl, (m.eval ctx r s fl).2.2.valid = true → fl.valid = true

theorem considerCore_validMono {σ : Type} (m : MatcherSem σ) (hm : ValidMono m) (scan : Model.Scan.St)
    (endIdx : Option Nat) (i : Nat) (r : Rec) (st : LoopSt σ)
    (h : (considerCore m scan endIdx i r st).2.fl.valid = true) : st.fl.valid = true := by
  unfold considerCore at h
  split at h
  · have := hm _ _ _ _ (by simpa [callMatcher] using h)
    simpa [freeze] using this
  · split at h
    · exact h
    · split at h
      · -- offered
        have hc : ∀ (b : Bool) (x : LoopSt σ), (conclude i b x).2.fl.valid = x.fl.valid := by
          intro b x; cases b <;> simp [conclude, raiseMatchCountIf] <;> split <;> rfl
        have hms : ∀ (x : LoopSt σ), (markStop scan endIdx i x).fl.valid = x.fl.valid := by
          intro x; unfold markStop; split <;> rfl
        rw [hc, hms] at h
        unfold advanceOrMatch at h
        split at h
        · simpa [decAdvance, offer] using h
        · have := hm _ _ _ _ (by simpa [callMatcher] using h)
          simpa [offer] using this
      · exact h

theorem runFrom_validMono {σ : Type} (m : MatcherSem σ) (hm : ValidMono m) (scan : Model.Scan.St) (cwnm ku : Bool)
    (endIdx : Option Nat) :
    ∀ (recs : List Rec) (budget : Option Nat) (i : Nat) (st : LoopSt σ) (acc : Acc),
      (runFrom m scan cwnm ku endIdx budget i recs st acc).2.1.fl.valid = true → st.fl.valid = true := by
  intro recs
  induction recs with
  | nil => intro budget i st acc h; simpa [runFrom, finalize, freeze] using h
  | cons r rs ih =>
    intro budget i st acc h
    have step : (considerLine m scan cwnm endIdx i r (trackLine i r st)).2.fl.valid = true → st.fl.valid = true := by
      intro hh
      have := considerCore_validMono m hm scan endIdx i r (trackLine i r st) hh
      simpa using this
    simp only [runFrom] at h
    split at h
    · split at h
      · exact step h
      · split at h
        · exact step (by simpa [finalize, freeze] using h)
        · exact step (ih _ _ _ _ h)
    · split at h
      · exact step (by simpa [finalize, freeze] using h)
      · exact step (ih _ _ _ _ h)

/-- the interpreter never sets validity back -/
theorem interp_validMono : ValidMono interpMatcher := by
  intro ctx r s fl h
  simp only [interpMatcher] at h
  split at h
  · -- blank last line: the effects of the last()s
    simp only at h
    -- doLasts folds applyAll over evaluations; validity can only fall
    have gen : ∀ (ns : List Node) (acc : View × Option String) (env : Env),
        (ns.foldl (fun (acc : View × Option String) n =>
          let r := evalM 200 env n { v := acc.1 }
          (applyAll acc.1 r.2.effs, acc.2.or r.2.bad)) acc).1.valid = true → acc.1.valid = true := by
      intro ns
      induction ns with
      | nil => intro acc env hh; exact hh
      | cons n ns ih =>
        intro acc env hh
        have := ih _ env hh
        simp only [applyAll_valid, Bool.and_eq_true] at this
        exact this.1
    have := gen _ _ _ h
    simpa using this
  · simp only [matchLine] at h
    rw [matchExprs_valid] at h
    simp only [Bool.and_eq_true] at h
    exact h.1

/-! `left -> right` -/
theorem when_false (fuel : Nat) (env : Env) (l r : Node) (s : ES)
    (h : ((evalM fuel env l s).1 == some true) = false) :
    (evalWhen (fuel + 1) env l r s).2 = (evalM fuel env l s).2 := by
  unfold evalWhen
  simp only [h, Bool.false_eq_true, if_false]
  split <;> rfl

theorem when_true (fuel : Nat) (env : Env) (l r : Node) (s : ES)
    (h : ((evalM fuel env l s).1 == some true) = true) (ho : overridesFrozen l = false) :
    (evalWhen (fuel + 1) env l r s).2 = (evalM fuel env r (evalM fuel env l s).2).2 := by
  unfold evalWhen
  simp only [h, if_true, ho, Bool.false_eq_true, if_false]

end Proofs.Matcher
