import Model.Interp
/-! What the model's functions answer, stated outright (C01: "under their documented meaning"). -/
namespace Proofs.Funcs
open Model.Interp Model.Val

theorem cmp_ints (s : ES) (a b : Int) :
    aboveBelow "above" (.int a) (.int b) s = (decide (a > b), s) ∧
    aboveBelow "gt" (.int a) (.int b) s = (decide (a > b), s) ∧
    aboveBelow "after" (.int a) (.int b) s = (decide (a > b), s) ∧
    aboveBelow "gte" (.int a) (.int b) s = (decide (a ≥ b), s) ∧
    aboveBelow "lte" (.int a) (.int b) s = (decide (a ≤ b), s) ∧
    aboveBelow "lt" (.int a) (.int b) s = (decide (a ≤ b), s) ∧
    aboveBelow "below" (.int a) (.int b) s = (decide (a ≤ b), s) ∧
    aboveBelow "before" (.int a) (.int b) s = (decide (a ≤ b), s) := by
  rcases Int.lt_trichotomy a b with h | h | h
  · have h1 : ¬ b < a := by omega
    have h2 : a ≠ b := by omega
    have h3 : a ≤ b := by omega
    have h4 : ¬ b ≤ a := by omega
    simp [aboveBelow, floatable, pyFloat, h, h1, h2, h3, h4]
  · subst h
    simp [aboveBelow, floatable, pyFloat]
  · have h1 : ¬ a < b := by omega
    have h2 : a ≠ b := by omega
    have h3 : ¬ a ≤ b := by omega
    have h4 : b ≤ a := by omega
    simp [aboveBelow, floatable, pyFloat, h, h1, h2, h3, h4]

theorem fn_not (fuel : Nat) (env : Env) (id : Nat) (q : List String) (a : Node) (s : ES) :
    decideFn (fuel + 1) env id "not" q [a] s =
      (some (!((evalM fuel env a s).1 == some true)), (evalM fuel env a s).2) := by
  unfold decideFn
  simp only [String.reduceBEq, Bool.or_self, Bool.false_eq_true, if_false, if_true]
theorem fn_and (fuel : Nat) (env : Env) (id : Nat) (q : List String) (a b : Node) (s : ES) :
    (decideFn (fuel + 1) env id "and" q [a, b] s).1 =
      (if (evalM fuel env a s).1 == some true then (evalM fuel env b (evalM fuel env a s).2).1 else (evalM fuel env a s).1) := by
  unfold decideFn
  simp only [String.reduceBEq, Bool.or_self, Bool.false_eq_true, if_false, if_true, List.foldl]
  split <;> simp_all
theorem fn_or (fuel : Nat) (env : Env) (id : Nat) (q : List String) (a b : Node) (s : ES) :
    (decideFn (fuel + 1) env id "or" q [a, b] s).1 =
      some ((evalM fuel env a s).1 == some true || (evalM fuel env b (evalM fuel env a s).2).1 == some true) := by
  unfold decideFn
  simp only [String.reduceBEq, Bool.or_self, Bool.false_eq_true, if_false, if_true, List.foldl]
  split
  · simp_all
  · rename_i h
    by_cases hb : (evalM fuel env b (evalM fuel env a s).2).1 = some true
    · simp [hb, h]
    · simp [hb, h]
theorem fn_exists (fuel : Nat) (env : Env) (id : Nat) (q : List String) (a : Node) (s : ES) :
    (decideFn (fuel + 1) env id "exists" q [a] s).1 = some (!isEmptyV (evalV fuel env a s).1) := by
  unfold decideFn
  simp only [String.reduceBEq, Bool.or_self, Bool.false_eq_true, if_false, if_true]

/-- the position functions answer straight from the line's environment, and change nothing -/
theorem fn_positions (fuel : Nat) (env : Env) (id : Nat) (q : List String) (s : ES) :
    produceFn (fuel + 1) env id "line_number" q [] s = (.int env.idx, s) ∧
    produceFn (fuel + 1) env id "count_lines" q [] s = (.int env.dataCount, s) ∧
    produceFn (fuel + 1) env id "count_scans" q [] s = (.int env.scanCount, s) ∧
    produceFn (fuel + 1) env id "count" q [] s = (.int (env.matchCount + 1), s) ∧
    produceFn (fuel + 1) env id "total_lines" q [] s = (.int env.dataEndCount, s) := by
  refine ⟨?_, ?_, ?_, ?_, ?_⟩ <;> (unfold produceFn; simp)


/-- concat of two arguments that evaluate to strings is their concatenation, in the state the arguments leave -/
theorem fn_concat (fuel : Nat) (env : Env) (id : Nat) (q : List String) (a b : Node) (x y : String) (s s1 s2 : ES)
    (h1 : evalV fuel env a s = (.str x, s1)) (h2 : evalV fuel env b s1 = (.str y, s2)) :
    produceFn (fuel + 1) env id "concat" q [a, b] s = (.str (x ++ y), s2) := by
  unfold produceFn
  simp [h1, h2, fmt, pyFormat, fmtScalar]

theorem fn_length (fuel : Nat) (env : Env) (id : Nat) (q : List String) (a : Node) (x : String) (s s1 : ES)
    (h1 : evalV fuel env a s = (.str x, s1)) :
    produceFn (fuel + 1) env id "length" q [a] s = (.int x.length, s1) := by
  unfold produceFn
  by_cases h : x = "" <;> simp [h1, fmt, pyFormat, fmtScalar, truthy, h]

theorem fn_strip (fuel : Nat) (env : Env) (id : Nat) (q : List String) (a : Node) (x : String) (s s1 : ES)
    (h1 : evalV fuel env a s = (.str x, s1)) :
    produceFn (fuel + 1) env id "strip" q [a] s = (.str (Model.PyStr.strip x), s1) := by
  unfold produceFn
  simp [h1, fmt, pyFormat, fmtScalar]

theorem fn_starts_with (fuel : Nat) (env : Env) (id : Nat) (q : List String) (a b : Node) (x y : String) (s s1 s2 : ES)
    (h1 : evalV fuel env a s = (.str x, s1)) (h2 : evalV fuel env b s1 = (.str y, s2)) :
    produceFn (fuel + 1) env id "starts_with" q [a, b] s =
      (.bool ((Model.PyStr.strip y).toList.isPrefixOf (Model.PyStr.strip x).toList), s2) := by
  unfold produceFn
  simp [h1, h2, fmt, pyFormat, fmtScalar]

theorem fn_add (fuel : Nat) (env : Env) (id : Nat) (q : List String) (a b : Node) (x y : Int) (s s1 s2 : ES)
    (h1 : evalV fuel env a s = (.int x, s1)) (h2 : evalV fuel env b s1 = (.int y, s2)) :
    produceFn (fuel + 1) env id "add" q [a, b] s = (.flt (x + y), s2) := by
  unfold produceFn
  simp [h1, h2, pyFloat, isNone]

end Proofs.Funcs
