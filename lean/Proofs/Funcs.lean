import Model.Interp
/-! What the model's functions answer, stated outright (C01: "under their documented meaning"). -/
namespace Proofs.Funcs
open Model.Interp Model.Val

theorem cmp_ints (s : ES) (a b : Int) :
    aboveBelow "above" (.int a) (.int b) s = (decide (a > b), s) ∧
    aboveBelow "gt" (.int a) (.int b) s = (decide (a > b), s) ∧
    aboveBelow "after" (.int a) (.int b) s = (decide (a > b), s) ∧
    aboveBelow "gte" (.int a) (.int b) s = (decide (a ≥ b), s) ∧
    aboveBelow "lte" (.int a) (.int b) s = (decide (a ≤ b), s) ∧
    aboveBelow "lt" (.int a) (.int b) s = (decide (a ≤ b), s) ∧
    aboveBelow "below" (.int a) (.int b) s = (decide (a ≤ b), s) ∧
    aboveBelow "before" (.int a) (.int b) s = (decide (a ≤ b), s) := by
  rcases Int.lt_trichotomy a b with h | h | h
  · have h1 : ¬ b < a := by omega
    have h2 : a ≠ b := by omega
    have h3 : a ≤ b := by omega
    have h4 : ¬ b ≤ a := by omega
    simp [aboveBelow, floatable, pyFloat, h, h1, h2, h3, h4]
  · subst h
    simp [aboveBelow, floatable, pyFloat]
  · have h1 : ¬ a < b := by omega
    have h2 : a ≠ b := by omega
    have h3 : ¬ a ≤ b := by omega
    have h4 : b ≤ a := by omega
    simp [aboveBelow, floatable, pyFloat, h, h1, h2, h3, h4]

theorem fn_not (fuel : Nat) (env : Env) (id : Nat) (q : List String) (a : Node) (s : ES) :
    decideFn (fuel + 1) env id "not" q [a] s =
      (some (!((evalM fuel env a s).1 == some true)), (evalM fuel env a s).2) := by
  unfold decideFn
  simp only [String.reduceBEq, Bool.or_self, Bool.false_eq_true, if_false, if_true]
theorem fn_and (fuel : Nat) (env : Env) (id : Nat) (q : List String) (a b : Node) (s : ES) :
    (decideFn (fuel + 1) env id "and" q [a, b] s).1 =
      (if (evalM fuel env a s).1 == some true then (evalM fuel env b (evalM fuel env a s).2).1 else (evalM fuel env a s).1) := by
  unfold decideFn
  simp only [String.reduceBEq, Bool.or_self, Bool.false_eq_true, if_false, if_true, List.foldl]
  split <;> simp_all
theorem fn_or (fuel : Nat) (env : Env) (id : Nat) (q : List String) (a b : Node) (s : ES) :
    (decideFn (fuel + 1) env id "or" q [a, b] s).1 =
      some ((evalM fuel env a s).1 == some true || (evalM fuel env b (evalM fuel env a s).2).1 == some true) := by
  unfold decideFn
  simp only [String.reduceBEq, Bool.or_self, Bool.false_eq_true, if_false, if_true, List.foldl]
  split
  · simp_all
  · rename_i h
    by_cases hb : (evalM fuel env b (evalM fuel env a s).2).1 = some true
    · simp [hb, h]
    · simp [hb, h]
theorem fn_exists (fuel : Nat) (env : Env) (id : Nat) (q : List String) (a : Node) (s : ES) :
    (decideFn (fuel + 1) env id "exists" q [a] s).1 = some (!isEmptyV (evalV fuel env a s).1) := by
  unfold decideFn
  simp only [String.reduceBEq, Bool.or_self, Bool.false_eq_true, if_false, if_true]

end Proofs.Funcs
