import Model.RunLoop
import Spec.Scan

namespace Proofs.Run
open Model.Scan Model.Run

variable {σ : Type}

/-! ### the consumer side does not influence the loop (C07: collect = next = fast_forward) -/

theorem runFrom_keepUnm (m : MatcherSem σ) (scan : St) (cwnm : Bool) (endIdx : Option Nat) :
    ∀ (recs : List Rec) (budget : Option Nat) (i : Nat) (st : LoopSt σ) (acc acc' : Acc) (ku ku' : Bool),
      acc.yielded = acc'.yielded → acc.seen = acc'.seen →
      (runFrom m scan cwnm ku endIdx budget i recs st acc).1 =
        (runFrom m scan cwnm ku' endIdx budget i recs st acc').1 ∧
      (runFrom m scan cwnm ku endIdx budget i recs st acc).2.1 =
        (runFrom m scan cwnm ku' endIdx budget i recs st acc').2.1 ∧
      (runFrom m scan cwnm ku endIdx budget i recs st acc).2.2.yielded =
        (runFrom m scan cwnm ku' endIdx budget i recs st acc').2.2.yielded ∧
      (runFrom m scan cwnm ku endIdx budget i recs st acc).2.2.seen =
        (runFrom m scan cwnm ku' endIdx budget i recs st acc').2.2.seen := by
  intro recs
  induction recs with
  | nil => intro budget i st acc acc' ku ku' hy hs; simp [runFrom, hy, hs]
  | cons r rs ih =>
    intro budget i st acc acc' ku ku' hy hs
    simp only [runFrom]
    have hacc : ∀ b, (accStep ku i r b acc).yielded = (accStep ku' i r b acc').yielded ∧
        (accStep ku i r b acc).seen = (accStep ku' i r b acc').seen := by
      intro b
      cases b <;> cases ku <;> cases ku' <;> simp [accStep, hy, hs]
    generalize hres : considerLine m scan cwnm endIdx i r (trackLine i r st) = res
    obtain ⟨hy1, hs1⟩ := hacc res.1
    have ih1 := ih (budget.map (· - 1)) (i + 1) res.2 (accStep ku i r res.1 acc) (accStep ku' i r res.1 acc') ku ku' hy1 hs1
    have ih2 := ih budget (i + 1) res.2 (accStep ku i r res.1 acc) (accStep ku' i r res.1 acc') ku ku' hy1 hs1
    split
    · split
      · exact ⟨rfl, rfl, hy1, hs1⟩
      · split
        · exact ⟨rfl, rfl, hy1, hs1⟩
        · exact ⟨by rw [ih1.1], ih1.2.1, ih1.2.2.1, ih1.2.2.2⟩
    · split
      · exact ⟨rfl, rfl, hy1, hs1⟩
      · exact ih2

/-! ### `collect(nexts=n)`: a prefix of `collect()` (C07) -/

theorem runFrom_budget_lines (m : MatcherSem σ) (scan : St) (cwnm ku : Bool) (endIdx : Option Nat) :
    ∀ (recs : List Rec) (k : Nat) (i : Nat) (st : LoopSt σ) (acc : Acc), 1 ≤ k →
      (runFrom m scan cwnm ku endIdx (some k) i recs st acc).1 =
        ((runFrom m scan cwnm ku endIdx none i recs st acc).1).take k := by
  intro recs
  induction recs with
  | nil => intro k i st acc _; simp [runFrom]
  | cons r rs ih =>
    intro k i st acc hk
    simp only [runFrom]
    generalize considerLine m scan cwnm endIdx i r (trackLine i r st) = res
    by_cases hk1 : k = 1
    · subst hk1
      split
      · simp
        split <;> simp
      · split
        · simp
        · exact ih 1 (i + 1) res.2 _ (Nat.le_refl 1)
    · have hk2 : 2 ≤ k := by omega
      have e1 : (some k == some 1 || some k == some 0) = false := by
        simp; omega
      have e2 : (none == some 1 || none == some 0) = false := by simp
      simp only [e1, e2, Bool.false_eq_true, if_false, Option.map_some, Option.map_none]
      split
      · split
        · obtain ⟨k', rfl⟩ : ∃ k', k = k' + 1 := ⟨k - 1, by omega⟩
          simp
        · obtain ⟨k', rfl⟩ : ∃ k', k = k' + 1 := ⟨k - 1, by omega⟩
          simp only [List.take_succ_cons, Nat.add_sub_cancel]
          rw [ih k' (i + 1) res.2 _ (by omega)]
      · split
        · simp
        · exact ih k (i + 1) res.2 _ hk

/-- `nexts = 0` behaves like `nexts = 1` -/
theorem runFrom_budget_zero (m : MatcherSem σ) (scan : St) (cwnm ku : Bool) (endIdx : Option Nat) :
    ∀ (recs : List Rec) (i : Nat) (st : LoopSt σ) (acc : Acc),
      runFrom m scan cwnm ku endIdx (some 0) i recs st acc =
        runFrom m scan cwnm ku endIdx (some 1) i recs st acc := by
  intro recs
  induction recs with
  | nil => intro i st acc; simp [runFrom]
  | cons r rs ih =>
    intro i st acc
    simp only [runFrom]
    generalize considerLine m scan cwnm endIdx i r (trackLine i r st) = res
    split
    · simp
    · split
      · rfl
      · exact ih (i + 1) res.2 _

/-- when the budget is used up the generator is abandoned: the result does not depend on any
    record after the one that yielded the k-th line ("no side effect belonging to a later line") -/
theorem runFrom_budget_suffix (m : MatcherSem σ) (scan : St) (cwnm ku : Bool) (endIdx : Option Nat) :
    ∀ (recs : List Rec) (k : Nat) (i : Nat) (st : LoopSt σ) (acc : Acc), 1 ≤ k →
      k ≤ ((runFrom m scan cwnm ku endIdx none i recs st acc).1).length →
      ∃ j, j ≤ recs.length ∧ ∀ other,
        runFrom m scan cwnm ku endIdx (some k) i (recs.take j ++ other) st acc =
          runFrom m scan cwnm ku endIdx (some k) i recs st acc := by
  intro recs
  induction recs with
  | nil => intro k i st acc hk hlen; simp [runFrom] at hlen; omega
  | cons r rs ih =>
    intro k i st acc hk hlen
    simp only [runFrom] at hlen
    generalize hres : considerLine m scan cwnm endIdx i r (trackLine i r st) = res at hlen
    obtain ⟨b, st1⟩ := res
    cases b with
    | true =>
      simp only [if_true] at hlen
      by_cases hk1 : k = 1
      · subst hk1
        refine ⟨1, by simp, ?_⟩
        intro other
        simp [runFrom, hres]
      · have e1 : (some k == some 1 || some k == some 0) = false := by simp; omega
        have e2 : (none == some 1 || none == some 0) = false := by simp
        simp only [e2, Bool.false_eq_true, if_false] at hlen
        by_cases hst : st1.fl.stopped = true
        · simp only [hst, if_true, List.length_cons, List.length_nil] at hlen; omega
        · simp only [hst, Bool.false_eq_true, if_false, List.length_cons, Option.map_none] at hlen
          obtain ⟨j, hj, hall⟩ := ih (k - 1) (i + 1) st1 (accStep ku i r true acc) (by omega) (by omega)
          refine ⟨j + 1, by simp; omega, ?_⟩
          intro other
          simp only [List.take_succ_cons, List.cons_append, runFrom, hres, if_true, e1,
            Bool.false_eq_true, if_false, hst, Option.map_some]
          rw [hall other]
    | false =>
      simp only [Bool.false_eq_true, if_false] at hlen
      by_cases hst : st1.fl.stopped = true
      · simp only [hst, if_true, List.length_nil] at hlen; omega
      · simp only [hst, Bool.false_eq_true, if_false] at hlen
        obtain ⟨j, hj, hall⟩ := ih k (i + 1) st1 (accStep ku i r false acc) hk hlen
        refine ⟨j + 1, by simp; omega, ?_⟩
        intro other
        simp only [List.take_succ_cons, List.cons_append, runFrom, hres, Bool.false_eq_true,
          if_false, hst]
        exact hall other

/-! ### ghost bookkeeping of one `_consider_line` -/

@[simp] theorem callMatcher_offered (m : MatcherSem σ) (e : Option Nat) (i : Nat) (bl : Bool) (r : Rec)
    (st : LoopSt σ) : (callMatcher m e i bl r st).2.offered = st.offered := rfl
@[simp] theorem callMatcher_matched (m : MatcherSem σ) (e : Option Nat) (i : Nat) (bl : Bool) (r : Rec)
    (st : LoopSt σ) : (callMatcher m e i bl r st).2.matched = st.matched := rfl
@[simp] theorem callMatcher_declined (m : MatcherSem σ) (e : Option Nat) (i : Nat) (bl : Bool) (r : Rec)
    (st : LoopSt σ) : (callMatcher m e i bl r st).2.declined = st.declined := rfl
@[simp] theorem callMatcher_scanCount (m : MatcherSem σ) (e : Option Nat) (i : Nat) (bl : Bool) (r : Rec)
    (st : LoopSt σ) : (callMatcher m e i bl r st).2.scanCount = st.scanCount := rfl

@[simp] theorem raise_offered (st : LoopSt σ) : (raiseMatchCountIf st).offered = st.offered := by
  unfold raiseMatchCountIf; split <;> rfl
@[simp] theorem raise_matched (st : LoopSt σ) : (raiseMatchCountIf st).matched = st.matched := by
  unfold raiseMatchCountIf; split <;> rfl
@[simp] theorem raise_declined (st : LoopSt σ) : (raiseMatchCountIf st).declined = st.declined := by
  unfold raiseMatchCountIf; split <;> rfl
@[simp] theorem raise_scanCount (st : LoopSt σ) : (raiseMatchCountIf st).scanCount = st.scanCount := by
  unfold raiseMatchCountIf; split <;> rfl

@[simp] theorem track_offered (i : Nat) (r : Rec) (st : LoopSt σ) : (trackLine i r st).offered = st.offered := rfl
@[simp] theorem track_matched (i : Nat) (r : Rec) (st : LoopSt σ) : (trackLine i r st).matched = st.matched := rfl
@[simp] theorem track_declined (i : Nat) (r : Rec) (st : LoopSt σ) : (trackLine i r st).declined = st.declined := rfl
@[simp] theorem track_scanCount (i : Nat) (r : Rec) (st : LoopSt σ) : (trackLine i r st).scanCount = st.scanCount := rfl
@[simp] theorem track_fl (i : Nat) (r : Rec) (st : LoopSt σ) : (trackLine i r st).fl = st.fl := rfl
@[simp] theorem track_ms (i : Nat) (r : Rec) (st : LoopSt σ) : (trackLine i r st).ms = st.ms := rfl

@[simp] theorem offer_offered (i : Nat) (st : LoopSt σ) : (offer i st).offered = st.offered ++ [i] := rfl
@[simp] theorem offer_matched (i : Nat) (st : LoopSt σ) : (offer i st).matched = st.matched := rfl
@[simp] theorem offer_declined (i : Nat) (st : LoopSt σ) : (offer i st).declined = st.declined := rfl
@[simp] theorem offer_scanCount (i : Nat) (st : LoopSt σ) : (offer i st).scanCount = st.scanCount + 1 := rfl

@[simp] theorem freeze_offered (st : LoopSt σ) : (freeze st).offered = st.offered := rfl
@[simp] theorem freeze_matched (st : LoopSt σ) : (freeze st).matched = st.matched := rfl
@[simp] theorem freeze_declined (st : LoopSt σ) : (freeze st).declined = st.declined := rfl
@[simp] theorem freeze_scanCount (st : LoopSt σ) : (freeze st).scanCount = st.scanCount := rfl

@[simp] theorem aom_offered (m : MatcherSem σ) (e : Option Nat) (i : Nat) (r : Rec) (st : LoopSt σ) :
    (advanceOrMatch m e i r st).2.offered = st.offered := by unfold advanceOrMatch; split <;> rfl
@[simp] theorem aom_matched (m : MatcherSem σ) (e : Option Nat) (i : Nat) (r : Rec) (st : LoopSt σ) :
    (advanceOrMatch m e i r st).2.matched = st.matched := by unfold advanceOrMatch; split <;> rfl
@[simp] theorem aom_declined (m : MatcherSem σ) (e : Option Nat) (i : Nat) (r : Rec) (st : LoopSt σ) :
    (advanceOrMatch m e i r st).2.declined = st.declined := by unfold advanceOrMatch; split <;> rfl
@[simp] theorem aom_scanCount (m : MatcherSem σ) (e : Option Nat) (i : Nat) (r : Rec) (st : LoopSt σ) :
    (advanceOrMatch m e i r st).2.scanCount = st.scanCount := by unfold advanceOrMatch; split <;> rfl

@[simp] theorem markStop_offered (scan : St) (e : Option Nat) (i : Nat) (st : LoopSt σ) :
    (markStop scan e i st).offered = st.offered := by unfold markStop; split <;> rfl
@[simp] theorem markStop_matched (scan : St) (e : Option Nat) (i : Nat) (st : LoopSt σ) :
    (markStop scan e i st).matched = st.matched := by unfold markStop; split <;> rfl
@[simp] theorem markStop_declined (scan : St) (e : Option Nat) (i : Nat) (st : LoopSt σ) :
    (markStop scan e i st).declined = st.declined := by unfold markStop; split <;> rfl
@[simp] theorem markStop_scanCount (scan : St) (e : Option Nat) (i : Nat) (st : LoopSt σ) :
    (markStop scan e i st).scanCount = st.scanCount := by unfold markStop; split <;> rfl

def offeredTail (i : Nat) : Option Bool → List Nat
  | none => []
  | some _ => [i]
def matchedTail (i : Nat) : Option Bool → List Nat
  | some true => [i]
  | _ => []
def declinedTail (i : Nat) : Option Bool → List Nat
  | some false => [i]
  | _ => []

theorem conclude_ghost (i : Nat) (b : Bool) (st : LoopSt σ) :
    (conclude i b st).1 = some b ∧
    (conclude i b st).2.offered = st.offered ∧
    (conclude i b st).2.matched = st.matched ++ matchedTail i (some b) ∧
    (conclude i b st).2.declined = st.declined ++ declinedTail i (some b) ∧
    (conclude i b st).2.scanCount = st.scanCount := by
  cases b <;> simp [conclude, matchedTail, declinedTail]

theorem considerCore_ghost (m : MatcherSem σ) (scan : St) (endIdx : Option Nat) (i : Nat) (r : Rec)
    (st : LoopSt σ) :
    (considerCore m scan endIdx i r st).2.offered = st.offered ++ offeredTail i (considerCore m scan endIdx i r st).1 ∧
    (considerCore m scan endIdx i r st).2.matched = st.matched ++ matchedTail i (considerCore m scan endIdx i r st).1 ∧
    (considerCore m scan endIdx i r st).2.declined = st.declined ++ declinedTail i (considerCore m scan endIdx i r st).1 ∧
    (considerCore m scan endIdx i r st).2.scanCount = st.scanCount + (offeredTail i (considerCore m scan endIdx i r st).1).length := by
  unfold considerCore
  split
  · simp [offeredTail, matchedTail, declinedTail]
  · split
    · simp [offeredTail, matchedTail, declinedTail]
    · split
      · have h := conclude_ghost i (advanceOrMatch m endIdx i r (offer i st)).1
          (markStop scan endIdx i (advanceOrMatch m endIdx i r (offer i st)).2)
        obtain ⟨h1, h2, h3, h4, h5⟩ := h
        simp only [h1, h2, h3, h4, h5]
        simp [offeredTail]
      · simp [offeredTail, matchedTail, declinedTail]

/-! ### invariants of the loop state (C01, C03, C15) -/

structure Inv (i : Nat) (st : LoopSt σ) : Prop where
  scan : st.scanCount = st.offered.length
  lt : ∀ j ∈ st.offered, j < i
  msub : st.matched.Sublist st.offered
  dsub : st.declined.Sublist st.offered
  part : ∀ j ∈ st.offered, (j ∈ st.matched ↔ j ∉ st.declined)

theorem Inv.mono {i i' : Nat} {st : LoopSt σ} (h : Inv i st) (hi : i ≤ i') : Inv i' st :=
  ⟨h.scan, fun j hj => Nat.lt_of_lt_of_le (h.lt j hj) hi, h.msub, h.dsub, h.part⟩

theorem Inv_init (ms : σ) : Inv 0 ({ ms := ms } : LoopSt σ) :=
  ⟨rfl, by simp, by simp, by simp, by simp⟩

theorem Inv_freeze {i : Nat} {st : LoopSt σ} (h : Inv i st) : Inv i (finalize st) :=
  ⟨h.scan, h.lt, h.msub, h.dsub, h.part⟩

theorem Inv_track {i k : Nat} {r : Rec} {st : LoopSt σ} (h : Inv i st) : Inv i (trackLine k r st) :=
  ⟨h.scan, h.lt, h.msub, h.dsub, h.part⟩

theorem Inv_considerCore (m : MatcherSem σ) (scan : St) (endIdx : Option Nat) (i : Nat) (r : Rec)
    {st : LoopSt σ} (h : Inv i st) : Inv (i + 1) (considerCore m scan endIdx i r st).2 := by
  obtain ⟨g1, g2, g3, g4⟩ := considerCore_ghost m scan endIdx i r st
  have hm : ∀ j ∈ st.matched, j < i := fun j hj => h.lt j (h.msub.subset hj)
  have hd : ∀ j ∈ st.declined, j < i := fun j hj => h.lt j (h.dsub.subset hj)
  have him : i ∉ st.matched := fun hc => Nat.lt_irrefl _ (hm i hc)
  have hid : i ∉ st.declined := fun hc => Nat.lt_irrefl _ (hd i hc)
  cases ho : (considerCore m scan endIdx i r st).1 with
  | none =>
    rw [ho] at g1 g2 g3 g4
    simp only [offeredTail, matchedTail, declinedTail, List.append_nil, List.length_nil, Nat.add_zero] at g1 g2 g3 g4
    refine ⟨by rw [g4, g1]; exact h.scan, ?_, by rw [g1, g2]; exact h.msub, by rw [g1, g3]; exact h.dsub, ?_⟩
    · rw [g1]; intro j hj; exact Nat.lt_succ_of_lt (h.lt j hj)
    · rw [g1, g2, g3]; exact h.part
  | some b =>
    rw [ho] at g1 g2 g3 g4
    have hlt : ∀ j ∈ st.offered ++ [i], j < i + 1 := by
      intro j hj
      rcases List.mem_append.mp hj with hj | hj
      · exact Nat.lt_succ_of_lt (h.lt j hj)
      · simp at hj; omega
    cases b with
    | true =>
      simp only [offeredTail, matchedTail, declinedTail, List.append_nil, List.length_singleton] at g1 g2 g3 g4
      refine ⟨by rw [g4, g1, h.scan]; simp, by rw [g1]; exact hlt, ?_, ?_, ?_⟩
      · rw [g1, g2]; exact h.msub.append (List.Sublist.refl _)
      · rw [g1, g3]; exact h.dsub.trans (List.sublist_append_left _ _)
      · rw [g1, g2, g3]
        intro j hj
        rcases List.mem_append.mp hj with hj | hj
        · have hne : j ≠ i := by have := h.lt j hj; omega
          simp only [List.mem_append, List.mem_singleton, hne, or_false]
          exact h.part j hj
        · simp at hj; subst hj; simp [hid]
    | false =>
      simp only [offeredTail, matchedTail, declinedTail, List.append_nil, List.length_singleton] at g1 g2 g3 g4
      refine ⟨by rw [g4, g1, h.scan]; simp, by rw [g1]; exact hlt, ?_, ?_, ?_⟩
      · rw [g1, g2]; exact h.msub.trans (List.sublist_append_left _ _)
      · rw [g1, g3]; exact h.dsub.append (List.Sublist.refl _)
      · rw [g1, g2, g3]
        intro j hj
        rcases List.mem_append.mp hj with hj | hj
        · have hne : j ≠ i := by have := h.lt j hj; omega
          simp only [List.mem_append, List.mem_singleton, hne, or_false]
          exact h.part j hj
        · simp at hj; subst hj; simp [him]

theorem runFrom_Inv (m : MatcherSem σ) (scan : St) (cwnm ku : Bool) (endIdx : Option Nat) :
    ∀ (recs : List Rec) (budget : Option Nat) (i : Nat) (st : LoopSt σ) (acc : Acc), Inv i st →
      Inv (i + recs.length) (runFrom m scan cwnm ku endIdx budget i recs st acc).2.1 := by
  intro recs
  induction recs with
  | nil => intro budget i st acc h; simpa [runFrom] using Inv_freeze h
  | cons r rs ih =>
    intro budget i st acc h
    have h1 : Inv (i + 1) (considerLine m scan cwnm endIdx i r (trackLine i r st)).2 :=
      Inv_considerCore m scan endIdx i r (Inv_track h)
    have hle : i + 1 ≤ i + (r :: rs).length := by simp
    have e : i + 1 + rs.length = i + (r :: rs).length := by simp; omega
    simp only [runFrom]
    split
    · split
      · exact h1.mono hle
      · split
        · exact (Inv_freeze h1).mono hle
        · have := ih (budget.map (· - 1)) (i + 1) _ (accStep ku i r
            (considerLine m scan cwnm endIdx i r (trackLine i r st)).1 acc) h1
          rw [e] at this; exact this
    · split
      · exact (Inv_freeze h1).mono hle
      · have := ih budget (i + 1) _ (accStep ku i r
          (considerLine m scan cwnm endIdx i r (trackLine i r st)).1 acc) h1
        rw [e] at this; exact this

/-! ### what is yielded (C01 run-loop clause, C15 complement) -/

/-- the ghost list the yields follow: `matched` in the default return-mode, `declined` with
    `return-mode: no-matches` -/
def sel (cwnm : Bool) (st : LoopSt σ) : List Nat := if cwnm then st.declined else st.matched

theorem sel_step (m : MatcherSem σ) (scan : St) (cwnm : Bool) (endIdx : Option Nat) (i : Nat) (r : Rec)
    (st : LoopSt σ) :
    sel cwnm (considerLine m scan cwnm endIdx i r st).2 =
      sel cwnm st ++ (if (considerLine m scan cwnm endIdx i r st).1 then [i] else []) := by
  obtain ⟨_, g2, g3, _⟩ := considerCore_ghost m scan endIdx i r st
  unfold considerLine sel
  generalize considerCore m scan endIdx i r st = res at g2 g3
  obtain ⟨o, st1⟩ := res
  simp only at g2 g3 ⊢
  cases o with
  | none => cases cwnm <;> simp_all [decide?, matchedTail, declinedTail]
  | some b => cases b <;> cases cwnm <;> simp_all [decide?, matchedTail, declinedTail]

theorem accStep_yielded (ku : Bool) (i : Nat) (r : Rec) (b : Bool) (acc : Acc) :
    (accStep ku i r b acc).yielded = acc.yielded ++ (if b then [i] else []) := by
  cases b <;> cases ku <;> simp [accStep]

theorem runFrom_yielded (m : MatcherSem σ) (scan : St) (cwnm ku : Bool) (endIdx : Option Nat) :
    ∀ (recs : List Rec) (budget : Option Nat) (i : Nat) (st : LoopSt σ) (acc : Acc),
      acc.yielded = sel cwnm st →
      (runFrom m scan cwnm ku endIdx budget i recs st acc).2.2.yielded =
        sel cwnm (runFrom m scan cwnm ku endIdx budget i recs st acc).2.1 := by
  intro recs
  induction recs with
  | nil => intro budget i st acc h; simpa [runFrom, sel, finalize] using h
  | cons r rs ih =>
    intro budget i st acc h
    have hs := sel_step m scan cwnm endIdx i r (trackLine i r st)
    have ha := accStep_yielded ku i r (considerLine m scan cwnm endIdx i r (trackLine i r st)).1 acc
    have h1 : (accStep ku i r (considerLine m scan cwnm endIdx i r (trackLine i r st)).1 acc).yielded =
        sel cwnm (considerLine m scan cwnm endIdx i r (trackLine i r st)).2 := by
      rw [ha, hs, h]; simp [sel]
    simp only [runFrom]
    split
    · split
      · exact h1
      · split
        · simpa [sel, finalize] using h1
        · exact ih _ _ _ _ h1
    · split
      · simpa [sel, finalize] using h1
      · exact ih _ _ _ _ h1

/-- the lines handed out are the records at the yielded positions -/
theorem runFrom_lines (m : MatcherSem σ) (scan : St) (cwnm ku : Bool) (endIdx : Option Nat) :
    ∀ (recs : List Rec) (budget : Option Nat) (i : Nat) (st : LoopSt σ) (acc : Acc),
      ∃ ys, (runFrom m scan cwnm ku endIdx budget i recs st acc).2.2.yielded = acc.yielded ++ ys ∧
        (runFrom m scan cwnm ku endIdx budget i recs st acc).1 = ys.map (fun j => recs.getD (j - i) []) ∧
        ∀ j ∈ ys, i ≤ j ∧ j < i + recs.length := by
  intro recs
  induction recs with
  | nil => intro budget i st acc; exact ⟨[], by simp [runFrom], by simp [runFrom], by simp⟩
  | cons r rs ih =>
    intro budget i st acc
    have shift : ∀ ys : List Nat, (∀ j ∈ ys, i + 1 ≤ j ∧ j < i + 1 + rs.length) →
        ys.map (fun j => rs.getD (j - (i + 1)) []) = ys.map (fun j => (r :: rs).getD (j - i) []) := by
      intro ys hys
      apply List.map_congr_left
      intro j hj
      obtain ⟨h1, _⟩ := hys j hj
      obtain ⟨d, rfl⟩ : ∃ d, j = i + 1 + d := ⟨j - (i + 1), by omega⟩
      have e1 : i + 1 + d - (i + 1) = d := by omega
      have e2 : i + 1 + d - i = d + 1 := by omega
      rw [e1, e2]; simp [List.getD]
    simp only [runFrom]
    generalize considerLine m scan cwnm endIdx i r (trackLine i r st) = res
    obtain ⟨b, st1⟩ := res
    cases b with
    | true =>
      have hy : (accStep ku i r true acc).yielded = acc.yielded ++ [i] := by
        rw [accStep_yielded]; simp
      simp only [if_true]
      split
      · exact ⟨[i], hy, by simp [List.getD], by simp⟩
      · split
        · exact ⟨[i], hy, by simp [List.getD], by simp⟩
        · obtain ⟨ys, h1, h2, h3⟩ := ih (budget.map (· - 1)) (i + 1) st1 (accStep ku i r true acc)
          refine ⟨i :: ys, ?_, ?_, ?_⟩
          · rw [h1, hy]; simp
          · simp only [List.map_cons, Nat.sub_self]
            rw [h2, shift ys h3]; simp [List.getD]
          · intro j hj
            rcases List.mem_cons.mp hj with rfl | hj
            · simp
            · have := h3 j hj; simp; omega
    | false =>
      have hy : (accStep ku i r false acc).yielded = acc.yielded := by
        rw [accStep_yielded]; simp
      simp only [Bool.false_eq_true, if_false]
      split
      · exact ⟨[], by simp [hy], by simp, by simp⟩
      · obtain ⟨ys, h1, h2, h3⟩ := ih budget (i + 1) st1 (accStep ku i r false acc)
        refine ⟨ys, by rw [h1, hy], by rw [h2, shift ys h3], ?_⟩
        intro j hj; have := h3 j hj; simp; omega

/-- the loop state does not depend on the return-mode (the matcher is called on the same
    records with the same states) -/
theorem runFrom_cwnm_state (m : MatcherSem σ) (scan : St) (endIdx : Option Nat) :
    ∀ (recs : List Rec) (i : Nat) (st : LoopSt σ) (acc acc' : Acc) (ku ku' : Bool),
      (runFrom m scan true ku endIdx none i recs st acc).2.1 =
        (runFrom m scan false ku' endIdx none i recs st acc').2.1 := by
  intro recs
  induction recs with
  | nil => intro i st acc acc' ku ku'; simp [runFrom]
  | cons r rs ih =>
    intro i st acc acc' ku ku'
    unfold runFrom considerLine
    generalize considerCore m scan endIdx i r (trackLine i r st) = res
    obtain ⟨o, st1⟩ := res
    have e2 : (none == some 1 || none == some 0) = false := by simp
    simp only [e2, Bool.false_eq_true, if_false, Option.map_none]
    by_cases hst : st1.fl.stopped = true
    · simp only [hst, if_true]
      split <;> split <;> rfl
    · simp only [hst, Bool.false_eq_true, if_false]
      split <;> split <;> exact ih _ _ _ _ _ _

/-! ### counters (C03) -/

/-- contract of a matcher that raises the match count only for a line it then reports as
    matching (the look-ahead of `onmatch` components is allowed to raise it early) -/
def CountsOK (m : MatcherSem σ) : Prop :=
  ∀ ctx r s fl,
    (m.eval ctx r s fl).2.2.matchCount = fl.matchCount ∨
    ((m.eval ctx r s fl).1 = true ∧ ctx.blankLast = false ∧
      (m.eval ctx r s fl).2.2.matchCount = fl.matchCount + 1)

@[simp] theorem markStop_mc (scan : St) (e : Option Nat) (i : Nat) (st : LoopSt σ) :
    (markStop scan e i st).fl.matchCount = st.fl.matchCount := by unfold markStop; split <;> rfl
@[simp] theorem markStop_cur (scan : St) (e : Option Nat) (i : Nat) (st : LoopSt σ) :
    (markStop scan e i st).curMatchCount = st.curMatchCount := by unfold markStop; split <;> rfl

theorem raise_mc (st' : LoopSt σ) (c : Nat) (h1 : st'.curMatchCount = c)
    (h3 : st'.fl.matchCount = c ∨ st'.fl.matchCount = c + 1) :
    (raiseMatchCountIf st').fl.matchCount = c + 1 := by
  unfold raiseMatchCountIf
  split
  · rename_i hc
    have : st'.curMatchCount = st'.fl.matchCount := by simpa using hc
    rcases h3 with e | e
    · simp [e]
    · omega
  · rename_i hc
    have : st'.curMatchCount ≠ st'.fl.matchCount := by simpa using hc
    rcases h3 with e | e
    · omega
    · exact e

theorem considerCore_matchCount (m : MatcherSem σ) (hm : CountsOK m) (scan : St) (endIdx : Option Nat)
    (i : Nat) (r : Rec) (st : LoopSt σ) (h : st.fl.matchCount = st.matched.length) :
    (considerCore m scan endIdx i r st).2.fl.matchCount = (considerCore m scan endIdx i r st).2.matched.length := by
  unfold considerCore
  split
  · have := hm (mkCtx i endIdx true (freeze st)) r (freeze st).ms (freeze st).fl
    simp only [callMatcher]
    rcases this with e | ⟨_, hb, _⟩
    · simp only [e]; exact h
    · simp [mkCtx] at hb
  · split
    · exact h
    · split
      · unfold advanceOrMatch
        split
        · -- advancing: no matcher call
          simp only [conclude, Bool.false_eq_true, if_false, markStop_mc, markStop_matched]
          simpa [decAdvance, offer] using h
        · have := hm (mkCtx i endIdx false (offer i st)) r (offer i st).ms (offer i st).fl
          simp only [callMatcher]
          generalize m.eval (mkCtx i endIdx false (offer i st)) r (offer i st).ms (offer i st).fl = res at this
          obtain ⟨b, ms', fl'⟩ := res
          simp only [offer] at this
          cases b with
          | false =>
            rcases this with e | ⟨hb, _, _⟩
            · simp only [conclude, Bool.false_eq_true, if_false, markStop_mc, markStop_matched]
              simp [offer, e, h]
            · cases hb
          | true =>
            have h3 : fl'.matchCount = st.fl.matchCount ∨ fl'.matchCount = st.fl.matchCount + 1 := by
              rcases this with e | ⟨_, _, e⟩
              · exact Or.inl e
              · exact Or.inr e
            simp only [conclude, if_true, List.length_append, List.length_singleton, raise_matched,
              markStop_matched]
            rw [raise_mc _ st.fl.matchCount (by simp [offer]) (by simpa using h3)]
            simp [offer, h]
      · exact h

theorem runFrom_matchCount (m : MatcherSem σ) (hm : CountsOK m) (scan : St) (cwnm ku : Bool) (endIdx : Option Nat) :
    ∀ (recs : List Rec) (budget : Option Nat) (i : Nat) (st : LoopSt σ) (acc : Acc),
      st.fl.matchCount = st.matched.length →
      (runFrom m scan cwnm ku endIdx budget i recs st acc).2.1.fl.matchCount =
        (runFrom m scan cwnm ku endIdx budget i recs st acc).2.1.matched.length := by
  intro recs
  induction recs with
  | nil => intro budget i st acc h; simpa [runFrom, finalize, freeze] using h
  | cons r rs ih =>
    intro budget i st acc h
    have h1 : (considerLine m scan cwnm endIdx i r (trackLine i r st)).2.fl.matchCount =
        (considerLine m scan cwnm endIdx i r (trackLine i r st)).2.matched.length :=
      considerCore_matchCount m hm scan endIdx i r (trackLine i r st) h
    simp only [runFrom]
    split
    · split
      · exact h1
      · split
        · simpa [finalize, freeze] using h1
        · exact ih _ _ _ _ h1
    · split
      · simpa [finalize, freeze] using h1
      · exact ih _ _ _ _ h1

/-! ### what is offered (C02 run-level clause) -/

/-- a matcher that never stops the run and never asks to advance -/
def Quiet (m : MatcherSem σ) : Prop :=
  ∀ ctx r s fl, (m.eval ctx r s fl).2.2.stopped = fl.stopped ∧ (m.eval ctx r s fl).2.2.advance = fl.advance

@[simp] theorem markStop_advance (scan : St) (e : Option Nat) (i : Nat) (st : LoopSt σ) :
    (markStop scan e i st).fl.advance = st.fl.advance := by unfold markStop; split <;> rfl

theorem markStop_stopped (scan : St) (e : Option Nat) (i : Nat) (st : LoopSt σ) :
    (markStop scan e i st).fl.stopped = (isLast scan e i || st.fl.stopped) := by
  unfold markStop; split <;> simp_all

@[simp] theorem raise_advance (st : LoopSt σ) : (raiseMatchCountIf st).fl.advance = st.fl.advance := by
  unfold raiseMatchCountIf; split <;> rfl
@[simp] theorem raise_stopped (st : LoopSt σ) : (raiseMatchCountIf st).fl.stopped = st.fl.stopped := by
  unfold raiseMatchCountIf; split <;> rfl

theorem conclude_flags (i : Nat) (b : Bool) (st : LoopSt σ) :
    (conclude i b st).2.fl.advance = st.fl.advance ∧ (conclude i b st).2.fl.stopped = st.fl.stopped := by
  cases b <;> simp [conclude]

theorem considerCore_quiet (m : MatcherSem σ) (hq : Quiet m) (scan : St) (endIdx : Option Nat)
    (i : Nat) (r : Rec) (st : LoopSt σ) (ha : st.fl.advance = 0) (hs : st.fl.stopped = false) :
    (considerCore m scan endIdx i r st).2.fl.advance = 0 ∧
    (considerCore m scan endIdx i r st).2.fl.stopped = (!r.isEmpty && includes scan i && isLast scan endIdx i) ∧
    (considerCore m scan endIdx i r st).2.offered =
      st.offered ++ (if includes scan i && !r.isEmpty then [i] else []) := by
  unfold considerCore
  split
  · rename_i h
    have hr : r.isEmpty = true := by
      simp only [Bool.and_eq_true] at h; exact h.2
    have := hq (mkCtx i endIdx true (freeze st)) r (freeze st).ms (freeze st).fl
    simp only [callMatcher, this.1, this.2]
    simp [freeze, ha, hs, hr]
  · split
    · rename_i hr; simp [ha, hs, hr]
    · rename_i hr
      have hr' : r.isEmpty = false := by simpa using hr
      split
      · rename_i hi
        obtain ⟨c1, c2⟩ := conclude_flags i (advanceOrMatch m endIdx i r (offer i st)).1
          (markStop scan endIdx i (advanceOrMatch m endIdx i r (offer i st)).2)
        obtain ⟨_, g2, _, _, _⟩ := conclude_ghost i (advanceOrMatch m endIdx i r (offer i st)).1
          (markStop scan endIdx i (advanceOrMatch m endIdx i r (offer i st)).2)
        rw [c1, c2, g2, markStop_advance, markStop_stopped, markStop_offered, aom_offered]
        have hna : ¬ (offer i st).fl.advance > 0 := by simp [offer, ha]
        have hq' := hq (mkCtx i endIdx false (offer i st)) r (offer i st).ms (offer i st).fl
        simp only [advanceOrMatch, hna, if_false, callMatcher, hq'.1, hq'.2]
        simp [offer, ha, hs, hr', hi]
      · rename_i hi
        have hi' : includes scan i = false := by simpa using hi
        simp [ha, hs, hr', hi']

theorem offeredFrom_nil (den : Nat → Bool) : ∀ (rs : List Rec) (i : Nat),
    (∀ j, i ≤ j → j < i + rs.length → den j = false) → Spec.Scan.offeredFrom den i rs = [] := by
  intro rs
  induction rs with
  | nil => intro i _; rfl
  | cons r rs ih =>
    intro i h
    have h0 : den i = false := h i (Nat.le_refl _) (by simp)
    simp only [Spec.Scan.offeredFrom, h0, Bool.false_and, Bool.false_eq_true, if_false, List.nil_append]
    apply ih
    intro j h1 h2
    exact h j (by omega) (by simp; omega)

/-- with a matcher that neither stops nor advances, the loop offers exactly the denoted
    non-blank records; `hlast` is the scanner fact that its own stop comes after the last
    denoted record of the file -/
theorem runFrom_offered (m : MatcherSem σ) (hq : Quiet m) (scan : St) (cwnm ku : Bool) (endIdx : Option Nat)
    (den : Nat → Bool) (hinc : ∀ n, includes scan n = den n) (N : Nat)
    (hlast : ∀ n, isLast scan endIdx n = true → ∀ j, n < j → j < N → den j = false) :
    ∀ (recs : List Rec) (i : Nat) (st : LoopSt σ) (acc : Acc), i + recs.length = N →
      st.fl.advance = 0 → st.fl.stopped = false →
      (runFrom m scan cwnm ku endIdx none i recs st acc).2.1.offered =
        st.offered ++ Spec.Scan.offeredFrom den i recs := by
  intro recs
  induction recs with
  | nil => intro i st acc _ _ _; simp [runFrom, finalize, Spec.Scan.offeredFrom]
  | cons r rs ih =>
    intro i st acc hN ha hs
    obtain ⟨q1, q2, q3⟩ := considerCore_quiet m hq scan endIdx i r (trackLine i r st) ha hs
    simp only [track_offered] at q3
    have e2 : (none == some 1 || none == some 0) = false := by simp
    have hstep : (if den i && !r.isEmpty then [i] else []) =
        (if includes scan i && !r.isEmpty then [i] else ([] : List Nat)) := by rw [hinc]
    have hstop : (considerCore m scan endIdx i r (trackLine i r st)).2.fl.stopped = true →
        Spec.Scan.offeredFrom den (i + 1) rs = [] := by
      intro h
      rw [q2] at h
      have hl : isLast scan endIdx i = true := by
        simp only [Bool.and_eq_true] at h; exact h.2
      apply offeredFrom_nil
      intro j h1 h2
      exact hlast i hl j (by omega) (by simp at hN; omega)
    simp only [runFrom, considerLine, e2, Bool.false_eq_true, if_false, Option.map_none,
      Spec.Scan.offeredFrom]
    have hrec := fun acc1 => ih (i + 1) (considerCore m scan endIdx i r (trackLine i r st)).2 acc1
      (by simp at hN; omega) q1
    by_cases hst : (considerCore m scan endIdx i r (trackLine i r st)).2.fl.stopped = true
    · simp only [hst, if_true]
      split <;> simp only [finalize, freeze_offered, q3, hstop hst, List.append_nil, hstep]
    · have hst' : (considerCore m scan endIdx i r (trackLine i r st)).2.fl.stopped = false := by simpa using hst
      simp only [hst', Bool.false_eq_true, if_false]
      split <;> rw [hrec _ hst', q3, hstep, List.append_assoc]

/-! ### matched and unmatched partition the records read (C15) -/

structure AccInv (i : Nat) (acc : Acc) : Prop where
  seen : acc.seen = i
  ylt : ∀ j ∈ acc.yielded, j < i
  ult : ∀ j ∈ acc.unmatchedIdx, j < i
  part : ∀ j, j < i → (j ∈ acc.yielded ↔ j ∉ acc.unmatchedIdx)
  ysorted : acc.yielded.Pairwise (· < ·)
  usorted : acc.unmatchedIdx.Pairwise (· < ·)

theorem AccInv_init : AccInv 0 ({} : Acc) :=
  ⟨rfl, by simp, by simp, by intro j hj; omega, by simp, by simp⟩

theorem AccInv_step {i : Nat} {acc : Acc} (h : AccInv i acc) (r : Rec) (b : Bool) :
    AccInv (i + 1) (accStep true i r b acc) := by
  have hiy : i ∉ acc.yielded := fun hc => Nat.lt_irrefl _ (h.ylt i hc)
  have hiu : i ∉ acc.unmatchedIdx := fun hc => Nat.lt_irrefl _ (h.ult i hc)
  cases b with
  | true =>
    simp only [accStep, if_true]
    refine ⟨by simp [h.seen], ?_, ?_, ?_, ?_, h.usorted⟩
    · intro j hj; simp at hj; rcases hj with hj | hj
      · have := h.ylt j hj; omega
      · omega
    · intro j hj; have := h.ult j hj; omega
    · intro j hj
      by_cases hji : j = i
      · subst hji; simp [hiu]
      · have := h.part j (by omega); simp [hji, this]
    · simp only [List.pairwise_append, List.pairwise_cons, List.mem_singleton]
      exact ⟨h.ysorted, by simp, fun a ha b hb => by subst hb; exact h.ylt a ha⟩
  | false =>
    simp only [accStep, Bool.false_eq_true, if_false, if_true]
    refine ⟨by simp [h.seen], ?_, ?_, ?_, h.ysorted, ?_⟩
    · intro j hj; have := h.ylt j hj; omega
    · intro j hj; simp at hj; rcases hj with hj | hj
      · have := h.ult j hj; omega
      · omega
    · intro j hj
      by_cases hji : j = i
      · subst hji; simp [hiy]
      · have := h.part j (by omega); simp [hji, this]
    · simp only [List.pairwise_append, List.pairwise_cons, List.mem_singleton]
      exact ⟨h.usorted, by simp, fun a ha b hb => by subst hb; exact h.ult a ha⟩

/-- `collect()` with `unmatched-mode: keep`: every record read goes to exactly one of the
    collected lines and the unmatched lines, in file order -/
theorem runFrom_partition (m : MatcherSem σ) (scan : St) (cwnm : Bool) (endIdx : Option Nat) :
    ∀ (recs : List Rec) (i : Nat) (st : LoopSt σ) (acc : Acc), AccInv i acc →
      ∃ n, i ≤ n ∧ n ≤ i + recs.length ∧
        AccInv n (runFrom m scan cwnm true endIdx none i recs st acc).2.2 := by
  intro recs
  induction recs with
  | nil => intro i st acc h; exact ⟨i, Nat.le_refl _, by simp, by simpa [runFrom] using h⟩
  | cons r rs ih =>
    intro i st acc h
    have e2 : (none == some 1 || none == some 0) = false := by simp
    simp only [runFrom, e2, Bool.false_eq_true, if_false, Option.map_none]
    have h1 := AccInv_step h r (considerLine m scan cwnm endIdx i r (trackLine i r st)).1
    have hnow : ∃ n, i ≤ n ∧ n ≤ i + (r :: rs).length ∧
        AccInv n (accStep true i r (considerLine m scan cwnm endIdx i r (trackLine i r st)).1 acc) :=
      ⟨i + 1, by omega, by simp, h1⟩
    have hrec : ∃ n, i ≤ n ∧ n ≤ i + (r :: rs).length ∧
        AccInv n (runFrom m scan cwnm true endIdx none (i + 1) rs
          (considerLine m scan cwnm endIdx i r (trackLine i r st)).2
          (accStep true i r (considerLine m scan cwnm endIdx i r (trackLine i r st)).1 acc)).2.2 := by
      obtain ⟨n, h2, h3, h4⟩ := ih (i + 1) (considerLine m scan cwnm endIdx i r (trackLine i r st)).2 _ h1
      exact ⟨n, by omega, by simp; omega, h4⟩
    split
    · split
      · exact hnow
      · exact hrec
    · split
      · exact hnow
      · exact hrec

/-- the unmatched lines are the records at the unmatched positions -/
theorem runFrom_unmatched (m : MatcherSem σ) (scan : St) (cwnm ku : Bool) (endIdx : Option Nat) :
    ∀ (recs : List Rec) (budget : Option Nat) (i : Nat) (st : LoopSt σ) (acc : Acc),
      ∃ us, (runFrom m scan cwnm ku endIdx budget i recs st acc).2.2.unmatchedIdx = acc.unmatchedIdx ++ us ∧
        (runFrom m scan cwnm ku endIdx budget i recs st acc).2.2.unmatched =
          acc.unmatched ++ us.map (fun j => recs.getD (j - i) []) ∧
        ∀ j ∈ us, i ≤ j ∧ j < i + recs.length := by
  intro recs
  induction recs with
  | nil => intro budget i st acc; exact ⟨[], by simp [runFrom], by simp [runFrom], by simp⟩
  | cons r rs ih =>
    intro budget i st acc
    have shift : ∀ ys : List Nat, (∀ j ∈ ys, i + 1 ≤ j ∧ j < i + 1 + rs.length) →
        ys.map (fun j => rs.getD (j - (i + 1)) []) = ys.map (fun j => (r :: rs).getD (j - i) []) := by
      intro ys hys
      apply List.map_congr_left
      intro j hj
      obtain ⟨h1, _⟩ := hys j hj
      obtain ⟨d, rfl⟩ : ∃ d, j = i + 1 + d := ⟨j - (i + 1), by omega⟩
      have e1 : i + 1 + d - (i + 1) = d := by omega
      have e2 : i + 1 + d - i = d + 1 := by omega
      rw [e1, e2]; simp [List.getD]
    -- one consumer step
    have hstep : ∀ b, ∃ us0, (accStep ku i r b acc).unmatchedIdx = acc.unmatchedIdx ++ us0 ∧
        (accStep ku i r b acc).unmatched = acc.unmatched ++ us0.map (fun j => (r :: rs).getD (j - i) []) ∧
        ∀ j ∈ us0, i ≤ j ∧ j < i + 1 := by
      intro b
      cases b <;> cases ku
      · exact ⟨[], by simp [accStep], by simp [accStep], by simp⟩
      · exact ⟨[i], by simp [accStep], by simp [accStep, List.getD], by simp⟩
      · exact ⟨[], by simp [accStep], by simp [accStep], by simp⟩
      · exact ⟨[], by simp [accStep], by simp [accStep], by simp⟩
    simp only [runFrom]
    generalize considerLine m scan cwnm endIdx i r (trackLine i r st) = res
    obtain ⟨us0, a1, a2, a3⟩ := hstep res.1
    have hnow : ∃ us, (accStep ku i r res.1 acc).unmatchedIdx = acc.unmatchedIdx ++ us ∧
        (accStep ku i r res.1 acc).unmatched = acc.unmatched ++ us.map (fun j => (r :: rs).getD (j - i) []) ∧
        ∀ j ∈ us, i ≤ j ∧ j < i + (r :: rs).length :=
      ⟨us0, a1, a2, fun j hj => by have := a3 j hj; simp; omega⟩
    have hrec : ∀ bud, ∃ us,
        (runFrom m scan cwnm ku endIdx bud (i + 1) rs res.2 (accStep ku i r res.1 acc)).2.2.unmatchedIdx =
          acc.unmatchedIdx ++ us ∧
        (runFrom m scan cwnm ku endIdx bud (i + 1) rs res.2 (accStep ku i r res.1 acc)).2.2.unmatched =
          acc.unmatched ++ us.map (fun j => (r :: rs).getD (j - i) []) ∧
        ∀ j ∈ us, i ≤ j ∧ j < i + (r :: rs).length := by
      intro bud
      obtain ⟨us, b1, b2, b3⟩ := ih bud (i + 1) res.2 (accStep ku i r res.1 acc)
      refine ⟨us0 ++ us, by rw [b1, a1, List.append_assoc], ?_, ?_⟩
      · rw [b2, a2, shift us b3, List.map_append, List.append_assoc]
      · intro j hj
        rcases List.mem_append.mp hj with hj | hj
        · have := a3 j hj; simp; omega
        · have := b3 j hj; simp; omega
    split
    · split
      · exact hnow
      · split
        · exact hnow
        · exact hrec _
    · split
      · exact hnow
      · exact hrec _

/-! ### `advance(n)` and the blank last line, at the level of one `_consider_line` (C13) -/

theorem considerCore_advancing (m : MatcherSem σ) (scan : St) (endIdx : Option Nat) (i : Nat) (r : Rec)
    (st : LoopSt σ) (hr : r.isEmpty = false) (hi : includes scan i = true) (ha : st.fl.advance > 0) :
    (considerCore m scan endIdx i r st).1 = some false ∧
    (considerCore m scan endIdx i r st).2.ms = st.ms ∧
    (considerCore m scan endIdx i r st).2.fl.advance = st.fl.advance - 1 ∧
    (considerCore m scan endIdx i r st).2.fl.matchCount = st.fl.matchCount ∧
    (considerCore m scan endIdx i r st).2.fl.valid = st.fl.valid ∧
    (considerCore m scan endIdx i r st).2.scanCount = st.scanCount + 1 := by
  unfold considerCore
  have h1 : (endIdx == some i && r.isEmpty) = false := by simp [hr]
  have h2 : (offer i st).fl.advance > 0 := by simpa [offer] using ha
  rw [if_neg (by simp [h1]), if_neg (by simp [hr]), if_pos hi]
  simp only [advanceOrMatch, h2, if_true, conclude, Bool.false_eq_true, if_false]
  by_cases hl : isLast scan endIdx i = true <;> simp [markStop, hl, decAdvance, offer]

theorem considerCore_blankLast (m : MatcherSem σ) (scan : St) (endIdx : Option Nat) (i : Nat)
    (st : LoopSt σ) (he : endIdx = some i) :
    considerCore m scan endIdx i [] st =
      (none, (callMatcher m endIdx i true [] { st with fl := { st.fl with frozen := true } }).2) := by
  unfold considerCore
  simp [he, freeze]

/-- the offered positions are strictly increasing -/
theorem runFrom_offered_sorted (m : MatcherSem σ) (scan : St) (cwnm ku : Bool) (endIdx : Option Nat) :
    ∀ (recs : List Rec) (budget : Option Nat) (i : Nat) (st : LoopSt σ) (acc : Acc), Inv i st →
      st.offered.Pairwise (· < ·) →
      (runFrom m scan cwnm ku endIdx budget i recs st acc).2.1.offered.Pairwise (· < ·) := by
  intro recs
  induction recs with
  | nil => intro budget i st acc _ h; simpa [runFrom, finalize] using h
  | cons r rs ih =>
    intro budget i st acc hinv h
    have h1 : Inv (i + 1) (considerLine m scan cwnm endIdx i r (trackLine i r st)).2 :=
      Inv_considerCore m scan endIdx i r (Inv_track hinv)
    have h2 : (considerLine m scan cwnm endIdx i r (trackLine i r st)).2.offered.Pairwise (· < ·) := by
      obtain ⟨g1, _, _, _⟩ := considerCore_ghost m scan endIdx i r (trackLine i r st)
      simp only [considerLine, g1, track_offered]
      cases (considerCore m scan endIdx i r (trackLine i r st)).1 with
      | none => simpa [offeredTail] using h
      | some b =>
        simp only [offeredTail, List.pairwise_append, List.pairwise_cons, List.mem_singleton]
        exact ⟨h, by simp, fun a ha b hb => by subst hb; exact hinv.lt a ha⟩
    simp only [runFrom]
    split
    · split
      · exact h2
      · split
        · simpa [finalize] using h2
        · exact ih _ _ _ _ h1 h2
    · split
      · simpa [finalize] using h2
      · exact ih _ _ _ _ h1 h2

end Proofs.Run
