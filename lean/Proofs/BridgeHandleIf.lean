import Generated.CoreHandleIf
import Proofs.PyNorm
import Model.ErrorPolicy

set_option linter.unusedSimpArgs false
set_option linter.unusedVariables false
/-! Bridge (T) for C05: the Lean translation of `ErrorHandler._handle_if` and `ErrorCommsManager.do_i_*`, regenerated
    from /repo on every run, against the hand-written `Model.Err.handleOne`. -/
namespace Proofs.BridgeHandleIf
open Model.Err

def optBool : Option Bool → Py.V
  | some b => .bool b
  | Option.none => .none

/-- the configured policy as the list of words the code tests membership in -/
def words (p : Policy) : List String :=
  (if p.raise then ["raise"] else []) ++ (if p.collect then ["collect"] else []) ++ (if p.stop then ["stop"] else []) ++
  (if p.fail then ["fail"] else []) ++ (if p.print then ["print"] else []) ++ (if p.quiet then ["quiet"] else [])

/-- an `ErrorHandler` made for a CsvPath: the handler and its comms manager see the csvpath, whose validation-mode
    settings are the override -/
def envH (p : Policy) (o : Override) : Py.Env := fun k =>
  if k = "self._csvpath" then .bool true
  else if k = "self._ecm._csvpath" then .bool true
  else if k = "self._ecm._csvpath.raise_validation_errors" then optBool o.raise
  else if k = "self._ecm._csvpath.print_validation_errors" then optBool o.print
  else if k = "self._ecm._csvpath.stop_on_validation_errors" then optBool o.stop
  else if k = "self._ecm._csvpath.fail_on_validation_errors" then optBool o.fail
  else if k = "self._ecm._policy" then .strs (words p)
  else .exc "AttributeError"

theorem in_words (w : String) (p : Policy) :
    Py.in_ (.str w) (.strs (words p)) = .bool (decide (w ∈ words p)) := by
  simp only [Py.in_, Py.strict2]
  congr 1
  induction (words p) with
  | nil => rfl
  | cons x xs ih => simp_all [Py.eqb, Py.num?] <;> (congr 1 <;> by_cases h : w = x <;> simp [h])

macro "doi" : tactic => `(tactic|
  (obtain ⟨praise, pcollect, pstop, pfail, pprint, pquiet⟩ := p
   obtain ⟨oraise, oprint, ostop, ofail, omatch⟩ := o
   simp only [envH, String.reduceEq, if_true, if_false, ↓reduceIte, in_words]
   first
   | (rcases oraise with _ | (_ | _) <;> cases praise <;>
        simp [optBool, py_norm, words, doRaise])
   | skip))

theorem do_i_raise_bridge (p : Policy) (o : Override) :
    Py.val (Generated.HandleIf.ErrorCommsManager.do_i_raise__via_self__ecm (envH p o) []) = .bool (doRaise p o) := by
  unfold Generated.HandleIf.ErrorCommsManager.do_i_raise__via_self__ecm
  obtain ⟨praise, pcollect, pstop, pfail, pprint, pquiet⟩ := p
  obtain ⟨oraise, oprint, ostop, ofail, omatch⟩ := o
  simp only [envH, String.reduceEq, if_true, if_false, ↓reduceIte, in_words]
  rcases oraise with _ | (_ | _) <;> cases praise <;>
    simp [optBool, py_norm, words, doRaise]

theorem do_i_print_bridge (p : Policy) (o : Override) :
    Py.val (Generated.HandleIf.ErrorCommsManager.do_i_print__via_self__ecm (envH p o) []) = .bool (doPrint p o) := by
  unfold Generated.HandleIf.ErrorCommsManager.do_i_print__via_self__ecm
  obtain ⟨praise, pcollect, pstop, pfail, pprint, pquiet⟩ := p
  obtain ⟨oraise, oprint, ostop, ofail, omatch⟩ := o
  simp only [envH, String.reduceEq, if_true, if_false, ↓reduceIte, in_words]
  rcases oprint with _ | (_ | _) <;> cases pprint <;>
    simp [optBool, py_norm, words, doPrint]

theorem do_i_stop_bridge (p : Policy) (o : Override) :
    Py.val (Generated.HandleIf.ErrorCommsManager.do_i_stop__via_self__ecm (envH p o) []) = .bool (doStop p o) := by
  unfold Generated.HandleIf.ErrorCommsManager.do_i_stop__via_self__ecm
  obtain ⟨praise, pcollect, pstop, pfail, pprint, pquiet⟩ := p
  obtain ⟨oraise, oprint, ostop, ofail, omatch⟩ := o
  simp only [envH, String.reduceEq, if_true, if_false, ↓reduceIte, in_words]
  rcases ostop with _ | (_ | _) <;> cases pstop <;>
    simp [optBool, py_norm, words, doStop]

theorem do_i_fail_bridge (p : Policy) (o : Override) :
    Py.val (Generated.HandleIf.ErrorCommsManager.do_i_fail__via_self__ecm (envH p o) []) = .bool (doFail p o) := by
  unfold Generated.HandleIf.ErrorCommsManager.do_i_fail__via_self__ecm
  obtain ⟨praise, pcollect, pstop, pfail, pprint, pquiet⟩ := p
  obtain ⟨oraise, oprint, ostop, ofail, omatch⟩ := o
  simp only [envH, String.reduceEq, if_true, if_false, ↓reduceIte, in_words]
  rcases ofail with _ | (_ | _) <;> cases pfail <;>
    simp [optBool, py_norm, words, doFail]

/-- the effects of handling one error, as `_handle_if` records them -/
def effsOf (p : Policy) (o : Override) (e : Py.V) : List Py.Eff :=
  (if doStop p o then [{ name := "set self._csvpath.stopped", args := [.bool true] }] else []) ++
  (if p.collect then [{ name := "collect_error", args := [e] }] else []) ++
  (if doFail p o then [{ name := "set self._csvpath.is_valid", args := [.bool false] }] else []) ++
  (if doPrint p o then [{ name := "print", args := [] }] else [])

/-- what a recorded effect does to the csvpath's error state -/
def applyEff (e : Nat) (s : ESt) (f : Py.Eff) : ESt :=
  if f.name = "set self._csvpath.stopped" then { s with stopped := true }
  else if f.name = "collect_error" then { s with collected := s.collected ++ [e] }
  else if f.name = "set self._csvpath.is_valid" then { s with valid := false }
  else if f.name = "print" then { s with printed := s.printed ++ [e] }
  else s

theorem collect_in_words (p : Policy) : decide ("collect" ∈ words p) = p.collect := by
  obtain ⟨praise, pcollect, pstop, pfail, pprint, pquiet⟩ := p
  cases pcollect <;> simp [words]

/-- **Bridge (T)**: handling one error through the translated `_handle_if` performs exactly the effects of
    `effsOf`, in the code's order (stop, collect, fail, print), and raises `MatchException` iff `doRaise`. -/
theorem handle_if_bridge (p : Policy) (o : Override) (e : Nat) (effs : List Py.Eff) :
    Generated.HandleIf.ErrorHandler._handle_if (envH p o) (.strs (words p)) (.int e) effs =
      (if doRaise p o then .raised "MatchException" (effs ++ effsOf p o (.int e))
       else .ok .none (effs ++ effsOf p o (.int e))) := by
  unfold Generated.HandleIf.ErrorHandler._handle_if
  simp only [do_i_raise_bridge, do_i_print_bridge, do_i_stop_bridge, do_i_fail_bridge, in_words, collect_in_words]
  have hc : envH p o "self._csvpath" = Py.V.bool true := by simp [envH]
  simp only [hc, effsOf]
  generalize doRaise p o = b1
  generalize doPrint p o = b2
  generalize doStop p o = b3
  generalize doFail p o = b4
  generalize decide ("quiet" ∈ words p) = b6
  cases b1 <;> cases b2 <;> cases b3 <;> cases b4 <;> cases p.collect <;> cases b6 <;>
    simp [py_norm]

/-- … and those effects, applied to the error state, are the model's `handleOne` -/
theorem effs_are_handleOne (p : Policy) (o : Override) (e : Nat) (s : ESt) :
    (effsOf p o (.int e)).foldl (applyEff e) s = (handleOne p o s e).1 := by
  unfold effsOf handleOne
  cases doStop p o <;> cases p.collect <;> cases doFail p o <;> cases doPrint p o <;> simp [applyEff]

end Proofs.BridgeHandleIf
