import Generated.CoreSelect
import Proofs.BridgeMatches
import Model.PathsStore

set_option linter.unusedSimpArgs false
set_option linter.unusedVariables false

/-! Bridge (T) for the selection of group members by identity: the Lean translation of `PathsManager._get_to`, `_get_from` and
    `_find_one` (regenerated from /repo on every run, with their loops) against `Model.Paths.getTo`, `getFrom`, `findOne`.  The
    (identity, csvpath) pairs are an object list of the world, given as an arbitrary list `g`. -/
namespace Proofs.BridgeSelect
open Model.Paths Proofs.BridgeMatches

/-- the environment shows the list `g` of (identity, csvpath) pairs -/
structure IsList (e : Py.Env) (g : List (String × String)) : Prop where
  len : e "len(idpaths)" = .int g.length
  ident : ∀ i (h : i < g.length), e (Py.ikey "idpaths" i "[0]") = .str g[i].1
  path : ∀ i (h : i < g.length), e (Py.ikey "idpaths" i "[1]") = .str g[i].2

/-- the model's list -/
def toModel (g : List (String × String)) : Identified := g.map fun p => (p.1.toList, p.2.toList)

theorem beq_toList (a b : String) : (a.toList == b.toList) = (a == b) := by
  rw [Bool.eq_iff_iff]; simp [String.toList_inj]

theorem eq_str (a b : String) : Py.eq (.str a) (.str b) = .bool (a == b) := rfl
theorem ne_str (a b : String) : Py.ne (.str a) (.str b) = .bool (!(a == b)) := rfl
theorem append_str (l : List String) (s : String) : Py.append_ (.strs l) (.str s) = .strs (l ++ [s]) := rfl
theorem cond_bool' (b : Bool) (env : Py.Env) (effs : List Py.Eff) (x y : Py.H.Res) :
    Py.H.cond (.bool b) env effs x y = if b = true then x else y := by cases b <;> rfl
theorem letv_strs (l : List String) (env : Py.Env) (effs : List Py.Eff) (k : Py.V → Py.H.Res) : Py.H.letv (.strs l) env effs k = k (.strs l) := rfl

/-! ### `_get_to` -/
def ToBody (e : Py.Env) (g : List (String × String)) (ident : String) (p : Nat)
    (body : Nat → List Py.V → Py.Env → List Py.Eff → Py.H.K → Py.H.K → Py.H.Res) : Prop :=
  ∀ idx (h : idx < g.length) locs ps effs (next brk : Py.H.K), Py.nth locs p = .strs ps →
    ∃ locs', Py.nth locs' p = .strs (ps ++ [g[idx].2]) ∧
      body idx locs e effs next brk = (if g[idx].1 == ident then brk locs' e effs else next locs' e effs)

theorem to_loop (e : Py.Env) (g : List (String × String)) (ident : String) (p : Nat)
    (body : Nat → List Py.V → Py.Env → List Py.Eff → Py.H.K → Py.H.K → Py.H.Res) (k : Py.H.K) (hb : ToBody e g ident p body)
    (hk : ∀ locs ps effs, Py.nth locs p = .strs ps → k locs e effs = .ok (.strs ps) e effs) :
    ∀ r idx locs ps effs, idx + r = g.length → Py.nth locs p = .strs ps →
      Py.H.forGo body k r idx locs e effs =
        .ok (.strs (ps ++ (getTo (toModel (g.drop idx)) ident.toList).map String.ofList)) e effs := by
  intro r
  induction r with
  | zero =>
    intro idx locs ps effs hi hl
    have : g.drop idx = [] := by simp; omega
    simp [Py.H.forGo, hk locs ps effs hl, this, toModel, getTo]
  | succ r ih =>
    intro idx locs ps effs hi hl
    have hlt : idx < g.length := by omega
    obtain ⟨locs', hl', hb'⟩ := hb idx hlt locs ps effs (fun locs env effs => Py.H.forGo body k r (idx + 1) locs env effs) k hl
    have hd : g.drop idx = g[idx] :: g.drop (idx + 1) := List.drop_eq_getElem_cons hlt
    simp only [Py.H.forGo, hb', hd, toModel, List.map_cons, getTo, beq_toList]
    by_cases hid : (g[idx].1 == ident) = true
    · simp [hid, hk locs' _ effs hl', String.ofList_toList]
    · have hid' : (g[idx].1 == ident) = false := by simpa using hid
      have := ih (idx + 1) locs' _ effs (by omega) hl'
      simp only [toModel] at this
      simp [hid', this, String.ofList_toList]

set_option hygiene false in
macro "to_with" p:term : tactic => `(tactic|
  (refine (to_loop e g ident $p _ _ ?hb ?hk g.length 0 _ [] effs (by omega) rfl).trans ?_
   case hb =>
     intro idx hlt locs ps effs' next brk hl
     have h0 := hL.ident idx hlt
     have h1 := hL.path idx hlt
     refine ⟨[.strs (ps ++ [g[idx].2])], rfl, ?_⟩
     simp only [h0, h1, hl, eq_str, append_str, letv_strs, cond_bool']
   case hk =>
     intro locs ps effs' hl
     simp only [hl, Py.H.ret]
   · simp))

theorem get_to_bridge (ext : Py.Ext) (e : Py.Env) (g : List (String × String)) (npn : Py.V) (ident : String) (effs : List Py.Eff)
    (hL : IsList e g) :
    Generated.Select.PathsManager._get_to ext e npn (.str ident) effs =
      .ok (.strs ((getTo (toModel g) ident.toList).map String.ofList)) e effs := by
  simp only [py_core, letv_strs, hL.len, Py.H.forRange, Py.natOf, Int.toNat_natCast]
  first | to_with 0 | to_with 1 | to_with 2

/-! ### `_get_from` -/
def fromM (g : List (String × String)) (ident : String) : List String := (getFrom (toModel g) ident.toList).map String.ofList

theorem fromM_nil (ident : String) : fromM [] ident = [] := rfl
theorem fromM_cons (x : String × String) (r : List (String × String)) (ident : String) :
    fromM (x :: r) ident = if x.1 == ident then x.2 :: r.map (·.2) else fromM r ident := by
  simp only [fromM, toModel, List.map_cons, getFrom, beq_toList]
  split <;> simp [String.ofList_toList, Function.comp_def]

def FromBody (e : Py.Env) (g : List (String × String)) (ident : String) (p : Nat)
    (body : Nat → List Py.V → Py.Env → List Py.Eff → Py.H.K → Py.H.K → Py.H.Res) : Prop :=
  ∀ idx (h : idx < g.length) locs ps effs (next brk : Py.H.K), Py.nth locs p = .strs ps →
    ∃ locs', Py.nth locs' p = .strs (if (!(g[idx].1 == ident) && ps.isEmpty) then ps else ps ++ [g[idx].2]) ∧
      body idx locs e effs next brk = next locs' e effs

theorem from_loop (e : Py.Env) (g : List (String × String)) (ident : String) (p : Nat)
    (body : Nat → List Py.V → Py.Env → List Py.Eff → Py.H.K → Py.H.K → Py.H.Res) (k : Py.H.K) (hb : FromBody e g ident p body)
    (hk : ∀ locs ps effs, Py.nth locs p = .strs ps → k locs e effs = .ok (.strs ps) e effs) :
    ∀ r idx locs ps effs, idx + r = g.length → Py.nth locs p = .strs ps →
      Py.H.forGo body k r idx locs e effs =
        .ok (.strs (if ps.isEmpty then fromM (g.drop idx) ident else ps ++ (g.drop idx).map (·.2))) e effs := by
  intro r
  induction r with
  | zero =>
    intro idx locs ps effs hi hl
    have : g.drop idx = [] := by simp; omega
    simp [Py.H.forGo, hk locs ps effs hl, this, fromM_nil]
  | succ r ih =>
    intro idx locs ps effs hi hl
    have hlt : idx < g.length := by omega
    obtain ⟨locs', hl', hb'⟩ := hb idx hlt locs ps effs (fun locs env effs => Py.H.forGo body k r (idx + 1) locs env effs) k hl
    have hd : g.drop idx = g[idx] :: g.drop (idx + 1) := List.drop_eq_getElem_cons hlt
    simp only [Py.H.forGo, hb', hd, fromM_cons, List.map_cons]
    rw [ih (idx + 1) locs' _ effs (by omega) hl']
    cases ps with
    | nil =>
      by_cases hid : (g[idx].1 == ident) = true
      · simp [hid]
      · have hid' : (g[idx].1 == ident) = false := by simpa using hid
        simp [hid']
    | cons a as => simp

set_option hygiene false in
macro "from_with" p:term : tactic => `(tactic|
  (refine (from_loop e g ident $p _ _ ?hb ?hk g.length 0 _ [] effs (by omega) rfl).trans ?_
   case hb =>
     intro idx hlt locs ps effs' next brk hl
     have h0 := hL.ident idx hlt
     have h1 := hL.path idx hlt
     refine ⟨[.strs (if (!(g[idx].1 == ident) && ps.isEmpty) then ps else ps ++ [g[idx].2])], rfl, ?_⟩
     have hlen : Py.eq (Py.len (Py.V.strs ps)) (Py.V.int 0) = .bool ps.isEmpty := by
       cases ps <;> simp [Py.len, Py.eq, Py.strict2, Py.eqb, Py.num?]
       omega
     simp only [h0, h1, hl, ne_str, append_str, letv_strs, cond_bool', hlen, and_bool]
     cases hq : (g[idx].1 == ident) <;> cases hp : ps.isEmpty <;> simp [cond_bool', letv_strs, append_str]
   case hk =>
     intro locs ps effs' hl
     simp only [hl, Py.H.ret]
   · simp [fromM]))

theorem get_from_bridge (ext : Py.Ext) (e : Py.Env) (g : List (String × String)) (npn : Py.V) (ident : String) (effs : List Py.Eff)
    (hL : IsList e g) :
    Generated.Select.PathsManager._get_from ext e npn (.str ident) effs =
      .ok (.strs ((getFrom (toModel g) ident.toList).map String.ofList)) e effs := by
  simp only [py_core, letv_strs, hL.len, Py.H.forRange, Py.natOf, Int.toNat_natCast]
  first | from_with 0 | from_with 1 | from_with 2

/-! ### `_find_one` -/
def findM (g : List (String × String)) (ident : String) : Option String := (findOne (toModel g) ident.toList).map String.ofList

theorem findM_nil (ident : String) : findM [] ident = Option.none := rfl
theorem findM_cons (x : String × String) (r : List (String × String)) (ident : String) :
    findM (x :: r) ident = if x.1 == ident then some x.2 else findM r ident := by
  by_cases h : (x.1 == ident) = true
  · simp [findM, findOne, toModel, List.find?_cons, beq_toList, h, String.ofList_toList]
  · have h' : (x.1 == ident) = false := by simpa using h
    simp [findM, findOne, toModel, List.find?_cons, beq_toList, h', String.ofList_toList]

def resOf (o : Option String) (e : Py.Env) (effs : List Py.Eff) : Py.H.Res :=
  match o with
  | some p => .ok (.str p) e effs
  | Option.none => .raised "InputException" e effs

def FindBody (e : Py.Env) (g : List (String × String)) (ident : String)
    (body : Nat → List Py.V → Py.Env → List Py.Eff → Py.H.K → Py.H.K → Py.H.Res) : Prop :=
  ∀ idx (h : idx < g.length) locs effs (next brk : Py.H.K),
    ∃ locs', body idx locs e effs next brk = (if g[idx].1 == ident then .ok (.str g[idx].2) e effs else next locs' e effs)

theorem find_loop (e : Py.Env) (g : List (String × String)) (ident : String)
    (body : Nat → List Py.V → Py.Env → List Py.Eff → Py.H.K → Py.H.K → Py.H.Res) (k : Py.H.K) (hb : FindBody e g ident body)
    (hk : ∀ locs effs, k locs e effs = .raised "InputException" e effs) :
    ∀ r idx locs effs, idx + r = g.length →
      Py.H.forGo body k r idx locs e effs = resOf (findM (g.drop idx) ident) e effs := by
  intro r
  induction r with
  | zero =>
    intro idx locs effs hi
    have : g.drop idx = [] := by simp; omega
    simp [Py.H.forGo, hk, this, findM_nil, resOf]
  | succ r ih =>
    intro idx locs effs hi
    have hlt : idx < g.length := by omega
    obtain ⟨locs', hb'⟩ := hb idx hlt locs effs (fun locs env effs => Py.H.forGo body k r (idx + 1) locs env effs) k
    have hd : g.drop idx = g[idx] :: g.drop (idx + 1) := List.drop_eq_getElem_cons hlt
    simp only [Py.H.forGo, hb', hd, findM_cons]
    by_cases hid : (g[idx].1 == ident) = true
    · simp [hid, resOf]
    · have hid' : (g[idx].1 == ident) = false := by simpa using hid
      simp [hid', ih (idx + 1) locs' effs (by omega)]

theorem find_one_bridge (ext : Py.Ext) (e : Py.Env) (g : List (String × String)) (npn : String) (ident : String) (effs : List Py.Eff)
    (hL : IsList e g) :
    Generated.Select.PathsManager._find_one ext e (.str npn) (.str ident) effs =
      resOf ((findOne (toModel g) ident.toList).map String.ofList) e effs := by
  have hnn : Py.isnot (Py.V.str npn) Py.V.none = .bool true := rfl
  simp only [py_core, hnn, cond_bool', if_true, hL.len, Py.H.forRange, Py.natOf, Int.toNat_natCast]
  refine (find_loop e g ident _ _ ?hb ?hk g.length 0 _ effs (by omega)).trans ?_
  case hb =>
    intro idx hlt locs effs' next brk
    have h0 := hL.ident idx hlt
    have h1 := hL.path idx hlt
    refine ⟨[], ?_⟩
    simp only [h0, h1, eq_str, cond_bool', Py.H.ret]
  case hk =>
    intro locs effs'
    rfl
  · simp [findM]

end Proofs.BridgeSelect
