import Generated.CoreModes
import Proofs.PyNorm
import Model.Modes

set_option linter.unusedSimpArgs false
set_option linter.unusedVariables false

/-! Bridge (T) for C15: the Lean translation of the `value` getters of ReturnMode, RunMode and UnmatchedMode, regenerated from
    /repo on every run (heap mode), against `Model.Modes`. -/
namespace Proofs.BridgeModes
open Model.Modes

def optStr : Option String → Py.V
  | some s => .str s
  | Option.none => .none

/-- the returned value (none = an exception was raised) -/
def okV : Py.H.Res → Option Py.V
  | .ok v _ _ => some v
  | .raised _ _ _ => Option.none

def raisedOf : Py.H.Res → Option String
  | .ok _ _ _ => Option.none
  | .raised n _ _ => some n

macro "md_norm" : tactic => `(tactic|
  simp [py_core, py_norm, Py.H.cond, Py.H.letv, Py.H.ret, Py.H.setattr, Py.upd, Py.strip_, Py.notin, Py.in_, Py.find_, optStr,
    okV, raisedOf, returnMode, runMode, unmatchedMode, *])

theorem return_mode_bridge (ext : Py.Ext) (e : Py.Env) (m : Option String) (effs : List Py.Eff)
    (h1 : e "self._return_mode" = .none) (h2 : e "self.controller.get(return-mode)" = optStr m) :
    okV (Generated.Modes.ReturnMode.value ext e effs) = (returnMode m).map Py.V.bool ∧
    (returnMode m = Option.none → raisedOf (Generated.Modes.ReturnMode.value ext e effs) = some "InputException") := by
  have hd : Model.PyStr.strip "matches" = "matches" := by decide
  cases m with
  | none => md_norm
  | some s =>
    by_cases ha : Model.PyStr.strip s = "matches" <;> by_cases hb : Model.PyStr.strip s = "no-matches" <;> md_norm

theorem run_mode_bridge (ext : Py.Ext) (e : Py.Env) (m : Option String) (effs : List Py.Eff)
    (h1 : e "self._run_mode" = .none) (h2 : e "self.controller.get(run-mode)" = optStr m) :
    okV (Generated.Modes.RunMode.value ext e effs) = (runMode m).map Py.V.bool ∧
    (runMode m = Option.none → raisedOf (Generated.Modes.RunMode.value ext e effs) = some "InputException") := by
  have hd : Model.PyStr.strip "run" = "run" := by decide
  cases m with
  | none => md_norm
  | some s =>
    by_cases ha : Model.PyStr.strip s = "run" <;> by_cases hb : Model.PyStr.strip s = "no-run" <;> md_norm

theorem unmatched_mode_bridge (ext : Py.Ext) (e : Py.Env) (m : Option String) (effs : List Py.Eff)
    (h1 : e "self._unmatched_mode" = .none) (h2 : e "self.controller.get(unmatched-mode)" = optStr m) :
    okV (Generated.Modes.UnmatchedMode.value ext e effs) = some (.bool (unmatchedMode m)) := by
  cases m with
  | none => md_norm
  | some s =>
    have hk : "no-keep".toList = ['n', 'o', '-', 'k', 'e', 'e', 'p'] := by decide
    simp only [unmatchedMode, hk]
    cases hf : Py.findFrom ['n', 'o', '-', 'k', 'e', 'e', 'p'] s.toList 0 with
    | none => md_norm
    | some i =>
      have hi : ((-1 : Int) < (i : Int)) := by omega
      md_norm

theorem source_mode_bridge (ext : Py.Ext) (e : Py.Env) (m : Option String) (effs : List Py.Eff)
    (h1 : e "self._source_mode" = .none) (h2 : e "self.controller.get(source-mode)" = optStr m) :
    okV (Generated.Modes.SourceMode.value ext e effs) = some (.bool (sourceMode m)) := by
  cases m with
  | none => simp [py_core, py_norm, Py.H.cond, Py.H.letv, Py.H.ret, Py.H.setattr, Py.upd, optStr, okV, sourceMode, h1, h2]
  | some s =>
    by_cases hs : s = "preceding" <;>
      simp [py_core, py_norm, Py.H.cond, Py.H.letv, Py.H.ret, Py.H.setattr, Py.upd, optStr, okV, sourceMode, h1, h2, hs]

end Proofs.BridgeModes
