import Model.Match
import Spec.Match
/-! Lemmas for C17: the token-level parser inverts `toks`. -/
namespace Proofs.Match
open Model.Match Spec.Match

theorem need_pos (n : Node) : 3 ≤ need n := by
  cases n <;> simp [need] <;> omega

theorem needArgs_pos (as : Args) : 3 ≤ needArgs as := by
  cases as <;> simp [needArgs] <;> omega

/-- the step every function node takes, given its arguments parse -/
theorem fn_step (f : Nat) (n : List Char) (as : Args) (rest : List Tok)
    (h : pArgs f (toksArgs as ++ .rp :: rest) = some (as, rest)) :
    pLeft (f + 1) (toks (.fn n as) ++ rest) = some (.fn n as, rest) := by
  simp [toks, pLeft, h]

theorem after_left (f : Nat) (l : Node) (rest : List Tok) (h : rest.head? ≠ some .equals) :
    (match (some (l, rest) : Option (Node × List Tok)) with
     | some (l, .equals :: r) =>
       (match pRhs f r with
        | some (x, r') => some (Node.eq .eq l x, r')
        | none => none)
     | some (l, r) => some (l, r)
     | none => none) = some (l, rest) := by
  cases rest with
  | nil => rfl
  | cons t ts => cases t <;> simp_all

/-- tokens a component can start with -/
def startTok : Tok → Prop
  | .str _ | .num _ | .regex _ | .reference _ | .header _ | .variable _ | .fname _ => True
  | _ => False

theorem toks_head : (n : Node) → ∃ t ts, toks n = t :: ts ∧ startTok t
  | .term t => by cases t <;> exact ⟨_, _, rfl, trivial⟩
  | .header _ => ⟨_, _, rfl, trivial⟩
  | .variable _ => ⟨_, _, rfl, trivial⟩
  | .reference _ => ⟨_, _, rfl, trivial⟩
  | .fn _ _ => ⟨_, _, rfl, trivial⟩
  | .eq op l r => by
    obtain ⟨t, ts, h, k⟩ := toks_head l
    exact ⟨t, ts ++ opTok op :: toks r, by simp [toks, h], k⟩

theorem toksArgs_head (a : Node) (more : Args) : ∃ t ts, toksArgs (.cons a more) = t :: ts ∧ startTok t := by
  obtain ⟨t, ts, h, k⟩ := toks_head a
  cases more with
  | nil => exact ⟨t, ts, by simp [toksArgs, h], k⟩
  | cons b m => exact ⟨t, ts ++ .comma :: toksArgs (.cons b m), by simp [toksArgs, h], k⟩

/-- a `left` starts with a header, a variable or a function name -/
def leftTok : Tok → Prop
  | .header _ | .variable _ | .fname _ => True
  | _ => False

theorem toks_head_left : (l : Node) → okLeft l = true → ∃ t ts, toks l = t :: ts ∧ leftTok t
  | .header _, _ => ⟨_, _, rfl, trivial⟩
  | .variable _, _ => ⟨_, _, rfl, trivial⟩
  | .fn _ _, _ => ⟨_, _, rfl, trivial⟩
  | .term _, h => by simp [okLeft] at h
  | .reference _, h => by simp [okLeft] at h
  | .eq _ _ _, h => by simp [okLeft] at h

mutual
theorem pLeft_rt : (n : Node) → okLeft n = true → ∀ (f : Nat) (rest : List Tok), need n ≤ f + 1 →
    pLeft f (toks n ++ rest) = some (n, rest)
  | .header s, _, f, rest, hf => by
    obtain ⟨f', rfl⟩ : ∃ f', f = f' + 1 := ⟨f - 1, by simp [need] at hf; omega⟩
    simp [toks, pLeft]
  | .variable s, _, f, rest, hf => by
    obtain ⟨f', rfl⟩ : ∃ f', f = f' + 1 := ⟨f - 1, by simp [need] at hf; omega⟩
    simp [toks, pLeft]
  | .fn n as, h, f, rest, hf => by
    obtain ⟨f', rfl⟩ : ∃ f', f = f' + 1 := ⟨f - 1, by simp [need] at hf; omega⟩
    exact fn_step f' n as rest (pArgs_rt as (by simpa [okLeft] using h) f' rest (by simp [need] at hf; omega))
  | .term _, h, _, _, _ => by simp [okLeft] at h
  | .reference _, h, _, _, _ => by simp [okLeft] at h
  | .eq _ _ _, h, _, _, _ => by simp [okLeft] at h

termination_by n => (sizeOf n, 0)

theorem pArgs_rt : (as : Args) → okArgs as = true → ∀ (f : Nat) (rest : List Tok), needArgs as + 1 ≤ f →
    pArgs f (toksArgs as ++ .rp :: rest) = some (as, rest)
  | .nil, _, f, rest, hf => by
    obtain ⟨f', rfl⟩ : ∃ f', f = f' + 1 := ⟨f - 1, by omega⟩
    simp [toksArgs, pArgs]
  | .cons a more, h, f, rest, hf => by
    obtain ⟨f', rfl⟩ : ∃ f', f = f' + 1 := ⟨f - 1, by omega⟩
    have h1 := pArgs1_rt a more h f' rest (by omega)
    -- the first token of a non-empty argument list is not `)`
    obtain ⟨t, ts, hts, hk⟩ := toksArgs_head a more
    rw [hts] at h1 ⊢
    cases t <;> simp_all [pArgs, startTok]

termination_by as => (sizeOf as, 1)

theorem pArgs1_rt : (a : Node) → (more : Args) → okArgs (.cons a more) = true → ∀ (f : Nat) (rest : List Tok),
    needArgs (.cons a more) ≤ f →
    pArgs1 f (toksArgs (.cons a more) ++ .rp :: rest) = some (.cons a more, rest)
  | a, .nil, h, f, rest, hf => by
    obtain ⟨f', rfl⟩ : ∃ f', f = f' + 1 := ⟨f - 1, by simp [needArgs] at hf; omega⟩
    have ha : okArg a = true := by simp [okArgs] at h; exact h
    have := pArg_rt a ha f' (.rp :: rest) (by simp [needArgs] at hf; omega) (by simp)
    simp [toksArgs, pArgs1, this]
  | a, .cons b more, h, f, rest, hf => by
    obtain ⟨f', rfl⟩ : ∃ f', f = f' + 1 := ⟨f - 1, by simp [needArgs] at hf; omega⟩
    have ha : okArg a = true := by simp [okArgs] at h; exact h.1
    have hb : okArgs (.cons b more) = true := by simp [okArgs] at h ⊢; exact h.2
    have h1 := pArg_rt a ha f' (.comma :: (toksArgs (.cons b more) ++ .rp :: rest))
      (by simp [needArgs] at hf ⊢; omega) (by simp)
    have h2 := pArgs1_rt b more hb f' rest (by simp [needArgs] at hf ⊢; omega)
    simp only [toksArgs, List.append_assoc, List.cons_append, pArgs1, h1, h2]

termination_by a more => (sizeOf (Args.cons a more), 0)

theorem pArg_rt : (n : Node) → okArg n = true → ∀ (f : Nat) (rest : List Tok), need n ≤ f →
    rest.head? ≠ some .equals → pArg f (toks n ++ rest) = some (n, rest)
  | .term t, _, f, rest, hf, _ => by
    obtain ⟨f', rfl⟩ : ∃ f', f = f' + 1 := ⟨f - 1, by simp [need] at hf; omega⟩
    cases t <;> simp [toks, termTok, pArg]
  | .reference s, _, f, rest, hf, _ => by
    obtain ⟨f', rfl⟩ : ∃ f', f = f' + 1 := ⟨f - 1, by simp [need] at hf; omega⟩
    simp [toks, pArg]
  | .header s, _, f, rest, hf, hr => by
    obtain ⟨f', rfl⟩ : ∃ f', f = f' + 1 := ⟨f - 1, by simp [need] at hf; omega⟩
    have hl := pLeft_rt (.header s) rfl f' rest (by simp [need] at hf ⊢; omega)
    simp only [toks, List.singleton_append] at hl ⊢
    simp only [pArg, hl]
    exact after_left f' _ rest hr
  | .variable s, _, f, rest, hf, hr => by
    obtain ⟨f', rfl⟩ : ∃ f', f = f' + 1 := ⟨f - 1, by simp [need] at hf; omega⟩
    have hl := pLeft_rt (.variable s) rfl f' rest (by simp [need] at hf ⊢; omega)
    simp only [toks, List.singleton_append] at hl ⊢
    simp only [pArg, hl]
    exact after_left f' _ rest hr
  | .fn n as, h, f, rest, hf, hr => by
    obtain ⟨f', rfl⟩ : ∃ f', f = f' + 1 := ⟨f - 1, by simp [need] at hf; omega⟩
    obtain ⟨f'', rfl⟩ : ∃ f'', f' = f'' + 1 := ⟨f' - 1, by simp [need] at hf; have := needArgs_pos as; omega⟩
    have hl := fn_step f'' n as rest (pArgs_rt as (by simpa [okArg] using h) f'' rest (by simp [need] at hf; omega))
    simp only [toks, List.cons_append] at hl ⊢
    simp only [pArg, hl]
    exact after_left (f'' + 1) _ rest hr
  | .eq .eq l r, h, f, rest, hf, _ => by
    obtain ⟨f', rfl⟩ : ∃ f', f = f' + 1 := ⟨f - 1, by simp [need] at hf; omega⟩
    have hl' : okLeft l = true := by simp [okArg] at h; exact h.1
    have hr' : okRhs r = true := by simp [okArg] at h; exact h.2
    have hl := pLeft_rt l hl' f' (.equals :: (toks r ++ rest)) (by simp [need] at hf; omega)
    have hr := pRhs_rt r hr' f' rest (by simp [need] at hf; omega)
    obtain ⟨t, ts, hts, hk⟩ := toks_head_left l hl'
    simp only [toks, opTok, List.append_assoc, List.cons_append]
    rw [hts] at hl ⊢
    simp only [List.cons_append] at hl ⊢
    cases t <;> simp_all [pArg, leftTok]
  | .eq .assign _ _, h, _, _, _, _ => by simp [okArg] at h
  | .eq .when_ _ _, h, _, _, _, _ => by simp [okArg] at h

termination_by n => (sizeOf n, 1)

theorem pRhs_rt : (n : Node) → okRhs n = true → ∀ (f : Nat) (rest : List Tok), need n ≤ f →
    pRhs f (toks n ++ rest) = some (n, rest)
  | .term t, _, f, rest, hf => by
    obtain ⟨f', rfl⟩ : ∃ f', f = f' + 1 := ⟨f - 1, by simp [need] at hf; omega⟩
    cases t <;> simp [toks, termTok, pRhs]
  | .reference s, _, f, rest, hf => by
    obtain ⟨f', rfl⟩ : ∃ f', f = f' + 1 := ⟨f - 1, by simp [need] at hf; omega⟩
    simp [toks, pRhs]
  | .header s, _, f, rest, hf => by
    obtain ⟨f', rfl⟩ : ∃ f', f = f' + 1 := ⟨f - 1, by simp [need] at hf; omega⟩
    have hl := pLeft_rt (.header s) rfl f' rest (by simp [need] at hf ⊢; omega)
    simp only [toks, List.singleton_append] at hl ⊢
    simp only [pRhs, hl]
  | .variable s, _, f, rest, hf => by
    obtain ⟨f', rfl⟩ : ∃ f', f = f' + 1 := ⟨f - 1, by simp [need] at hf; omega⟩
    have hl := pLeft_rt (.variable s) rfl f' rest (by simp [need] at hf ⊢; omega)
    simp only [toks, List.singleton_append] at hl ⊢
    simp only [pRhs, hl]
  | .fn n as, h, f, rest, hf => by
    obtain ⟨f', rfl⟩ : ∃ f', f = f' + 1 := ⟨f - 1, by simp [need] at hf; omega⟩
    obtain ⟨f'', rfl⟩ : ∃ f'', f' = f'' + 1 := ⟨f' - 1, by simp [need] at hf; have := needArgs_pos as; omega⟩
    have hl := fn_step f'' n as rest (pArgs_rt as (by simpa [okRhs] using h) f'' rest (by simp [need] at hf; omega))
    simp only [toks, List.cons_append] at hl ⊢
    simp only [pRhs, hl]
  | .eq _ _ _, h, _, _, _ => by simp [okRhs] at h
termination_by n => (sizeOf n, 1)
end

/-! ## Top level -/

theorem pAction_rt (act : Node) (h : okAction act = true) (f : Nat) (rest : List Tok) (hf : need act ≤ f) :
    pAction f (toks act ++ rest) = some (act, rest) := by
  match act, h with
  | .fn n as, h =>
    have := pLeft_rt (.fn n as) (by simpa [okAction] using h) f rest (by omega)
    simp only [toks, List.cons_append] at this ⊢
    simp only [pAction, this]
  | .eq .assign (.variable s) r, h =>
    have hr : okRhs r = true := by simpa [okAction] using h
    have := pRhs_rt r hr f rest (by simp [need] at hf; omega)
    simp [toks, opTok, pAction, this]

/-- tokens that cannot follow a complete component -/
def stopTok (rest : List Tok) : Prop :=
  rest.head? ≠ some .equals ∧ rest.head? ≠ some .when_ ∧ rest.head? ≠ some .assign

theorem whenTail_plain (f : Nat) (x : Node) (rest : List Tok) (h : rest.head? ≠ some .when_) :
    whenTail f x rest = some (x, rest) := by
  cases rest with
  | nil => rfl
  | cons t ts => cases t <;> simp_all [whenTail]

theorem whenTail_act (f : Nat) (x act : Node) (rest : List Tok) (h : okAction act = true) (hf : need act ≤ f) :
    whenTail f x (.when_ :: (toks act ++ rest)) = some (.eq .when_ x act, rest) := by
  simp [whenTail, pAction_rt act h f rest hf]

/-- parsing what stands before `->` (or a whole component without `->`), then the tail -/
theorem acted_rt (x : Node) (h : okActedOn x = true) (f : Nat) (tail : List Tok) (hf : need x ≤ f)
    (ht : tail.head? ≠ some .equals ∧ tail.head? ≠ some .assign) (k : Node × List Tok)
    (hk : whenTail f x tail = some k) :
    pExpr f (toks x ++ tail) = some (some k.1, k.2) := by
  match x, h with
  | .reference s, _ => simp [toks, pExpr, hk]
  | .header s, _ =>
    have hl := pLeft_rt (.header s) rfl f tail (by simp [need] at hf ⊢; omega)
    simp only [toks, List.singleton_append] at hl ⊢
    cases tail with
    | nil => simp_all [pExpr]
    | cons t ts => cases t <;> simp_all [pExpr]
  | .variable s, _ =>
    have hl := pLeft_rt (.variable s) rfl f tail (by simp [need] at hf ⊢; omega)
    simp only [toks, List.singleton_append] at hl ⊢
    cases tail with
    | nil => simp_all [pExpr]
    | cons t ts => cases t <;> simp_all [pExpr]
  | .fn n as, h =>
    have hl := pLeft_rt (.fn n as) (by simpa [okActedOn] using h) f tail (by omega)
    simp only [toks, List.cons_append] at hl ⊢
    cases tail with
    | nil => simp_all [pExpr]
    | cons t ts => cases t <;> simp_all [pExpr]
  | .eq .eq l r, h =>
    have hl' : okLeft l = true := by simp [okActedOn] at h; exact h.1
    have hr' : okRhs r = true := by simp [okActedOn] at h; exact h.2
    have hl := pLeft_rt l hl' f (.equals :: (toks r ++ tail)) (by simp [need] at hf; omega)
    have hr := pRhs_rt r hr' f tail (by simp [need] at hf; omega)
    match l, hl' with
    | .header s, _ =>
      simp only [toks, opTok, List.singleton_append, List.cons_append, List.append_assoc, List.nil_append] at hl ⊢
      simp [pExpr, hl, hr, hk]
    | .variable s, _ =>
      simp only [toks, opTok, List.singleton_append, List.cons_append, List.append_assoc, List.nil_append] at hl ⊢
      simp [pExpr, hl, hr, hk]
    | .fn n as, _ =>
      simp only [toks, opTok, List.cons_append, List.append_assoc, List.nil_append] at hl ⊢
      simp [pExpr, hl, hr, hk]

theorem pExpr_rt (e : Node) (h : okExpr e = true) (f : Nat) (rest : List Tok) (hf : need e ≤ f) (hr : stopTok rest) :
    pExpr f (toks e ++ rest) = some (some e, rest) := by
  obtain ⟨h1, h2, h3⟩ := hr
  match e, h with
  | .eq .assign (.variable s) r, h =>
    have hr' : okRhs r = true := by simpa [okExpr] using h
    have := pRhs_rt r hr' f rest (by simp [need] at hf; omega)
    simp [toks, opTok, pExpr, this]
  | .eq .when_ x act, h =>
    have hx : okActedOn x = true := by simp [okExpr] at h; exact h.1
    have ha : okAction act = true := by simp [okExpr] at h; exact h.2
    have hw := whenTail_act f x act rest ha (by simp [need] at hf; omega)
    have := acted_rt x hx f (.when_ :: (toks act ++ rest)) (by simp [need] at hf; omega) (by simp) _ hw
    simpa [toks, opTok] using this
  | .reference s, h =>
    exact acted_rt (.reference s) rfl f rest hf ⟨h1, h3⟩ _ (whenTail_plain f _ rest h2)
  | .header s, h =>
    exact acted_rt (.header s) rfl f rest hf ⟨h1, h3⟩ _ (whenTail_plain f _ rest h2)
  | .variable s, h =>
    exact acted_rt (.variable s) rfl f rest hf ⟨h1, h3⟩ _ (whenTail_plain f _ rest h2)
  | .fn n as, h =>
    exact acted_rt (.fn n as) (by simpa [okExpr] using h) f rest hf ⟨h1, h3⟩ _ (whenTail_plain f _ rest h2)
  | .eq .eq l r, h =>
    exact acted_rt (.eq .eq l r) (by simpa [okExpr] using h) f rest hf ⟨h1, h3⟩ _ (whenTail_plain f _ rest h2)

theorem itemToks_head (i : Item) : ∃ t ts, itemToks i = t :: ts ∧ (startTok t ∨ t = .comment) := by
  cases i with
  | comp e =>
    obtain ⟨t, ts, h, k⟩ := toks_head e
    exact ⟨t, ts, h, Or.inl k⟩
  | comment => exact ⟨_, _, rfl, Or.inr rfl⟩

/-- what follows an item: another item or the closing bracket -/
theorem stop_after (items : List Item) : stopTok ((items.map itemToks).flatten ++ [.rb]) := by
  cases items with
  | nil => simp [stopTok]
  | cons i rest =>
    obtain ⟨t, ts, h, k⟩ := itemToks_head i
    simp only [List.map_cons, List.flatten_cons, h, List.cons_append, stopTok, List.head?_cons]
    rcases k with k | k
    · cases t <;> simp_all [startTok]
    · subst k; simp

theorem pExprs_rt (f : Nat) : (items : List Item) → okItems items = true →
    (∀ e, Item.comp e ∈ items → need e ≤ f) → ∀ n, items.length + 1 ≤ n →
    pExprs f n ((items.map itemToks).flatten ++ [.rb]) = some (comps items)
  | [], _, _, n, hn => by
    obtain ⟨n', rfl⟩ : ∃ n', n = n' + 1 := ⟨n - 1, by simp at hn; omega⟩
    simp [pExprs, comps]
  | i :: rest, hok, hneed, n, hn => by
    obtain ⟨n', rfl⟩ : ∃ n', n = n' + 1 := ⟨n - 1, by simp at hn; omega⟩
    have hok' : okItems rest = true := by
      simp only [okItems, List.all_cons, Bool.and_eq_true] at hok ⊢; exact hok.2
    have ih := pExprs_rt f rest hok' (fun e he => hneed e (List.mem_cons_of_mem _ he)) n' (by simp at hn ⊢; omega)
    have hstop := stop_after rest
    obtain ⟨t, ts, hts, hk⟩ := itemToks_head i
    cases i with
    | comment =>
      simp only [itemToks] at hts
      simp [itemToks, pExprs, pExpr, ih, comps]
    | comp e =>
      have hoke : okExpr e = true := by
        simp only [okItems, List.all_cons, Bool.and_eq_true] at hok; exact hok.1
      have he := pExpr_rt e hoke f ((rest.map itemToks).flatten ++ [.rb]) (hneed e (by simp)) hstop
      simp only [itemToks] at hts
      simp only [List.map_cons, List.flatten_cons, itemToks, List.append_assoc, comps]
      rw [hts] at he ⊢
      simp only [List.cons_append] at he ⊢
      rcases hk with hk | hk
      · cases t <;> simp_all [pExprs, startTok]
      · subst hk
        obtain ⟨t2, ts2, h2, k2⟩ := toks_head e
        rw [h2] at hts
        have e1 : t2 = Tok.comment := (List.cons.inj hts).1
        subst e1
        exact absurd k2 (by simp [startTok])

mutual
theorem need_le : (n : Node) → need n ≤ 3 * (toks n).length
  | .term t => by simp [need, toks]
  | .header _ => by simp [need, toks]
  | .variable _ => by simp [need, toks]
  | .reference _ => by simp [need, toks]
  | .fn _ as => by
    have := needArgs_le as
    simp [need, toks]; omega
  | .eq _ l r => by
    have h1 := need_le l
    have h2 := need_le r
    simp [need, toks]; omega
theorem needArgs_le : (as : Args) → needArgs as ≤ 3 * (toksArgs as).length + 6
  | .nil => by simp [needArgs, toksArgs]
  | .cons a .nil => by
    have := need_le a
    simp [needArgs, toksArgs]; omega
  | .cons a (.cons b m) => by
    have h1 := need_le a
    have h2 := needArgs_le (.cons b m)
    simp [needArgs, toksArgs] at h2 ⊢; omega
end

theorem item_len_le (items : List Item) (i : Item) (h : i ∈ items) :
    (itemToks i).length ≤ ((items.map itemToks).flatten).length := by
  induction items with
  | nil => cases h
  | cons j rest ih =>
    simp only [List.map_cons, List.flatten_cons, List.length_append]
    rcases List.mem_cons.mp h with h | h
    · subst h; omega
    · have := ih h; omega

theorem items_len_le (items : List Item) : items.length ≤ ((items.map itemToks).flatten).length := by
  induction items with
  | nil => simp
  | cons j rest ih =>
    obtain ⟨t, ts, h, _⟩ := itemToks_head j
    simp only [List.map_cons, List.flatten_cons, List.length_append, List.length_cons, h]
    omega

end Proofs.Match
