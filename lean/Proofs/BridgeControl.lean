import Generated.CoreControl
import Proofs.BridgeMatches
import Model.ControlTop

set_option linter.unusedSimpArgs false
set_option linter.unusedVariables false

/-! Bridge (T) for the control functions: the Lean translation of `Stop._decide_match` (with `Stopper._stop_me` and `CsvPath.stop`),
    `Skip._decide_match` (with `Skipper._skip_me`) and `Fail._decide_match`, regenerated from /repo on every run, against
    `Model.ControlTop`.  The condition is an arbitrary function of the environment that keeps `Contract`. -/
namespace Proofs.BridgeControl
open Model.ControlTop Proofs.BridgeMatches
open Model.MatchTop (fold)

def world (ext : Py.Ext) (skip : Py.V) (d : Bool) : World Py.Env where
  evalChild e := (Py.isb (ext "child_matches" [skip] e).1 (.bool true), (ext "child_matches" [skip] e).2)
  setStopped e := Py.upd e "self.matcher.csvpath.stopped" (.bool true)
  setInvalid e := Py.upd e "self.matcher.csvpath.is_valid" (.bool false)
  setSkip e := Py.upd e "self.matcher.skip" (.bool true)
  setMatch e := Py.upd e "self.match" (.bool d)

/-- what the functions read about themselves -/
structure Facts (e : Py.Env) (n : Nat) (name : String) (d once doOnce : Bool) : Prop where
  arity : e "len(self.children)" = .int n
  name : e "self.name" = .str name
  dflt : e "self.default_match()" = .bool d
  once : e "self.once" = .bool once
  doOnce : e "self.do_once()" = .bool doOnce

structure Contract (ext : Py.Ext) : Prop where
  value : ∀ name a e, Py.isExc (ext name a e).1 = false
  clean : ∀ name a e, Clean e → Clean (ext name a e).2
  facts : ∀ a e n nm d o o', Facts e n nm d o o' → Facts (ext "child_matches" a e).2 n nm d o o'

theorem stop_bridge (ext : Py.Ext) (e : Py.Env) (skip : Py.V) (effs : List Py.Eff) (n : Nat) (nm : String) (d o o' : Bool)
    (hC : Contract ext) (hcl : Clean e) (hskip : Py.isExc skip = false) (hf : Facts e n nm d o o') :
    okVE (Generated.Control.Stop._decide_match ext e skip effs) =
      some (.none, stopFn (world ext skip d) (n == 1) (nm == "fail_and_stop") e) := by
  have hval := hC.value
  have hcl' : ∀ k, Py.isExc (e k) = false := hcl
  have hfe : Py.firstExc [skip] = Option.none := by cases skip <;> simp_all [Py.firstExc, Py.isExc]
  have hcall : ∀ env effs k, Py.H.call ext "child_matches" [skip] env effs k =
      k (ext "child_matches" [skip] env).1 (ext "child_matches" [skip] env).2 (effs ++ [{ name := "call child_matches", args := [skip] }]) :=
    fun env effs k => call_ok _ _ _ _ _ _ hfe (hval _ _ _)
  obtain ⟨f1, f2, f3, f4, f5⟩ := hf
  have hf2 := hC.facts [skip] e n nm d o o' ⟨f1, f2, f3, f4, f5⟩
  obtain ⟨g1, g2, g3, g4, g5⟩ := hf2
  have hcl2 : ∀ k, Py.isExc ((ext "child_matches" [skip] e).2 k) = false := hC.clean "child_matches" [skip] e hcl
  have hv2 := hval "child_matches" [skip] e
  have hp1 := hcl' "self.matcher.csvpath.line_monitor.physical_line_number"
  have hp2 := hcl2 "self.matcher.csvpath.line_monitor.physical_line_number"
  simp only [py_core]
  have hupd1 : ∀ (env : Py.Env) v, Py.upd env "self.matcher.csvpath.stopped" v "self.name" = env "self.name" := fun env v => by simp [Py.upd]
  have hupd2 : ∀ (env : Py.Env) v, Py.upd env "self.matcher.csvpath.stopped" v "self.default_match()" = env "self.default_match()" := fun env v => by simp [Py.upd]
  have hupd3 : ∀ (env : Py.Env) v, Py.upd env "self.matcher.csvpath.is_valid" v "self.default_match()" = env "self.default_match()" := fun env v => by simp [Py.upd]
  have hupd4 : ∀ (env : Py.Env) v, Py.isExc (env "self.matcher.csvpath.line_monitor.physical_line_number") = false →
      Py.isExc (Py.upd env "self.matcher.csvpath.stopped" v "self.matcher.csvpath.line_monitor.physical_line_number") = false := fun env v h => by
    simpa [Py.upd] using h
  by_cases hn : n = 1
  · subst hn
    by_cases hb : Py.isb (ext "child_matches" [skip] e).1 (.bool true) = true
    · by_cases hnm : nm = "fail_and_stop"
      · subst hnm
        (mt_norm <;> simp [stopFn, fire, world, Py.upd, *] <;>
          (generalize (ext "child_matches" [skip] e).2 "self.matcher.csvpath.line_monitor.physical_line_number" = p2 at hp2 ⊢
           generalize e "self.matcher.csvpath.line_monitor.physical_line_number" = p1 at hp1 ⊢
           cases p1 <;> simp [Py.isExc] at hp1 <;> cases p2 <;> simp [Py.isExc] at hp2 <;> simp [Py.H.setattr, Py.upd, okVE, f3, g3]))
      · (mt_norm <;> simp [stopFn, fire, world, Py.upd, *] <;>
          (generalize (ext "child_matches" [skip] e).2 "self.matcher.csvpath.line_monitor.physical_line_number" = p2 at hp2 ⊢
           generalize e "self.matcher.csvpath.line_monitor.physical_line_number" = p1 at hp1 ⊢
           cases p1 <;> simp [Py.isExc] at hp1 <;> cases p2 <;> simp [Py.isExc] at hp2 <;> simp [Py.H.setattr, Py.upd, okVE, f3, g3]))
    · have hb' : Py.isb (ext "child_matches" [skip] e).1 (.bool true) = false := by simpa using hb
      (mt_norm <;> simp [stopFn, fire, world, Py.upd, *] <;>
          (generalize (ext "child_matches" [skip] e).2 "self.matcher.csvpath.line_monitor.physical_line_number" = p2 at hp2 ⊢
           generalize e "self.matcher.csvpath.line_monitor.physical_line_number" = p1 at hp1 ⊢
           cases p1 <;> simp [Py.isExc] at hp1 <;> cases p2 <;> simp [Py.isExc] at hp2 <;> simp [Py.H.setattr, Py.upd, okVE, f3, g3]))
  · have hn' : ¬ (n : Int) = 1 := by omega
    by_cases hnm : nm = "fail_and_stop"
    · subst hnm
      (mt_norm <;> simp [stopFn, fire, world, Py.upd, *] <;>
          (generalize (ext "child_matches" [skip] e).2 "self.matcher.csvpath.line_monitor.physical_line_number" = p2 at hp2 ⊢
           generalize e "self.matcher.csvpath.line_monitor.physical_line_number" = p1 at hp1 ⊢
           cases p1 <;> simp [Py.isExc] at hp1 <;> cases p2 <;> simp [Py.isExc] at hp2 <;> simp [Py.H.setattr, Py.upd, okVE, f3, g3]))
    · (mt_norm <;> simp [stopFn, fire, world, Py.upd, *] <;>
          (generalize (ext "child_matches" [skip] e).2 "self.matcher.csvpath.line_monitor.physical_line_number" = p2 at hp2 ⊢
           generalize e "self.matcher.csvpath.line_monitor.physical_line_number" = p1 at hp1 ⊢
           cases p1 <;> simp [Py.isExc] at hp1 <;> cases p2 <;> simp [Py.isExc] at hp2 <;> simp [Py.H.setattr, Py.upd, okVE, f3, g3]))

theorem skip_bridge (ext : Py.Ext) (e : Py.Env) (skip : Py.V) (effs : List Py.Eff) (n : Nat) (nm : String) (d o o' : Bool)
    (hC : Contract ext) (hcl : Clean e) (hskip : Py.isExc skip = false) (hf : Facts e n nm d o o') :
    okVE (Generated.Control.Skip._decide_match ext e skip effs) =
      some (.none, skipFn (world ext skip d) (n == 1) o' e) := by
  have hval := hC.value
  have hcl' : ∀ k, Py.isExc (e k) = false := hcl
  have hfe : Py.firstExc [skip] = Option.none := by cases skip <;> simp_all [Py.firstExc, Py.isExc]
  have hcall : ∀ env effs k, Py.H.call ext "child_matches" [skip] env effs k =
      k (ext "child_matches" [skip] env).1 (ext "child_matches" [skip] env).2 (effs ++ [{ name := "call child_matches", args := [skip] }]) :=
    fun env effs k => call_ok _ _ _ _ _ _ hfe (hval _ _ _)
  obtain ⟨f1, f2, f3, f4, f5⟩ := hf
  have hf2 := hC.facts [skip] e n nm d o o' ⟨f1, f2, f3, f4, f5⟩
  obtain ⟨g1, g2, g3, g4, g5⟩ := hf2
  have hcl2 : ∀ k, Py.isExc ((ext "child_matches" [skip] e).2 k) = false := hC.clean "child_matches" [skip] e hcl
  have hv2 := hval "child_matches" [skip] e
  have hp1 := hcl' "self.matcher.csvpath.line_monitor.physical_line_number"
  have hp2 := hcl2 "self.matcher.csvpath.line_monitor.physical_line_number"
  simp only [py_core]
  cases o' <;> cases o
  all_goals
    by_cases hn : n = 1
    · subst hn
      by_cases hb : Py.isb (ext "child_matches" [skip] e).1 (.bool true) = true
      · (mt_norm <;> simp [skipFn, failFn, world, Py.upd, Py.H.eff, Py.firstExc, *] <;>
          (generalize (ext "child_matches" [skip] e).2 "self.matcher.csvpath.line_monitor.physical_line_number" = p2 at hp2 ⊢
           generalize e "self.matcher.csvpath.line_monitor.physical_line_number" = p1 at hp1 ⊢
           cases p1 <;> simp [Py.isExc] at hp1 <;> cases p2 <;> simp [Py.isExc] at hp2 <;> simp [Py.H.setattr, Py.upd, okVE, f3, g3]))
      · have hb' : Py.isb (ext "child_matches" [skip] e).1 (.bool true) = false := by simpa using hb
        (mt_norm <;> simp [skipFn, failFn, world, Py.upd, Py.H.eff, Py.firstExc, *] <;>
          (generalize (ext "child_matches" [skip] e).2 "self.matcher.csvpath.line_monitor.physical_line_number" = p2 at hp2 ⊢
           generalize e "self.matcher.csvpath.line_monitor.physical_line_number" = p1 at hp1 ⊢
           cases p1 <;> simp [Py.isExc] at hp1 <;> cases p2 <;> simp [Py.isExc] at hp2 <;> simp [Py.H.setattr, Py.upd, okVE, f3, g3]))
    · have hn' : ¬ (n : Int) = 1 := by omega
      (mt_norm <;> simp [skipFn, failFn, world, Py.upd, Py.H.eff, Py.firstExc, *] <;>
          (generalize (ext "child_matches" [skip] e).2 "self.matcher.csvpath.line_monitor.physical_line_number" = p2 at hp2 ⊢
           generalize e "self.matcher.csvpath.line_monitor.physical_line_number" = p1 at hp1 ⊢
           cases p1 <;> simp [Py.isExc] at hp1 <;> cases p2 <;> simp [Py.isExc] at hp2 <;> simp [Py.H.setattr, Py.upd, okVE, f3, g3]))

theorem fail_bridge (ext : Py.Ext) (e : Py.Env) (skip : Py.V) (effs : List Py.Eff) (n : Nat) (nm : String) (d o o' : Bool)
    (hf : Facts e n nm d o o') :
    okVE (Generated.Control.Fail._decide_match ext e skip effs) = some (.none, failFn (world ext skip d) e) := by
  obtain ⟨f1, f2, f3, f4, f5⟩ := hf
  simp [py_core, Py.H.setattr, Py.H.ret, okVE, failFn, world, Py.upd, f3]

end Proofs.BridgeControl
