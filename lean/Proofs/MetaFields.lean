import Model.Metadata
set_option linter.unusedSimpArgs false
/-! `collect_metadata` reads back the fields written as `key: value` in a comment. -/
namespace Proofs.MetaFields
open Model.Meta

/-- a character of a key: `isalnum()`, `-` or `_`, and not a colon, not white space -/
def keyCh (x : MChar) : Bool := (x.alnum || x.c == '-' || x.c == '_') && x.c != ':' && !x.space && !isWs x

/-- white space between fields: one of the four characters the collector knows, which `strip` removes -/
def sepCh (x : MChar) : Bool := isWs x && x.space && !(x.alnum || x.c == '-' || x.c == '_') && x.c != ':'

/-- any character of a value except a colon -/
def valCh (x : MChar) : Bool := x.c != ':'

theorem key_facts (x : MChar) (h : keyCh x = true) :
    (x.c == ':') = false ∧ (x.alnum || x.c == '-' || x.c == '_') = true := by
  simp only [keyCh, Bool.and_eq_true, bne_iff_ne, ne_eq, Bool.not_eq_true'] at h
  obtain ⟨⟨⟨h1, h2⟩, _⟩, _⟩ := h
  exact ⟨by simpa using h2, h1⟩

theorem sep_facts (x : MChar) (h : sepCh x = true) :
    (x.c == ':') = false ∧ (x.alnum || x.c == '-' || x.c == '_') = false ∧ isWs x = true := by
  simp only [sepCh, Bool.and_eq_true, bne_iff_ne, ne_eq, Bool.not_eq_true'] at h
  obtain ⟨⟨⟨h1, _⟩, h3⟩, h4⟩ := h
  exact ⟨by simpa using h4, h3, h1⟩

theorem step_key_noname (w : MStr) (F : List (MStr × Option MStr)) (x : MChar) (h : keyCh x = true) :
    collectStep { word := w, fields := F, name := none, field := none } x =
      { word := w ++ [x], fields := F, name := none, field := none } := by
  obtain ⟨h1, h2⟩ := key_facts x h
  simp [collectStep, h1, h2]

theorem step_key_named (w nm f : MStr) (F : List (MStr × Option MStr)) (x : MChar) (h : keyCh x = true) :
    collectStep { word := w, fields := F, name := some nm, field := some f } x =
      { word := w ++ [x], fields := F, name := some nm, field := some (f ++ [x]) } := by
  obtain ⟨h1, h2⟩ := key_facts x h
  simp [collectStep, h1, h2]

theorem step_sep_nofield (w nm : MStr) (F : List (MStr × Option MStr)) (x : MChar) (h : sepCh x = true) :
    collectStep { word := w, fields := F, name := some nm, field := none } x =
      { word := [], fields := F, name := some nm, field := none } := by
  obtain ⟨h1, h2, h3⟩ := sep_facts x h
  simp [collectStep, h1, h2, h3]

theorem step_sep_open (w nm f : MStr) (F : List (MStr × Option MStr)) (x : MChar) (h : sepCh x = true) :
    collectStep { word := w, fields := F, name := some nm, field := some f } x =
      { word := [], fields := F, name := some nm, field := some (f ++ [x]) } := by
  obtain ⟨h1, h2, h3⟩ := sep_facts x h
  simp [collectStep, h1, h2, h3]

theorem step_sep_noname (w : MStr) (F : List (MStr × Option MStr)) (x : MChar) (h : sepCh x = true) :
    collectStep { word := w, fields := F, name := none, field := none } x =
      { word := [], fields := F, name := none, field := none } := by
  obtain ⟨h1, h2, h3⟩ := sep_facts x h
  simp [collectStep, h1, h2, h3]

/-- the words of a key, read with no field name pending -/
theorem fold_key_noname (k : MStr) (hk : ∀ x ∈ k, keyCh x = true) (w : MStr) (F : List (MStr × Option MStr)) :
    k.foldl collectStep { word := w, fields := F, name := none, field := none } =
      { word := w ++ k, fields := F, name := none, field := none } := by
  induction k generalizing w with
  | nil => simp
  | cons x xs ih =>
    have hx := hk x (List.mem_cons_self ..)
    simp only [List.foldl_cons]
    rw [step_key_noname w F x hx, ih (fun y hy => hk y (List.mem_cons_of_mem _ hy))]
    simp

/-- the words of a key, read while the previous field is still open: they go into that field too -/
theorem fold_key_named (k : MStr) (hk : ∀ x ∈ k, keyCh x = true) (w nm f : MStr) (F : List (MStr × Option MStr)) :
    k.foldl collectStep { word := w, fields := F, name := some nm, field := some f } =
      { word := w ++ k, fields := F, name := some nm, field := some (f ++ k) } := by
  induction k generalizing w f with
  | nil => simp
  | cons x xs ih =>
    have hx := hk x (List.mem_cons_self ..)
    simp only [List.foldl_cons]
    rw [step_key_named w nm f F x hx, ih (fun y hy => hk y (List.mem_cons_of_mem _ hy))]
    simp

/-- white space right after the colon is dropped -/
theorem fold_ws_after_colon (ws : MStr) (h : ∀ x ∈ ws, sepCh x = true) (nm : MStr) (F : List (MStr × Option MStr)) :
    ws.foldl collectStep { word := [], fields := F, name := some nm, field := none } =
      { word := [], fields := F, name := some nm, field := none } := by
  induction ws with
  | nil => rfl
  | cons x xs ih =>
    simp only [List.foldl_cons]
    rw [step_sep_nofield [] nm F x (h x (List.mem_cons_self ..))]
    exact ih (fun y hy => h y (List.mem_cons_of_mem _ hy))

/-- a character of a value, once the field is open, is appended to it (whatever it does to `word`) -/
theorem step_val_open (w nm f : MStr) (F : List (MStr × Option MStr)) (x : MChar) (h : valCh x = true) :
    ∃ w', collectStep { word := w, fields := F, name := some nm, field := some f } x =
      { word := w', fields := F, name := some nm, field := some (f ++ [x]) } := by
  simp only [valCh, bne_iff_ne, ne_eq] at h
  unfold collectStep
  simp only [beq_iff_eq, h, if_false]
  by_cases hw : (x.alnum || x.c == '-' || x.c == '_') = true
  · exact ⟨w ++ [x], by simp [hw]⟩
  · by_cases hs : isWs x = true
    · exact ⟨[], by simp [hw, hs]⟩
    · exact ⟨[], by simp [hw, hs]⟩

theorem fold_val_open (v : MStr) (hv : ∀ x ∈ v, valCh x = true) (w nm f : MStr) (F : List (MStr × Option MStr)) :
    ∃ w', v.foldl collectStep { word := w, fields := F, name := some nm, field := some f } =
      { word := w', fields := F, name := some nm, field := some (f ++ v) } := by
  induction v generalizing w f with
  | nil => exact ⟨w, by simp⟩
  | cons x xs ih =>
    obtain ⟨w1, h1⟩ := step_val_open w nm f F x (hv x (List.mem_cons_self ..))
    obtain ⟨w2, h2⟩ := ih (fun y hy => hv y (List.mem_cons_of_mem _ hy)) w1 (f ++ [x])
    exact ⟨w2, by simp only [List.foldl_cons, h1, h2]; simp⟩

/-- the first character of a value opens the field -/
theorem step_val_first (nm : MStr) (F : List (MStr × Option MStr)) (x : MChar) (h : valCh x = true) (hs : isWs x = false) :
    ∃ w', collectStep { word := [], fields := F, name := some nm, field := none } x =
      { word := w', fields := F, name := some nm, field := some [x] } := by
  simp only [valCh, bne_iff_ne, ne_eq] at h
  unfold collectStep
  simp only [beq_iff_eq, h, if_false]
  by_cases hw : (x.alnum || x.c == '-' || x.c == '_') = true
  · exact ⟨[x], by simp [hw]⟩
  · exact ⟨[], by simp [hw, hs]⟩

theorem fold_seps_open (sep : MStr) (h : ∀ x ∈ sep, sepCh x = true) (w nm f : MStr) (F : List (MStr × Option MStr))
    (hne : sep ≠ []) :
    sep.foldl collectStep { word := w, fields := F, name := some nm, field := some f } =
      { word := [], fields := F, name := some nm, field := some (f ++ sep) } := by
  induction sep generalizing w f with
  | nil => exact absurd rfl hne
  | cons x xs ih =>
    simp only [List.foldl_cons]
    rw [step_sep_open w nm f F x (h x (List.mem_cons_self ..))]
    cases xs with
    | nil => simp
    | cons y ys =>
      rw [ih (fun z hz => h z (List.mem_cons_of_mem _ hz)) [] (f ++ [x]) (by simp)]
      simp

/-! ### one field, then all of them -/

structure Field where
  key : MStr
  ws : MStr      -- white space after the colon
  val : MStr
  sep : MStr     -- white space after the value
  deriving Repr

def renderF (colon : MChar) (f : Field) : MStr := f.key ++ [colon] ++ f.ws ++ f.val ++ f.sep

def render (colon : MChar) (fs : List Field) : MStr := (fs.map (renderF colon)).flatten

/-- a field as the property's quantifier writes it -/
structure WFField (f : Field) : Prop where
  key_ne : f.key ≠ []
  key_ok : ∀ x ∈ f.key, keyCh x = true
  ws_ok : ∀ x ∈ f.ws, sepCh x = true
  val_ok : ∀ x ∈ f.val, valCh x = true
  val_head : ∃ c rest, f.val = c :: rest ∧ isWs c = false
  sep_ok : ∀ x ∈ f.sep, sepCh x = true
  strip_val : strip (f.val ++ f.sep) = f.val
  strip_key : strip f.key = f.key

/-- the collector's state between fields: nothing in `word`, `F` closed fields, one field possibly open -/
def St (w : MStr) (F : List (MStr × Option MStr)) (pend : Option (MStr × MStr)) : CSt :=
  { word := w, fields := F, name := pend.map (·.1), field := pend.map (·.2) }

def close (F : List (MStr × Option MStr)) : Option (MStr × MStr) → List (MStr × Option MStr)
  | none => F
  | some (nm, fld) => dictSet F nm (some (strip fld))

theorem take_left (a b : MStr) : (a ++ b).take ((a ++ b).length - b.length) = a := by
  simp

theorem field_step (colon : MChar) (hc : colon.c = ':') (f : Field) (hf : WFField f)
    (F : List (MStr × Option MStr)) (pend : Option (MStr × MStr)) :
    ∃ w, (renderF colon f).foldl collectStep (St [] F pend) =
      St w (close F pend) (some (f.key, f.val ++ f.sep)) ∧ (f.sep ≠ [] → w = []) := by
  obtain ⟨c, rest, hval, hcws⟩ := hf.val_head
  have hrest : ∀ x ∈ rest, valCh x = true := fun x hx => hf.val_ok x (by rw [hval]; exact List.mem_cons_of_mem _ hx)
  have hcv : valCh c = true := hf.val_ok c (by rw [hval]; exact List.mem_cons_self ..)
  -- the key, then the colon
  have afterColon : (f.key ++ [colon]).foldl collectStep (St [] F pend) =
      { word := [], fields := close F pend, name := some f.key, field := none } := by
    rw [List.foldl_append]
    cases pend with
    | none =>
      simp only [St, Option.map_none]
      rw [fold_key_noname f.key hf.key_ok [] F]
      simp [collectStep, hc, close, hf.strip_key]
    | some p =>
      obtain ⟨nm, fld⟩ := p
      simp only [St, Option.map_some]
      rw [fold_key_named f.key hf.key_ok [] nm fld F]
      simp only [List.nil_append, List.foldl_cons, List.foldl_nil]
      simp [collectStep, hc, close, hf.strip_key]
  obtain ⟨w1, h1⟩ := step_val_first f.key (close F pend) c hcv hcws
  obtain ⟨w2, h2⟩ := fold_val_open rest hrest w1 f.key [c] (close F pend)
  by_cases hsep : f.sep = []
  · refine ⟨w2, ?_, fun h => absurd hsep h⟩
    unfold renderF
    rw [List.foldl_append, List.foldl_append, List.foldl_append, afterColon,
      fold_ws_after_colon f.ws hf.ws_ok, hval, List.foldl_cons, h1, h2, hsep]
    simp [St]
  · refine ⟨[], ?_, fun _ => rfl⟩
    unfold renderF
    rw [List.foldl_append, List.foldl_append, List.foldl_append, afterColon,
      fold_ws_after_colon f.ws hf.ws_ok, hval, List.foldl_cons, h1, h2,
      fold_seps_open f.sep hf.sep_ok w2 f.key _ _ hsep]
    simp [St]

/-- what the collector holds after a list of fields -/
def expect (F : List (MStr × Option MStr)) (pend : Option (MStr × MStr)) : List Field →
    List (MStr × Option MStr) × Option (MStr × MStr)
  | [] => (F, pend)
  | f :: rest => expect (close F pend) (some (f.key, f.val ++ f.sep)) rest

/-- every field but the last is followed by white space -/
def Separated : List Field → Prop
  | [] => True
  | [_] => True
  | f :: g :: rest => f.sep ≠ [] ∧ Separated (g :: rest)

theorem fold_fields (colon : MChar) (hc : colon.c = ':') :
    (fs : List Field) → (∀ f ∈ fs, WFField f) → Separated fs → fs ≠ [] →
    ∀ (F : List (MStr × Option MStr)) (pend : Option (MStr × MStr)),
    ∃ w, (render colon fs).foldl collectStep (St [] F pend) = St w (expect F pend fs).1 (expect F pend fs).2
  | [], _, _, hne, _, _ => absurd rfl hne
  | [f], hwf, _, _, F, pend => by
    obtain ⟨w, h, _⟩ := field_step colon hc f (hwf f (by simp)) F pend
    exact ⟨w, by simp [render, expect, h]⟩
  | f :: g :: rest, hwf, hsep, _, F, pend => by
    obtain ⟨w, h, hw⟩ := field_step colon hc f (hwf f (by simp)) F pend
    have hw0 : w = [] := hw hsep.1
    subst hw0
    obtain ⟨w2, h2⟩ := fold_fields colon hc (g :: rest) (fun x hx => hwf x (List.mem_cons_of_mem _ hx)) hsep.2 (by simp)
      (close F pend) (some (f.key, f.val ++ f.sep))
    refine ⟨w2, ?_⟩
    have : render colon (f :: g :: rest) = renderF colon f ++ render colon (g :: rest) := by simp [render]
    rw [this, List.foldl_append, h, h2]
    simp [expect]

theorem dictSet_fresh (F : List (MStr × Option MStr)) (k : MStr) (v : Option MStr) (h : k ∉ F.map (·.1)) :
    dictSet F k v = F ++ [(k, v)] := by
  induction F with
  | nil => rfl
  | cons p F ih =>
    obtain ⟨k', v'⟩ := p
    have hne : k' ≠ k := fun e => h (by simp [e])
    have hin : k ∉ F.map (·.1) := fun hm => h (by simp at hm ⊢; exact Or.inr hm)
    simp [dictSet, hne, ih hin]

theorem expect_pending_some (F : List (MStr × Option MStr)) (pend : Option (MStr × MStr)) :
    (fs : List Field) → fs ≠ [] → ∃ k fld, (expect F pend fs).2 = some (k, fld) ∧ ∃ f ∈ fs, k = f.key
  | [], h => absurd rfl h
  | [f], _ => ⟨f.key, f.val ++ f.sep, rfl, f, by simp, rfl⟩
  | f :: g :: rest, _ => by
    obtain ⟨k, fld, h, f', hf', hk⟩ := expect_pending_some (close F pend) (some (f.key, f.val ++ f.sep)) (g :: rest) (by simp)
    exact ⟨k, fld, by simpa [expect] using h, f', List.mem_cons_of_mem _ hf', hk⟩

theorem close_keys (F : List (MStr × Option MStr)) (nm fld : MStr) (h : nm ∉ F.map (·.1)) :
    close F (some (nm, fld)) = F ++ [(nm, some (strip fld))] := dictSet_fresh F nm _ h

/-- closing the last open field gives the fields in the order they were written -/
theorem expect_spec : (fs : List Field) → (∀ f ∈ fs, WFField f) → (fs.map (·.key)).Nodup →
    ∀ (F : List (MStr × Option MStr)) (pend : Option (MStr × MStr)),
    (∀ f ∈ fs, f.key ∉ (close F pend).map (·.1)) →
    close (expect F pend fs).1 (expect F pend fs).2 = close F pend ++ fs.map (fun f => (f.key, some f.val))
  | [], _, _, F, pend, _ => by simp [expect]
  | f :: rest, hwf, hnd, F, pend, hfresh => by
    have hf := hwf f (by simp)
    have hk : f.key ∉ (close F pend).map (·.1) := hfresh f (by simp)
    have hclose : close (close F pend) (some (f.key, f.val ++ f.sep)) = close F pend ++ [(f.key, some f.val)] := by
      rw [close_keys _ _ _ hk, hf.strip_val]
    have hnd' : (rest.map (·.key)).Nodup := (List.nodup_cons.mp (by simpa using hnd)).2
    have hnotin : f.key ∉ rest.map (·.key) := (List.nodup_cons.mp (by simpa using hnd)).1
    have ih := expect_spec rest (fun x hx => hwf x (List.mem_cons_of_mem _ hx)) hnd' (close F pend) (some (f.key, f.val ++ f.sep))
      (by
        intro g hg
        rw [hclose]
        intro hm
        simp only [List.map_append, List.map_cons, List.map_nil, List.mem_append, List.mem_singleton] at hm
        rcases hm with hm | hm
        · exact hfresh g (List.mem_cons_of_mem _ hg) hm
        · exact hnotin (by rw [← hm]; exact List.mem_map_of_mem hg))
    simp only [expect]
    rw [ih, hclose]
    simp

/-- text before the first field: any characters but a colon, ending in white space (or nothing) -/
def FreeOK (free : MStr) : Prop :=
  (∀ x ∈ free, (x.c == ':') = false) ∧ (free = [] ∨ ∃ init last, free = init ++ [last] ∧ sepCh last = true)

theorem step_free (w : MStr) (x : MChar) (h : (x.c == ':') = false) :
    ∃ w', collectStep { word := w, fields := [], name := none, field := none } x =
      { word := w', fields := [], name := none, field := none } := by
  unfold collectStep
  simp only [h, Bool.false_eq_true, if_false]
  by_cases hw : (x.alnum || x.c == '-' || x.c == '_') = true
  · exact ⟨w ++ [x], by simp [hw]⟩
  · by_cases hs : isWs x = true
    · exact ⟨[], by simp [hw, hs]⟩
    · exact ⟨[], by simp [hw, hs]⟩

theorem fold_free_any (free : MStr) (h : ∀ x ∈ free, (x.c == ':') = false) (w : MStr) :
    ∃ w', free.foldl collectStep { word := w, fields := [], name := none, field := none } =
      { word := w', fields := [], name := none, field := none } := by
  induction free generalizing w with
  | nil => exact ⟨w, rfl⟩
  | cons x xs ih =>
    obtain ⟨w1, h1⟩ := step_free w x (h x (List.mem_cons_self ..))
    obtain ⟨w2, h2⟩ := ih (fun y hy => h y (List.mem_cons_of_mem _ hy)) w1
    exact ⟨w2, by simp only [List.foldl_cons, h1, h2]⟩

theorem fold_free (free : MStr) (h : FreeOK free) :
    free.foldl collectStep {} = St [] [] none := by
  obtain ⟨hall, hend⟩ := h
  rcases hend with rfl | ⟨init, last, rfl, hl⟩
  · rfl
  · have hi : ∀ x ∈ init, (x.c == ':') = false := fun x hx => hall x (by simp [hx])
    obtain ⟨w, hw⟩ := fold_free_any init hi []
    have e0 : ({} : CSt) = { word := [], fields := [], name := none, field := none } := rfl
    rw [List.foldl_append, e0, hw]
    simp only [List.foldl_cons, List.foldl_nil]
    rw [step_sep_noname w [] last hl]
    rfl

/-- **fields**: a comment made of free text followed by `key: value` fields yields exactly those
    fields, in order, with their values trimmed -/
theorem collect_fields (colon : MChar) (hc : colon.c = ':') (free : MStr) (fs : List Field)
    (hfree : FreeOK free) (hwf : ∀ f ∈ fs, WFField f) (hsep : Separated fs) (hnd : (fs.map (·.key)).Nodup) :
    collect (free ++ render colon fs) = fs.map (fun f => (f.key, some f.val)) := by
  unfold collect
  rw [List.foldl_append, fold_free free hfree]
  cases fs with
  | nil => simp [render, St]
  | cons f rest =>
    obtain ⟨w, hw⟩ := fold_fields colon hc (f :: rest) hwf hsep (by simp) [] none
    rw [hw]
    obtain ⟨k, fld, hp, g, hg, hk⟩ := expect_pending_some [] none (f :: rest) (by simp)
    have hspec := expect_spec (f :: rest) hwf hnd [] none (by intro x _; simp [close])
    have hkne : k.isEmpty = false := by
      rw [hk]
      have := (hwf g hg).key_ne
      cases hkk : g.key with
      | nil => exact absurd hkk this
      | cons a b => rfl
    simp only [St, hp, Option.map_some] at hspec ⊢
    simp only [hkne, Bool.false_eq_true, if_false]
    simpa [close] using hspec

end Proofs.MetaFields
