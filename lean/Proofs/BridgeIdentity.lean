import Generated.CoreIdentity
import Proofs.PyNorm
import Model.PathsStore

set_option linter.unusedSimpArgs false
set_option linter.unusedVariables false

/-! Bridge (T) for the identity of a csvpath: the Lean translation of `CsvPath.identity` (regenerated from /repo on every run) against
    `Model.Paths.identityOf`, for every list of metadata fields. -/
namespace Proofs.BridgeIdentity
open Model.Paths

/-- the value of a metadata key as the translated code reads it: `KeyError` for an absent key -/
def look (fields : List (String × Option String)) (k : String) : Py.V :=
  match fields.find? (·.1 == k) with
  | Option.none => .exc "KeyError"
  | some (_, some v) => .str v
  | some (_, Option.none) => .none

/-- the environment of a CsvPath whose metadata are `fields` -/
def metaEnv (fields : List (String × Option String)) : Py.Env := fun k =>
  if k = "self.metadata" then .strs (fields.map (·.1))
  else if k = "self.metadata[id]" then look fields "id"
  else if k = "self.metadata[Id]" then look fields "Id"
  else if k = "self.metadata[ID]" then look fields "ID"
  else if k = "self.metadata[name]" then look fields "name"
  else if k = "self.metadata[Name]" then look fields "Name"
  else if k = "self.metadata[NAME]" then look fields "NAME"
  else .none

def toM (fields : List (String × Option String)) : List (Str × Option Str) := fields.map fun p => (p.1.toList, p.2.map String.toList)

def optV : Option Str → Py.V
  | some l => .str (String.ofList l)
  | Option.none => .none

def okV : Py.H.Res → Option Py.V
  | .ok v _ _ => some v
  | .raised _ _ _ => Option.none

theorem find_conv (fields : List (String × Option String)) (k : String) :
    ((toM fields).find? (·.1 == k.toList)).map (·.2) = ((fields.find? (·.1 == k)).map (·.2)).map (·.map String.toList) := by
  induction fields with
  | nil => rfl
  | cons x xs ih =>
    have hb : (x.1.toList == k.toList) = (x.1 == k) := by rw [Bool.eq_iff_iff]; simp [String.toList_inj]
    simp only [toM, List.map_cons, List.find?_cons, hb]
    cases x.1 == k
    · simpa [toM] using ih
    · simp

theorem look_cases (fields : List (String × Option String)) (k : String) :
    (fields.find? (·.1 == k) = Option.none ∧ look fields k = .exc "KeyError") ∨
    (∃ a, fields.find? (·.1 == k) = some (a, Option.none) ∧ look fields k = .none) ∨
    (∃ a v, fields.find? (·.1 == k) = some (a, some v) ∧ look fields k = .str v) := by
  unfold look
  cases h : fields.find? (·.1 == k) with
  | none => exact Or.inl ⟨rfl, rfl⟩
  | some p =>
    obtain ⟨a, o⟩ := p
    cases o with
    | none => exact Or.inr (Or.inl ⟨a, rfl, rfl⟩)
    | some v => exact Or.inr (Or.inr ⟨a, v, rfl, rfl⟩)

theorem identity_bridge (ext : Py.Ext) (fields : List (String × Option String)) (effs : List Py.Eff) :
    okV (Generated.Identity.CsvPath.identity ext (metaEnv fields) effs) = some (optV (identityOf (toM fields))) := by
  simp only [identityOf, find_conv]
  cases fields with
  | nil => simp [py_core, py_norm, metaEnv, Py.H.cond, Py.H.ret, okV, optV]
  | cons f fs =>
    have hne : Py.not_ (metaEnv (f :: fs) "self.metadata") = .bool false := by simp [metaEnv, Py.not_, Py.truthy]
    simp only [py_core, hne]
    have r1 : metaEnv (f :: fs) "self.metadata[id]" = look (f :: fs) "id" := by simp [metaEnv]
    have r2 : metaEnv (f :: fs) "self.metadata[Id]" = look (f :: fs) "Id" := by simp [metaEnv]
    have r3 : metaEnv (f :: fs) "self.metadata[ID]" = look (f :: fs) "ID" := by simp [metaEnv]
    have r4 : metaEnv (f :: fs) "self.metadata[name]" = look (f :: fs) "name" := by simp [metaEnv]
    have r5 : metaEnv (f :: fs) "self.metadata[Name]" = look (f :: fs) "Name" := by simp [metaEnv]
    have r6 : metaEnv (f :: fs) "self.metadata[NAME]" = look (f :: fs) "NAME" := by simp [metaEnv]
    simp only [r1, r2, r3, r4, r5, r6]
    generalize f :: fs = F
    rcases look_cases F "id" with ⟨h1, l1⟩ | ⟨a, h1, l1⟩ | ⟨a, v, h1, l1⟩ <;> simp only [h1, l1] <;>
      try (simp [py_norm, Py.haskey, Py.H.cond, Py.H.ret, okV, optV, String.ofList_toList]; done)
    rcases look_cases F "Id" with ⟨h2, l2⟩ | ⟨a, h2, l2⟩ | ⟨a, v, h2, l2⟩ <;> simp only [h2, l2] <;>
      try (simp [py_norm, Py.haskey, Py.H.cond, Py.H.ret, okV, optV, String.ofList_toList]; done)
    rcases look_cases F "ID" with ⟨h3, l3⟩ | ⟨a, h3, l3⟩ | ⟨a, v, h3, l3⟩ <;> simp only [h3, l3] <;>
      try (simp [py_norm, Py.haskey, Py.H.cond, Py.H.ret, okV, optV, String.ofList_toList]; done)
    rcases look_cases F "name" with ⟨h4, l4⟩ | ⟨a, h4, l4⟩ | ⟨a, v, h4, l4⟩ <;> simp only [h4, l4] <;>
      try (simp [py_norm, Py.haskey, Py.H.cond, Py.H.ret, okV, optV, String.ofList_toList]; done)
    rcases look_cases F "Name" with ⟨h5, l5⟩ | ⟨a, h5, l5⟩ | ⟨a, v, h5, l5⟩ <;> simp only [h5, l5] <;>
      try (simp [py_norm, Py.haskey, Py.H.cond, Py.H.ret, okV, optV, String.ofList_toList]; done)
    rcases look_cases F "NAME" with ⟨h6, l6⟩ | ⟨a, h6, l6⟩ | ⟨a, v, h6, l6⟩ <;> simp only [h6, l6] <;>
      simp [py_norm, Py.haskey, Py.H.cond, Py.H.ret, okV, optV, String.ofList_toList]

end Proofs.BridgeIdentity
