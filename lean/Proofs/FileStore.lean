import Model.FileStore
import Spec.Stores
set_option linter.unusedSimpArgs false
set_option linter.unusedSectionVars false
set_option linter.unnecessarySimpa false

namespace Proofs.Files
open Model.Files

variable {κ δ : Type} [DecidableEq δ]

theorem lookup_setDir_same (s : Store κ δ) (n : String) (d : NameDir κ δ) :
    lookup (setDir s n d) n = some d := by
  induction s with
  | nil => simp [setDir, lookup]
  | cons p r ih =>
    obtain ⟨m, d'⟩ := p
    by_cases h : m = n
    · subst h; simp [setDir, lookup]
    · have h' : (m == n) = false := by simpa using h
      simp only [setDir, h', Bool.false_eq_true, if_false, lookup, List.find?_cons] at ih ⊢
      exact ih

theorem lookup_setDir_other (s : Store κ δ) (n m : String) (d : NameDir κ δ) (h : m ≠ n) :
    lookup (setDir s n d) m = lookup s m := by
  have hnm : (n == m) = false := by simp; exact fun e => h e.symm
  induction s with
  | nil => simp [setDir, lookup, hnm]
  | cons p r ih =>
    obtain ⟨k, d'⟩ := p
    by_cases hk : k = n
    · subst hk; simp [setDir, lookup, List.find?_cons, hnm]
    · have hk' : (k == n) = false := by simpa using hk
      simp only [setDir, hk', Bool.false_eq_true, if_false, lookup, List.find?_cons] at ih ⊢
      by_cases hkm : (k == m) = true
      · simp [hkm]
      · have : (k == m) = false := by simpa using hkm
        simp only [this]; exact ih

theorem lookup_remove_same (s : Store κ δ) (n : String) : lookup (remove s n) n = none := by
  induction s with
  | nil => simp [remove, lookup]
  | cons p r ih =>
    obtain ⟨k, d'⟩ := p
    by_cases hk : k = n
    · subst hk; simpa [remove, lookup] using ih
    · have hk' : (k == n) = false := by simpa using hk
      simp only [remove, lookup, List.filter_cons, hk', Bool.not_false, if_true, List.find?_cons] at ih ⊢
      exact ih

theorem lookup_remove_other (s : Store κ δ) (n m : String) (h : m ≠ n) :
    lookup (remove s n) m = lookup s m := by
  have hnm : (n == m) = false := by simp; exact fun e => h e.symm
  induction s with
  | nil => simp [remove, lookup]
  | cons p r ih =>
    obtain ⟨k, d'⟩ := p
    by_cases hk : k = n
    · subst hk
      simp only [remove, lookup, List.filter_cons, beq_self_eq_true, Bool.not_true, Bool.false_eq_true,
        if_false, List.find?_cons, hnm] at ih ⊢
      exact ih
    · have hk' : (k == n) = false := by simpa using hk
      simp only [remove, lookup, List.filter_cons, hk', Bool.not_false, if_true, List.find?_cons] at ih ⊢
      by_cases hkm : (k == m) = true
      · simp [hkm]
      · have : (k == m) = false := by simpa using hkm
        simp only [this]; exact ih

/-- well-formedness of one directory: every stored file is content-addressed and every manifest
    entry has its file -/
structure DirWF (H : κ → δ) (d : NameDir κ δ) : Prop where
  addressed : ∀ k c, fileAt d k = some c → H c = k.2
  present : ∀ e ∈ d.manifest, ∃ c, fileAt d (e.fileHome, e.fingerprint) = some c

def WF (H : κ → δ) (s : Store κ δ) : Prop := ∀ n d, lookup s n = some d → DirWF H d

theorem fileAt_append_new (d : NameDir κ δ) (k k' : String × δ) (c : κ) (hnew : fileAt d k = none) :
    fileAt { d with files := d.files ++ [(k, c)] } k' =
      if k'.1 == k.1 && k'.2 == k.2 then some c else fileAt d k' := by
  unfold fileAt at hnew ⊢
  simp only [List.find?_append]
  cases hf : d.files.find? (fun f => f.1.1 == k'.1 && f.1.2 == k'.2) with
  | some x =>
    simp only [Option.map_some, Option.some_or]
    -- then k' ≠ k, otherwise hnew would be violated
    have hx := List.find?_some hf
    by_cases hk : (k'.1 == k.1 && k'.2 == k.2) = true
    · exfalso
      simp only [Bool.and_eq_true, beq_iff_eq] at hk hx
      have : d.files.find? (fun f => f.1.1 == k.1 && f.1.2 == k.2) = some x := by
        rw [← hk.1, ← hk.2]; exact hf
      rw [this] at hnew; simp at hnew
    · simp [hk]
  | none =>
    simp only [Option.none_or, Option.map_none, List.find?_cons, List.find?_nil]
    by_cases hk : (k'.1 == k.1 && k'.2 == k.2) = true
    · have : (k.1 == k'.1 && k.2 == k'.2) = true := by
        simp only [Bool.and_eq_true, beq_iff_eq] at hk ⊢; exact ⟨hk.1.symm, hk.2.symm⟩
      simp [hk, this]
    · have : (k.1 == k'.1 && k.2 == k'.2) = false := by
        cases h : (k.1 == k'.1 && k.2 == k'.2) with
        | false => rfl
        | true =>
          exfalso; apply hk
          simp only [Bool.and_eq_true, beq_iff_eq] at h ⊢; exact ⟨h.1.symm, h.2.symm⟩
      simp [hk, this]

/-- the directory of `name` after an `add` -/
def addDir (H : κ → δ) (d : NameDir κ δ) (src : String) (content : κ) : NameDir κ δ :=
  let h := H content
  { manifest :=
      if (match d.manifest.getLast? with
          | some e => e.fingerprint == h && e.fileHome == src
          | none => false) then d.manifest
      else d.manifest ++ [{ fingerprint := h, fileHome := src }],
    files := match fileAt d (src, h) with
      | some _ => d.files
      | none => d.files ++ [((src, h), content)] }

theorem add_eq (H : κ → δ) (s : Store κ δ) (n src : String) (c : κ) :
    add H s n src c = setDir s n (addDir H ((lookup s n).getD {}) src c) := rfl

theorem fileAt_congr (d1 d2 : NameDir κ δ) (h : d1.files = d2.files) (k : String × δ) :
    fileAt d1 k = fileAt d2 k := by unfold fileAt; rw [h]

theorem addDir_files_some (H : κ → δ) (d : NameDir κ δ) (src : String) (c y : κ)
    (hf : fileAt d (src, H c) = some y) : (addDir H d src c).files = d.files := by
  unfold addDir; simp only [hf]

theorem addDir_files_none (H : κ → δ) (d : NameDir κ δ) (src : String) (c : κ)
    (hf : fileAt d (src, H c) = none) :
    (addDir H d src c).files = d.files ++ [((src, H c), c)] := by
  unfold addDir; simp only [hf]

theorem fileAt_addDir_none (H : κ → δ) (d : NameDir κ δ) (src : String) (c : κ)
    (hf : fileAt d (src, H c) = none) (k : String × δ) :
    fileAt (addDir H d src c) k = if k.1 == src && k.2 == H c then some c else fileAt d k := by
  have e := fileAt_congr (addDir H d src c) { d with files := d.files ++ [((src, H c), c)] }
    (addDir_files_none H d src c hf) k
  rw [e]
  exact fileAt_append_new d (src, H c) k c hf

/-- files already stored keep their content through an `add` (immutability, one step) -/
theorem addDir_keeps (H : κ → δ) (d : NameDir κ δ) (src : String) (c : κ) (k : String × δ) (x : κ)
    (hx : fileAt d k = some x) : fileAt (addDir H d src c) k = some x := by
  cases hf : fileAt d (src, H c) with
  | some y =>
    rw [fileAt_congr _ d (addDir_files_some H d src c y hf)]; exact hx
  | none =>
    rw [fileAt_addDir_none H d src c hf]
    by_cases hk : (k.1 == src && k.2 == H c) = true
    · exfalso
      simp only [Bool.and_eq_true, beq_iff_eq] at hk
      have : k = (src, H c) := Prod.ext hk.1 hk.2
      rw [this] at hx; rw [hx] at hf; cases hf
    · simp only [hk]; exact hx

/-- after an `add` the content-addressed file of the new version is present and has the digest -/
theorem addDir_has (H : κ → δ) (d : NameDir κ δ) (hd : DirWF H d) (src : String) (c : κ) :
    ∃ x, fileAt (addDir H d src c) (src, H c) = some x ∧ H x = H c := by
  cases hf : fileAt d (src, H c) with
  | some y =>
    exact ⟨y, addDir_keeps H d src c _ y hf, hd.addressed _ _ hf⟩
  | none =>
    refine ⟨c, ?_, rfl⟩
    rw [fileAt_addDir_none H d src c hf]; simp

theorem mem_addDir_manifest (H : κ → δ) (d : NameDir κ δ) (src : String) (c : κ) (e : Entry δ)
    (he : e ∈ (addDir H d src c).manifest) :
    e ∈ d.manifest ∨ e = { fingerprint := H c, fileHome := src } := by
  unfold addDir at he
  simp only at he
  by_cases hs : (match d.manifest.getLast? with
      | some e => e.fingerprint == H c && e.fileHome == src
      | none => false) = true
  · rw [if_pos hs] at he; exact Or.inl he
  · rw [if_neg hs] at he
    rcases List.mem_append.mp he with h | h
    · exact Or.inl h
    · simp at h; exact Or.inr h

theorem addDir_WF (H : κ → δ) (d : NameDir κ δ) (hd : DirWF H d) (src : String) (c : κ) :
    DirWF H (addDir H d src c) := by
  constructor
  · intro k x hx
    cases hf : fileAt d (src, H c) with
    | some y =>
      rw [fileAt_congr _ d (addDir_files_some H d src c y hf)] at hx
      exact hd.addressed k x hx
    | none =>
      rw [fileAt_addDir_none H d src c hf] at hx
      by_cases hk : (k.1 == src && k.2 == H c) = true
      · simp only [hk, if_true, Option.some.injEq] at hx
        simp only [Bool.and_eq_true, beq_iff_eq] at hk
        rw [← hx]; exact hk.2.symm
      · simp only [hk] at hx
        exact hd.addressed k x hx
  · intro e he
    rcases mem_addDir_manifest H d src c e he with h | h
    · obtain ⟨x, hx⟩ := hd.present e h
      exact ⟨x, addDir_keeps H d src c _ x hx⟩
    · subst h
      obtain ⟨x, hx, _⟩ := addDir_has H d hd src c
      exact ⟨x, hx⟩

theorem emptyDir_WF (H : κ → δ) : DirWF H ({} : NameDir κ δ) :=
  ⟨by intro k c h; simp [fileAt] at h, by intro e he; simp at he⟩

theorem step_WF (H : κ → δ) (s : Store κ δ) (hs : WF H s) (op : Op κ) : WF H (step H s op) := by
  cases op with
  | add n src c =>
    intro m d hm
    simp only [step, add_eq] at hm
    by_cases hmn : m = n
    · subst hmn
      rw [lookup_setDir_same] at hm
      cases hm
      apply addDir_WF
      cases hl : lookup s m with
      | none => simpa using emptyDir_WF H
      | some d0 => simpa using hs m d0 hl
    · rw [lookup_setDir_other _ _ _ _ hmn] at hm
      exact hs m d hm
  | remove n =>
    intro m d hm
    simp only [step] at hm
    by_cases hmn : m = n
    · subst hmn; rw [lookup_remove_same] at hm; cases hm
    · rw [lookup_remove_other _ _ _ hmn] at hm; exact hs m d hm
  | newInstance => exact hs
  | mutateSource _ _ => exact hs

theorem WF_init (H : κ → δ) : WF H ([] : Store κ δ) := by
  intro n d h; simp [lookup] at h

theorem run_WF (H : κ → δ) (ops : List (Op κ)) : WF H (ops.foldl (step H) []) := by
  suffices ∀ s, WF H s → WF H (ops.foldl (step H) s) from this [] (WF_init H)
  induction ops with
  | nil => intro s hs; exact hs
  | cons op ops ih => intro s hs; exact ih _ (step_WF H s hs op)

end Proofs.Files

namespace Proofs.Files
open Model.Files

variable {κ δ : Type} [DecidableEq δ]

def absDir (d : NameDir κ δ) : Spec.Files.Versions δ := d.manifest.map (fun e => (e.fingerprint, e.fileHome))

def abs (s : Store κ δ) : Spec.Files.Spec δ := s.map (fun p => (p.1, absDir p.2))

theorem versions_abs (s : Store κ δ) (n : String) :
    Spec.Files.versions (abs s) n = (lookup s n).map absDir := by
  induction s with
  | nil => simp [abs, Spec.Files.versions, lookup]
  | cons p r ih =>
    obtain ⟨k, d⟩ := p
    simp only [abs, Spec.Files.versions, lookup, List.map_cons, List.find?_cons] at ih ⊢
    by_cases hk : (k == n) = true
    · simp [hk]
    · have : (k == n) = false := by simpa using hk
      simp only [this]; exact ih

theorem abs_setDir (s : Store κ δ) (n : String) (d : NameDir κ δ) :
    abs (setDir s n d) = Spec.Files.setV (abs s) n (absDir d) := by
  induction s with
  | nil => simp [abs, setDir, Spec.Files.setV]
  | cons p r ih =>
    obtain ⟨k, d'⟩ := p
    by_cases hk : (k == n) = true
    · simp [abs, setDir, Spec.Files.setV, hk]
    · have : (k == n) = false := by simpa using hk
      simp only [abs, setDir, Spec.Files.setV, this, Bool.false_eq_true, if_false, List.map_cons] at ih ⊢
      rw [ih]

theorem abs_remove (s : Store κ δ) (n : String) : abs (remove s n) = Spec.Files.remove (abs s) n := by
  induction s with
  | nil => simp [abs, remove, Spec.Files.remove]
  | cons p r ih =>
    obtain ⟨k, d'⟩ := p
    simp only [abs, remove, Spec.Files.remove, List.filter_cons, List.map_cons] at ih ⊢
    by_cases hk : (k == n) = true
    · simp [hk]; exact ih
    · have : (k == n) = false := by simpa using hk
      simp [this]; exact ih

theorem absDir_addDir (H : κ → δ) (d : NameDir κ δ) (src : String) (c : κ) :
    absDir (addDir H d src c) =
      (if (absDir d).getLast? == some (H c, src) then absDir d else absDir d ++ [(H c, src)]) := by
  unfold addDir absDir
  simp only [List.getLast?_map]
  cases hl : d.manifest.getLast? with
  | none => simp
  | some e =>
    obtain ⟨f, h⟩ := e
    simp only [Option.map_some]
    by_cases h1 : f = H c <;> by_cases h2 : h = src <;> simp [h1, h2]

/-- one step of the store is one step of the abstract versioned store -/
theorem abs_step (H : κ → δ) (s : Store κ δ) (op : Op κ) :
    abs (step H s op) =
      (match op with
       | .add n src c => Spec.Files.add (abs s) n src (H c)
       | .remove n => Spec.Files.remove (abs s) n
       | .newInstance => abs s
       | .mutateSource _ _ => abs s) := by
  cases op with
  | add n src c =>
    simp only [step, add_eq, abs_setDir, Spec.Files.add, versions_abs, absDir_addDir]
    cases lookup s n <;> simp [absDir]
  | remove n => simp [step, abs_remove]
  | newInstance => rfl
  | mutateSource _ _ => rfl

theorem get_abs (s : Store κ δ) (n : String) :
    Model.Files.get s n = (Spec.Files.current (abs s) n).map (fun v => (v.2, v.1)) := by
  unfold Model.Files.get Spec.Files.current
  rw [versions_abs]
  cases lookup s n with
  | none => rfl
  | some d =>
    simp only [Option.map_some, Option.bind_some, absDir, List.getLast?_map]
    cases d.manifest.getLast? <;> rfl

end Proofs.Files
