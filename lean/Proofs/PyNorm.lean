import Model.Py
import Proofs.PyAttr

/-! list operators (`in`, `len`, `max`) are left folded: the bridges rewrite them with their own lemmas -/

attribute [py_norm] Py.truthy Py.isExc Py.num? Py.eqb Py.strict2 Py.eq Py.ne Py.isb Py.is_ Py.isnot Py.cmp Py.lt Py.le Py.gt Py.ge
  Py.not_ Py.bool_ Py.and_ Py.or_ Py.ite_ Py.add Py.sub Py.ret Py.letv Py.cond Py.firstExc Py.eff Py.bind
  Py.val Py.isinstance_bool Py.isinstance_int Py.isinstance_str
