import Model.Assign
import Spec.Assign

namespace Proofs.Assign
open Model.Assign

theorem int_le (a b : Int) : decide (a ≤ b) = !decide (b < a) := by
  by_cases h : b < a <;> simp [h] <;> omega
theorem str_le (a b : String) : decide (a ≤ b) = !decide (b < a) := by
  by_cases h : b < a
  · simp [h]
  · simp [h]; exact String.not_lt.mp h

def comparable : Val → Val → Bool
  | .int _, .str _ => false
  | .str _, .int _ => false
  | _, _ => true

def inQuantifier (q : Quals) (y : Val) : Bool :=
  !(q.increase || q.decrease) || y == .none || truthy y

/-- the guards of `_set_variable_if` as one flat decision -/
def guardSpec (q : Quals) (ret : Bool) (cur y : Val) : Option Val × Bool :=
  if q.notnone && y == .none then (none, !ret)
  else if q.increase && !Spec.Assign.goesUp cur y then (none, !ret)
  else if q.decrease && !Spec.Assign.goesDown cur y then (none, !ret)
  else (some y, ret)

theorem sv_int (q : Quals) (ret : Bool) (a b : Int) (hq : inQuantifier q (.int b) = true) :
    setVariableIf q ret (.int a) (.int b) =
      .ok (guardSpec q ret (.int a) (.int b)).1 (guardSpec q ret (.int a) (.int b)).2 := by
  obtain ⟨onmatch, latch, onchange, increase, decrease, notnone, asb, nocontrib⟩ := q
  by_cases h1 : a < b <;> by_cases h2 : b < a <;>
    cases increase <;> cases decrease <;> cases notnone <;>
    simp [inQuantifier, truthy] at hq <;>
    simp [setVariableIf, guardSpec, truthy, ge?, le?, Spec.Assign.goesUp, Spec.Assign.goesDown,
      int_le, hq, h1, h2] <;> omega

theorem sv_str (q : Quals) (ret : Bool) (a b : String) (hq : inQuantifier q (.str b) = true) :
    setVariableIf q ret (.str a) (.str b) =
      .ok (guardSpec q ret (.str a) (.str b)).1 (guardSpec q ret (.str a) (.str b)).2 := by
  obtain ⟨onmatch, latch, onchange, increase, decrease, notnone, asb, nocontrib⟩ := q
  by_cases h1 : a < b <;> by_cases h2 : b < a <;>
    cases increase <;> cases decrease <;> cases notnone <;>
    simp [inQuantifier, truthy] at hq <;>
    simp [setVariableIf, guardSpec, truthy, ge?, le?, Spec.Assign.goesUp, Spec.Assign.goesDown,
      str_le, hq, h1, h2] <;>
    exact absurd h2 (String.lt_asymm h1)

theorem setVariableIf_eq (q : Quals) (ret : Bool) (cur y : Val)
    (hc : comparable cur y = true) (hq : inQuantifier q y = true) :
    setVariableIf q ret cur y = .ok (guardSpec q ret cur y).1 (guardSpec q ret cur y).2 := by
  cases cur with
  | int a =>
    cases y with
    | int b => exact sv_int q ret a b hq
    | str b => simp [comparable] at hc
    | none =>
      obtain ⟨onmatch, latch, onchange, increase, decrease, notnone, asb, nocontrib⟩ := q
      cases increase <;> cases decrease <;> cases notnone <;>
        simp [setVariableIf, guardSpec, truthy, Spec.Assign.goesUp, Spec.Assign.goesDown]
  | str a =>
    cases y with
    | str b => exact sv_str q ret a b hq
    | int b => simp [comparable] at hc
    | none =>
      obtain ⟨onmatch, latch, onchange, increase, decrease, notnone, asb, nocontrib⟩ := q
      cases increase <;> cases decrease <;> cases notnone <;>
        simp [setVariableIf, guardSpec, truthy, Spec.Assign.goesUp, Spec.Assign.goesDown]
  | none =>
    obtain ⟨onmatch, latch, onchange, increase, decrease, notnone, asb, nocontrib⟩ := q
    cases y <;> cases increase <;> cases decrease <;> cases notnone <;>
      simp [inQuantifier, truthy] at hq <;>
      simp [setVariableIf, guardSpec, truthy, Spec.Assign.goesUp, Spec.Assign.goesDown, hq]

/-- `cur != new` on this value domain is disequality -/
theorem bne_val (a b : Val) : (a != b) = !decide (a = b) := by
  by_cases h : a = b <;> simp [h]

theorem assign_eq (q : Quals) (cur y : Val) (lm dm : Bool)
    (hc : comparable cur y = true) (hq : inQuantifier q y = true) :
    assign q cur y lm dm =
      .ok (Spec.Assign.assign q cur y (lm == dm) dm).1 (Spec.Assign.assign q cur y (lm == dm) dm).2 := by
  have hsv := fun ret => setVariableIf_eq q ret cur y hc hq
  unfold assign latchAndOnchange
  simp only [hsv]
  obtain ⟨onmatch, latch, onchange, increase, decrease, notnone, asb, nocontrib⟩ := q
  by_cases hcy : cur = y
  · subst hcy
    cases onmatch <;> cases latch <;> cases onchange <;> cases asb <;> cases nocontrib <;>
      cases lm <;> cases dm <;> simp [Spec.Assign.assign, guardSpec]
  · have hne : (cur != y) = true := by simp [bne_val, hcy]
    have hbeq : (cur == y) = false := by simp [hcy]
    by_cases hcn : cur = Val.none
    · subst hcn
      cases onmatch <;> cases latch <;> cases onchange <;> cases asb <;> cases nocontrib <;>
        cases lm <;> cases dm <;> simp [Spec.Assign.assign, guardSpec, hne, hbeq]
    · have h1 : (cur == Val.none) = false := by simp [hcn]
      have h2 : (cur != Val.none) = true := by simp [bne_val, hcn]
      cases onmatch <;> cases latch <;> cases onchange <;> cases asb <;> cases nocontrib <;>
        cases lm <;> cases dm <;> simp [Spec.Assign.assign, guardSpec, hne, hbeq, h1, h2]

end Proofs.Assign
