import Generated.CoreConsiderLine
import Proofs.PyNorm
import Model.RunLoop

set_option linter.unusedSimpArgs false
set_option linter.unusedVariables false

/-! Bridge (T) for the run loop: the Lean translation of `CsvPath._consider_line` (with `raise_match_count_if`, `stop` and
    `LineMonitor.is_last_line_and_blank`), regenerated from /repo on every run in heap mode, against the hand-written
    `Model.Run.considerLine`.  The matcher (`self.matches(line)`) is an arbitrary function of the environment that keeps
    the contract `Contract` below — it may write the five fields a matcher may write and anything outside the loop's own
    fields — so the bridge, like the run-loop theorems, holds for every csvpath. -/
namespace Proofs.BridgeConsiderLine
open Model.Run Model.Scan

abbrev natV (n : Nat) : Py.V := .int n

def optNatV : Option Nat → Py.V
  | some n => .int n
  | Option.none => .none

def lineV (r : Rec) : Py.V := .strs r

def toNat : Py.V → Nat
  | .int i => i.toNat
  | _ => 0

/-- the CsvPath as `_consider_line` reads it: the loop's own fields come from the model's loop state, everything else from
    what the matcher last left (`ms`) -/
def recon (ctx : Ctx) (ms : Py.Env) (fl : Flags) : Py.Env := fun k =>
  if k = "self.stopped" then .bool fl.stopped
  else if k = "self.advance_count" then natV fl.advance
  else if k = "self.is_valid" then .bool fl.valid
  else if k = "self._freeze_path" then .bool fl.frozen
  else if k = "self.match_count" then natV fl.matchCount
  else if k = "self.scan_count" then natV ctx.scanCount
  else if k = "self._current_match_count" then natV ctx.curMatchCount
  else ms k

def flagsOf (e : Py.Env) : Flags :=
  { stopped := Py.truthy (e "self.stopped"), advance := toNat (e "self.advance_count"), valid := Py.truthy (e "self.is_valid"),
    frozen := Py.truthy (e "self._freeze_path"), matchCount := toNat (e "self.match_count") }

/-- the matcher of the model, made of the world's `matches` -/
def sem (ext : Py.Ext) : MatcherSem Py.Env where
  eval ctx r ms fl :=
    let out := ext "matches" [lineV r] (recon ctx ms fl)
    (Py.isb out.1 (.bool true), out.2, flagsOf out.2)

/-! ### writes of the loop's own fields keep the environment in `recon` form -/

macro "env_ext" : tactic => `(tactic|
  (funext k; simp only [Py.upd, recon]; repeat' split <;> simp_all))

theorem upd_frozen (ctx : Ctx) (ms : Py.Env) (fl : Flags) (b : Bool) :
    Py.upd (recon ctx ms fl) "self._freeze_path" (.bool b) = recon ctx ms { fl with frozen := b } := by env_ext
theorem upd_stopped (ctx : Ctx) (ms : Py.Env) (fl : Flags) (b : Bool) :
    Py.upd (recon ctx ms fl) "self.stopped" (.bool b) = recon ctx ms { fl with stopped := b } := by env_ext
theorem upd_advance (ctx : Ctx) (ms : Py.Env) (fl : Flags) (n : Nat) :
    Py.upd (recon ctx ms fl) "self.advance_count" (natV n) = recon ctx ms { fl with advance := n } := by env_ext
theorem upd_matchCount (ctx : Ctx) (ms : Py.Env) (fl : Flags) (n : Nat) :
    Py.upd (recon ctx ms fl) "self.match_count" (natV n) = recon ctx ms { fl with matchCount := n } := by env_ext
theorem upd_scanCount (ctx : Ctx) (ms : Py.Env) (fl : Flags) (n : Nat) :
    Py.upd (recon ctx ms fl) "self.scan_count" (natV n) = recon { ctx with scanCount := n } ms fl := by env_ext
theorem upd_curMatchCount (ctx : Ctx) (ms : Py.Env) (fl : Flags) (n : Nat) :
    Py.upd (recon ctx ms fl) "self._current_match_count" (natV n) = recon { ctx with curMatchCount := n } ms fl := by env_ext

/-- the fields `_consider_line` only reads -/
structure ReadOnly (e : Py.Env) (cwnm : Bool) (endIdx : Option Nat) (i : Nat) : Prop where
  cwnm : e "self.collect_when_not_matched" = .bool cwnm
  skipBlank : e "self.skip_blank_lines" = .bool true
  lineNo : e "self.line_monitor.physical_line_number" = natV i
  lineNo' : e "self.line_monitor._physical_line_number" = natV i
  endNo : e "self.line_monitor._physical_end_line_number" = optNatV endIdx

/-- what the bridge assumes of the world: the scanner answers as the scanner model does; `matches` returns a value, leaves
    the loop's two counters and the read-only fields alone, and leaves well-typed values in the five fields a matcher may
    write -/
structure Contract (ext : Py.Ext) (scan : St) (endIdx : Option Nat) (i : Nat) : Prop where
  includes : ∀ e, (ext "includes" [natV i] e).1 = .bool (includes scan i)
  isLast : ∀ e, (ext "is_last" [natV i] e).1 = .bool (isLast scan endIdx i)
  value : ∀ a e, ∃ v, (ext "matches" a e).1 = v ∧ Py.isExc v = false
  scanCount : ∀ a e, (ext "matches" a e).2 "self.scan_count" = e "self.scan_count"
  curMatch : ∀ a e, (ext "matches" a e).2 "self._current_match_count" = e "self._current_match_count"
  stopped : ∀ a e, ∃ b, (ext "matches" a e).2 "self.stopped" = .bool b
  valid : ∀ a e, ∃ b, (ext "matches" a e).2 "self.is_valid" = .bool b
  frozen : ∀ a e, ∃ b, (ext "matches" a e).2 "self._freeze_path" = .bool b
  advance : ∀ a e, ∃ n : Nat, (ext "matches" a e).2 "self.advance_count" = natV n
  matchCount : ∀ a e, ∃ n : Nat, (ext "matches" a e).2 "self.match_count" = natV n
  readOnly : ∀ a e cwnm, ReadOnly e cwnm endIdx i → ReadOnly (ext "matches" a e).2 cwnm endIdx i

/-- after the matcher ran, its environment is again in `recon` form -/
theorem recon_after (ext : Py.Ext) (scan : St) (endIdx : Option Nat) (i : Nat) (hC : Contract ext scan endIdx i)
    (a : List Py.V) (ctx : Ctx) (ms : Py.Env) (fl : Flags) :
    (ext "matches" a (recon ctx ms fl)).2 =
      recon ctx (ext "matches" a (recon ctx ms fl)).2 (flagsOf (ext "matches" a (recon ctx ms fl)).2) := by
  funext k
  obtain ⟨b1, h1⟩ := hC.stopped a (recon ctx ms fl)
  obtain ⟨b2, h2⟩ := hC.valid a (recon ctx ms fl)
  obtain ⟨b3, h3⟩ := hC.frozen a (recon ctx ms fl)
  obtain ⟨n4, h4⟩ := hC.advance a (recon ctx ms fl)
  obtain ⟨n5, h5⟩ := hC.matchCount a (recon ctx ms fl)
  have h6 := hC.scanCount a (recon ctx ms fl)
  have h7 := hC.curMatch a (recon ctx ms fl)
  simp [recon] at h6 h7
  simp only [recon, flagsOf, h1, h2, h3, h4, h5, Py.truthy, toNat, natV, Int.toNat_natCast]
  by_cases e1 : k = "self.stopped"
  · subst e1; simp [h1]
  by_cases e2 : k = "self.advance_count"
  · subst e2; simp [h4, natV]
  by_cases e3 : k = "self.is_valid"
  · subst e3; simp [h2]
  by_cases e4 : k = "self._freeze_path"
  · subst e4; simp [h3]
  by_cases e5 : k = "self.match_count"
  · subst e5; simp [h5, natV]
  by_cases e6 : k = "self.scan_count"
  · subst e6; simp [h6, natV]
  by_cases e7 : k = "self._current_match_count"
  · subst e7; simp [h7, natV]
  simp [e1, e2, e3, e4, e5, e6, e7]

theorem ro_recon (ctx : Ctx) (ms : Py.Env) (fl : Flags) (cwnm : Bool) (endIdx : Option Nat) (i : Nat)
    (h : ReadOnly ms cwnm endIdx i) : ReadOnly (recon ctx ms fl) cwnm endIdx i := by
  obtain ⟨h1, h2, h3, h4, h5⟩ := h
  constructor <;> simp [recon, *]

theorem len_line (r : Rec) : Py.len (lineV r) = .int r.length := rfl

/-- `H.call` of `matches` on an environment in `recon` form -/
theorem call_matches (ext : Py.Ext) (scan : St) (endIdx : Option Nat) (i : Nat) (hC : Contract ext scan endIdx i)
    (r : Rec) (ctx : Ctx) (ms : Py.Env) (fl : Flags) (effs : List Py.Eff) (k : Py.V → Py.Env → List Py.Eff → Py.H.Res) :
    Py.H.call ext "matches" [lineV r] (recon ctx ms fl) effs k =
      k (ext "matches" [lineV r] (recon ctx ms fl)).1
        (recon ctx (ext "matches" [lineV r] (recon ctx ms fl)).2 (flagsOf (ext "matches" [lineV r] (recon ctx ms fl)).2))
        (effs ++ [{ name := "call matches", args := [lineV r] }]) := by
  obtain ⟨v, hv, hne⟩ := hC.value [lineV r] (recon ctx ms fl)
  have hr := recon_after ext scan endIdx i hC [lineV r] ctx ms fl
  have hs : "call " ++ "matches" = "call matches" := by decide
  simp only [lineV] at hr hv ⊢
  simp only [Py.H.call, Py.firstExc, hs]
  rw [← hr, hv]
  cases v <;> simp [Py.isExc] at hne <;> rfl

theorem setattr_eq (path : String) (v : Py.V) (env : Py.Env) (effs : List Py.Eff) (k : Py.Env → List Py.Eff → Py.H.Res)
    (h : Py.isExc v = false) :
    Py.H.setattr path v env effs k = k (Py.upd env path v) (effs ++ [{ name := "set " ++ path, args := [v] }]) := by
  cases v <;> simp [Py.isExc] at h <;> rfl

theorem setattr_bool (path : String) (b : Bool) (env : Py.Env) (effs : List Py.Eff) (k : Py.Env → List Py.Eff → Py.H.Res) :
    Py.H.setattr path (.bool b) env effs k = k (Py.upd env path (.bool b)) (effs ++ [{ name := "set " ++ path, args := [.bool b] }]) := rfl
theorem setattr_nat (path : String) (n : Nat) (env : Py.Env) (effs : List Py.Eff) (k : Py.Env → List Py.Eff → Py.H.Res) :
    Py.H.setattr path (natV n) env effs k = k (Py.upd env path (natV n)) (effs ++ [{ name := "set " ++ path, args := [natV n] }]) := rfl

/-- the environment of the model's loop state -/
def envOf (endIdx : Option Nat) (i : Nat) (st : LoopSt Py.Env) : Py.Env := recon (mkCtx i endIdx false st) st.ms st.fl

theorem add_one (n : Nat) : Py.add (natV n) (Py.V.int 1) = natV (n + 1) := by
  simp [Py.add, Py.strict2, Py.num?, natV]
theorem sub_one (n : Nat) (h : 0 < n) : Py.sub (natV n) (Py.V.int 1) = natV (n - 1) := by
  simp [Py.sub, Py.strict2, Py.num?, natV]; omega
theorem gt_zero (n : Nat) : Py.gt (natV n) (Py.V.int 0) = .bool (decide (0 < n)) := by
  simp [Py.gt, Py.cmp, Py.strict2, Py.num?, natV]
theorem eq_nat (a b : Nat) : Py.eq (natV a) (natV b) = .bool (a == b) := by
  simp only [Py.eq, Py.strict2, Py.eqb, Py.num?, natV]
  congr 1
  rw [Bool.eq_iff_iff]; simp; omega

theorem cond_bool (b : Bool) (env : Py.Env) (effs : List Py.Eff) (x y : Py.H.Res) :
    Py.H.cond (.bool b) env effs x y = if b = true then x else y := by cases b <;> rfl
theorem letv_ok (v : Py.V) (env : Py.Env) (effs : List Py.Eff) (k : Py.V → Py.H.Res) (h : Py.isExc v = false) :
    Py.H.letv v env effs k = k v := by cases v <;> simp [Py.isExc] at h <;> rfl
theorem oracle1 (ext : Py.Ext) (name : String) (n : Nat) (env : Py.Env) :
    Py.H.oracle ext name [natV n] env = (ext name [natV n] env).1 := rfl

theorem isExc_natV (n : Nat) : Py.isExc (natV n) = false := rfl
theorem isExc_bool (b : Bool) : Py.isExc (Py.V.bool b) = false := rfl

theorem rd_scan (ctx : Ctx) (ms : Py.Env) (fl : Flags) : recon ctx ms fl "self.scan_count" = natV ctx.scanCount := by simp [recon]
theorem rd_cur (ctx : Ctx) (ms : Py.Env) (fl : Flags) : recon ctx ms fl "self._current_match_count" = natV ctx.curMatchCount := by
  simp [recon]
theorem rd_mc (ctx : Ctx) (ms : Py.Env) (fl : Flags) : recon ctx ms fl "self.match_count" = natV fl.matchCount := by simp [recon]
theorem rd_adv (ctx : Ctx) (ms : Py.Env) (fl : Flags) : recon ctx ms fl "self.advance_count" = natV fl.advance := by simp [recon]
theorem rd_ms (ctx : Ctx) (ms : Py.Env) (fl : Flags) (k : String) (h1 : k ≠ "self.stopped") (h2 : k ≠ "self.advance_count")
    (h3 : k ≠ "self.is_valid") (h4 : k ≠ "self._freeze_path") (h5 : k ≠ "self.match_count") (h6 : k ≠ "self.scan_count")
    (h7 : k ≠ "self._current_match_count") : recon ctx ms fl k = ms k := by simp [recon, *]

/-- what a run of a translated method returned and left behind (the effect log aside) -/
def okVE : Py.H.Res → Option (Py.V × Py.Env)
  | .ok v e _ => some (v, e)
  | .raised _ _ _ => Option.none

theorem is_true (v : Py.V) (h : Py.isExc v = false) : Py.is_ v (.bool true) = .bool (Py.isb v (.bool true)) := by
  cases v <;> simp [Py.isExc] at h <;> rfl

theorem ro_after (ext : Py.Ext) (scan : St) (endIdx : Option Nat) (i : Nat) (hC : Contract ext scan endIdx i) (cwnm : Bool)
    (a : List Py.V) (ctx : Ctx) (ms : Py.Env) (fl : Flags) (h : ReadOnly ms cwnm endIdx i) :
    ReadOnly (ext "matches" a (recon ctx ms fl)).2 cwnm endIdx i :=
  hC.readOnly _ _ cwnm (ro_recon ctx ms fl cwnm endIdx i h)

theorem call_matches' (ext : Py.Ext) (scan : St) (endIdx : Option Nat) (i : Nat) (hC : Contract ext scan endIdx i)
    (x : String) (xs : List String) (ctx : Ctx) (ms : Py.Env) (fl : Flags) (effs : List Py.Eff)
    (k : Py.V → Py.Env → List Py.Eff → Py.H.Res) :
    Py.H.call ext "matches" [Py.V.strs (x :: xs)] (recon ctx ms fl) effs k =
      k (ext "matches" [lineV (x :: xs)] (recon ctx ms fl)).1
        (recon ctx (ext "matches" [lineV (x :: xs)] (recon ctx ms fl)).2 (flagsOf (ext "matches" [lineV (x :: xs)] (recon ctx ms fl)).2))
        (effs ++ [{ name := "call matches", args := [lineV (x :: xs)] }]) :=
  call_matches ext scan endIdx i hC (x :: xs) ctx ms fl effs k

theorem call_matches_nil (ext : Py.Ext) (scan : St) (endIdx : Option Nat) (i : Nat) (hC : Contract ext scan endIdx i)
    (ctx : Ctx) (ms : Py.Env) (fl : Flags) (effs : List Py.Eff) (k : Py.V → Py.Env → List Py.Eff → Py.H.Res) :
    Py.H.call ext "matches" [Py.V.strs []] (recon ctx ms fl) effs k =
      k (ext "matches" [lineV []] (recon ctx ms fl)).1
        (recon ctx (ext "matches" [lineV []] (recon ctx ms fl)).2 (flagsOf (ext "matches" [lineV []] (recon ctx ms fl)).2))
        (effs ++ [{ name := "call matches", args := [lineV []] }]) :=
  call_matches ext scan endIdx i hC [] ctx ms fl effs k

/-! simp's normal form pushes casts inward (`↑(n + 1)` becomes `↑n + 1`): the writes the loop makes are stated in that form -/
theorem setattr_int (path : String) (z : Int) (env : Py.Env) (effs : List Py.Eff) (k : Py.Env → List Py.Eff → Py.H.Res) :
    Py.H.setattr path (.int z) env effs k = k (Py.upd env path (.int z)) (effs ++ [{ name := "set " ++ path, args := [.int z] }]) := rfl
theorem upd_scanCount_succ (ctx : Ctx) (ms : Py.Env) (fl : Flags) (n : Nat) :
    Py.upd (recon ctx ms fl) "self.scan_count" (.int (↑n + 1)) = recon { ctx with scanCount := n + 1 } ms fl := by
  have := upd_scanCount ctx ms fl (n + 1); simpa [natV] using this
theorem upd_matchCount_succ (ctx : Ctx) (ms : Py.Env) (fl : Flags) (n : Nat) :
    Py.upd (recon ctx ms fl) "self.match_count" (.int (↑n + 1)) = recon ctx ms { fl with matchCount := n + 1 } := by
  have := upd_matchCount ctx ms fl (n + 1); simpa [natV] using this
theorem upd_advance_pred (ctx : Ctx) (ms : Py.Env) (fl : Flags) (n : Nat) (h : 0 < n) :
    Py.upd (recon ctx ms fl) "self.advance_count" (.int (↑n - 1)) = recon ctx ms { fl with advance := n - 1 } := by
  have := upd_advance ctx ms fl (n - 1)
  have hc : ((n - 1 : Nat) : Int) = (n : Int) - 1 := by omega
  simpa [natV, hc] using this

/-- `recon` does not look at the `blankLast` mark of the context -/
theorem recon_bl (i : Nat) (e : Option Nat) (sc cm : Nat) (dc dn : Int) (ms : Py.Env) (fl : Flags) :
    recon { idx := i, endIdx := e, blankLast := true, scanCount := sc, curMatchCount := cm, dataCount := dc, dataNumber := dn } ms fl =
    recon { idx := i, endIdx := e, blankLast := false, scanCount := sc, curMatchCount := cm, dataCount := dc, dataNumber := dn } ms fl :=
  rfl

/-- evaluation of a translated core on an environment in `recon` form: the generated definitions (`py_core`, whatever helpers
    the source has), the prelude, the heap combinators, reads and writes of the loop's fields, and the model's definitions -/
macro "cl_norm" : tactic => `(tactic|
  simp [py_core, py_norm, Py.len, lineV, optNatV,
    rd_scan, rd_cur, rd_mc, rd_adv, cond_bool, letv_ok, setattr_bool, setattr_int, isExc_natV,
    isExc_bool, upd_scanCount, upd_curMatchCount, upd_advance, upd_stopped, upd_matchCount, upd_frozen,
    upd_scanCount_succ, upd_matchCount_succ, upd_advance_pred, oracle1,
    Py.H.bind, Py.H.ret, Py.H.val, Py.H.letv, Py.H.cond, okVE, Py.isExc,
    conclude, advanceOrMatch, markStop, offer, decAdvance, callMatcher, raiseMatchCountIf, freeze, sem, mkCtx, decide?, recon_bl, Int.natCast_inj, *])

set_option maxHeartbeats 4000000 in
/-- **Bridge (T)**: on the environment of a loop state, the translated `_consider_line` returns the model's verdict and leaves
    the environment of the model's next loop state — for every scan part, return mode, record, line number and every matcher
    that keeps `Contract`.  The proof splits on the model's own case distinctions and evaluates the generated code in each
    (simp sets `py_core`, `py_norm`), so it does not depend on how the source arranges its helpers. -/
theorem consider_line_bridge (ext : Py.Ext) (scan : St) (cwnm : Bool) (endIdx : Option Nat) (i : Nat) (r : Rec)
    (st : LoopSt Py.Env) (effs : List Py.Eff) (hC : Contract ext scan endIdx i) (hro : ReadOnly st.ms cwnm endIdx i) :
    okVE (Generated.ConsiderLine.CsvPath._consider_line ext (envOf endIdx i st) (lineV r) effs) =
        some (.bool (considerLine (sem ext) scan cwnm endIdx i r st).1,
              envOf endIdx i (considerLine (sem ext) scan cwnm endIdx i r st).2) ∧
      ReadOnly (considerLine (sem ext) scan cwnm endIdx i r st).2.ms cwnm endIdx i := by
  -- what the method only reads, on any environment built over `st.ms`
  have r1 : ∀ c f, recon c st.ms f "self.skip_blank_lines" = .bool true := fun c f => by
    rw [rd_ms] <;> first | exact hro.skipBlank | decide
  have r2 : ∀ c f, recon c st.ms f "self.collect_when_not_matched" = .bool cwnm := fun c f => by
    rw [rd_ms] <;> first | exact hro.cwnm | decide
  have r3 : ∀ c f, recon c st.ms f "self.line_monitor.physical_line_number" = natV i := fun c f => by
    rw [rd_ms] <;> first | exact hro.lineNo | decide
  have r4 : ∀ c f, recon c st.ms f "self.line_monitor._physical_line_number" = natV i := fun c f => by
    rw [rd_ms] <;> first | exact hro.lineNo' | decide
  have r5 : ∀ c f, recon c st.ms f "self.line_monitor._physical_end_line_number" = optNatV endIdx := fun c f => by
    rw [rd_ms] <;> first | exact hro.endNo | decide
  have hinc' := hC.includes
  have hlast := hC.isLast
  have hcm := call_matches' ext scan endIdx i hC
  have hcn := call_matches_nil ext scan endIdx i hC
  simp only [envOf, considerLine, considerCore, markStop]
  generalize isLast scan endIdx i = L at hlast ⊢
  -- is this the file's last line?  three cases for `endIdx`: none, this line, another line
  have key : endIdx = Option.none ∨ endIdx = some i ∨ ∃ e, endIdx = some e ∧ ¬ e = i := by
    rcases endIdx with _ | e
    · exact Or.inl rfl
    · by_cases he : e = i
      · exact Or.inr (Or.inl (by rw [he]))
      · exact Or.inr (Or.inr ⟨e, rfl, he⟩)
  cases r with
  | nil =>
    have hroO := ro_after ext scan endIdx i hC cwnm [lineV []] (mkCtx i endIdx true (freeze st)) st.ms (freeze st).fl hro
    rcases key with h | h | ⟨e, h, he⟩ <;> subst h <;> refine ⟨?_, ?_⟩
    all_goals cl_norm
    all_goals first | exact hro | (simp [mkCtx, freeze, lineV, recon_bl] at hroO; exact hroO)
  | cons x xs =>
    have hne : (((xs.length : Int) + 1) == 0) = false := by rw [beq_eq_false_iff_ne]; omega
    by_cases hinc : includes scan i = true
    · by_cases hadv : 0 < st.fl.advance
      · rcases key with h | h | ⟨e, h, he⟩ <;> subst h <;> refine ⟨?_, ?_⟩
        all_goals cases L <;> cases cwnm <;> cl_norm
        all_goals exact hro
      · -- the matcher runs
        have hadv0 : st.fl.advance = 0 := by omega
        obtain ⟨v, hv, hnv⟩ := hC.value [lineV (x :: xs)]
          (recon { idx := i, endIdx := endIdx, blankLast := false, scanCount := st.scanCount + 1,
                   curMatchCount := st.fl.matchCount, dataCount := st.dataCount, dataNumber := st.dataNumber } st.ms st.fl)
        have hroO := ro_after ext scan endIdx i hC cwnm [lineV (x :: xs)]
          { idx := i, endIdx := endIdx, blankLast := false, scanCount := st.scanCount + 1,
            curMatchCount := st.fl.matchCount, dataCount := st.dataCount, dataNumber := st.dataNumber } st.ms st.fl hro
        simp only [lineV] at hv hroO
        rcases key with h | h | ⟨e, h, he⟩ <;> subst h <;> refine ⟨?_, ?_⟩
        all_goals
          cl_norm
          generalize ext "matches" _ _ = out at hv hroO ⊢
          obtain ⟨v', ms'⟩ := out
          simp only at hv hroO
          subst hv
          have hl3 : ∀ c f, recon c ms' f "self.line_monitor.physical_line_number" = natV i := fun c f => by
            rw [rd_ms] <;> first | exact hroO.lineNo | decide
          have hc3 : ∀ c f, recon c ms' f "self.collect_when_not_matched" = .bool cwnm := fun c f => by
            rw [rd_ms] <;> first | exact hroO.cwnm | decide
          by_cases hmc : st.fl.matchCount = (flagsOf ms').matchCount <;> cases L <;> cases cwnm <;>
            rcases v' with _ | ⟨_ | _⟩ | _ | _ | _ | _ | _ <;> simp [Py.isExc] at hnv <;> cl_norm
        all_goals exact hroO
    · rcases key with h | h | ⟨e, h, he⟩ <;> subst h <;> refine ⟨?_, ?_⟩
      all_goals cl_norm
      all_goals exact hro

end Proofs.BridgeConsiderLine
