import Model.Print
import Spec.Print
/-! Lemmas for C16: the character-level scanner inverts `source` on well-formed chunk lists. -/
namespace Proofs.Print
open Model.Print Spec.Print

theorem go_skip (resolve : Ref → Option (List Char)) (pre rest : List Char) :
    go resolve pre.length (pre ++ rest) = go resolve 0 rest := by
  induction pre with
  | nil => rfl
  | cons c pre ih =>
    cases h : pre ++ rest with
    | nil =>
      have : rest = [] := by
        cases pre <;> simp_all
      simp [go, this] at ih ⊢
      cases pre <;> simp_all [go]
    | cons d ds => simpa [go, h] using ih

theorem plain_not_dollar {c : Char} (h : plain c = true) : (c == '$') = false := by
  unfold plain at h
  cases hc : c == '$' <;> simp_all

theorem plain_ok {c : Char} (h : plain c = true) : (isWS c || isText c) = true := by
  unfold plain at h
  unfold isText
  cases h1 : (c != '$') <;> cases h2 : Model.PyStr.isSpace c <;> cases h3 : isWS c <;> simp_all

theorem go_plain_char (resolve : Ref → Option (List Char)) (c : Char) (w : List Char) (h : plain c = true) :
    go resolve 0 (c :: w) = (go resolve 0 w).map (c :: ·) := by
  simp [go, plain_not_dollar h, plain_ok h]

theorem go_plain (resolve : Ref → Option (List Char)) (s w : List Char) (h : ∀ c ∈ s, plain c = true) :
    go resolve 0 (s ++ w) = (go resolve 0 w).map (s ++ ·) := by
  induction s with
  | nil => simp
  | cons c s ih =>
    have hc := h c (by simp)
    have hs : ∀ d ∈ s, plain d = true := fun d hd => h d (by simp [hd])
    rw [List.cons_append, go_plain_char resolve c _ hc, ih hs]
    cases go resolve 0 w <;> simp

theorem tw_app (p : Char → Bool) (s r : List Char) (x : Char) (hs : ∀ c ∈ s, p c = true) (hx : p x = false) :
    (s ++ x :: r).takeWhile p = s ∧ (s ++ x :: r).dropWhile p = x :: r := by
  induction s with
  | nil => simp [hx]
  | cons c s ih =>
    have hc := hs c (by simp)
    have := ih (fun d hd => hs d (by simp [hd]))
    simp [hc, this]

/-- may `x` directly follow the written name? -/
def follows (n : NameForm) (x : Char) : Prop :=
  match n with
  | .simple _ => isSimple x = false
  | .quoted _ => True

theorem quote_not_simple : isSimple '\'' = false := by decide
theorem dot_not_simple : isSimple '.' = false := by decide
theorem blank_not_simple : isSimple ' ' = false := by decide

theorem parseName_write (n : NameForm) (x : Char) (r : List Char) (hn : WFName n) (hx : follows n x) :
    parseName (writeName n ++ x :: r) = some (writeName n, unquoted n, x :: r) := by
  cases n with
  | simple s =>
    obtain ⟨hne, hall⟩ := hn
    cases s with
    | nil => exact absurd rfl hne
    | cons a s' =>
      have ha : isSimple a = true := hall a (by simp)
      have haq : a ≠ '\'' := by
        intro h; rw [h, quote_not_simple] at ha; exact Bool.noConfusion ha
      have hx' : isSimple x = false := hx
      have tw := tw_app isSimple (a :: s') r x hall hx'
      simp only [List.cons_append] at tw
      simp only [writeName, unquoted]
      unfold parseName
      split
      · rename_i cs heq
        simp at heq
        exact absurd heq.1 haq
      · simp [tw.1, tw.2]
  | quoted s =>
    obtain ⟨hne, hall⟩ := hn
    have hp : ∀ c ∈ s, (c != '\'') = true := fun c hc => by simpa using hall c hc
    have tw := tw_app (· != '\'') s (x :: r) '\'' hp (by decide)
    simp only [writeName, unquoted, List.cons_append, List.append_assoc, List.nil_append]
    unfold parseName
    simp only [tw.1, tw.2]
    cases s with
    | nil => exact absurd rfl hne
    | cons a s' => simp

theorem writeName_head_not_dot (n : NameForm) (hn : WFName n) : ∃ a as, writeName n = a :: as ∧ a ≠ '.' := by
  cases n with
  | simple s =>
    obtain ⟨hne, hall⟩ := hn
    cases s with
    | nil => exact absurd rfl hne
    | cons a s' =>
      refine ⟨a, s', rfl, ?_⟩
      intro h
      have := hall a (by simp)
      rw [h, dot_not_simple] at this
      exact Bool.noConfusion this
  | quoted s => exact ⟨'\'', s ++ ['\''], rfl, by decide⟩

theorem typeOf_write (t : DType) (r : List Char) : typeOf (typeName t ++ r) = some (t, r) := by
  cases t <;> rfl

/-- the body of a written reference (after the `$`) -/
def body (r : RefW) : List Char :=
  '.' :: typeName r.dtype ++ '.' :: writeName r.name ++
    (match r.tracking with | some t => '.' :: writeName t | none => [])

theorem writeRef_eq (r : RefW) : writeRef r = '$' :: body r := rfl

/-- a sentinel as written and as printed -/
inductive Sent : List Char → List Char → Prop
  | dots : Sent ['.', '.'] ['.']
  | char (c : Char) (h : c ≠ '.') : Sent [c] [c]

theorem parseSentinel_sent (w p rest : List Char) (h : Sent w p) : parseSentinel (w ++ rest) = some (p, rest) := by
  cases h with
  | dots => rfl
  | char c hc =>
    simp only [List.cons_append, List.nil_append]
    unfold parseSentinel
    split <;> simp_all

theorem parseRef_write (r : RefW) (hr : WFRef r) (w p rest : List Char) (hs : Sent w p)
    (hf : ∀ c, w.head? = some c → follows (lastName r) c) :
    parseRef (body r ++ w ++ rest) = some (refOf r, p, rest) := by
  obtain ⟨hn, ht⟩ := hr
  have hroot : ∀ l : List Char, ('.' :: l).takeWhile (fun c => c != '.' && c != '$') = [] ∧
      ('.' :: l).dropWhile (fun c => c != '.' && c != '$') = '.' :: l := by
    intro l; simp [List.takeWhile, List.dropWhile]
  unfold parseRef
  cases htr : r.tracking with
  | none =>
    have hb : body r ++ w ++ rest = '.' :: (typeName r.dtype ++ '.' :: (writeName r.name ++ (w ++ rest))) := by
      simp [body, htr]
    rw [hb]
    simp only [(hroot _).1, (hroot _).2, typeOf_write]
    have hl : lastName r = r.name := by simp [lastName, htr]
    cases hs with
    | dots =>
      have hfol : follows r.name '.' := by
        have := hf '.' rfl; rwa [hl] at this
      simp only [List.cons_append, List.nil_append]
      rw [parseName_write r.name '.' _ hn hfol]
      simp [refOf, htr]
    | char c hc =>
      have hfol : follows r.name c := by
        have := hf c rfl; rwa [hl] at this
      simp only [List.cons_append, List.nil_append]
      rw [parseName_write r.name c _ hn hfol]
      simp only
      split
      · rename_i heq; simp at heq; exact absurd heq.1 hc
      · rename_i heq; simp at heq; exact absurd heq.1 hc
      · have hp := parseSentinel_sent [c] [c] rest (Sent.char c hc)
        simp only [List.cons_append, List.nil_append] at hp
        rw [hp]
        simp [refOf, htr]
  | some t =>
    have hwt := ht t htr
    have hb : body r ++ w ++ rest =
        '.' :: (typeName r.dtype ++ '.' :: (writeName r.name ++ '.' :: (writeName t ++ (w ++ rest)))) := by
      simp [body, htr]
    rw [hb]
    simp only [(hroot _).1, (hroot _).2, typeOf_write]
    have hfoldot : follows r.name '.' := by
      unfold follows; cases r.name <;> simp [dot_not_simple]
    rw [parseName_write r.name '.' _ hn hfoldot]
    obtain ⟨a, as, hwa, hane⟩ := writeName_head_not_dot t hwt
    have hl : lastName r = t := by simp [lastName, htr]
    -- the first character of the tracking name is not a dot, so this is not the `..` sentinel
    have hw : ∃ c tl, w = c :: tl := by cases hs <;> simp
    obtain ⟨c, tl, hwc⟩ := hw
    have hfol : follows t c := by
      have := hf c (by simp [hwc]); rwa [hl] at this
    have step : parseName (writeName t ++ (w ++ rest)) = some (writeName t, unquoted t, w ++ rest) := by
      rw [hwc]; exact parseName_write t c _ hwt hfol
    simp only
    rw [hwa] at step ⊢
    simp only [List.cons_append]
    split
    · rename_i heq; simp at heq; exact absurd heq.1 hane
    · rename_i r4 hne heq
      simp at heq
      subst heq
      simp only [List.cons_append] at step
      rw [step]
      simp only
      rw [parseSentinel_sent w p rest hs]
      simp [refOf, htr, hwa]
    · rename_i hne1 hne2
      exact absurd rfl (hne2 _)

end Proofs.Print
