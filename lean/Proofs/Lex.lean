import Model.Match
import Spec.Match
/-! Lemmas for C17, character level: the lexer reads back the tokens of every admissible layout. -/
namespace Proofs.Lex
open Model.Match Spec.Match

theorem lexGo_skip (pre rest : List Char) : lexGo pre.length (pre ++ rest) = lexGo 0 rest := by
  induction pre with
  | nil => rfl
  | cons c pre ih => simpa [lexGo] using ih

theorem lexGo_ws (gap rest : List Char) (h : ∀ c ∈ gap, isWS c = true) : lexGo 0 (gap ++ rest) = lexGo 0 rest := by
  induction gap with
  | nil => rfl
  | cons c gap ih =>
    have hc := h c (by simp)
    simp [lexGo, hc, ih (fun d hd => h d (by simp [hd]))]

/-- one token: if `tokenAt` reads `t` from the text `c :: tl`, the lexer emits `t` and goes on after it -/
theorem lexGo_tok (c : Char) (tl rest : List Char) (t : Tok) (hw : isWS c = false)
    (h : tokenAt c (tl ++ rest) = some (t, tl.length)) :
    lexGo 0 (c :: tl ++ rest) = (lexGo 0 rest).map (t :: ·) := by
  simp [lexGo, hw, h, lexGo_skip]

theorem tw_app (p : Char → Bool) (s r : List Char) (hs : ∀ c ∈ s, p c = true) (hr : ∀ c, r.head? = some c → p c = false) :
    (s ++ r).takeWhile p = s ∧ (s ++ r).dropWhile p = r := by
  induction s with
  | nil =>
    cases r with
    | nil => simp
    | cons x r => simp [hr x rfl]
  | cons c s ih =>
    have hc := hs c (by simp)
    have := ih (fun d hd => hs d (by simp [hd]))
    simp [hc, this]

/-! ### fixed tokens -/

theorem tok_lb (rest : List Char) : tokenAt '[' ([] ++ rest) = some (.lb, ([] : List Char).length) := by simp [tokenAt]
theorem tok_rb (rest : List Char) : tokenAt ']' ([] ++ rest) = some (.rb, ([] : List Char).length) := by simp [tokenAt]
theorem tok_lp (rest : List Char) : tokenAt '(' ([] ++ rest) = some (.lp, ([] : List Char).length) := by simp [tokenAt]
theorem tok_rp (rest : List Char) : tokenAt ')' ([] ++ rest) = some (.rp, ([] : List Char).length) := by simp [tokenAt]
theorem tok_comma (rest : List Char) : tokenAt ',' ([] ++ rest) = some (.comma, ([] : List Char).length) := by simp [tokenAt]
theorem tok_equals (rest : List Char) : tokenAt '=' (['='] ++ rest) = some (.equals, ['='].length) := by simp [tokenAt]
theorem tok_when (rest : List Char) : tokenAt '-' (['>'] ++ rest) = some (.when_, ['>'].length) := by simp [tokenAt]

theorem tok_assign (rest : List Char) (h : ∀ c, rest.head? = some c → (c == '=') = false) :
    tokenAt '=' ([] ++ rest) = some (.assign, ([] : List Char).length) := by
  cases rest with
  | nil => simp [tokenAt]
  | cons x r =>
    have := h x rfl
    have hx : x ≠ '=' := by simpa using this
    simp [tokenAt, hx]

/-! ### delimited tokens -/

theorem tok_str (s rest : List Char) (h : ∀ c ∈ s, c ≠ '"') :
    tokenAt '"' ((s ++ ['"']) ++ rest) = some (.str s, (s ++ ['"']).length) := by
  have hp : ∀ c ∈ s, (c != '"') = true := fun c hc => by simpa using h c hc
  have tw := tw_app (· != '"') s ('"' :: rest) hp (by intro c hc; simp at hc; subst hc; rfl)
  simp only [List.append_assoc, List.singleton_append]
  simp [tokenAt, tw.1, tw.2]

theorem tok_comment (b rest : List Char) (h : ∀ c ∈ b, c ≠ '~') :
    tokenAt '~' ((b ++ ['~']) ++ rest) = some (.comment, (b ++ ['~']).length) := by
  have hp : ∀ c ∈ b, (c != '~') = true := fun c hc => by simpa using h c hc
  have tw := tw_app (· != '~') b ('~' :: rest) hp (by intro c hc; simp at hc; subst hc; rfl)
  simp only [List.append_assoc, List.singleton_append]
  simp [tokenAt, tw.1, tw.2]

/-! ### names -/

theorem tok_variable (s rest : List Char) (hne : s ≠ []) (hs : ∀ c ∈ s, nameCh c = true)
    (hr : ∀ c, rest.head? = some c → nameCh c = false) :
    tokenAt '@' (s ++ rest) = some (.variable s, s.length) := by
  have tw := tw_app nameCh s rest hs hr
  cases s with
  | nil => exact absurd rfl hne
  | cons a s' =>
    simp only [List.cons_append] at tw ⊢
    simp [tokenAt, tw.1]

theorem tok_reference (s rest : List Char) (hne : s ≠ []) (hs : ∀ c ∈ s, nameCh c = true)
    (hr : ∀ c, rest.head? = some c → nameCh c = false) :
    tokenAt '$' (s ++ rest) = some (.reference s, s.length) := by
  have tw := tw_app nameCh s rest hs hr
  cases s with
  | nil => exact absurd rfl hne
  | cons a s' =>
    simp only [List.cons_append] at tw ⊢
    simp [tokenAt, tw.1]

theorem quote_not_name : nameCh '"' = false := by decide

theorem tok_header_simple (s rest : List Char) (hne : s ≠ []) (hs : ∀ c ∈ s, nameCh c = true)
    (hr : ∀ c, rest.head? = some c → nameCh c = false) :
    tokenAt '#' (s ++ rest) = some (.header s, s.length) := by
  have tw := tw_app nameCh s rest hs hr
  cases s with
  | nil => exact absurd rfl hne
  | cons a s' =>
    have ha : a ≠ '"' := by
      intro e; have := hs a (by simp); rw [e, quote_not_name] at this; exact Bool.noConfusion this
    simp only [tokenAt]
    simp only [List.cons_append] at tw ⊢
    simp [ha, tw.1]

theorem quote_not_qh : qhCh '"' = false := by decide

theorem tok_header_quoted (b rest : List Char) (hne : b ≠ []) (hb : ∀ c ∈ b, qhCh c = true) :
    tokenAt '#' (('"' :: b ++ ['"']) ++ rest) = some (.header ('"' :: b ++ ['"']), ('"' :: b ++ ['"']).length) := by
  have tw := tw_app qhCh b ('"' :: rest) hb (by intro c hc; simp at hc; subst hc; exact quote_not_qh)
  cases b with
  | nil => exact absurd rfl hne
  | cons a b' =>
    simp only [List.cons_append, List.append_assoc, List.nil_append] at tw ⊢
    simp [tokenAt, tw.1, tw.2]

theorem alpha_ne (c x : Char) (hc : c.isAlpha = true) (hx : x.isAlpha = false) : (c == x) = false := by
  cases h : c == x with
  | false => rfl
  | true =>
    have := eq_of_beq h
    subst this
    rw [hx] at hc
    exact Bool.noConfusion hc

theorem alpha_not_digit (c : Char) (hc : c.isAlpha = true) : isDigit c = false := by
  unfold isDigit
  cases hd : c.isDigit with
  | false => rfl
  | true =>
    exfalso
    simp only [Char.isDigit, Char.isAlpha, Char.isUpper, Char.isLower, Bool.and_eq_true, Bool.or_eq_true,
      decide_eq_true_eq, ge_iff_le, UInt32.le_iff_toNat_le] at hc hd
    have e0 : ('0' : Char).val.toNat = 48 := rfl
    have e9 : ('9' : Char).val.toNat = 57 := rfl
    have eA : ('A' : Char).val.toNat = 65 := rfl
    have eZ : ('Z' : Char).val.toNat = 90 := rfl
    have ea : ('a' : Char).val.toNat = 97 := rfl
    have ez : ('z' : Char).val.toNat = 122 := rfl
    omega

theorem alpha_not_ws (c : Char) (hc : c.isAlpha = true) : isWS c = false := by
  simp only [isWS, Bool.or_eq_false_iff]
  refine ⟨⟨⟨⟨?_, ?_⟩, ?_⟩, ?_⟩, ?_⟩ <;> exact alpha_ne c _ hc (by decide)

theorem tok_fname (c : Char) (r rest : List Char) (hc : c.isAlpha = true) (hs : ∀ d ∈ r, nameCh d = true)
    (hr : ∀ d, rest.head? = some d → nameCh d = false) :
    tokenAt c (r ++ rest) = some (.fname (c :: r), r.length) := by
  have tw := tw_app nameCh r rest hs hr
  have n1 := alpha_ne c '[' hc (by decide)
  have n2 := alpha_ne c ']' hc (by decide)
  have n3 := alpha_ne c '(' hc (by decide)
  have n4 := alpha_ne c ')' hc (by decide)
  have n5 := alpha_ne c ',' hc (by decide)
  have n6 := alpha_ne c '=' hc (by decide)
  have n7 := alpha_ne c '"' hc (by decide)
  have n8 := alpha_ne c '~' hc (by decide)
  have n9 := alpha_ne c '#' hc (by decide)
  have n10 := alpha_ne c '@' hc (by decide)
  have n11 := alpha_ne c '$' hc (by decide)
  have n12 := alpha_ne c '/' hc (by decide)
  have n13 := alpha_ne c '-' hc (by decide)
  have n14 := alpha_ne c '+' hc (by decide)
  have n15 := alpha_ne c '.' hc (by decide)
  have nd := alpha_not_digit c hc
  simp [tokenAt, n1, n2, n3, n4, n5, n6, n7, n8, n9, n10, n11, n12, n13, n14, n15, nd, hc, tw.1]

/-! ### regex terms -/

theorem take_len_succ (b : List Char) (x : Char) (rest : List Char) :
    List.take (b.length + 1) (b ++ x :: rest) = b ++ [x] := by
  induction b with
  | nil => simp
  | cons c b ih => simpa using ih

theorem take_len (b rest : List Char) : List.take b.length (b ++ rest) = b := by
  induction b with
  | nil => simp
  | cons c b ih => simpa using ih

theorem reInner_cons (f : Nat) (c : Char) (cs : List Char) (h1 : c ≠ '/') (h2 : c ≠ '\\') :
    reInner (f + 1) (c :: cs) = (reInner f cs).map (· + 1) := by
  conv => lhs; unfold reInner
  split <;> simp_all

theorem reInner_plain : (b : List Char) → (f : Nat) → (rest : List Char) →
    (∀ c ∈ b, c ≠ '/' ∧ c ≠ '\\') → b.length + 1 ≤ f → reInner f (b ++ '/' :: rest) = some (b.length + 1)
  | [], f, rest, _, hf => by
    obtain ⟨f', rfl⟩ : ∃ f', f = f' + 1 := ⟨f - 1, by simp at hf; omega⟩
    simp [reInner]
  | c :: b, f, rest, h, hf => by
    obtain ⟨f', rfl⟩ : ∃ f', f = f' + 1 := ⟨f - 1, by simp at hf; omega⟩
    have hc := h c (by simp)
    have ih := reInner_plain b f' rest (fun d hd => h d (by simp [hd])) (by simp at hf; omega)
    simp only [List.cons_append]
    rw [reInner_cons f' c _ hc.1 hc.2, ih]
    simp

theorem tok_regex (b rest : List Char) (h : ∀ c ∈ b, c ≠ '/' ∧ c ≠ '\\') :
    tokenAt '/' ((b ++ ['/']) ++ rest) = some (.regex ('/' :: b ++ ['/']), (b ++ ['/']).length) := by
  have hr := reInner_plain b (b.length + (rest.length + 1) + 1) rest h (by omega)
  have ht : List.take (b.length + 1) (b ++ '/' :: rest) = b ++ ['/'] := take_len_succ b '/' rest
  simp only [List.append_assoc, List.singleton_append]
  simp [tokenAt, hr, ht]

/-! ### numbers -/

theorem name_of_digit (c : Char) (h : isDigit c = true) : nameCh c = true := by
  simp only [isDigit] at h
  simp [nameCh, Char.isAlphanum, h]

theorem dot_not_digit : isDigit '.' = false := by decide

/-- what cannot follow a number written without a gap -/
def NoRun (rest : List Char) : Prop := ∀ c, rest.head? = some c → nameCh c = false

theorem norun_digit (rest : List Char) (h : NoRun rest) : ∀ c, rest.head? = some c → isDigit c = false := by
  intro c hc
  cases hd : isDigit c with
  | false => rfl
  | true => have := name_of_digit c hd; rw [h c hc] at this; exact Bool.noConfusion this

theorem expLen_zero (rest : List Char) (h : NoRun rest) : expLen rest = 0 := by
  cases rest with
  | nil => rfl
  | cons e cs =>
    have he := h e rfl
    have h1 : (e == 'e') = false := by
      cases hh : e == 'e' with
      | false => rfl
      | true => have := eq_of_beq hh; subst this; exact absurd he (by decide)
    have h2 : (e == 'E') = false := by
      cases hh : e == 'E' with
      | false => rfl
      | true => have := eq_of_beq hh; subst this; exact absurd he (by decide)
    simp [expLen, h1, h2]

theorem norun_not_dot (rest : List Char) (h : NoRun rest) : ∀ r2, rest ≠ '.' :: r2 := by
  intro r2 e
  have := h '.' (by simp [e])
  exact absurd this (by decide)

theorem numLen_unsigned (s rest : List Char) (hs : WFUnsigned s) (hr : NoRun rest) :
    numLen (s ++ rest) = s.length := by
  have hrd := norun_digit rest hr
  rcases hs with ⟨ds, fs, hne, hds, hfs, hform⟩ | ⟨fs, hne, hfs, hform⟩
  · rcases hform with hform | hform
    · rw [hform]
      have tw := tw_app isDigit ds rest hds hrd
      unfold numLen
      simp only [tw.1, tw.2]
      cases ds with
      | nil => exact absurd rfl hne
      | cons d ds' =>
        simp only [List.isEmpty_cons, Bool.false_eq_true, if_false]
        have hnd := norun_not_dot rest hr
        have he := expLen_zero rest hr
        cases rest with
        | nil => simp [expLen]
        | cons x r =>
          split
          · rename_i r2 heq
            exact absurd heq (hnd r2)
          · simp [he]
    · rw [hform]
      have tw := tw_app isDigit ds ('.' :: (fs ++ rest)) hds
        (by intro c hc; simp at hc; subst hc; exact dot_not_digit)
      have tw2 := tw_app isDigit fs rest hfs hrd
      unfold numLen
      simp only [List.append_assoc, List.cons_append, tw.1, tw.2]
      cases ds with
      | nil => exact absurd rfl hne
      | cons d ds' =>
        simp [tw2.1, tw2.2, expLen_zero rest hr]
        omega
  · rw [hform]
    have tw2 := tw_app isDigit fs rest hfs hrd
    unfold numLen
    simp only [List.cons_append]
    have e1 : List.takeWhile isDigit ('.' :: (fs ++ rest)) = [] := by simp [dot_not_digit]
    have e2 : List.dropWhile isDigit ('.' :: (fs ++ rest)) = '.' :: (fs ++ rest) := by simp [dot_not_digit]
    simp only [e1, e2, List.isEmpty_nil, if_true, tw2.1, tw2.2]
    cases fs with
    | nil => exact absurd rfl hne
    | cons d fs' => simp [expLen_zero rest hr]; omega

theorem digit_ne (c x : Char) (hc : isDigit c = true) (hx : isDigit x = false) : (c == x) = false := by
  cases h : c == x with
  | false => rfl
  | true =>
    have := eq_of_beq h
    subst this
    rw [hx] at hc
    exact Bool.noConfusion hc

/-- the first character of an unsigned number is a digit or a dot -/
theorem unsigned_head (s : List Char) (hs : WFUnsigned s) :
    ∃ c tl, s = c :: tl ∧ (isDigit c = true ∨ c = '.') := by
  rcases hs with ⟨ds, fs, hne, hds, _, hform⟩ | ⟨fs, _, _, rfl⟩
  · cases ds with
    | nil => exact absurd rfl hne
    | cons d ds' =>
      rcases hform with rfl | rfl
      · exact ⟨d, ds', rfl, Or.inl (hds d (by simp))⟩
      · exact ⟨d, ds' ++ '.' :: fs, by simp, Or.inl (hds d (by simp))⟩
  · exact ⟨'.', fs, rfl, Or.inr rfl⟩

theorem tok_unsigned (c : Char) (tl rest : List Char) (hs : WFUnsigned (c :: tl)) (hr : NoRun rest) :
    tokenAt c (tl ++ rest) = some (.num (c :: tl), tl.length) := by
  have hn := numLen_unsigned (c :: tl) rest hs hr
  simp only [List.cons_append] at hn
  have ht : List.take (tl.length + 1) (c :: (tl ++ rest)) = c :: tl := by
    simpa using take_len (c :: tl) rest
  obtain ⟨c', tl', he, hd⟩ := unsigned_head (c :: tl) hs
  obtain ⟨rfl, rfl⟩ := List.cons.inj he
  rcases hd with hd | rfl
  · have n1 := digit_ne c '[' hd (by decide)
    have n2 := digit_ne c ']' hd (by decide)
    have n3 := digit_ne c '(' hd (by decide)
    have n4 := digit_ne c ')' hd (by decide)
    have n5 := digit_ne c ',' hd (by decide)
    have n6 := digit_ne c '=' hd (by decide)
    have n7 := digit_ne c '"' hd (by decide)
    have n8 := digit_ne c '~' hd (by decide)
    have n9 := digit_ne c '#' hd (by decide)
    have n10 := digit_ne c '@' hd (by decide)
    have n11 := digit_ne c '$' hd (by decide)
    have n12 := digit_ne c '/' hd (by decide)
    have n13 := digit_ne c '-' hd (by decide)
    have n14 := digit_ne c '+' hd (by decide)
    simp [tokenAt, n1, n2, n3, n4, n5, n6, n7, n8, n9, n10, n11, n12, n13, n14, hd, hn, ht]
  · simp [tokenAt, hn, ht]

theorem tok_signed (sg : Char) (u rest : List Char) (hsg : sg = '+' ∨ sg = '-') (hs : WFUnsigned u) (hr : NoRun rest) :
    tokenAt sg (u ++ rest) = some (.num (sg :: u), u.length) := by
  have hn := numLen_unsigned u rest hs hr
  have ht : List.take u.length (u ++ rest) = u := take_len u rest
  obtain ⟨c, tl, rfl, hd⟩ := unsigned_head u hs
  have hgt : (c == '>') = false := by
    rcases hd with hd | rfl
    · exact digit_ne c '>' hd (by decide)
    · decide
  have hpos : ¬ (tl.length + 1 = 0) := by omega
  rcases hsg with rfl | rfl
  · simp only [List.cons_append] at hn ht ⊢
    simp [tokenAt, hn, ht]
  · simp only [List.cons_append] at hn ht ⊢
    simp [tokenAt, hgt, hn, ht]

/-! ### one piece, then all of them -/

theorem digit_not_ws (c : Char) (hc : isDigit c = true) : isWS c = false := by
  simp only [isWS, Bool.or_eq_false_iff]
  refine ⟨⟨⟨⟨?_, ?_⟩, ?_⟩, ?_⟩, ?_⟩ <;> exact digit_ne c _ hc (by decide)

theorem last_name_not_quote (s : List Char) (hs : ∀ c ∈ s, nameCh c = true) : (s.getLast? != some '"') = true := by
  cases h : s.getLast? with
  | none => rfl
  | some x =>
    have hx : x ∈ s := List.mem_of_getLast? h
    have := hs x hx
    cases hq : x == '"' with
    | false => simp [bne, hq]
    | true =>
      have := eq_of_beq hq
      subst this
      rw [quote_not_name] at this
      exact Bool.noConfusion ‹nameCh '"' = true›

theorem piece_step (p : Piece) (rest : List Char) (hg : ∀ c ∈ p.gap, isWS c = true) (hw : WFTok p.tok p.body)
    (hn : ∀ c, rest.head? = some c → glue p.tok c = false) :
    lexGo 0 (pieceText p ++ rest) = (lexGo 0 rest).map (p.tok :: ·) := by
  unfold pieceText
  rw [List.append_assoc, lexGo_ws _ _ hg]
  obtain ⟨gap, tok, body⟩ := p
  simp only at hw hn ⊢
  cases tok with
  | lb => exact lexGo_tok '[' [] rest _ (by decide) (tok_lb rest)
  | rb => exact lexGo_tok ']' [] rest _ (by decide) (tok_rb rest)
  | lp => exact lexGo_tok '(' [] rest _ (by decide) (tok_lp rest)
  | rp => exact lexGo_tok ')' [] rest _ (by decide) (tok_rp rest)
  | comma => exact lexGo_tok ',' [] rest _ (by decide) (tok_comma rest)
  | assign => exact lexGo_tok '=' [] rest _ (by decide) (tok_assign rest (by simpa [glue] using hn))
  | equals => exact lexGo_tok '=' ['='] rest _ (by decide) (tok_equals rest)
  | when_ => exact lexGo_tok '-' ['>'] rest _ (by decide) (tok_when rest)
  | comment =>
    have := lexGo_tok '~' (body ++ ['~']) rest _ (by decide) (tok_comment body rest hw)
    simpa [tokText] using this
  | header s =>
    rcases hw with ⟨hne, hs⟩ | ⟨b, hne, hb, rfl⟩
    · have hq := last_name_not_quote s hs
      have hr : ∀ c, rest.head? = some c → nameCh c = false := by
        intro c hc; have := hn c hc; simpa [glue, hq] using this
      exact lexGo_tok '#' s rest _ (by decide) (tok_header_simple s rest hne hs hr)
    · have := lexGo_tok '#' ('"' :: b ++ ['"']) rest _ (by decide) (tok_header_quoted b rest hne hb)
      simpa [tokText] using this
  | «variable» s =>
    exact lexGo_tok '@' s rest _ (by decide) (tok_variable s rest hw.1 hw.2 (by simpa [glue] using hn))
  | reference s =>
    exact lexGo_tok '$' s rest _ (by decide) (tok_reference s rest hw.1 hw.2 (by simpa [glue] using hn))
  | fname s =>
    obtain ⟨c, r, rfl, hc, hr⟩ := hw
    exact lexGo_tok c r rest _ (alpha_not_ws c hc) (tok_fname c r rest hc hr (by simpa [glue] using hn))
  | str s =>
    have := lexGo_tok '"' (s ++ ['"']) rest _ (by decide) (tok_str s rest hw)
    simpa [tokText] using this
  | num s =>
    have hr : NoRun rest := by intro c hc; simpa [glue] using hn c hc
    rcases hw with hu | ⟨u, hu, rfl | rfl⟩
    · obtain ⟨c, tl, rfl, hd⟩ := unsigned_head s hu
      have hws : isWS c = false := by
        rcases hd with hd | rfl
        · exact digit_not_ws c hd
        · decide
      exact lexGo_tok c tl rest _ hws (tok_unsigned c tl rest hu hr)
    · exact lexGo_tok '+' u rest _ (by decide) (tok_signed '+' u rest (Or.inl rfl) hu hr)
    · exact lexGo_tok '-' u rest _ (by decide) (tok_signed '-' u rest (Or.inr rfl) hu hr)
  | regex s =>
    obtain ⟨b, hb, rfl⟩ := hw
    have := lexGo_tok '/' (b ++ ['/']) rest _ (by decide) (tok_regex b rest hb)
    simpa [tokText] using this

theorem lex_layout : (ps : List Piece) → (trail : List Char) → WFLayout ps trail →
    lex (render ps trail) = some (ps.map (·.tok))
  | [], trail, h => by
    have := lexGo_ws trail [] h
    simpa [lex, render, lexGo] using this
  | p :: rest, trail, h => by
    obtain ⟨hg, hw, hn, hrest⟩ := h
    have ih := lex_layout rest trail hrest
    have hr : render (p :: rest) trail = pieceText p ++ render rest trail := by
      simp [render]
    unfold lex at ih ⊢
    rw [hr, piece_step p _ hg hw hn, ih]
    rfl

end Proofs.Lex
