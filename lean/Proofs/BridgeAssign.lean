import Generated.CoreAssign
import Proofs.PyNorm
import Model.Assign

set_option linter.unusedSimpArgs false
set_option linter.unusedVariables false
namespace Proofs.BridgeAssign
open Model.Assign

def emb : Val → Py.V
  | .none => .none
  | .int i => .int i
  | .str s => .str s

def optBool : Option Bool → Py.V
  | some b => .bool b
  | Option.none => .none

/-- the `args` dict `_do_assignment_new_impl` is called with -/
def argsEnv (q : Quals) (cur y : Val) (lmArg : Option Bool) : Py.Env := fun k =>
  if k = "onchange" then .bool q.onchange
  else if k = "latch" then .bool q.latch
  else if k = "onmatch" then .bool q.onmatch
  else if k = "asbool" then .bool q.asbool
  else if k = "nocontrib" then .bool q.nocontrib
  else if k = "notnone" then .bool q.notnone
  else if k = "increase" then .bool q.increase
  else if k = "decrease" then .bool q.decrease
  else if k = "noqualifiers" then .bool false
  else if k = "new_value" then emb y
  else if k = "current_value" then emb cur
  else if k = "line_matches" then optBool lmArg
  else .exc "KeyError"

def selfEnv (dm lm : Bool) : Py.Env := fun k =>
  if k = "self.default_match()" then .bool dm
  else if k = "self.line_matches()" then .bool lm
  else .exc "AttributeError"

def outRes (name tracking : Py.V) (effs : List Py.Eff) : Out → Py.Res
  | .ok (some v) vote => .ok (.bool vote) (effs ++ [{ name := "set_variable value= tracking=", args := [name, emb v, tracking] }])
  | .ok Option.none vote => .ok (.bool vote) effs
  | .typeError => .raised "TypeError" effs

def notExc : Py.V → Bool
  | .exc _ => false
  | _ => true

theorem emb_notExc (v : Val) : notExc (emb v) = true := by cases v <;> rfl

@[simp] theorem notExc_none : notExc Py.V.none = true := rfl
@[simp] theorem notExc_bool (b : Bool) : notExc (Py.V.bool b) = true := rfl
@[simp] theorem notExc_int (i : Int) : notExc (Py.V.int i) = true := rfl
@[simp] theorem notExc_str (s : String) : notExc (Py.V.str s) = true := rfl

theorem firstExc_cons (a : Py.V) (l : List Py.V) (ha : notExc a = true) :
    Py.firstExc (a :: l) = Py.firstExc l := by
  cases a <;> simp [notExc] at ha <;> rfl

/-- normalisation of a generated core applied to embedded values -/
macro "sv_norm" : tactic => `(tactic|
  simp [Generated.Assign.Equality._set_variable_if, setVariableIf, outRes, py_norm, truthy, ge?, le?, emb, firstExc_cons, *])

set_option maxHeartbeats 1600000 in
theorem set_variable_if_bridge (q : Quals) (ret : Bool) (cur y : Val) (dm lm : Bool) (name tracking : Py.V)
    (hn : notExc name = true) (ht : notExc tracking = true) (effs : List Py.Eff) :
    Generated.Assign.Equality._set_variable_if (selfEnv dm lm) (.bool ret) name (emb cur) (emb y) tracking
        (.bool q.notnone) (.bool q.increase) (.bool q.decrease) effs
      = outRes name tracking effs (setVariableIf q ret cur y) := by
  obtain ⟨onmatch, latch, onchange, increase, decrease, notnone, asb, nocontrib⟩ := q
  cases cur with
  | none =>
    cases y with
    | none => cases increase <;> cases decrease <;> cases notnone <;> cases ret <;> sv_norm
    | int b => rcases Decidable.em (b = 0) with rfl | hb <;> cases increase <;> cases decrease <;> cases notnone <;> cases ret <;> sv_norm
    | str b => rcases Decidable.em (b = "") with rfl | hb <;> cases increase <;> cases decrease <;> cases notnone <;> cases ret <;> sv_norm
  | int a =>
    cases y with
    | none => rcases Decidable.em (a = 0) with rfl | ha <;> cases increase <;> cases decrease <;> cases notnone <;> cases ret <;> sv_norm
    | str b => rcases Decidable.em (a = 0) with rfl | ha <;> rcases Decidable.em (b = "") with rfl | hb <;> cases increase <;> cases decrease <;> cases notnone <;> cases ret <;> sv_norm
    | int b =>
      rcases Decidable.em (a = 0) with rfl | ha
      · rcases Decidable.em (b = 0) with rfl | hb
        · cases increase <;> cases decrease <;> cases notnone <;> cases ret <;> sv_norm
        · by_cases h2 : b ≤ 0 <;> by_cases h3 : 0 ≤ b <;> cases increase <;> cases decrease <;> cases notnone <;> cases ret <;> sv_norm <;> (exfalso; omega)
      · rcases Decidable.em (b = 0) with rfl | hb
        · by_cases h2 : 0 ≤ a <;> by_cases h3 : a ≤ 0 <;> cases increase <;> cases decrease <;> cases notnone <;> cases ret <;> sv_norm <;> (exfalso; omega)
        · by_cases h2 : b ≤ a <;> by_cases h3 : a ≤ b <;> cases increase <;> cases decrease <;> cases notnone <;> cases ret <;> sv_norm <;> (exfalso; omega)
  | str a =>
    cases y with
    | none => rcases Decidable.em (a = "") with rfl | ha <;> cases increase <;> cases decrease <;> cases notnone <;> cases ret <;> sv_norm
    | int b => rcases Decidable.em (a = "") with rfl | ha <;> rcases Decidable.em (b = 0) with rfl | hb <;> cases increase <;> cases decrease <;> cases notnone <;> cases ret <;> sv_norm
    | str b =>
      rcases Decidable.em (a = "") with rfl | ha
      · rcases Decidable.em (b = "") with rfl | hb
        · cases increase <;> cases decrease <;> cases notnone <;> cases ret <;> sv_norm
        · by_cases h2 : b ≤ "" <;> by_cases h3 : "" ≤ b <;> cases increase <;> cases decrease <;> cases notnone <;> cases ret <;> sv_norm
      · rcases Decidable.em (b = "") with rfl | hb
        · by_cases h2 : "" ≤ a <;> by_cases h3 : a ≤ "" <;> cases increase <;> cases decrease <;> cases notnone <;> cases ret <;> sv_norm
        · by_cases h2 : b ≤ a <;> by_cases h3 : a ≤ b <;> cases increase <;> cases decrease <;> cases notnone <;> cases ret <;> sv_norm

theorem eqb_emb (a b : Val) : Py.eqb (emb a) (emb b) = decide (a = b) := by
  cases a <;> cases b <;> simp [emb, Py.eqb, Py.num?] <;> rename_i i j <;> by_cases h : i = j <;> simp [h]

theorem isb_emb_none (a : Val) : Py.isb (emb a) Py.V.none = decide (a = Val.none) := by
  cases a <;> simp [emb, Py.isb]

theorem emb_strict (a b : Val) (f : Py.V → Py.V → Py.V) : Py.strict2 (emb a) (emb b) f = f (emb a) (emb b) := by
  cases a <;> cases b <;> rfl

theorem emb_strict_none (a : Val) (f : Py.V → Py.V → Py.V) : Py.strict2 (emb a) Py.V.none f = f (emb a) Py.V.none := by
  cases a <;> rfl

theorem strict_none_emb (b : Val) (f : Py.V → Py.V → Py.V) : Py.strict2 Py.V.none (emb b) f = f Py.V.none (emb b) := by
  cases b <;> rfl

theorem eqb_none_emb (b : Val) : Py.eqb Py.V.none (emb b) = decide (Val.none = b) := by
  cases b <;> simp [emb, Py.eqb, Py.num?]

/-- the result of a translated callee, continued -/
theorem bind_outRes (name tracking : Py.V) (effs : List Py.Eff) (o : Out) (k : Py.V → List Py.Eff → Py.Res) :
    Py.bind (outRes name tracking effs o) k =
      match o with
      | .ok (some v) vote => k (.bool vote) (effs ++ [{ name := "set_variable value= tracking=", args := [name, emb v, tracking] }])
      | .ok Option.none vote => k (.bool vote) effs
      | .typeError => .raised "TypeError" effs := by
  cases o with
  | typeError => rfl
  | ok w vote => cases w <;> rfl

theorem latch_and_onchange_bridge (q : Quals) (ret : Bool) (cur y : Val) (dm lm : Bool) (name tracking : Py.V)
    (hn : notExc name = true) (ht : notExc tracking = true) (effs : List Py.Eff) :
    Generated.Assign.Equality._latch_and_onchange (selfEnv dm lm) (.bool ret) (emb cur) (emb y) name tracking
        (.bool q.latch) (.bool q.onchange) (.bool q.notnone) (.bool q.increase) (.bool q.decrease) effs
      = outRes name tracking effs (latchAndOnchange q dm ret cur y) := by
  have hsv := fun r => set_variable_if_bridge q r cur y dm lm name tracking hn ht effs
  unfold Generated.Assign.Equality._latch_and_onchange latchAndOnchange
  have hdm : selfEnv dm lm "self.default_match()" = Py.V.bool dm := by simp [selfEnv]
  simp only [hdm, Py.letv, hsv, bind_outRes]
  cases cur with
  | none => cases y <;> cases hl : q.latch <;> cases ho : q.onchange <;> cases dm <;> cases ret <;>
      simp [py_norm, outRes, emb, *] <;>
      (try split) <;> simp_all [outRes]
  | int a =>
    cases y with
    | none => cases hl : q.latch <;> cases ho : q.onchange <;> cases dm <;> cases ret <;>
      simp [py_norm, outRes, emb, *] <;>
      (try split) <;> simp_all [outRes]
    | str b => cases hl : q.latch <;> cases ho : q.onchange <;> cases dm <;> cases ret <;>
      simp [py_norm, outRes, emb, *] <;>
      (try split) <;> simp_all [outRes]
    | int b => rcases Decidable.em (a = b) with rfl | hab <;> cases hl : q.latch <;> cases ho : q.onchange <;> cases dm <;> cases ret <;>
      simp [py_norm, outRes, emb, *] <;>
      (try split) <;> simp_all [outRes]
  | str a =>
    cases y with
    | none => cases hl : q.latch <;> cases ho : q.onchange <;> cases dm <;> cases ret <;>
      simp [py_norm, outRes, emb, *] <;>
      (try split) <;> simp_all [outRes]
    | int b => cases hl : q.latch <;> cases ho : q.onchange <;> cases dm <;> cases ret <;>
      simp [py_norm, outRes, emb, *] <;>
      (try split) <;> simp_all [outRes]
    | str b => rcases Decidable.em (a = b) with rfl | hab <;> cases hl : q.latch <;> cases ho : q.onchange <;> cases dm <;> cases ret <;>
      simp [py_norm, outRes, emb, *] <;>
      (try split) <;> simp_all [outRes]

theorem asbool_emb (y : Val) : Py.asbool (emb y) = Py.V.bool (asbool y) := by
  cases y with
  | none => rfl
  | int i => rfl
  | str s =>
    simp only [emb, Py.asbool, asbool, apply_ite Py.V.bool]
    rfl

theorem letv_emb (v : Val) (effs : List Py.Eff) (k : Py.V → Py.Res) : Py.letv (emb v) effs k = k (emb v) := by
  cases v <;> rfl
theorem letv_bool (b : Bool) (effs : List Py.Eff) (k : Py.V → Py.Res) : Py.letv (.bool b) effs k = k (.bool b) := rfl
theorem letv_optBool (b : Option Bool) (effs : List Py.Eff) (k : Py.V → Py.Res) :
    Py.letv (optBool b) effs k = k (optBool b) := by
  cases b <;> rfl

/-- what `line_matches` the assignment sees: the test argument when it is a bool, else the live look-ahead -/
def lmSeen (lmArg : Option Bool) (lm : Bool) : Bool := lmArg.getD lm

set_option maxHeartbeats 1600000 in
/-- **Bridge (T)**: the Lean translation of `Equality._do_assignment_new_impl` (with its two helpers), regenerated from
    /repo on every run, computes exactly the hand-written model `Model.Assign.assign`: same vote, same write (as a
    recorded `set_variable` effect), same TypeError — for every qualifier set, all values, both logic modes. -/
theorem do_assignment_bridge (q : Quals) (cur y : Val) (lmArg : Option Bool) (dm lm : Bool) (name tracking : Py.V)
    (hn : notExc name = true) (ht : notExc tracking = true) (effs : List Py.Eff) :
    Generated.Assign.Equality._do_assignment_new_impl (selfEnv dm lm) name tracking (argsEnv q cur y lmArg) effs
      = outRes name tracking effs (assign q cur y (lmSeen lmArg lm) dm) := by
  have hsv := fun r => set_variable_if_bridge q r cur y dm lm name tracking hn ht effs
  have hla := fun r => latch_and_onchange_bridge q r cur y dm lm name tracking hn ht effs
  have hdm : selfEnv dm lm "self.default_match()" = Py.V.bool dm := by simp [selfEnv]
  have hlm : selfEnv dm lm "self.line_matches()" = Py.V.bool lm := by simp [selfEnv]
  unfold Generated.Assign.Equality._do_assignment_new_impl assign
  simp only [argsEnv, String.reduceEq, if_true, if_false, ↓reduceIte, hdm, letv_emb, letv_bool, letv_optBool, hsv, hla, bind_outRes, asbool_emb,
    Generated.Assign.Equality._test_friendly_line_matches, hlm]
  generalize setVariableIf q dm cur y = o1
  generalize latchAndOnchange q dm dm cur y = o2
  obtain ⟨onmatch, latch, onchange, increase, decrease, notnone, asb, nocontrib⟩ := q
  rcases lmArg with _ | (_ | _) <;> cases onmatch <;> cases latch <;> cases onchange <;> cases asb <;> cases nocontrib <;> cases lm <;> cases dm <;>
    simp [optBool, lmSeen, py_norm, outRes] <;>
    (try (cases o1 with
      | typeError => simp [outRes]
      | ok w vote => cases w <;> cases vote <;> simp [outRes])) <;>
    (try (cases o2 with
      | typeError => simp [outRes]
      | ok w vote => cases w <;> cases vote <;> simp [outRes]))

end Proofs.BridgeAssign
