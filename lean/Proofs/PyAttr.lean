import Lean.Meta.Tactic.Simp.RegisterCommand
/-! the simp set `py_norm`: every definition of the `Py` prelude (Model/Py.lean), so that a translated core applied to
    constructor-headed values always evaluates, whichever prelude operators the source happens to use -/
register_simp_attr py_norm

/-- the simp set `py_core`: every definition tools/py2lean.py generates (each is tagged with it), so that a bridge can unfold
    a translated core without naming its helpers — a helper a refactoring extracts is unfolded like the rest -/
register_simp_attr py_core
