import Lean.Meta.Tactic.Simp.RegisterCommand
/-! the simp set `py_norm`: every definition of the `Py` prelude (Model/Py.lean), so that a translated core applied to
    constructor-headed values always evaluates, whichever prelude operators the source happens to use -/
register_simp_attr py_norm
