import Model.Scan
import Spec.Scan

namespace Proofs.Scan
open Model.Scan Spec.Scan


theorem mem_pyRange (a b n : Nat) : n ∈ pyRange a b ↔ a ≤ n ∧ n ≤ b := by
  unfold pyRange
  simp only [List.mem_map, List.mem_range]
  constructor
  · rintro ⟨x, hx, rfl⟩; omega
  · intro h; exact ⟨n - a, by omega, by omega⟩

theorem mem_appendNew (L : List (Option Nat)) (xs : List Nat) (v : Option Nat) :
    v ∈ appendNew L xs ↔ v ∈ L ∨ ∃ x ∈ xs, v = some x := by
  induction xs generalizing L with
  | nil => simp [appendNew]
  | cons x xs ih =>
    unfold appendNew
    split
    · rename_i h
      rw [ih]
      have hx : some x ∈ L := by simpa using h
      grind
    · rw [ih]
      grind

theorem appendNew_ne_nil (L : List (Option Nat)) (xs : List Nat) (h : L ≠ []) :
    appendNew L xs ≠ [] := by
  intro hn
  cases L with
  | nil => exact h rfl
  | cons a L =>
    have : a ∈ appendNew (a :: L) xs := (mem_appendNew _ _ _).mpr (Or.inl (List.mem_cons_self ..))
    rw [hn] at this; cases this

structure InvB (den : Nat → Bool) (s : St) : Prop where
  frm : s.frm = none
  to : s.to = none
  all : s.all = false
  ne : s.these ≠ []
  nonone : none ∉ s.these
  mem : ∀ n, some n ∈ s.these ↔ den n = true

theorem includes_of_InvB {den : Nat → Bool} {s : St} (h : InvB den s) (n : Nat) :
    includes s n = den n := by
  unfold includes
  simp only [h.frm, h.to, h.all]
  have := h.mem n
  by_cases hd : den n = true
  · simp [hd, this.mpr hd]
  · have hn : some n ∉ s.these := fun hc => hd (this.mp hc)
    simp [hn]
    simpa using hd

theorem exprVal_of_ne {s : St} (h : s.these ≠ []) : exprVal s = s.these := by
  unfold exprVal
  cases hs : s.these with
  | nil => exact absurd hs h
  | cons a l => simp

theorem getLast_aux (y : Option Nat) (ys : List (Option Nat)) (a : Nat) :
    (y :: (ys ++ [some a])).getLast? = some (some a) := by
  have : y :: (ys ++ [some a]) = (y :: ys) ++ [some a] := by simp
  rw [this, List.getLast?_append]; simp

theorem collectRange_B {s : St} (a b : Nat) (L : List (Option Nat))
    (hf : s.frm = none) (ht : s.to = none) (hL : s.these = L ++ [some a]) (hLne : L ≠ []) :
    collectRange s s.these (some [some b]) =
      .ok { s with these := appendNew s.these (pyRange a b) } := by
  obtain ⟨these, all, frm, to⟩ := s
  simp only at hf ht hL
  subst hf ht hL
  obtain ⟨x, L', rfl⟩ : ∃ x L', L = x :: L' := by
    cases L with
    | nil => exact absurd rfl hLne
    | cons x L' => exact ⟨x, L', rfl⟩
  unfold collectRange
  cases L' with
  | nil => simp [moveRange]
  | cons y ys =>
    simp only [List.cons_append, List.length_cons]
    have hl : (x :: y :: (ys ++ [some a])).getLast? = some (some a) := getLast_aux x (y :: ys) a
    rw [hl]
    simp [moveRange]

theorem stepMinus_B {s : St} (a b : Nat) (L : List (Option Nat))
    (hf : s.frm = none) (ht : s.to = none) (hL : s.these = L ++ [some a]) (hLne : L ≠ []) :
    stepOp (.ok (s, s.these)) (.minus, .num b) =
      .ok ({ s with these := appendNew s.these (pyRange a b) },
           appendNew s.these (pyRange a b)) := by
  simp only [stepOp, pTerm, termVal]
  rw [collectRange_B a b L hf ht hL hLne]
  simp only
  congr 2
  apply exprVal_of_ne
  exact appendNew_ne_nil _ _ (by rw [hL]; simp)

theorem extendIfNew_self (L : List (Option Nat)) (h : L ≠ []) : extendIfNew L (some L) = L := by
  cases L with
  | nil => exact absurd rfl h
  | cons x xs => simp [extendIfNew]

theorem extendIfNew_one (L : List (Option Nat)) (v : Option Nat) :
    extendIfNew L (some [v]) = if L.contains v then L else L ++ [v] := by
  simp [extendIfNew]

theorem addTwo_B {s : St} (hf : s.frm = none) (hne : s.these ≠ []) (n : Nat) :
    addTwoLines s s.these (some [some n]) =
      { s with these := if s.these.contains (some n) then s.these else s.these ++ [some n] } := by
  have hmv : moveRange s = s := by unfold moveRange; simp [hf]
  unfold addTwoLines
  simp only [hmv]
  rw [extendIfNew_self _ hne, extendIfNew_one]

theorem stepPlus_B {s : St} (hf : s.frm = none) (hne : s.these ≠ []) (n : Nat) :
    stepOp (.ok (s, s.these)) (.plus, .num n) =
      .ok ({ s with these := if s.these.contains (some n) then s.these else s.these ++ [some n] },
            if s.these.contains (some n) then s.these else s.these ++ [some n]) := by
  simp only [stepOp, pTerm, termVal]
  rw [addTwo_B hf hne]
  congr 2
  apply exprVal_of_ne
  simp only
  split <;> simp [hne]

theorem stepPlus_InvB {den : Nat → Bool} {s : St} (h : InvB den s) (n : Nat) :
    InvB (fun x => den x || x == n)
      { s with these := if s.these.contains (some n) then s.these else s.these ++ [some n] } := by
  have := h.mem
  refine ⟨h.frm, h.to, h.all, ?_, ?_, ?_⟩
  · simp only; split <;> simp [h.ne]
  · simp only; have := h.nonone; split <;> simp_all
  · intro x; simp only; have := h.mem x; have := h.mem n
    split <;> grind


/-! ### one operand of a `+` list -/

/-- an operand whose start is new, from state B -/
theorem stepItem_B {den : Nat → Bool} {s : St} (h : InvB den s) (i : Item)
    (hnew : den i.lo = false) (hle : i.lo ≤ i.hi) :
    ∃ s', i.ops.foldl stepOp (.ok (s, s.these)) = .ok (s', s'.these) ∧
      InvB (fun x => den x || i.den x) s' := by
  cases i with
  | line n =>
    refine ⟨_, ?_, stepPlus_InvB h n⟩
    simp only [Item.ops, List.foldl_cons, List.foldl_nil]
    rw [stepPlus_B h.frm h.ne]
  | range a b =>
    have hna : s.these.contains (some a) = false := by
      have := h.mem a
      simp only [Item.lo] at hnew
      cases hc : s.these.contains (some a) with
      | false => rfl
      | true =>
        have hm : some a ∈ s.these := by simpa using hc
        rw [this] at hm; rw [hnew] at hm; cases hm
    simp only [Item.ops, List.foldl_cons, List.foldl_nil]
    rw [stepPlus_B h.frm h.ne, hna]
    simp only [Bool.false_eq_true, if_false]
    have e := stepMinus_B (s := { s with these := s.these ++ [some a] }) a b s.these
      h.frm h.to rfl h.ne
    simp only at e
    rw [e]
    refine ⟨_, rfl, ?_⟩
    refine ⟨h.frm, h.to, h.all, ?_, ?_, ?_⟩
    · exact appendNew_ne_nil _ _ (by simp)
    · simp only; intro hc
      rcases (mem_appendNew _ _ _).mp hc with hc | ⟨x, _, hx⟩
      · simp at hc; exact h.nonone hc
      · cases hx
    · intro n
      simp only [Item.den]
      rw [mem_appendNew]
      have := h.mem n
      simp only [Item.lo, Item.hi] at hle
      simp only [mem_pyRange, List.mem_append, List.mem_singleton, Option.some.injEq]
      grind

/-- ascending operands keep being new: everything denoted so far lies below `lo` -/
theorem foldItems_B (items : List Item) :
    ∀ {den : Nat → Bool} {s : St} {lo : Nat}, InvB den s → (∀ n, den n = true → n < lo) →
      ascendingFrom lo items →
    ∃ s', (items.flatMap Item.ops).foldl stepOp (.ok (s, s.these)) = .ok (s', s'.these) ∧
      InvB (fun x => den x || items.any (·.den x)) s' := by
  induction items with
  | nil =>
    intro den s lo h _ _
    exact ⟨s, rfl, by simpa using h⟩
  | cons i is ih =>
    intro den s lo h hlt hasc
    obtain ⟨hlo, hle, hrest⟩ := hasc
    have hnew : den i.lo = false := by
      cases hd : den i.lo with
      | false => rfl
      | true => have := hlt _ hd; omega
    obtain ⟨s1, e1, h1⟩ := stepItem_B h i hnew hle
    have hlt1 : ∀ n, (den n || i.den n) = true → n < i.hi + 1 := by
      intro n hn
      rcases Bool.or_eq_true .. |>.mp hn with hn | hn
      · have := hlt n hn; omega
      · cases i with
        | line m => simp [Item.den] at hn; simp [Item.hi]; omega
        | range a b => simp [Item.den] at hn; simp [Item.hi]; omega
    obtain ⟨s2, e2, h2⟩ := ih h1 hlt1 hrest
    refine ⟨s2, ?_, ?_⟩
    · rw [List.flatMap_cons, List.foldl_append, e1, e2]
    · have : (fun x => den x || (i :: is).any (·.den x)) =
          (fun x => (den x || i.den x) || is.any (·.den x)) := by
        funext x; simp [Bool.or_assoc]
      rw [this]; exact h2

/-! ### `max(these)` -/

theorem maxThese_spec (L : List (Option Nat)) (hne : L ≠ []) (hnn : none ∉ L) :
    ∃ m, maxThese L = some m ∧ some m ∈ L ∧ ∀ n, some n ∈ L → n ≤ m := by
  induction L with
  | nil => exact absurd rfl hne
  | cons x xs ih =>
    cases x with
    | none => exact absurd (List.mem_cons_self ..) hnn
    | some v =>
      have hnn' : none ∉ xs := fun h => hnn (List.mem_cons_of_mem _ h)
      cases xs with
      | nil => exact ⟨v, by simp [maxThese], by simp, by simp⟩
      | cons y ys =>
        obtain ⟨m, e, hm, hmax⟩ := ih (by simp) hnn'
        refine ⟨max v m, by simp [maxThese, e], ?_, ?_⟩
        · by_cases hv : v ≤ m
          · have : max v m = m := by omega
            rw [this]; exact List.mem_cons_of_mem _ hm
          · have : max v m = v := by omega
            rw [this]; exact List.mem_cons_self ..
        · intro n hn
          rcases List.mem_cons.mp hn with hn | hn
          · cases hn; omega
          · have := hmax n hn; omega

theorem isLast_of_InvB {den : Nat → Bool} {s : St} (h : InvB den s) (top : Nat)
    (htop : den top = true) (hmax : ∀ n, den n = true → n ≤ top) (e : Option Nat) (n : Nat) :
    isLast s e n = (n == top) := by
  obtain ⟨m, em, hm, hmm⟩ := maxThese_spec s.these h.ne h.nonone
  have hmt : m = top := by
    have h1 := hmax m ((h.mem m).mp hm)
    have h2 := hmm top ((h.mem top).mpr htop)
    omega
  subst hmt
  unfold isLast
  simp only [h.frm, h.to, h.all, em]
  have : s.these.isEmpty = false := by
    cases hs : s.these with
    | nil => exact absurd hs h.ne
    | cons _ _ => rfl
  simp [this]
  by_cases hmn : m = n
  · subst hmn; simp
  · have : ¬ n = m := fun h => hmn h.symm
    simp [hmn, this]

/-! ### the pending-range state (state A) behaves like state B at the next `+` -/

def stA (a b : Nat) : St := { these := [], all := false, frm := some a, to := some b }
def stB (a b : Nat) : St := { these := appendNew [] (pyRange a b), all := false, frm := none, to := none }

theorem stB_InvB (a b : Nat) (h : a ≤ b) : InvB (fun n => decide (a ≤ n ∧ n ≤ b)) (stB a b) := by
  refine ⟨rfl, rfl, rfl, ?_, ?_, ?_⟩
  · intro hn
    have : some a ∈ (stB a b).these := by
      simp only [stB]; rw [mem_appendNew]; right; exact ⟨a, (mem_pyRange ..).mpr ⟨Nat.le_refl _, h⟩, rfl⟩
    rw [hn] at this; cases this
  · simp only [stB]; intro hc
    rcases (mem_appendNew _ _ _).mp hc with hc | ⟨x, _, hx⟩
    · cases hc
    · cases hx
  · intro n; simp only [stB]; rw [mem_appendNew]; simp [mem_pyRange]

theorem stepPlus_A (a b m : Nat) (h : a ≤ b) :
    stepOp (.ok (stA a b, [some a])) (.plus, .num m) =
      stepOp (.ok (stB a b, (stB a b).these)) (.plus, .num m) := by
  have hB := stB_InvB a b h
  rw [stepPlus_B hB.frm hB.ne]
  have ha : (stB a b).these.contains (some a) = true := by
    have : some a ∈ (stB a b).these := (hB.mem a).mpr (by simp; omega)
    simpa using this
  simp only [stepOp, pTerm, termVal, addTwoLines]
  have hmv : moveRange (stA a b) = stB a b := by simp [moveRange, stA, stB]
  rw [hmv]
  have e1 : extendIfNew (stB a b).these (some [some a]) = (stB a b).these := by
    rw [extendIfNew_one, ha]; rfl
  rw [e1, extendIfNew_one]
  congr 2
  apply exprVal_of_ne
  simp only
  split <;> simp [hB.ne]

theorem foldl_ops_A (a b : Nat) (h : a ≤ b) (i : Item) (rest : List (Op × Term)) :
    (i.ops ++ rest).foldl stepOp (.ok (stA a b, [some a])) =
      (i.ops ++ rest).foldl stepOp (.ok (stB a b, (stB a b).these)) := by
  cases i <;> simp only [Item.ops, List.cons_append, List.nil_append, List.foldl_cons] <;>
    rw [stepPlus_A a b _ h]

theorem includes_stA (a b n : Nat) : includes (stA a b) n = (K.loneRange a b).den n := by
  simp only [includes, stA, K.den]
  by_cases h1 : a = n
  · subst h1; simp; omega
  · by_cases h2 : a > b
    · have e1 : min a b = b := by omega
      have e2 : max a b = a := by omega
      simp [h1, h2, e1, e2]
    · have e1 : min a b = a := by omega
      have e2 : max a b = b := by omega
      simp [h1, h2, e1, e2]

theorem isLast_stA (a b : Nat) (e : Option Nat) (n : Nat) :
    isLast (stA a b) e n = (n == max a b) := by
  simp only [isLast, stA]
  by_cases h2 : a > b
  · have : max a b = a := by omega
    rw [this]; by_cases h : a = n
    · subst h; simp [h2]
    · have : ¬ n = a := fun hh => h hh.symm
      simp [h2, h, this]
  · have : max a b = b := by omega
    rw [this]; by_cases h : b = n
    · subst h; simp [h2]
    · have : ¬ n = b := fun hh => h hh.symm
      simp [h2, h, this]

/-- for ascending operands the last operand's upper bound is denoted and bounds everything -/
theorem last_spec_aux (r : List Item) : ∀ (f : Item), f.lo ≤ f.hi → ascendingFrom (f.hi + 1) r →
    ((f.den (r.getLast?.getD f).hi || r.any (·.den (r.getLast?.getD f).hi)) = true) ∧
    (∀ n, (f.den n || r.any (·.den n)) = true → n ≤ (r.getLast?.getD f).hi) ∧
    f.hi ≤ (r.getLast?.getD f).hi := by
  induction r with
  | nil =>
    intro f hf _
    refine ⟨?_, ?_, by simp⟩
    · cases f <;> simp [Item.den, Item.hi] <;> (simp [Item.lo, Item.hi] at hf; omega)
    · intro n hn
      cases f <;> simp [Item.den, Item.hi] at hn ⊢ <;> omega
  | cons i is ih =>
    intro f hf hasc
    obtain ⟨hlo, hle, hrest⟩ := hasc
    obtain ⟨h1, h2, h3⟩ := ih i hle hrest
    have egl : ((i :: is).getLast?.getD f) = (is.getLast?.getD i) := by
      cases is with
      | nil => simp
      | cons j js =>
        rw [List.getLast?_cons_cons]
        cases h : (j :: js).getLast? with
        | none => simp at h
        | some v => simp
    rw [egl]
    refine ⟨?_, ?_, ?_⟩
    · simp only [List.any_cons]
      rcases Bool.or_eq_true .. |>.mp h1 with h | h
      · simp [h]
      · simp only [h, Bool.or_true]
    · intro n hn
      simp only [List.any_cons] at hn
      rcases Bool.or_eq_true .. |>.mp hn with hn | hn
      · have : n ≤ f.hi := by
          cases f <;> simp [Item.den, Item.hi] at hn ⊢ <;> omega
        have : i.lo ≤ i.hi := hle
        omega
      · exact h2 n hn
    · have : i.lo ≤ i.hi := hle
      omega

theorem last_spec (f : Item) (r : List Item) (hf : f.lo ≤ f.hi) (hr : ascendingFrom (f.hi + 1) r) :
    ((f.den (r.getLast?.getD f).hi || r.any (·.den (r.getLast?.getD f).hi)) = true) ∧
    (∀ n, (f.den n || r.any (·.den n)) = true → n ≤ (r.getLast?.getD f).hi) :=
  ⟨(last_spec_aux r f hf hr).1, (last_spec_aux r f hf hr).2.1⟩

end Proofs.Scan
