import Generated.CoreMatches
import Proofs.PyNorm
import Model.MatchTop

set_option linter.unusedSimpArgs false
set_option linter.unusedVariables false

/-! Bridge (T) for the top level of a match: the Lean translation of `Matcher.matches` (regenerated from /repo on every run, heap
    mode, with its `for` loop over `self.expressions`) against the abstract `Model.MatchTop.matchLine`.  The match components
    (`et[0].matches(skip=[])`), `clear_errors()` and `_do_lasts()` are arbitrary functions of the environment that keep the
    contract `Contract` below, so the bridge holds for every csvpath whose components do not use the onmatch look-ahead (they
    leave the `et[1]` marks of the other components alone). -/
namespace Proofs.BridgeMatches
open Model.MatchTop

/-- the environment key of `self.expressions[i][1]` -/
abbrev ckey (i : Nat) : String := Py.ikey "self.expressions" i "[1]"

theorem ikey_len (p : String) (i : Nat) (f : String) : (Py.ikey p i f).length = 2 + i + p.length + f.length := by
  have h1 : "#".length = 1 := by decide
  simp [Py.ikey, Py.stars, String.length_append, h1]; omega

theorem ckey_inj (i j : Nat) (h : ckey i = ckey j) : i = j := by
  have := congrArg String.length h
  simp [ikey_len] at this; omega

theorem ikey_front (p : String) (i : Nat) (f : String) : (Py.ikey p i f).toList.head? = some '#' := by
  simp [Py.ikey, String.toList_append]

/-- an attribute path is not the key of an element field -/
theorem ckey_ne (i : Nat) (k : String) (hk : k.toList.head? ≠ some '#') : ckey i ≠ k := by
  intro h
  exact hk (h ▸ ikey_front _ _ _)

def Clean (e : Py.Env) : Prop := ∀ k, Py.isExc (e k) = false

/-- the world of `Model.MatchTop` made of the Python world -/
def world (ext : Py.Ext) (n : Nat) : World Py.Env where
  n := n
  evalE i e :=
    let out := ext "expr_matches" [.int i, .strs []] e
    let vote := !(Py.isb out.1 (.bool false))
    (vote, Py.upd out.2 (ckey i) (.bool vote))
  stopped e := Py.truthy (e "self.csvpath.stopped")
  skip e := Py.isb (e "self.skip") (.bool true)
  clearSkip e := Py.upd e "self.skip" (.bool false)
  clearErrors e := (ext "clear_errors" [] e).2
  doLasts e := (ext "do_lasts" [] e).2
  finish e := if Py.truthy (e "self.csvpath.explain") then Py.upd e "self.explaination" (.strs []) else e

/-- what the bridge assumes of the world: calls return values and leave values (not exceptions) in the environment; a match
    component leaves the logic mode, the csvpath object and the `et[1]` marks alone (no look-ahead) -/
structure Contract (ext : Py.Ext) : Prop where
  value : ∀ name a e, Py.isExc (ext name a e).1 = false
  clean : ∀ name a e, Clean e → Clean (ext name a e).2
  andMode : ∀ a e, (ext "expr_matches" a e).2 "self._AND" = e "self._AND"
  obj : ∀ a e, (ext "expr_matches" a e).2 "self.csvpath" = e "self.csvpath"
  marks : ∀ a e j, (ext "expr_matches" a e).2 (ckey j) = e (ckey j)

/-- the loop invariant before component `idx` -/
structure Inv (dm : Bool) (idx : Nat) (e : Py.Env) : Prop where
  clean : Clean e
  andMode : e "self._AND" = .bool dm
  obj : Py.truthy (e "self.csvpath") = true
  fresh : ∀ j, idx ≤ j → e (ckey j) = .none

theorem clean_upd (e : Py.Env) (k : String) (v : Py.V) (h : Clean e) (hv : Py.isExc v = false) : Clean (Py.upd e k v) := by
  intro k'
  simp only [Py.upd]
  split <;> simp_all [Clean]

theorem inv_step (ext : Py.Ext) (n : Nat) (hC : Contract ext) (dm : Bool) (idx : Nat) (e : Py.Env) (h : Inv dm idx e) :
    Inv dm (idx + 1) ((world ext n).evalE idx e).2 := by
  obtain ⟨h1, h2, h3, h4⟩ := h
  have n1 : ¬ "self._AND" = ckey idx := fun hh => ckey_ne idx "self._AND" (by decide) hh.symm
  have n2 : ¬ "self.csvpath" = ckey idx := fun hh => ckey_ne idx "self.csvpath" (by decide) hh.symm
  refine ⟨?_, ?_, ?_, ?_⟩
  · exact clean_upd _ _ _ (hC.clean _ _ _ h1) rfl
  · simp only [world, Py.upd, n1, if_false]; rw [hC.andMode]; exact h2
  · simp only [world, Py.upd, n2, if_false]; rw [hC.obj]; exact h3
  · intro j hj
    have hne : ¬ ckey j = ckey idx := fun hh => by have := ckey_inj _ _ hh; omega
    simp only [world, Py.upd, hne, if_false]
    rw [hC.marks]; exact h4 j (by omega)

/-- what a run of a translated method returned and left behind (the effect log aside) -/
def okVE : Py.H.Res → Option (Py.V × Py.Env)
  | .ok v e _ => some (v, e)
  | .raised _ _ _ => Option.none

/-- what the loop body must do (the effect log aside): end the match at a stop or a skip, otherwise hand the vote, folded into
    `failed`, and the state the component left to the next round.  `p` is the place of `failed` among the loop-carried locals
    (whatever the source's other locals are). -/
def BodySpec (ext : Py.Ext) (n : Nat) (dm : Bool) (p : Nat)
    (body : Nat → List Py.V → Py.Env → List Py.Eff → Py.H.K → Py.H.K → Py.H.Res) : Prop :=
  ∀ idx locs fb e effs (next brk : Py.H.K), Inv dm idx e → Py.nth locs p = .bool fb →
    (((world ext n).stopped e = true → ∃ effs', body idx locs e effs next brk =
        .ok (.bool false) ((world ext n).clearErrors e) effs') ∧
     ((world ext n).stopped e = false → (world ext n).skip e = true → ∃ effs', body idx locs e effs next brk =
        .ok (.bool false) ((world ext n).clearErrors ((world ext n).clearSkip e)) effs') ∧
     ((world ext n).stopped e = false → (world ext n).skip e = false → ∃ locs' effs', body idx locs e effs next brk =
        next locs' ((world ext n).evalE idx e).2 effs' ∧
        Py.nth locs' p = .bool (fold dm fb ((world ext n).evalE idx e).1)))

/-- what the code after the loop must do -/
def EndSpec (ext : Py.Ext) (n : Nat) (dm : Bool) (p : Nat) (k : Py.H.K) : Prop :=
  ∀ idx locs fb e effs, Inv dm idx e → Py.nth locs p = .bool fb →
    (((world ext n).skip e = true → ∃ effs', k locs e effs =
        .ok (.bool false) ((world ext n).clearErrors ((world ext n).clearSkip e)) effs') ∧
     ((world ext n).skip e = false → ∃ effs', k locs e effs =
        .ok (.bool (!fb)) ((world ext n).finish ((world ext n).clearErrors e)) effs'))

/-- the loop combinator run with a body and an end that meet their specifications computes `Model.MatchTop.go` -/
theorem loop_is_go (ext : Py.Ext) (n : Nat) (dm : Bool) (p : Nat) (hC : Contract ext)
    (body : Nat → List Py.V → Py.Env → List Py.Eff → Py.H.K → Py.H.K → Py.H.Res) (k : Py.H.K)
    (hb : BodySpec ext n dm p body) (hk : EndSpec ext n dm p k) :
    ∀ r idx locs fb e effs, Inv dm idx e → Py.nth locs p = .bool fb →
      okVE (Py.H.forGo body k r idx locs e effs) =
        some (.bool (go (world ext n) dm r idx e fb).1, (go (world ext n) dm r idx e fb).2) := by
  intro r
  induction r with
  | zero =>
    intro idx locs fb e effs hinv hl
    obtain ⟨k1, k2⟩ := hk idx locs fb e effs hinv hl
    simp only [Py.H.forGo, go]
    by_cases hs : (world ext n).skip e = true
    · obtain ⟨effs', h⟩ := k1 hs; rw [h]; simp [okVE, hs]
    · have hs' : (world ext n).skip e = false := by simpa using hs
      obtain ⟨effs', h⟩ := k2 hs'; rw [h]; simp [okVE, hs']
  | succ r ih =>
    intro idx locs fb e effs hinv hl
    obtain ⟨b1, b2, b3⟩ := hb idx locs fb e effs
      (fun locs env effs => Py.H.forGo body k r (idx + 1) locs env effs) k hinv hl
    simp only [Py.H.forGo, go]
    by_cases h1 : (world ext n).stopped e = true
    · obtain ⟨effs', h⟩ := b1 h1; rw [h]; simp [okVE, h1]
    have h1' : (world ext n).stopped e = false := by simpa using h1
    by_cases h2 : (world ext n).skip e = true
    · obtain ⟨effs', h⟩ := b2 h1' h2; rw [h]; simp [okVE, h1', h2]
    have h2' : (world ext n).skip e = false := by simpa using h2
    obtain ⟨locs', effs', h, hl'⟩ := b3 h1' h2'
    rw [h, ih (idx + 1) locs' _ _ effs' (inv_step ext n hC dm idx e hinv) hl']
    simp [h1', h2']

/-! ### evaluation lemmas for the generated code -/

theorem cond_clean (c : Py.V) (env : Py.Env) (effs : List Py.Eff) (x y : Py.H.Res) (h : Py.isExc c = false) :
    Py.H.cond c env effs x y = if Py.truthy c = true then x else y := by
  cases c <;> simp [Py.isExc] at h <;> rfl
theorem letv_ok (v : Py.V) (env : Py.Env) (effs : List Py.Eff) (k : Py.V → Py.H.Res) (h : Py.isExc v = false) :
    Py.H.letv v env effs k = k v := by cases v <;> simp [Py.isExc] at h <;> rfl
theorem and_truthy (a b : Py.V) (h : Py.truthy a = true) : Py.and_ a b = b := by
  cases a <;> simp [Py.truthy] at h <;> simp [Py.and_, Py.truthy, h]
theorem is_bool (v : Py.V) (b : Bool) (h : Py.isExc v = false) : Py.is_ v (.bool b) = .bool (Py.isb v (.bool b)) := by
  cases v <;> simp [Py.isExc] at h <;> rfl
theorem call_ok (ext : Py.Ext) (name : String) (args : List Py.V) (env : Py.Env) (effs : List Py.Eff)
    (k : Py.V → Py.Env → List Py.Eff → Py.H.Res) (ha : Py.firstExc args = Option.none) (hv : Py.isExc (ext name args env).1 = false) :
    Py.H.call ext name args env effs k =
      k (ext name args env).1 (ext name args env).2 (effs ++ [{ name := "call " ++ name, args := args }]) := by
  simp only [Py.H.call, ha]
  generalize (ext name args env).1 = v at hv
  cases v <;> simp [Py.isExc] at hv <;> rfl
theorem setattr_bool (path : String) (b : Bool) (env : Py.Env) (effs : List Py.Eff) (k : Py.Env → List Py.Eff → Py.H.Res) :
    Py.H.setattr path (.bool b) env effs k = k (Py.upd env path (.bool b)) (effs ++ [{ name := "set " ++ path, args := [.bool b] }]) := rfl
theorem setattr_strs (path : String) (b : List String) (env : Py.Env) (effs : List Py.Eff) (k : Py.Env → List Py.Eff → Py.H.Res) :
    Py.H.setattr path (.strs b) env effs k = k (Py.upd env path (.strs b)) (effs ++ [{ name := "set " ++ path, args := [.strs b] }]) := rfl
theorem upd_other (e : Py.Env) (k k' : String) (v : Py.V) (h : ¬ k' = k) : Py.upd e k v k' = e k' := by
  simp [Py.upd, h]
theorem upd_same (e : Py.Env) (k : String) (v : Py.V) : Py.upd e k v k = v := by simp [Py.upd]
theorem not_bool (b : Bool) : Py.not_ (.bool b) = .bool (!b) := by cases b <;> rfl
theorem ite_bool (b : Bool) (x y : Py.V) : Py.ite_ (.bool b) x y = if b = true then x else y := by cases b <;> rfl
theorem nth0 (a b c : Py.V) : Py.nth [a, b, c] 0 = a := rfl
theorem nth1 (a b c : Py.V) : Py.nth [a, b, c] 1 = b := rfl
theorem nth2 (a b c : Py.V) : Py.nth [a, b, c] 2 = c := rfl

theorem not_clean (v : Py.V) (h : Py.isExc v = false) : Py.not_ v = .bool (!Py.truthy v) := by
  cases v <;> simp [Py.isExc] at h <;> rfl
theorem isnot_bool (v : Py.V) (b : Bool) (h : Py.isExc v = false) : Py.isnot v (.bool b) = .bool (!Py.isb v (.bool b)) := by
  cases v <;> simp [Py.isExc] at h <;> rfl
theorem cond_bool (b : Bool) (env : Py.Env) (effs : List Py.Eff) (x y : Py.H.Res) :
    Py.H.cond (.bool b) env effs x y = if b = true then x else y := by cases b <;> rfl
theorem letv_bool (b : Bool) (env : Py.Env) (effs : List Py.Eff) (k : Py.V → Py.H.Res) : Py.H.letv (.bool b) env effs k = k (.bool b) := rfl
theorem ret_bool (b : Bool) (env : Py.Env) (effs : List Py.Eff) : Py.H.ret (.bool b) env effs = .ok (.bool b) env effs := rfl
theorem bind_ok (v : Py.V) (env : Py.Env) (effs : List Py.Eff) (k : Py.V → Py.Env → List Py.Eff → Py.H.Res) :
    Py.H.bind (.ok v env effs) k = k v env effs := rfl
theorem is_none_bool (b : Bool) : Py.is_ Py.V.none (.bool b) = .bool false := rfl
theorem isb_bool (a b : Bool) : Py.isb (.bool a) (.bool b) = (a == b) := rfl
theorem nth_cons_zero (a : Py.V) (l : List Py.V) : Py.nth (a :: l) 0 = a := rfl
theorem nth_cons_succ (a : Py.V) (l : List Py.V) (i : Nat) : Py.nth (a :: l) (i + 1) = Py.nth l i := rfl
theorem call0_ok (ext : Py.Ext) (name : String) (env : Py.Env) (effs : List Py.Eff)
    (k : Py.V → Py.Env → List Py.Eff → Py.H.Res) (hv : ∀ name a e, Py.isExc (ext name a e).1 = false) :
    Py.H.call ext name [] env effs k = k (ext name [] env).1 (ext name [] env).2 (effs ++ [{ name := "call " ++ name, args := [] }]) :=
  call_ok ext name [] env effs k rfl (hv _ _ _)
theorem call2_ok (ext : Py.Ext) (name : String) (z : Int) (env : Py.Env) (effs : List Py.Eff)
    (k : Py.V → Py.Env → List Py.Eff → Py.H.Res) (hv : ∀ name a e, Py.isExc (ext name a e).1 = false) :
    Py.H.call ext name [.int z, .strs []] env effs k =
      k (ext name [.int z, .strs []] env).1 (ext name [.int z, .strs []] env).2 (effs ++ [{ name := "call " ++ name, args := [.int z, .strs []] }]) :=
  call_ok ext name _ env effs k rfl (hv _ _ _)

def optNatV : Option Nat → Py.V
  | some n => .int n
  | Option.none => .none

/-- the fields of the line monitor and the line `Matcher.matches` reads for the blank-last-line test -/
structure LineInfo (e : Py.Env) (r : List String) (endIdx : Option Nat) (i : Nat) : Prop where
  line : e "self.line" = .strs r
  lineNo : e "self.csvpath.line_monitor._physical_line_number" = .int i
  endNo : e "self.csvpath.line_monitor._physical_end_line_number" = optNatV endIdx

def blankLast (r : List String) (endIdx : Option Nat) (i : Nat) : Bool := (endIdx == some i) && r.isEmpty

theorem isExc_bool (b : Bool) : Py.isExc (.bool b) = false := rfl
theorem isExc_none : Py.isExc Py.V.none = false := rfl
theorem or_bool (a : Bool) (x : Py.V) : Py.or_ (.bool a) x = if a = true then .bool a else x := by cases a <;> rfl
theorem and_bool (a : Bool) (x : Py.V) : Py.and_ (.bool a) x = if a = true then x else .bool a := by cases a <;> rfl
theorem ret_ok (v : Py.V) (env : Py.Env) (effs : List Py.Eff) (h : Py.isExc v = false) : Py.H.ret v env effs = .ok v env effs := by
  cases v <;> simp [Py.isExc] at h <;> rfl

set_option hygiene false in
/-- evaluation of the translated code on an environment of values: first the lemmas about values (so that the facts in scope
    apply), then the prelude unfolded -/
macro "mt_norm" : tactic => `(tactic|
  ((repeat simp (config := { decide := true }) only [and_truthy, not_clean, cond_clean, letv_ok, ret_ok, is_bool, isnot_bool, call0_ok (hv := hval), call2_ok (hv := hval), cond_bool, letv_bool, setattr_bool, setattr_strs,
      upd_same, upd_other, not_bool, is_none_bool, isb_bool, nth_cons_zero, nth_cons_succ, bind_ok, ret_bool, or_bool, and_bool, fold, okVE,
      isExc_bool, isExc_none, Bool.false_eq_true, Bool.true_eq_false, if_true, if_false, Bool.not_true, Bool.not_false, Bool.or_false, Bool.or_true,
      Bool.and_true, Bool.and_false, Bool.false_or, Bool.true_or, Bool.true_and, Bool.false_and, beq_self_eq_true, *]);
   (try simp [py_norm, Py.H.bind, Py.H.ret, Py.H.val, Py.H.letv, cond_bool, cond_clean, letv_ok, setattr_bool, setattr_strs, upd_same, is_bool, isnot_bool,
    not_bool, call0_ok (hv := hval), call2_ok (hv := hval), and_truthy, is_none_bool, isb_bool, nth_cons_zero, nth_cons_succ, fold, okVE, *])))

set_option hygiene false in
/-- the loop of `Matcher.matches` with `failed` at place `p` of the carried locals -/
macro "mt_loop" p:term : tactic => `(tactic|
  (refine (loop_is_go ext n dm $p hC _ _ ?hb ?hk n 0 _ (!dm) e effs ⟨c1, c2, c3, c4⟩ ?_).trans ?_
   case hb =>
     intro idx locs fb e' effs' next brk hinv' hl
     obtain ⟨d1, d2, d3, d4⟩ := hinv'
     have d1' : ∀ k, Py.isExc (e' k) = false := d1
     have hm0 : e' (ckey idx) = .none := d4 idx (Nat.le_refl _)
     refine ⟨?_, ?_, ?_⟩
     · intro hs
       simp only [world] at hs
       refine Exists.intro ?w1 ?h1
       case h1 =>
         mt_norm
         first | rfl | (constructor <;> rfl)
     · intro hs hk
       simp only [world] at hs hk
       refine Exists.intro ?w2 ?h2
       case h2 =>
         mt_norm
         first | rfl | (constructor <;> rfl)
     · intro hs hk
       simp only [world] at hs hk ⊢
       have hv := hval "expr_matches" [Py.V.int idx, Py.V.strs []] e'
       have hcl := hC.clean "expr_matches" [Py.V.int idx, Py.V.strs []] e' d1
       have ham := hC.andMode [Py.V.int idx, Py.V.strs []] e'
       have n1 : ¬ "self._AND" = ckey idx := fun hh => ckey_ne idx "self._AND" (by decide) hh.symm
       have hA : ∀ b, Py.upd (ext "expr_matches" [Py.V.int idx, Py.V.strs []] e').2 (ckey idx) (Py.V.bool b) "self._AND" = .bool _ := fun b => by
         rw [upd_other _ _ _ _ n1, ham, d2]
       have hcl2 : ∀ b k, Py.isExc (Py.upd (ext "expr_matches" [Py.V.int idx, Py.V.strs []] e').2 (ckey idx) (Py.V.bool b) k) = false := fun b k =>
         clean_upd _ _ _ hcl rfl k
       have hpl : ∀ b, Py.isExc (Py.upd (ext "expr_matches" [Py.V.int idx, Py.V.strs []] e').2 (Py.ikey "self.expressions" idx "[1]") (Py.V.bool b) "self.csvpath.line_monitor.physical_line_number") = false := fun b => hcl2 b _
       cases hvote : Py.isb (ext "expr_matches" [Py.V.int idx, Py.V.strs []] e').1 (Py.V.bool false) <;> cases fb <;> cases dm <;>
         (refine Exists.intro ?_ (Exists.intro ?_ ?_)
          rotate_left 2
          mt_norm
          first | rfl | (constructor <;> rfl) | (split <;> (first | (constructor <;> rfl) | (have h1x := hpl true; have h2x := hpl false; simp_all [Py.isExc]))))
   case hk =>
     intro idx locs fb e' effs' hinv' hl
     obtain ⟨d1, d2, d3, d4⟩ := hinv'
     have d1' : ∀ k, Py.isExc (e' k) = false := d1
     have hcl' : ∀ k, Py.isExc ((ext "clear_errors" [] e').2 k) = false := hC.clean "clear_errors" [] e' d1
     refine ⟨?_, ?_⟩
     · intro hk
       simp only [world] at hk
       refine Exists.intro ?w5 ?h5
       case h5 =>
         mt_norm
         first | rfl | (constructor <;> rfl)
     · intro hk
       simp only [world] at hk ⊢
       by_cases hx : Py.truthy ((ext "clear_errors" [] e').2 "self.csvpath.explain") = true
       · refine Exists.intro ?w6 ?h6
         case h6 =>
           mt_norm
           first | rfl | (constructor <;> rfl)
       · have hx' : Py.truthy ((ext "clear_errors" [] e').2 "self.csvpath.explain") = false := by simpa using hx
         refine Exists.intro ?w7 ?h7
         case h7 =>
           mt_norm
           first | rfl | (constructor <;> rfl)
   · rfl
   · rfl))

/-- **Bridge (T)**: on an environment whose `et[1]` marks are unset, the translated `Matcher.matches` returns the verdict of
    `Model.MatchTop.matchLine` over the world made of the opaque calls, and leaves the environment that model leaves — for every
    number of components, both logic modes, every line, and every world that keeps `Contract`.  The loop is handled by
    `loop_is_go`: whatever body and tail the source has, and wherever `failed` sits among the loop-carried locals, they are shown to
    meet `BodySpec`/`EndSpec` by evaluation (`mt_norm`), so the proof does not depend on how the source arranges its helpers. -/
theorem matches_bridge (ext : Py.Ext) (n : Nat) (dm : Bool) (e : Py.Env) (effs : List Py.Eff) (r : List String)
    (endIdx : Option Nat) (i : Nat) (hC : Contract ext) (hinv : Inv dm 0 e) (hlen : e "len(self.expressions)" = .int n)
    (hli : LineInfo e r endIdx i) :
    okVE (Generated.Matches.Matcher.matches ext e effs) =
      some (.bool (matchLine (world ext n) dm (blankLast r endIdx i) e).1, (matchLine (world ext n) dm (blankLast r endIdx i) e).2) := by
  obtain ⟨l1, l2, l3⟩ := hli
  simp only [py_core]
  generalize hc : Py.H.val _ = c
  have hcv : c = .bool (blankLast r endIdx i) := by
    rw [← hc, l1, l2, l3]
    rcases endIdx with _ | e0
    · simp [py_norm, optNatV, blankLast, Py.H.val, Py.H.letv, Py.H.cond, Py.H.ret]
    · by_cases he : e0 = i
      · subst he
        cases r with
        | nil => simp [py_norm, optNatV, blankLast, Py.H.val, Py.H.letv, Py.H.cond, Py.H.ret, Py.len]
        | cons x xs =>
          have hne : ¬ ((xs.length : Int) + 1 = 0) := by omega
          simp [py_norm, optNatV, blankLast, Py.H.val, Py.H.letv, Py.H.cond, Py.H.ret, Py.len, hne]
      · have he' : ¬ (e0 : Int) = (i : Int) := by omega
        have hb : (e0 == i) = false := by simpa using he
        have hb' : ((e0 : Int) == (i : Int)) = false := by simpa using he'
        simp [py_norm, optNatV, blankLast, Py.H.val, Py.H.letv, Py.H.cond, Py.H.ret, he, he', hb, hb']
  subst hcv
  clear hc
  obtain ⟨c1, c2, c3, c4⟩ := hinv
  have hval := hC.value
  cases hbl : blankLast r endIdx i
  · -- an ordinary line: the loop
    have ite_not : ∀ b : Bool, (if b = true then Py.V.bool false else Py.V.bool true) = Py.V.bool (!b) := fun b => by cases b <;> rfl
    simp only [cond_bool, Bool.false_eq_true, if_false, matchLine, letv_bool, c2, hlen, ite_bool, not_bool, ite_not]
    simp only [Py.H.forRange, Py.natOf, Int.toNat_natCast]
    first | mt_loop 0 | mt_loop 1 | mt_loop 2 | mt_loop 3 | mt_loop 4
  · -- the blank last line: only the lasts run, the answer is True
    have hfe : Py.firstExc [] = Option.none := rfl
    simp only [cond_bool, if_true, matchLine, call_ok _ _ _ _ _ _ hfe (hval _ _ _), Py.H.ret, okVE, world]
end Proofs.BridgeMatches
