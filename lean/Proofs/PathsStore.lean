import Model.PathsStore
set_option linter.unusedSimpArgs false

namespace Proofs.Paths
open Model.Paths

/-- consuming the rest of a matched separator -/
theorem splitGo_skip (sep : Str) (a r cur : Str) :
    splitGo sep a.length (a ++ r) cur = splitGo sep 0 r cur := by
  induction a with
  | nil => rfl
  | cons x xs ih => simpa [splitGo] using ih

/-- a stretch of text in which the separator starts nowhere is accumulated -/
theorem splitGo_plain (sep : Str) (q r cur : Str)
    (h : ∀ a b, q = a ++ b → b ≠ [] → sep.isPrefixOf (b ++ r) = false) :
    splitGo sep 0 (q ++ r) cur = splitGo sep 0 r (q.reverse ++ cur) := by
  induction q generalizing cur with
  | nil => rfl
  | cons x xs ih =>
    have h0 : sep.isPrefixOf (x :: (xs ++ r)) = false := by
      have := h [] (x :: xs) rfl (by simp); simpa using this
    simp only [List.cons_append, splitGo, h0, Bool.false_eq_true, if_false]
    rw [ih]
    · simp
    · intro a b hab hb
      exact h (x :: a) b (by simp [hab]) hb

/-- at the separator: emit the piece and continue after it -/
theorem splitGo_sep (sep : Str) (hne : sep ≠ []) (r cur : Str) :
    splitGo sep 0 (sep ++ r) cur = cur.reverse :: splitGo sep 0 r [] := by
  cases sep with
  | nil => exact absurd rfl hne
  | cons c cs =>
    have hp : (c :: cs).isPrefixOf (c :: (cs ++ r)) = true := by
      simp [List.isPrefixOf]
    simp only [List.cons_append, splitGo, hp, if_true, List.length_cons, Nat.add_sub_cancel]
    rw [splitGo_skip]

theorem isPrefixOf_long {sep b r : Str} (h : sep.isPrefixOf (b ++ r) = true) (hl : sep.length ≤ b.length) :
    sep.isPrefixOf b = true := by
  induction sep generalizing b with
  | nil => simp
  | cons c cs ih =>
    cases b with
    | nil => simp at hl
    | cons y ys =>
      simp only [List.cons_append, List.isPrefixOf, Bool.and_eq_true] at h ⊢
      exact ⟨h.1, ih h.2 (by simpa using hl)⟩

theorem isPrefixOf_short {sep b r : Str} (h : sep.isPrefixOf (b ++ r) = true) (hl : b.length ≤ sep.length) :
    ∀ c ∈ b, c ∈ sep := by
  induction sep generalizing b with
  | nil =>
    intro c hc
    cases b with
    | nil => cases hc
    | cons _ _ => simp at hl
  | cons x xs ih =>
    cases b with
    | nil => intro c hc; cases hc
    | cons y ys =>
      simp only [List.cons_append, List.isPrefixOf, Bool.and_eq_true, beq_iff_eq] at h
      intro c hc
      rcases List.mem_cons.mp hc with rfl | hc
      · rw [← h.1]; exact List.mem_cons_self ..
      · exact List.mem_cons_of_mem _ (ih h.2 (by simpa using hl) c hc)

theorem hasInfix_of_suffix_prefix (sep a b : Str) (h : sep.isPrefixOf b = true) : hasInfix sep (a ++ b) = true := by
  induction a with
  | nil =>
    cases b with
    | nil => simp [hasInfix] at h ⊢; simpa using h
    | cons y ys => simp [hasInfix, h]
  | cons x xs ih => simp [hasInfix, ih]

/-- the separator starts nowhere inside a piece that does not contain it and whose last
    character does not occur in the separator -/
theorem noStart_of_clean (sep q r : Str) (hinf : hasInfix sep q = false)
    (hlast : ∀ c, q.getLast? = some c → c ∉ sep) :
    ∀ a b, q = a ++ b → b ≠ [] → sep.isPrefixOf (b ++ r) = false := by
  intro a b hab hb
  cases hp : sep.isPrefixOf (b ++ r) with
  | false => rfl
  | true =>
    exfalso
    by_cases hl : sep.length ≤ b.length
    · have := hasInfix_of_suffix_prefix sep a b (isPrefixOf_long hp hl)
      rw [← hab, hinf] at this; cases this
    · have hmem := isPrefixOf_short hp (by omega)
      obtain ⟨c, hc⟩ : ∃ c, b.getLast? = some c := by
        cases hgl : b.getLast? with
        | none => simp at hgl; exact absurd hgl hb
        | some c => exact ⟨c, rfl⟩
      have hq : q.getLast? = some c := by
        rw [hab, List.getLast?_append, hc]; simp
      exact hlast c hq (hmem c (List.mem_of_getLast? hc))

theorem isPrefixOf_append_right {sep a : Str} (b : Str) (h : sep.isPrefixOf a = true) :
    sep.isPrefixOf (a ++ b) = true := by
  induction sep generalizing a with
  | nil => simp
  | cons c cs ih =>
    cases a with
    | nil => simp at h
    | cons y ys =>
      simp only [List.cons_append, List.isPrefixOf, Bool.and_eq_true] at h ⊢
      exact ⟨h.1, ih h.2⟩

theorem hasInfix_prefix_false (sep a b : Str) (hne : sep ≠ []) (h : hasInfix sep (a ++ b) = false) :
    hasInfix sep a = false := by
  induction a with
  | nil =>
    cases sep with
    | nil => exact absurd rfl hne
    | cons _ _ => simp [hasInfix]
  | cons x xs ih =>
    simp only [List.cons_append, hasInfix, Bool.or_eq_false_iff] at h ⊢
    refine ⟨?_, ih h.2⟩
    cases hp : sep.isPrefixOf (x :: xs) with
    | false => rfl
    | true =>
      have := isPrefixOf_append_right b hp
      simp only [List.cons_append] at this
      rw [this] at h; cases h.1

theorem noStart_of_noInfix (sep q : Str) (hinf : hasInfix sep q = false) :
    ∀ a b, q = a ++ b → b ≠ [] → sep.isPrefixOf (b ++ []) = false := by
  intro a b hab _
  cases hp : sep.isPrefixOf (b ++ []) with
  | false => rfl
  | true =>
    have := hasInfix_of_suffix_prefix sep a b (by simpa using hp)
    rw [← hab, hinf] at this; cases this

def nl2 : Str := ['\n', '\n']

/-- what `_get_named_paths` returns for a group written by `_str_from_list`: every csvpath with
    blank lines around it (the last one only in front) -/
def pieces : List Str → List Str
  | [] => []
  | [p] => [nl2 ++ p]
  | p :: p' :: r => (nl2 ++ p ++ nl2) :: pieces (p' :: r)

/-- the text of the group file, piece by piece -/
def groupText : List Str → Str
  | [] => []
  | [p] => marker ++ (nl2 ++ p)
  | p :: p' :: r => marker ++ (nl2 ++ p ++ nl2) ++ groupText (p' :: r)

theorem joiner_eq : joiner = nl2 ++ marker ++ nl2 := by decide

theorem strFromList_eq (ps : List Str) (hne : ps ≠ []) : strFromList ps = nl2 ++ groupText ps := by
  have gen : ∀ (ps : List Str) (acc : Str), ps ≠ [] →
      ps.foldl (fun f p => f ++ joiner ++ p) acc = acc ++ nl2 ++ groupText ps := by
    intro ps
    induction ps with
    | nil => intro acc h; exact absurd rfl h
    | cons p r ih =>
      intro acc _
      cases r with
      | nil => simp only [List.foldl_cons, List.foldl_nil, groupText, joiner_eq, List.append_assoc]
      | cons p' r' =>
        rw [List.foldl_cons, ih _ (by simp)]
        simp only [groupText, joiner_eq, List.append_assoc]
  simpa [strFromList] using gen ps [] hne

/-- a csvpath is clean when the marker does not occur in it (stated with the blank lines the
    group file puts around it, which contain no marker character) -/
def Clean (p : Str) : Prop := hasInfix marker (nl2 ++ p ++ nl2) = false

theorem marker_ne : marker ≠ [] := by decide

theorem nl_not_in_marker : ∀ c, (nl2 ++ ([] : Str) ++ nl2).getLast? = some c → c ∉ marker := by decide

theorem split_groupText (ps : List Str) (hc : ∀ p ∈ ps, Clean p) (hne : ps ≠ []) (cur : Str) :
    splitGo marker 0 (groupText ps) cur = cur.reverse :: pieces ps := by
  induction ps generalizing cur with
  | nil => exact absurd rfl hne
  | cons p r ih =>
    have hp := hc p (List.mem_cons_self ..)
    cases r with
    | nil =>
      simp only [groupText, pieces]
      rw [splitGo_sep marker marker_ne]
      have h1 : hasInfix marker (nl2 ++ p) = false := by
        have := hasInfix_prefix_false marker (nl2 ++ p) nl2 marker_ne (by simpa [Clean] using hp)
        exact this
      have := splitGo_plain marker (nl2 ++ p) [] [] (noStart_of_noInfix marker _ h1)
      simp only [List.append_nil] at this
      rw [this]; simp [splitGo]
    | cons p' r' =>
      simp only [groupText, pieces]
      rw [List.append_assoc, splitGo_sep marker marker_ne]
      have hlast : ∀ c, (nl2 ++ p ++ nl2).getLast? = some c → c ∉ marker := by
        intro c hcq
        have : c = '\n' := by
          have e : nl2 ++ p ++ nl2 = (nl2 ++ p ++ ['\n']) ++ ['\n'] := by simp [nl2]
          rw [e, List.getLast?_append] at hcq
          simp at hcq; exact hcq.symm
        subst this; decide
      have := splitGo_plain marker (nl2 ++ p ++ nl2) (groupText (p' :: r')) []
        (noStart_of_clean marker _ _ (by simpa [Clean] using hp) hlast)
      rw [this]
      rw [ih (fun q hq => hc q (List.mem_cons_of_mem _ hq)) (by simp)]
      simp

end Proofs.Paths
