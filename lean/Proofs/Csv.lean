/-
  Lemmas for the csv model: what the reader's state machine does on each piece of what the writer
  emits (a quoted body, an unquoted body, a cell and its terminator, a record, a file).
-/
import Model.Csv

namespace Proofs.Csv
open Model.Csv

/-- a dialect the `csv` module accepts and that can be told from line ends -/
structure WFD (d : Dialect) : Prop where
  dq : d.delim ≠ d.quote
  dn : d.delim ≠ '\n'
  dr : d.delim ≠ '\r'
  qn : d.quote ≠ '\n'
  qr : d.quote ≠ '\r'

def run (d : Dialect) (a : Acc) (cs : List Char) : Acc := cs.foldl (feed d) a

@[simp] theorem run_nil (d : Dialect) (a : Acc) : run d a [] = a := rfl
@[simp] theorem run_cons (d : Dialect) (a : Acc) (c : Char) (cs : List Char) :
    run d a (c :: cs) = run d (feed d a c) cs := rfl
theorem run_append (d : Dialect) (a : Acc) (xs ys : List Char) :
    run d a (xs ++ ys) = run d (run d a xs) ys := by simp [run, List.foldl_append]

/-- neither the delimiter, nor the quote character, nor a line end -/
def Plain (d : Dialect) (c : Char) : Prop := c ≠ d.delim ∧ c ≠ d.quote ∧ c ≠ '\n' ∧ c ≠ '\r'

set_option linter.unusedSectionVars false

section micro
variable (d : Dialect) (hd : WFD d) (f : List Char) (fs : List Cell) (out : List Rec) (p : Bool)
include hd

theorem q_char (c : Char) (hq : c ≠ d.quote) (hn : c ≠ '\n') (hl : f.length < d.limit) :
    feed d ⟨⟨.inQuoted, f, fs, false⟩, out, p⟩ c = ⟨⟨.inQuoted, c :: f, fs, false⟩, out, true⟩ := by
  simp [feed, step, addChar, hq, hn, hl]

theorem q_nl (hl : f.length < d.limit) :
    feed d ⟨⟨.inQuoted, f, fs, false⟩, out, p⟩ '\n' = ⟨⟨.inQuoted, '\n' :: f, fs, false⟩, out, false⟩ := by
  have := hd.qn
  simp [feed, step, addChar, endLine, hl, this.symm]

theorem q_quote :
    feed d ⟨⟨.inQuoted, f, fs, false⟩, out, p⟩ d.quote = ⟨⟨.quoteInQuoted, f, fs, false⟩, out, true⟩ := by
  have := hd.qn
  simp [feed, step, this]

theorem qq_quote (hl : f.length < d.limit) :
    feed d ⟨⟨.quoteInQuoted, f, fs, false⟩, out, p⟩ d.quote = ⟨⟨.inQuoted, d.quote :: f, fs, false⟩, out, true⟩ := by
  have := hd.qn
  simp [feed, step, addChar, this, hl]

theorem qq_delim :
    feed d ⟨⟨.quoteInQuoted, f, fs, false⟩, out, p⟩ d.delim = ⟨⟨.startField, [], f.reverse :: fs, false⟩, out, true⟩ := by
  have h1 := hd.dn
  have h2 := hd.dq
  simp [feed, step, saveField, h1, h2]

theorem qq_nl :
    feed d ⟨⟨.quoteInQuoted, f, fs, false⟩, out, p⟩ '\n'
      = ⟨⟨.startRecord, [], [], false⟩, (f.reverse :: fs).reverse :: out, false⟩ := by
  have h1 := hd.dn
  have h2 := hd.qn
  simp [feed, step, saveField, endLine, isNL, h1.symm, h2.symm]

theorem sf_quote :
    feed d ⟨⟨.startField, [], fs, false⟩, out, p⟩ d.quote = ⟨⟨.inQuoted, [], fs, false⟩, out, true⟩ := by
  have h1 := hd.qn
  have h2 := hd.qr
  simp [feed, step, startFieldStep, isNL, h1, h2]

theorem sf_delim :
    feed d ⟨⟨.startField, [], fs, false⟩, out, p⟩ d.delim = ⟨⟨.startField, [], [] :: fs, false⟩, out, true⟩ := by
  have h1 := hd.dn
  have h2 := hd.dr
  have h3 := hd.dq
  simp [feed, step, startFieldStep, saveField, isNL, h1, h2, h3]

theorem sf_nl :
    feed d ⟨⟨.startField, [], fs, false⟩, out, p⟩ '\n'
      = ⟨⟨.startRecord, [], [], false⟩, ([] :: fs).reverse :: out, false⟩ := by
  simp [feed, step, startFieldStep, saveField, endLine, isNL]

theorem sf_plain (c : Char) (hc : Plain d c) (hl : 0 < d.limit) :
    feed d ⟨⟨.startField, [], fs, false⟩, out, p⟩ c = ⟨⟨.inField, [c], fs, false⟩, out, true⟩ := by
  obtain ⟨h1, h2, h3, h4⟩ := hc
  simp [feed, step, startFieldStep, addChar, isNL, h1, h2, h3, h4, hl]

theorem if_plain (c : Char) (hc : Plain d c) (hl : f.length < d.limit) :
    feed d ⟨⟨.inField, f, fs, false⟩, out, p⟩ c = ⟨⟨.inField, c :: f, fs, false⟩, out, true⟩ := by
  obtain ⟨h1, h2, h3, h4⟩ := hc
  simp [feed, step, addChar, isNL, h1, h3, h4, hl]

theorem if_delim :
    feed d ⟨⟨.inField, f, fs, false⟩, out, p⟩ d.delim = ⟨⟨.startField, [], f.reverse :: fs, false⟩, out, true⟩ := by
  have h1 := hd.dn
  have h2 := hd.dr
  simp [feed, step, saveField, isNL, h1, h2]

theorem if_nl :
    feed d ⟨⟨.inField, f, fs, false⟩, out, p⟩ '\n'
      = ⟨⟨.startRecord, [], [], false⟩, (f.reverse :: fs).reverse :: out, false⟩ := by
  simp [feed, step, saveField, endLine, isNL]

theorem sr_other (c : Char) (hn : c ≠ '\n') (hr : c ≠ '\r') :
    feed d ⟨⟨.startRecord, [], [], false⟩, out, p⟩ c = feed d ⟨⟨.startField, [], [], false⟩, out, p⟩ c := by
  simp [feed, step, isNL, hn, hr]

theorem sr_nl :
    feed d ⟨⟨.startRecord, [], [], false⟩, out, p⟩ '\n' = ⟨⟨.startRecord, [], [], false⟩, [] :: out, false⟩ := by
  simp [feed, step, endLine, isNL]

end micro

/-- inside a quoted field the escaped body puts back exactly the cell's characters -/
theorem run_escape (d : Dialect) (hd : WFD d) (cs : Cell) :
    ∀ (f : List Char) (fs : List Cell) (out : List Rec) (p : Bool), f.length + cs.length ≤ d.limit →
      ∃ p', run d ⟨⟨.inQuoted, f, fs, false⟩, out, p⟩ (escape d cs) = ⟨⟨.inQuoted, cs.reverse ++ f, fs, false⟩, out, p'⟩ := by
  induction cs with
  | nil => intro f fs out p _; exact ⟨p, rfl⟩
  | cons c cs ih =>
    intro f fs out p hl
    simp only [List.length_cons] at hl
    by_cases hq : c = d.quote
    · subst hq
      simp only [escape, beq_self_eq_true, if_true, run_cons]
      rw [q_quote d hd, qq_quote d hd _ _ _ _ (by omega)]
      obtain ⟨p', h⟩ := ih (d.quote :: f) fs out true (by simp; omega)
      exact ⟨p', by rw [h]; simp⟩
    · have hq' : (c == d.quote) = false := by simpa using hq
      simp only [escape, hq', Bool.false_eq_true, if_false, run_cons]
      by_cases hn : c = '\n'
      · subst hn
        rw [q_nl d hd _ _ _ _ (by omega)]
        obtain ⟨p', h⟩ := ih ('\n' :: f) fs out false (by simp; omega)
        exact ⟨p', by rw [h]; simp⟩
      · rw [q_char d hd _ _ _ _ c hq hn (by omega)]
        obtain ⟨p', h⟩ := ih (c :: f) fs out true (by simp; omega)
        exact ⟨p', by rw [h]; simp⟩

/-- an unquoted body arrives unchanged -/
theorem run_plain (d : Dialect) (hd : WFD d) (cs : Cell) (hp : ∀ c ∈ cs, Plain d c) :
    ∀ (f : List Char) (fs : List Cell) (out : List Rec) (p : Bool), f.length + cs.length ≤ d.limit →
      ∃ p', run d ⟨⟨.inField, f, fs, false⟩, out, p⟩ cs = ⟨⟨.inField, cs.reverse ++ f, fs, false⟩, out, p'⟩ := by
  induction cs with
  | nil => intro f fs out p _; exact ⟨p, rfl⟩
  | cons c cs ih =>
    intro f fs out p hl
    simp only [List.length_cons] at hl
    simp only [run_cons]
    rw [if_plain d hd _ _ _ _ c (hp c (List.mem_cons_self ..)) (by omega)]
    obtain ⟨p', h⟩ := ih (fun x hx => hp x (List.mem_cons_of_mem _ hx)) (c :: f) fs out true (by simp; omega)
    exact ⟨p', by rw [h]; simp⟩

/-- the characters of a cell that needs no quotes are plain, given it holds no carriage return -/
theorem plain_of_unquoted (d : Dialect) (c : Cell) (hq : needsQuote d c = false) (hr : '\r' ∉ c) :
    ∀ x ∈ c, Plain d x := by
  intro x hx
  unfold needsQuote at hq
  have := (List.any_eq_false.mp hq) x hx
  simp only [Bool.or_eq_true, beq_iff_eq, not_or] at this
  exact ⟨this.1.1, this.1.2, this.2, fun h => hr (h ▸ hx)⟩

/-- a cell as written, followed by the delimiter: the reader has saved exactly that cell and
    waits for the next field -/
theorem cell_delim (d : Dialect) (hd : WFD d) (c : Cell) (hr : '\r' ∉ c) (hl : c.length ≤ d.limit)
    (fs : List Cell) (out : List Rec) (p : Bool) :
    ∃ p', run d ⟨⟨.startField, [], fs, false⟩, out, p⟩ (encCell d c ++ [d.delim])
      = ⟨⟨.startField, [], c :: fs, false⟩, out, p'⟩ := by
  unfold encCell
  by_cases hq : needsQuote d c = true
  · simp only [hq, if_true, List.cons_append, run_cons, List.append_assoc]
    rw [sf_quote d hd, run_append]
    obtain ⟨p', h⟩ := run_escape d hd c [] fs out true (by simpa using hl)
    rw [h]
    simp only [List.append_nil, List.nil_append, run_cons, run_nil]
    rw [q_quote d hd, qq_delim d hd]
    exact ⟨true, by simp⟩
  · have hq' : needsQuote d c = false := by simpa using hq
    simp only [hq', Bool.false_eq_true, if_false]
    cases c with
    | nil =>
      simp only [List.nil_append, run_cons, run_nil]
      rw [sf_delim d hd]
      exact ⟨true, rfl⟩
    | cons x xs =>
      have hp := plain_of_unquoted d (x :: xs) hq' hr
      simp only [List.length_cons] at hl
      simp only [List.cons_append, run_cons]
      rw [sf_plain d hd _ _ _ x (hp x (List.mem_cons_self ..)) (by omega), run_append]
      obtain ⟨p', h⟩ := run_plain d hd xs (fun y hy => hp y (List.mem_cons_of_mem _ hy)) [x] fs out true
        (by simp; omega)
      rw [h]
      simp only [run_cons, run_nil]
      rw [if_delim d hd]
      exact ⟨true, by simp⟩

/-- a cell as written, followed by the line end: the record is complete and returned -/
theorem cell_nl (d : Dialect) (hd : WFD d) (c : Cell) (hr : '\r' ∉ c) (hl : c.length ≤ d.limit)
    (fs : List Cell) (out : List Rec) (p : Bool) :
    run d ⟨⟨.startField, [], fs, false⟩, out, p⟩ (encCell d c ++ ['\n'])
      = ⟨⟨.startRecord, [], [], false⟩, (c :: fs).reverse :: out, false⟩ := by
  unfold encCell
  by_cases hq : needsQuote d c = true
  · simp only [hq, if_true, List.cons_append, run_cons, List.append_assoc]
    rw [sf_quote d hd, run_append]
    obtain ⟨p', h⟩ := run_escape d hd c [] fs out true (by simpa using hl)
    rw [h]
    simp only [List.append_nil, List.nil_append, run_cons, run_nil]
    rw [q_quote d hd, qq_nl d hd]
    simp
  · have hq' : needsQuote d c = false := by simpa using hq
    simp only [hq', Bool.false_eq_true, if_false]
    cases c with
    | nil =>
      simp only [List.nil_append, run_cons, run_nil]
      rw [sf_nl d hd]
    | cons x xs =>
      have hp := plain_of_unquoted d (x :: xs) hq' hr
      simp only [List.length_cons] at hl
      simp only [List.cons_append, run_cons]
      rw [sf_plain d hd _ _ _ x (hp x (List.mem_cons_self ..)) (by omega), run_append]
      obtain ⟨p', h⟩ := run_plain d hd xs (fun y hy => hp y (List.mem_cons_of_mem _ hy)) [x] fs out true
        (by simp; omega)
      rw [h]
      simp only [run_cons, run_nil]
      rw [if_nl d hd]
      simp

/-- the cells of a record, joined by delimiters and ended by the line end -/
theorem cells_run (d : Dialect) (hd : WFD d) (cs : List Cell) (hne : cs ≠ [])
    (h : ∀ c ∈ cs, '\r' ∉ c ∧ c.length ≤ d.limit) :
    ∀ (fs : List Cell) (out : List Rec) (p : Bool),
      run d ⟨⟨.startField, [], fs, false⟩, out, p⟩ (encCells d cs)
        = ⟨⟨.startRecord, [], [], false⟩, (fs.reverse ++ cs) :: out, false⟩ := by
  induction cs with
  | nil => exact absurd rfl hne
  | cons c rest ih =>
    intro fs out p
    have hc := h c (List.mem_cons_self ..)
    cases rest with
    | nil =>
      simp only [encCells]
      rw [cell_nl d hd c hc.1 hc.2]
      simp
    | cons c2 rest2 =>
      simp only [encCells]
      have : encCell d c ++ d.delim :: encCells d (c2 :: rest2) = (encCell d c ++ [d.delim]) ++ encCells d (c2 :: rest2) := by
        simp
      rw [this, run_append]
      obtain ⟨p', h1⟩ := cell_delim d hd c hc.1 hc.2 fs out p
      rw [h1, ih (by simp) (fun x hx => h x (List.mem_cons_of_mem _ hx))]
      simp

/-- the first character of a record that is neither `[]` nor `[""]` is not a line end -/
theorem encCells_head (d : Dialect) (hd : WFD d) (c : Cell) (rest : List Cell) (hr : '\r' ∉ c)
    (hne : c ≠ [] ∨ rest ≠ []) :
    ∃ x t, encCells d (c :: rest) = x :: t ∧ x ≠ '\n' ∧ x ≠ '\r' := by
  by_cases hq : needsQuote d c = true
  · cases rest with
    | nil =>
      simp only [encCells, encCell, hq, if_true, List.cons_append]
      exact ⟨_, _, rfl, hd.qn, hd.qr⟩
    | cons c2 r2 =>
      simp only [encCells, encCell, hq, if_true, List.cons_append]
      exact ⟨_, _, rfl, hd.qn, hd.qr⟩
  · have hq' : needsQuote d c = false := by simpa using hq
    cases c with
    | nil =>
      cases rest with
      | nil => simp at hne
      | cons c2 r2 =>
        simp only [encCells, encCell, hq', Bool.false_eq_true, if_false, List.nil_append]
        exact ⟨_, _, rfl, hd.dn, hd.dr⟩
    | cons x xs =>
      have hp := plain_of_unquoted d (x :: xs) hq' hr x (List.mem_cons_self ..)
      cases rest with
      | nil =>
        simp only [encCells, encCell, hq', Bool.false_eq_true, if_false, List.cons_append]
        exact ⟨_, _, rfl, hp.2.2.1, hp.2.2.2⟩
      | cons c2 r2 =>
        simp only [encCells, encCell, hq', Bool.false_eq_true, if_false, List.cons_append]
        exact ⟨_, _, rfl, hp.2.2.1, hp.2.2.2⟩

/-- one record as `writerow` writes it is read back as that record -/
theorem record_run (d : Dialect) (hd : WFD d) (r : Rec) (h : ∀ c ∈ r, '\r' ∉ c ∧ c.length ≤ d.limit)
    (out : List Rec) (p : Bool) :
    run d ⟨⟨.startRecord, [], [], false⟩, out, p⟩ (encRecord d r) = ⟨⟨.startRecord, [], [], false⟩, r :: out, false⟩ := by
  match r, h with
  | [], _ =>
    simp only [encRecord, run_cons, run_nil]
    rw [sr_nl d hd]
  | [[]], _ =>
    simp only [encRecord, run_cons, run_nil]
    rw [sr_other d hd _ _ _ hd.qn hd.qr, sf_quote d hd, q_quote d hd, qq_nl d hd]
    simp
  | [c :: cs], h =>
    have hc := h (c :: cs) (List.mem_cons_self ..)
    obtain ⟨x, t, e, hn, hr⟩ := encCells_head d hd (c :: cs) [] hc.1 (Or.inl (by simp))
    have key := cells_run d hd [c :: cs] (by simp) h [] out p
    simp only [encRecord]
    rw [e] at key ⊢
    simp only [run_cons] at key ⊢
    rw [sr_other d hd _ _ _ hn hr, key]
    simp
  | c :: c2 :: rest, h =>
    have hc := h c (List.mem_cons_self ..)
    obtain ⟨x, t, e, hn, hr⟩ := encCells_head d hd c (c2 :: rest) hc.1 (Or.inr (by simp))
    have key := cells_run d hd (c :: c2 :: rest) (by simp) h [] out p
    simp only [encRecord]
    rw [e] at key ⊢
    simp only [run_cons] at key ⊢
    rw [sr_other d hd _ _ _ hn hr, key]
    simp

/-- a whole file -/
theorem records_run (d : Dialect) (hd : WFD d) (recs : List Rec)
    (h : ∀ r ∈ recs, ∀ c ∈ r, '\r' ∉ c ∧ c.length ≤ d.limit) :
    ∀ (out : List Rec), run d ⟨⟨.startRecord, [], [], false⟩, out, false⟩ (render d recs)
      = ⟨⟨.startRecord, [], [], false⟩, recs.reverse ++ out, false⟩ := by
  induction recs with
  | nil => intro out; simp [render]
  | cons r rest ih =>
    intro out
    have : render d (r :: rest) = encRecord d r ++ render d rest := by simp [render]
    rw [this, run_append, record_run d hd r (h r (List.mem_cons_self ..)),
      ih (fun x hx => h x (List.mem_cons_of_mem _ hx))]
    simp

/-! no carriage return is written, so text mode changes nothing -/

theorem universal_id (l : List Char) (h : '\r' ∉ l) : universal l = l := by
  fun_induction universal l <;> simp_all

theorem escape_mem (d : Dialect) (c : Cell) (x : Char) (hx : x ∈ escape d c) : x ∈ c := by
  induction c with
  | nil => simp [escape] at hx
  | cons y ys ih =>
    unfold escape at hx
    split at hx
    · simp only [List.mem_cons] at hx ⊢
      rcases hx with h | h | h
      · exact Or.inl h
      · exact Or.inl h
      · exact Or.inr (ih h)
    · simp only [List.mem_cons] at hx ⊢
      rcases hx with h | h
      · exact Or.inl h
      · exact Or.inr (ih h)

theorem encCell_mem (d : Dialect) (c : Cell) (x : Char) (hx : x ∈ encCell d c) : x ∈ c ∨ x = d.quote := by
  unfold encCell at hx
  split at hx
  · simp only [List.mem_cons, List.mem_append, List.not_mem_nil, or_false] at hx
    rcases hx with h | h | h
    · exact Or.inr h
    · exact Or.inl (escape_mem d c x h)
    · exact Or.inr h
  · exact Or.inl hx

theorem encCells_mem (d : Dialect) (cs : List Cell) (x : Char) (hx : x ∈ encCells d cs) :
    (∃ c ∈ cs, x ∈ c) ∨ x = d.quote ∨ x = d.delim ∨ x = '\n' := by
  induction cs with
  | nil => simp [encCells] at hx; exact Or.inr (Or.inr (Or.inr hx))
  | cons c rest ih =>
    cases rest with
    | nil =>
      simp only [encCells, List.mem_append, List.mem_singleton] at hx
      rcases hx with h | h
      · rcases encCell_mem d c x h with h | h
        · exact Or.inl ⟨c, List.mem_cons_self .., h⟩
        · exact Or.inr (Or.inl h)
      · exact Or.inr (Or.inr (Or.inr h))
    | cons c2 r2 =>
      simp only [encCells, List.mem_append, List.mem_cons] at hx
      rcases hx with h | h | h
      · rcases encCell_mem d c x h with h | h
        · exact Or.inl ⟨c, List.mem_cons_self .., h⟩
        · exact Or.inr (Or.inl h)
      · exact Or.inr (Or.inr (Or.inl h))
      · have : x ∈ encCells d (c2 :: r2) := by simpa [encCells] using h
        rcases ih this with ⟨c', hc', hx'⟩ | h
        · exact Or.inl ⟨c', List.mem_cons_of_mem _ hc', hx'⟩
        · exact Or.inr h

theorem encRecord_mem (d : Dialect) (r : Rec) (x : Char) (hx : x ∈ encRecord d r) :
    (∃ c ∈ r, x ∈ c) ∨ x = d.quote ∨ x = d.delim ∨ x = '\n' := by
  unfold encRecord at hx
  split at hx
  · simp at hx; exact Or.inr (Or.inr (Or.inr hx))
  · simp at hx
    rcases hx with h | h
    · exact Or.inr (Or.inl h)
    · exact Or.inr (Or.inr (Or.inr h))
  · exact encCells_mem d _ x hx

theorem render_no_cr (d : Dialect) (hd : WFD d) (recs : List Rec) (h : ∀ r ∈ recs, ∀ c ∈ r, '\r' ∉ c) :
    '\r' ∉ render d recs := by
  intro hm
  simp only [render, List.mem_flatMap] at hm
  obtain ⟨r, hr, hx⟩ := hm
  rcases encRecord_mem d r _ hx with ⟨c, hc, hx'⟩ | h' | h' | h'
  · exact h r hr c hc hx'
  · exact hd.qr h'.symm
  · exact hd.dr h'.symm
  · cases h'

/-- writer then reader is the identity on files -/
theorem read_render (d : Dialect) (hd : WFD d) (recs : List Rec)
    (h : ∀ r ∈ recs, ∀ c ∈ r, '\r' ∉ c ∧ c.length ≤ d.limit) :
    Model.Csv.read d (render d recs) = some recs := by
  unfold Model.Csv.read
  rw [universal_id _ (render_no_cr d hd recs (fun r hr c hc => (h r hr c hc).1))]
  have := records_run d hd recs h []
  unfold run at this
  have e : ({} : Acc) = ⟨⟨.startRecord, [], [], false⟩, [], false⟩ := rfl
  rw [e, this]
  simp [finish]

end Proofs.Csv

namespace Proofs.Csv
open Model.Csv

/-! the default line terminator: text mode turns the writer's `\r\n` back into `\n` -/

theorem universal_cons_ne (c : Char) (l : List Char) (hc : c ≠ '\r') : universal (c :: l) = c :: universal l :=
  universal.eq_4 c l (fun _ h _ => hc h) hc

theorem universal_append (xs ys : List Char) (h : '\r' ∉ xs) : universal (xs ++ ys) = xs ++ universal ys := by
  induction xs with
  | nil => rfl
  | cons c cs ih =>
    have hc : c ≠ '\r' := fun e => h (e ▸ List.mem_cons_self ..)
    have hcs : '\r' ∉ cs := fun m => h (List.mem_cons_of_mem _ m)
    simp only [List.cons_append, universal_cons_ne c _ hc, ih hcs]

theorem universal_crlf (ys : List Char) : universal ('\r' :: '\n' :: ys) = '\n' :: universal ys := by
  simp [universal]

theorem needsQuoteCRLF_eq (d : Dialect) (c : Cell) (hr : '\r' ∉ c) : needsQuoteCRLF d c = needsQuote d c := by
  unfold needsQuoteCRLF needsQuote
  induction c with
  | nil => rfl
  | cons x xs ih =>
    have hx : x ≠ '\r' := fun e => hr (e ▸ List.mem_cons_self ..)
    have hxs : '\r' ∉ xs := fun m => hr (List.mem_cons_of_mem _ m)
    simp only [List.any_cons, ih hxs]
    have : (x == '\r') = false := by simpa using hx
    simp [this]

theorem encCellCRLF_eq (d : Dialect) (c : Cell) (hr : '\r' ∉ c) : encCellCRLF d c = encCell d c := by
  unfold encCellCRLF encCell
  rw [needsQuoteCRLF_eq d c hr]

theorem encCell_no_cr (d : Dialect) (hd : WFD d) (c : Cell) (hr : '\r' ∉ c) : '\r' ∉ encCell d c := by
  intro hm
  rcases encCell_mem d c _ hm with h | h
  · exact hr h
  · exact hd.qr h.symm

theorem universal_cellsCRLF (d : Dialect) (hd : WFD d) (cs : List Cell) (h : ∀ c ∈ cs, '\r' ∉ c) (rest : List Char) :
    universal (encCellsCRLF d cs ++ rest) = encCells d cs ++ universal rest := by
  induction cs with
  | nil => simp [encCellsCRLF, encCells, universal_crlf]
  | cons c tl ih =>
    have hc := h c (List.mem_cons_self ..)
    cases tl with
    | nil =>
      simp only [encCellsCRLF, encCells, encCellCRLF_eq d c hc, List.append_assoc]
      rw [universal_append _ _ (encCell_no_cr d hd c hc)]
      simp [universal_crlf]
    | cons c2 t2 =>
      simp only [encCellsCRLF, encCells, encCellCRLF_eq d c hc, List.append_assoc, List.cons_append]
      rw [universal_append _ _ (encCell_no_cr d hd c hc)]
      have hdl : universal (d.delim :: (encCellsCRLF d (c2 :: t2) ++ rest))
          = d.delim :: universal (encCellsCRLF d (c2 :: t2) ++ rest) := by
        have := universal_append [d.delim] (encCellsCRLF d (c2 :: t2) ++ rest) (by simpa using hd.dr.symm)
        simpa using this
      rw [hdl, ih (fun x hx => h x (List.mem_cons_of_mem _ hx))]

theorem universal_recordCRLF (d : Dialect) (hd : WFD d) (r : Rec) (h : ∀ c ∈ r, '\r' ∉ c) (rest : List Char) :
    universal (encRecordCRLF d r ++ rest) = encRecord d r ++ universal rest := by
  match r, h with
  | [], _ => simp [encRecordCRLF, encRecord, universal_crlf]
  | [[]], _ =>
    simp only [encRecordCRLF, encRecord, List.cons_append, List.nil_append]
    have := universal_append [d.quote, d.quote] ('\r' :: '\n' :: rest) (by simpa using hd.qr.symm)
    simp only [List.cons_append, List.nil_append] at this
    rw [this, universal_crlf]
  | [c :: cs], h => simpa [encRecordCRLF, encRecord] using universal_cellsCRLF d hd [c :: cs] h rest
  | c :: c2 :: t, h => simpa [encRecordCRLF, encRecord] using universal_cellsCRLF d hd (c :: c2 :: t) h rest

/-- one record written with the default line terminator is read back as that record -/
theorem read_recordCRLF (d : Dialect) (hd : WFD d) (r : Rec) (h : ∀ c ∈ r, '\r' ∉ c ∧ c.length ≤ d.limit) :
    Model.Csv.read d (encRecordCRLF d r) = some [r] := by
  have h1 := read_render d hd [r] (by simpa using h)
  unfold Model.Csv.read at h1 ⊢
  have e : universal (encRecordCRLF d r) = render d [r] := by
    have := universal_recordCRLF d hd r (fun c hc => (h c hc).1) []
    simpa [render, universal] using this
  rw [universal_id _ (render_no_cr d hd [r] (by simpa using fun c hc => (h c hc).1))] at h1
  rw [e]
  exact h1

theorem universal_renderCRLF (d : Dialect) (hd : WFD d) (recs : List Rec) (h : ∀ r ∈ recs, ∀ c ∈ r, '\r' ∉ c) :
    universal (renderCRLF d recs) = render d recs := by
  induction recs with
  | nil => rfl
  | cons r rest ih =>
    have e1 : renderCRLF d (r :: rest) = encRecordCRLF d r ++ renderCRLF d rest := by simp [renderCRLF]
    have e2 : render d (r :: rest) = encRecord d r ++ render d rest := by simp [render]
    rw [e1, e2, universal_recordCRLF d hd r (h r (List.mem_cons_self ..)), ih (fun x hx => h x (List.mem_cons_of_mem _ hx))]

/-- a file written with the default line terminator in text mode is read back record for record -/
theorem read_renderCRLF (d : Dialect) (hd : WFD d) (recs : List Rec)
    (h : ∀ r ∈ recs, ∀ c ∈ r, '\r' ∉ c ∧ c.length ≤ d.limit) :
    Model.Csv.read d (renderCRLF d recs) = some recs := by
  have h1 := read_render d hd recs h
  unfold Model.Csv.read at h1 ⊢
  rw [universal_id _ (render_no_cr d hd recs (fun r hr c hc => (h r hr c hc).1))] at h1
  rw [universal_renderCRLF d hd recs (fun r hr c hc => (h r hr c hc).1)]
  exact h1

end Proofs.Csv
