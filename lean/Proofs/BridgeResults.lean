import Generated.CoreResults
import Proofs.BridgeMatches

set_option linter.unusedSimpArgs false
set_option linter.unusedVariables false

/-! Bridge (T) for what a group's results say as a whole: the Lean translation of `ResultsManager.is_valid` and `has_lines`
    (regenerated from /repo on every run, with their loops) computes the conjunction of the members' verdicts and "some member has
    lines".  The results are an object list of the world, given as arbitrary lists. -/
namespace Proofs.BridgeResults
open Proofs.BridgeMatches

/-- a loop that answers `hit` at the first element with `P` and `miss` if there is none -/
theorem search_loop {α : Type} (e : Py.Env) (xs : List α) (P : α → Bool) (hit miss : Bool)
    (body : Nat → List Py.V → Py.Env → List Py.Eff → Py.H.K → Py.H.K → Py.H.Res) (k : Py.H.K)
    (hb : ∀ idx (h : idx < xs.length) locs effs (next brk : Py.H.K),
      ∃ locs', body idx locs e effs next brk = if P xs[idx] then .ok (.bool hit) e effs else next locs' e effs)
    (hk : ∀ locs effs, k locs e effs = .ok (.bool miss) e effs) :
    ∀ r idx locs effs, idx + r = xs.length →
      Py.H.forGo body k r idx locs e effs = .ok (.bool (if (xs.drop idx).any P then hit else miss)) e effs := by
  intro r
  induction r with
  | zero =>
    intro idx locs effs hi
    have : xs.drop idx = [] := by simp; omega
    simp [Py.H.forGo, hk, this]
  | succ r ih =>
    intro idx locs effs hi
    have hlt : idx < xs.length := by omega
    obtain ⟨locs', hb'⟩ := hb idx hlt locs effs (fun locs env effs => Py.H.forGo body k r (idx + 1) locs env effs) k
    have hd : xs.drop idx = xs[idx] :: xs.drop (idx + 1) := List.drop_eq_getElem_cons hlt
    simp only [Py.H.forGo, hb', hd, List.any_cons]
    by_cases hp : P xs[idx] = true
    · simp [hp]
    · have hp' : P xs[idx] = false := by simpa using hp
      simp [hp', ih (idx + 1) locs' effs (by omega)]

theorem any_not_all (vs : List Bool) : (if (vs.any fun b => !b) = true then false else true) = vs.all id := by
  induction vs with
  | nil => rfl
  | cons b bs ih => cases b <;> simp_all

theorem ite_bool_id (b : Bool) : (if b = true then true else false) = b := by cases b <;> rfl

/-- the environment shows the members' verdicts -/
structure ShowsValid (e : Py.Env) (vs : List Bool) : Prop where
  len : e "len(results)" = .int vs.length
  valid : ∀ i (h : i < vs.length), e (Py.ikey "results" i ".is_valid") = .bool vs[i]

/-- the environment shows the members' collected lines (as many cells as matter here: the number of lines) -/
structure ShowsLines (e : Py.Env) (ls : List (List String)) : Prop where
  len : e "len(results)" = .int ls.length
  lines : ∀ i (h : i < ls.length), e (Py.ikey "results" i ".lines") = .strs ls[i]

theorem is_valid_bridge (ext : Py.Ext) (e : Py.Env) (vs : List Bool) (name : Py.V) (effs : List Py.Eff) (h : ShowsValid e vs) :
    Generated.Results.ResultsManager.is_valid ext e name effs = .ok (.bool (vs.all id)) e effs := by
  simp only [py_core, h.len, Py.H.forRange, Py.natOf, Int.toNat_natCast]
  refine (search_loop e vs (fun b => !b) false true _ _ ?hb ?hk vs.length 0 _ effs (by omega)).trans ?_
  case hb =>
    intro idx hlt locs effs' next brk
    refine ⟨[], ?_⟩
    simp only [h.valid idx hlt, not_bool, cond_bool, Py.H.ret]
  case hk =>
    intro locs effs'
    rfl
  · simp only [List.drop_zero, any_not_all]

theorem has_lines_bridge (ext : Py.Ext) (e : Py.Env) (ls : List (List String)) (name : Py.V) (effs : List Py.Eff) (h : ShowsLines e ls) :
    Generated.Results.ResultsManager.has_lines ext e name effs = .ok (.bool (ls.any fun l => !l.isEmpty)) e effs := by
  simp only [py_core, h.len, Py.H.forRange, Py.natOf, Int.toNat_natCast]
  refine (search_loop e ls (fun l => !l.isEmpty) true false _ _ ?hb ?hk ls.length 0 _ effs (by omega)).trans ?_
  case hb =>
    intro idx hlt locs effs' next brk
    refine ⟨[], ?_⟩
    rw [h.lines idx hlt]
    cases hl : ls[idx] with
    | nil => simp [py_norm, Py.len, Py.H.cond, Py.H.ret]
    | cons x xs =>
      have : ¬ ((xs.length : Int) + 1 ≤ 0) := by omega
      simp [py_norm, Py.len, Py.H.cond, Py.H.ret, this]
  case hk =>
    intro locs effs'
    rfl
  · simp only [List.drop_zero, ite_bool_id]

end Proofs.BridgeResults
