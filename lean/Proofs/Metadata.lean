import Model.Metadata
set_option linter.unusedSimpArgs false

namespace Proofs.Meta
open Model.Meta

/-- free of the four characters the outer scanner reacts to -/
def plain (x : MChar) : Bool := x.c != '~' && x.c != '[' && x.c != ']' && x.c != '$'

theorem go_comment (k : MStr) (hk : ∀ x ∈ k, plain x = true) (rest p acc : MStr) :
    extractGo .comment (k ++ rest) p acc = extractGo .comment rest p (k.reverse ++ acc) := by
  induction k generalizing acc with
  | nil => simp
  | cons x xs ih =>
    have hx := hk x (List.mem_cons_self ..)
    simp only [plain, Bool.and_eq_true, bne_iff_ne, ne_eq] at hx
    obtain ⟨⟨⟨h1, h2⟩, h3⟩, h4⟩ := hx
    simp only [List.cons_append, extractGo, beq_iff_eq, h1, h2, h3, h4, if_false]
    rw [ih (fun y hy => hk y (List.mem_cons_of_mem _ hy))]
    simp

theorem go_outside (w : MStr) (hw : ∀ x ∈ w, plain x = true) (rest p acc : MStr) :
    extractGo .outside (w ++ rest) p acc = extractGo .outside rest p acc := by
  induction w with
  | nil => simp
  | cons x xs ih =>
    have hx := hw x (List.mem_cons_self ..)
    simp only [plain, Bool.and_eq_true, bne_iff_ne, ne_eq] at hx
    obtain ⟨⟨⟨h1, h2⟩, h3⟩, h4⟩ := hx
    simp only [List.cons_append, extractGo, beq_iff_eq, h1, h2, h3, h4, if_false]
    exact ih (fun y hy => hw y (List.mem_cons_of_mem _ hy))

theorem hasChar_append_last (xs : MStr) (rb : MChar) (h : rb.c = ']') : hasChar (xs ++ [rb]) ']' = true := by
  simp [hasChar, h]

theorem go_inside (xs : MStr) (rb : MChar) (h : rb.c = ']') (p acc : MStr) :
    extractGo .inside (xs ++ [rb]) p acc = (p.reverse ++ xs ++ [rb], acc.reverse) := by
  induction xs generalizing p with
  | nil =>
    simp [extractGo, h, hasChar]
  | cons x xs ih =>
    have hh := hasChar_append_last xs rb h
    simp only [List.cons_append, extractGo]
    by_cases h1 : x.c = '~'
    · simp only [beq_iff_eq, h1, if_true]; rw [ih]; simp
    · by_cases h2 : x.c = '['
      · simp only [beq_iff_eq, h1, h2, if_true, if_false]; rw [ih]; simp
      · by_cases h3 : x.c = ']'
        · simp only [beq_iff_eq, h1, h2, h3, if_true, if_false, hh]
          simp only [Bool.not_true, Bool.and_false, Bool.false_eq_true, if_false]
          rw [ih]; simp
        · by_cases h4 : x.c = '$'
          · simp only [beq_iff_eq, h1, h2, h3, h4, if_true, if_false]; rw [ih]; simp
          · simp only [beq_iff_eq, h1, h2, h3, h4, if_false]; rw [ih]; simp

/-- an outer comment free of `~ [ ] $`, optional layout after it, then a csvpath that starts
    with `$` and ends with `]`: the csvpath comes back unchanged (scan part, match part, inner
    comments and all) and the comment is returned whole. -/
theorem extract_comment_then_path (t1 t2 dollar rb : MChar) (k w body : MStr)
    (ht1 : t1.c = '~') (ht2 : t2.c = '~') (hd : dollar.c = '$') (hr : rb.c = ']')
    (hk : ∀ x ∈ k, plain x = true) (hw : ∀ x ∈ w, plain x = true) :
    extract ([t1] ++ k ++ [t2] ++ w ++ [dollar] ++ body ++ [rb]) = ([dollar] ++ body ++ [rb], k) := by
  unfold extract
  have e1 : [t1] ++ k ++ [t2] ++ w ++ [dollar] ++ body ++ [rb] =
      t1 :: (k ++ (t2 :: (w ++ (dollar :: (body ++ [rb]))))) := by simp
  rw [e1]
  simp only [extractGo, beq_iff_eq, ht1, if_true]
  rw [go_comment k hk]
  simp only [extractGo, beq_iff_eq, ht2, if_true]
  rw [go_outside w hw]
  have hd1 : ¬ dollar.c = '~' := by rw [hd]; decide
  have hd2 : ¬ dollar.c = '[' := by rw [hd]; decide
  have hd3 : ¬ dollar.c = ']' := by rw [hd]; decide
  simp only [extractGo, beq_iff_eq, hd1, hd2, hd3, hd, if_true, if_false]
  rw [go_inside body rb hr]
  simp

/-- without an outer comment the csvpath is returned unchanged -/
theorem extract_plain_path (dollar rb : MChar) (body : MStr) (hd : dollar.c = '$') (hr : rb.c = ']') :
    extract ([dollar] ++ body ++ [rb]) = ([dollar] ++ body ++ [rb], []) := by
  unfold extract
  have hd1 : ¬ dollar.c = '~' := by rw [hd]; decide
  have hd2 : ¬ dollar.c = '[' := by rw [hd]; decide
  have hd3 : ¬ dollar.c = ']' := by rw [hd]; decide
  have e1 : [dollar] ++ body ++ [rb] = dollar :: (body ++ [rb]) := by simp
  rw [e1]
  simp only [extractGo, beq_iff_eq, hd1, hd2, hd3, hd, if_true, if_false]
  rw [go_inside body rb hr]
  simp

end Proofs.Meta
