import Model.Group
import Proofs.RunLoop

namespace Proofs.Group
open Model.Scan Model.Run Model.Group

variable {σ : Type}

/-- a member alone, as `CsvPath.next()` sees it: the standalone run is the solo fold, then
    `finalize` -/
theorem runFrom_solo (mem : Member σ) (ku : Bool) (endIdx : Option Nat) :
    ∀ (recs : List Rec) (i : Nat) (st : LoopSt σ) (acc : Acc) (ls : List Rec), st.fl.stopped = false →
      ls ++ (runFrom mem.m mem.scan mem.cwnm ku endIdx none i recs st acc).1 =
        (soloFrom mem endIdx i recs { st := st, lines := ls }).lines ∧
      (runFrom mem.m mem.scan mem.cwnm ku endIdx none i recs st acc).2.1 =
        finalize (soloFrom mem endIdx i recs { st := st, lines := ls }).st := by
  intro recs
  induction recs with
  | nil => intro i st acc ls _; simp [runFrom, soloFrom]
  | cons r rs ih =>
    intro i st acc ls hs
    have e2 : (none == some 1 || none == some 0) = false := by simp
    simp only [runFrom, soloFrom, hs, Bool.false_eq_true, if_false, e2, Option.map_none, memberStep]
    generalize considerLine mem.m mem.scan mem.cwnm endIdx i r (trackLine i r st) = res
    obtain ⟨b, st1⟩ := res
    by_cases hst : st1.fl.stopped = true
    · cases b <;> cases rs <;> simp [hst, soloFrom]
    · have hst' : st1.fl.stopped = false := by simpa using hst
      cases b with
      | true =>
        simp only [hst', Bool.false_eq_true, if_false, if_true]
        have := ih (i + 1) st1 (accStep ku i r true acc) (ls ++ [r]) hst'
        refine ⟨?_, this.2⟩
        rw [← this.1]; simp
      | false =>
        simp only [hst', Bool.false_eq_true, if_false]
        exact ih (i + 1) st1 (accStep ku i r false acc) ls hst'

theorem soloFrom_stopped (mem : Member σ) (endIdx : Option Nat) (i : Nat) (recs : List Rec) (ms : MSt σ)
    (h : ms.st.fl.stopped = true) : soloFrom mem endIdx i recs ms = ms := by
  cases recs <;> simp [soloFrom, h]

/-- number of stopped members -/
def stoppedCount (states : List (MSt σ)) : Nat := (states.filter (·.st.fl.stopped)).length

/-- one record of the inner loop: every member makes exactly its own solo step, and the stopped
    counter stays the number of stopped members -/
theorem stepMembers_spec (endIdx : Option Nat) (ifAll : Bool) (i : Nat) (r : Rec) :
    ∀ (pairs : List (Member σ × MSt σ)) (keep : Bool) (cnt : Nat),
      (stepMembers endIdx ifAll i r pairs keep cnt).1 =
        pairs.map (fun p => if p.2.st.fl.stopped then p.2 else (memberStep p.1 endIdx i r p.2).2) ∧
      (stepMembers endIdx ifAll i r pairs keep cnt).2.2 + stoppedCount (pairs.map (·.2)) =
        cnt + stoppedCount (stepMembers endIdx ifAll i r pairs keep cnt).1 := by
  intro pairs
  induction pairs with
  | nil => intro keep cnt; simp [stepMembers, stoppedCount]
  | cons p rest ih =>
    intro keep cnt
    obtain ⟨mem, ms⟩ := p
    by_cases hs : ms.st.fl.stopped = true
    · obtain ⟨h1, h2⟩ := ih keep cnt
      simp only [stepMembers, hs, if_true, List.map_cons, h1]
      refine ⟨trivial, ?_⟩
      simp only [stoppedCount, List.filter_cons, hs, if_true, List.length_cons] at h2 ⊢
      rw [← h1]; omega
    · have hs' : ms.st.fl.stopped = false := by simpa using hs
      simp only [stepMembers, hs', Bool.false_eq_true, if_false, List.map_cons]
      generalize hres : memberStep mem endIdx i r ms = res
      obtain ⟨h1, h2⟩ := ih (if ifAll then keep && res.1 else keep || res.1)
        (if res.2.st.fl.stopped then cnt + 1 else cnt)
      refine ⟨by rw [h1], ?_⟩
      simp only [stoppedCount, List.filter_cons, hs', Bool.false_eq_true, if_false] at h2 ⊢
      by_cases hr : res.2.st.fl.stopped = true
      · simp only [hr, if_true, List.length_cons] at h2 ⊢; omega
      · have hr' : res.2.st.fl.stopped = false := by simpa using hr
        simp only [hr', Bool.false_eq_true, if_false] at h2 ⊢; omega

/-- all members alone -/
def soloAll (members : List (Member σ)) (endIdx : Option Nat) (i : Nat) (recs : List Rec) (states : List (MSt σ)) :
    List (MSt σ) :=
  (members.zip states).map (fun p => soloFrom p.1 endIdx i recs p.2)

theorem soloAll_nil (members : List (Member σ)) (endIdx : Option Nat) (i : Nat) (states : List (MSt σ))
    (hl : members.length = states.length) : soloAll members endIdx i [] states = states := by
  unfold soloAll
  simp only [soloFrom]
  rw [List.map_snd_zip]; omega

theorem soloAll_allStopped (members : List (Member σ)) (endIdx : Option Nat) (i : Nat) (recs : List Rec)
    (states : List (MSt σ)) (hl : members.length = states.length)
    (hall : stoppedCount states = states.length) : soloAll members endIdx i recs states = states := by
  have hs : ∀ ms ∈ states, ms.st.fl.stopped = true := by
    intro ms hms
    have := (List.length_filter_eq_length_iff.mp (by simpa [stoppedCount] using hall)) ms hms
    simpa using this
  unfold soloAll
  have : (members.zip states).map (fun p => soloFrom p.1 endIdx i recs p.2) =
      (members.zip states).map (·.2) := by
    apply List.map_congr_left
    intro p hp
    exact soloFrom_stopped p.1 endIdx i recs p.2 (hs p.2 (List.of_mem_zip hp).2)
  rw [this, List.map_snd_zip]; omega

/-- the members of a breadth-first run end exactly where they end alone -/
theorem byLineFrom_members (members : List (Member σ)) (endIdx : Option Nat) (ifAll : Bool) :
    ∀ (recs : List Rec) (i : Nat) (states : List (MSt σ)) (cnt : Nat),
      members.length = states.length → cnt = stoppedCount states →
      (byLineFrom members endIdx ifAll i recs states cnt).2 = soloAll members endIdx i recs states := by
  intro recs
  induction recs with
  | nil => intro i states cnt hl _; simp [byLineFrom, soloAll_nil members endIdx i states hl]
  | cons r rs ih =>
    intro i states cnt hl hc
    obtain ⟨h1, h2⟩ := stepMembers_spec endIdx ifAll i r (members.zip states) ifAll cnt
    have hmap : (members.zip states).map (·.2) = states := by rw [List.map_snd_zip]; omega
    rw [hmap] at h2
    have hlen : (stepMembers endIdx ifAll i r (members.zip states) ifAll cnt).1.length = states.length := by
      rw [h1]; simp [List.length_zip]; omega
    have hcnt : (stepMembers endIdx ifAll i r (members.zip states) ifAll cnt).2.2 =
        stoppedCount (stepMembers endIdx ifAll i r (members.zip states) ifAll cnt).1 := by omega
    -- the solo runs advance by the same step
    have hsolo : soloAll members endIdx i (r :: rs) states =
        soloAll members endIdx (i + 1) rs (stepMembers endIdx ifAll i r (members.zip states) ifAll cnt).1 := by
      rw [h1]
      unfold soloAll
      have hz : members.zip ((members.zip states).map
          (fun p => if p.2.st.fl.stopped then p.2 else (memberStep p.1 endIdx i r p.2).2)) =
          (members.zip states).map (fun p => (p.1,
            if p.2.st.fl.stopped then p.2 else (memberStep p.1 endIdx i r p.2).2)) := by
        clear h1 h2 hlen hcnt ih hc hmap
        induction members generalizing states with
        | nil => simp
        | cons m ms ihm =>
          cases states with
          | nil => simp at hl
          | cons s ss => simp [ihm ss (by simpa using hl)]
      rw [hz, List.map_map]
      apply List.map_congr_left
      intro p _
      simp only [Function.comp, soloFrom]
      by_cases hp : p.2.st.fl.stopped = true
      · simp [hp, soloFrom_stopped p.1 endIdx (i + 1) rs p.2 hp]
      · simp [hp]
    simp only [byLineFrom]
    split
    · rename_i hbreak
      have hb : (stepMembers endIdx ifAll i r (members.zip states) ifAll cnt).2.2 = members.length := by
        simpa using hbreak
      rw [hsolo, soloAll_allStopped members endIdx (i + 1) rs _ (by omega) (by omega)]
    · rw [hsolo]
      exact ih (i + 1) _ _ (by omega) hcnt

end Proofs.Group
