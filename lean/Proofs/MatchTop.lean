import Model.MatchTop
import Model.Matcher

/-! Facts about the abstract top level of a match (`Model.MatchTop`), and the interpreter model's `matchExprs` as an instance. -/
namespace Proofs.MatchTop
open Model.MatchTop

variable {σ : Type}

/-- when no component is cut by stop or skip the verdict is the AND (in OR mode the OR) of the votes, each component having been
    evaluated in the state its predecessor left -/
theorem go_verdict (w : World σ) (andMode : Bool) (r i : Nat) (s : σ) (failed : Bool)
    (hq : ∀ t ∈ states w r i s, w.stopped t = false ∧ w.skip t = false) :
    (go w andMode r i s failed).1 =
      if andMode then (!failed && (votes w r i s).all id) else (!failed || (votes w r i s).any id) := by
  induction r generalizing i s failed with
  | zero =>
    have h := hq s (by simp [states])
    cases andMode <;> simp [go, votes, h.2]
  | succ r ih =>
    have h := hq s (by simp [states])
    have hq' : ∀ t ∈ states w r (i + 1) (w.evalE i s).2, w.stopped t = false ∧ w.skip t = false := fun t ht =>
      hq t (by simp [states, ht])
    rw [go, h.1, h.2]
    simp only [Bool.false_eq_true, if_false]
    rw [ih (i + 1) _ _ hq']
    simp only [votes]
    generalize (w.evalE i s).1 = b
    cases andMode <;> cases failed <;> cases b <;> simp [fold]

/-- when no component is cut by stop or skip every component is evaluated exactly once, in order, each in the state its predecessor
    left; what the match leaves is that final state with the errors cleared -/
theorem go_final (w : World σ) (andMode : Bool) (r i : Nat) (s : σ) (failed : Bool)
    (hq : ∀ t ∈ states w r i s, w.stopped t = false ∧ w.skip t = false) :
    (go w andMode r i s failed).2 = w.finish (w.clearErrors (afterAll w r i s)) := by
  induction r generalizing i s failed with
  | zero =>
    have h := hq s (by simp [states])
    simp [go, afterAll, h.2]
  | succ r ih =>
    have h := hq s (by simp [states])
    have hq' : ∀ t ∈ states w r (i + 1) (w.evalE i s).2, w.stopped t = false ∧ w.skip t = false := fun t ht =>
      hq t (by simp [states, ht])
    rw [go, h.1, h.2]
    simp only [Bool.false_eq_true, if_false, afterAll]
    exact ih (i + 1) _ _ hq'

/-- a stop seen before component `i` ends the match there: the answer is False and no later component is evaluated -/
theorem go_stop_cut (w : World σ) (andMode : Bool) (r i : Nat) (s : σ) (failed : Bool) (h : w.stopped s = true) :
    go w andMode (r + 1) i s failed = (false, w.clearErrors s) := by
  simp [go, h]

/-- a skip seen before component `i` ends the match there, and the flag does not leak into the next line -/
theorem go_skip_cut (w : World σ) (andMode : Bool) (r i : Nat) (s : σ) (failed : Bool) (h0 : w.stopped s = false)
    (h : w.skip s = true) : go w andMode (r + 1) i s failed = (false, w.clearErrors (w.clearSkip s)) := by
  simp [go, h0, h]

/-- a skip fired by the last component -/
theorem go_skip_last (w : World σ) (andMode : Bool) (i : Nat) (s : σ) (failed : Bool) (h : w.skip s = true) :
    go w andMode 0 i s failed = (false, w.clearErrors (w.clearSkip s)) := by
  simp [go, h]

/-! ### the interpreter model is an instance -/
open Model.Interp

/-- the interpreter model's components as a world: the state is the view and the out-of-model mark -/
def interpWorld (env : Env) (prog : List Node) : World (View × Option String) where
  n := prog.length
  evalE i s :=
    match prog[i]? with
    | some e =>
      let r := evalExpr env s.1 e
      (!(r.1 == some false), (applyAll s.1 r.2.1, s.2.or r.2.2))
    | none => (true, s)
  stopped s := s.1.stopped
  skip s := s.1.skip
  clearSkip s := ({ s.1 with skip := false }, s.2)
  clearErrors s := s
  doLasts s := s
  finish s := s

theorem matchExprs_is_go (env : Env) (prog : List Node) (i : Nat) (v : View) (failed : Bool) (bad : Option String)
    (hi : i ≤ prog.length) :
    matchExprs env (prog.drop i) v failed bad =
      let r := go (interpWorld env prog) env.dm (prog.length - i) i (v, bad) failed
      (r.1, r.2.1, r.2.2) := by
  generalize hr : prog.length - i = r
  induction r generalizing i v failed bad with
  | zero =>
    have : prog.drop i = [] := by simp; omega
    rw [this]
    simp only [matchExprs, go, interpWorld]
    split <;> simp_all
  | succ r ih =>
    have hlt : i < prog.length := by omega
    have hd : prog.drop i = prog[i] :: prog.drop (i + 1) := (List.drop_eq_getElem_cons hlt)
    rw [hd]
    simp only [matchExprs, go]
    have he : (interpWorld env prog).evalE i (v, bad) =
        (!((evalExpr env v prog[i]).1 == some false), (applyAll v (evalExpr env v prog[i]).2.1, bad.or (evalExpr env v prog[i]).2.2)) := by
      simp [interpWorld, hlt]
    by_cases h1 : v.stopped = true
    · simp [interpWorld, h1]
    by_cases h2 : v.skip = true
    · simp [interpWorld, h1, h2]
    have h1' : (interpWorld env prog).stopped (v, bad) = false := by simpa [interpWorld] using h1
    have h2' : (interpWorld env prog).skip (v, bad) = false := by simpa [interpWorld] using h2
    simp only [h1, h2, h1', h2', Bool.false_eq_true, if_false, he]
    rw [ih (i + 1) _ _ _ (by omega) (by omega)]
    simp only [fold]

/-- `Model.Interp.matchLine` is the abstract `go` over the interpreter's components -/
theorem matchLine_is_go (env : Env) (prog : List Node) (v : View) :
    Model.Interp.matchLine env prog v =
      let r := go (interpWorld env prog) env.dm prog.length 0 (v, none) (!env.dm)
      (r.1, r.2.1, r.2.2) := by
  have := matchExprs_is_go env prog 0 v (!env.dm) none (Nat.zero_le _)
  simpa [Model.Interp.matchLine] using this

end Proofs.MatchTop
