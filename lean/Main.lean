/-
  Line-protocol driver: one JSON request per line on stdin, one JSON answer per line on stdout.
  Imports the models only (no Mathlib below it, so it links as a native executable).
-/
import Lean.Data.Json
import Model
import Spec

open Lean
open Model

namespace Driver

def optNat (j : Json) (k : String) : Option Nat :=
  match j.getObjVal? k with
  | .ok v => match v.getNat? with
    | .ok n => some n
    | .error _ => none
  | .error _ => none

def getStr (j : Json) (k : String) : String :=
  match j.getObjValAs? String k with
  | .ok s => s
  | .error _ => ""

def getBool (j : Json) (k : String) (d : Bool := false) : Bool :=
  match j.getObjValAs? Bool k with
  | .ok b => b
  | .error _ => d

def getNat (j : Json) (k : String) (d : Nat := 0) : Nat :=
  match j.getObjValAs? Nat k with
  | .ok b => b
  | .error _ => d

def getArr (j : Json) (k : String) : Array Json :=
  match j.getObjVal? k with
  | .ok (.arr a) => a
  | _ => #[]

def jOptNat : Option Nat → Json
  | some n => toJson n
  | none => Json.null

def jsonOfSt (s : Scan.St) : Json :=
  Json.mkObj [("these", Json.arr (s.these.map jOptNat).toArray), ("all", toJson s.all),
              ("from", jOptNat s.frm), ("to", jOptNat s.to)]

def parseScanText (txt : String) : Except String Scan.St :=
  match Scan.parseText txt with
  | none => .error "ScanException"
  | some e =>
    match Scan.parse e with
    | .ok s => .ok s
    | .error .unexpectedProduction => .error "UnexpectedProductionException"
    | .error .typeError => .error "TypeError"

/-- op `scan`: text of the bracket content, number of records → parsed scanner state,
    `includes` and `is_last` for every line number below n+3 -/
def opScan (j : Json) : Json :=
  let txt := getStr j "scan"
  let n := getNat j "n"
  match parseScanText txt with
  | .error e => Json.mkObj [("error", toJson e)]
  | .ok s =>
    let endIdx : Option Nat := if n == 0 then none else some (n - 1)
    let idxs := List.range (n + 3)
    Json.mkObj [("state", jsonOfSt s),
      ("includes", toJson (idxs.filter (Scan.includes s))),
      ("is_last", toJson (idxs.filter (Scan.isLast s endIdx))),
      ("is_last_raises", toJson (idxs.filter (Scan.isLastRaises s)))]

/-! scripted matcher: the harness records what the real matcher answered and which flags it
    left behind at each call; the model's run loop is driven by that script. -/
structure Entry where
  b : Bool
  fl : Run.Flags
  deriving Inhabited

structure Script where
  todo : List Entry
  seen : List Run.Ctx := []
  underflow : Bool := false
  deriving Inhabited

def scripted : Run.MatcherSem Script where
  eval ctx _ s fl :=
    match s.todo with
    | [] => (false, { s with underflow := true, seen := s.seen ++ [ctx] }, fl)
    | e :: es => (e.b, { s with todo := es, seen := s.seen ++ [ctx] }, e.fl)

def entryOfJson (j : Json) : Entry :=
  { b := getBool j "b",
    fl := { stopped := getBool j "stopped", advance := getNat j "advance", valid := getBool j "valid" true,
            frozen := getBool j "frozen", matchCount := getNat j "match_count" } }

def recOfJson (j : Json) : Run.Rec :=
  match j with
  | .arr a => a.toList.map (fun c => match c with | .str s => s | _ => "")
  | _ => []

def jsonOfFlags (f : Run.Flags) : Json :=
  Json.mkObj [("stopped", toJson f.stopped), ("advance", toJson f.advance), ("valid", toJson f.valid),
              ("frozen", toJson f.frozen), ("match_count", toJson f.matchCount)]

def jsonOfCtx (c : Run.Ctx) : Json :=
  Json.mkObj [("idx", toJson c.idx), ("blank_last", toJson c.blankLast), ("scan_count", toJson c.scanCount),
              ("cur_match_count", toJson c.curMatchCount), ("data_count", toJson c.dataCount),
              ("data_number", toJson c.dataNumber)]

def jsonOfRec (r : Run.Rec) : Json := Json.arr (r.map Json.str).toArray

/-- op `run`: scan text, records, cfg, method, matcher script → lines, final state -/
def opRun (j : Json) : Json :=
  let txt := getStr j "scan"
  match parseScanText txt with
  | .error e => Json.mkObj [("error", toJson e)]
  | .ok scan =>
    let recs := (getArr j "recs").toList.map recOfJson
    let cfgj := (j.getObjVal? "cfg").toOption.getD (Json.mkObj [])
    let cfg : Run.Cfg := { cwnm := getBool cfgj "cwnm", willRun := getBool cfgj "will_run" true,
                           unmatchedAvail := getBool cfgj "unmatched_avail" }
    let script : Script := { todo := (getArr j "script").toList.map entryOfJson }
    let st0 : Run.LoopSt Script := { ms := script }
    let method := getStr j "method"
    let (lines, st, acc) :=
      if method == "collect" then Run.collectRun scripted scan cfg recs st0
      else if method == "collectN" then Run.collectN scripted scan cfg (getNat j "n") recs st0
      else Run.nextRun scripted scan cfg recs st0
    Json.mkObj [("lines", Json.arr (lines.map jsonOfRec).toArray),
      ("flags", jsonOfFlags st.fl), ("scan_count", toJson st.scanCount),
      ("unmatched", Json.arr (acc.unmatched.map jsonOfRec).toArray),
      ("offered", toJson st.offered), ("matched", toJson st.matched), ("yielded", toJson acc.yielded),
      ("declined", toJson st.declined), ("seen", toJson acc.seen),
      ("script_left", toJson st.ms.todo.length), ("underflow", toJson st.ms.underflow),
      ("calls", Json.arr (st.ms.seen.map jsonOfCtx).toArray)]

/-! op `den`: a member of class K as JSON → its text (via `K.toExpr`), well-formedness and
    denotation below n, evaluated from Spec.Scan (ties the Python oracle to the Lean spec) -/
def itemOfJson (j : Json) : Spec.Scan.Item :=
  match j with
  | .arr a =>
    match a.toList.map (fun x => (x.getNat?).toOption.getD 0) with
    | [n] => .line n
    | [x, y] => .range x y
    | _ => .line 0
  | _ => .line 0

def kOfJson (j : Json) : Spec.Scan.K :=
  let t := getStr j "k"
  if t == "all" then .all
  else if t == "fromN" then .fromN (getNat j "n")
  else if t == "loneRange" then .loneRange (getNat j "a") (getNat j "b")
  else
    match (getArr j "items").toList.map itemOfJson with
    | [] => .all
    | f :: r => .list f r

def termText : Scan.Term → String
  | .num n => toString n
  | .numStar n => toString n ++ "*"
  | .star => "*"

def exprText (e : Scan.Expr) : String :=
  e.rest.foldl (fun acc ot => acc ++ (match ot.1 with | .plus => "+" | .minus => "-") ++ termText ot.2)
    (termText e.first)

def opDen (j : Json) : Json :=
  let k := kOfJson ((j.getObjVal? "k").toOption.getD Json.null)
  let n := getNat j "n"
  Json.mkObj [("den", toJson ((List.range n).filter k.den)), ("wf", toJson (decide k.WF)),
              ("text", toJson (exprText k.toExpr)), ("last", jOptNat k.last?)]

/-! op `meta`: the csvpath text as a list of [codepoint, isalnum, isspace] → csvpath without the
    outer comment, the comment, and the metadata fields in dict order -/
def mcharOfJson (j : Json) : Meta.MChar :=
  match j with
  | .arr a =>
    let n := (a[0]?.getD Json.null |>.getNat?).toOption.getD 0
    let al := (a[1]?.getD Json.null |>.getBool?).toOption.getD false
    let sp := (a[2]?.getD Json.null |>.getBool?).toOption.getD false
    { c := Char.ofNat n, alnum := al, space := sp }
  | _ => { c := ' ', alnum := false, space := true }

def mstrToString (s : Meta.MStr) : String := String.ofList (s.map (·.c))

def opMeta (j : Json) : Json :=
  let s := (getArr j "chars").toList.map mcharOfJson
  let (p, k) := Meta.extract s
  let kc := Meta.strip k
  let fields := Meta.collect kc
  Json.mkObj [("csvpath", toJson (mstrToString p)), ("comment", toJson (mstrToString kc)),
    ("raises", toJson (Meta.collectRaises kc)),
    ("fields", Json.arr (fields.map (fun kv => Json.arr #[toJson (mstrToString kv.1),
        match kv.2 with | some v => toJson (mstrToString v) | none => Json.null])).toArray)]

/-! op `assign`: qualifier set, current and new value, line verdict, logic mode → the model's
    outcome and the reference semantics' outcome -/
def valOfJson (j : Json) : Assign.Val :=
  match j with
  | .null => .none
  | .str s => .str s
  | .num _ => match j.getInt? with
    | .ok i => .int i
    | .error _ => .none
  | _ => .none

def jsonOfVal : Assign.Val → Json
  | .none => Json.null
  | .int i => toJson i
  | .str s => toJson s

def opAssign (j : Json) : Json :=
  let qs := (getArr j "quals").toList.map (fun x => match x with | .str s => s | _ => "")
  let has := fun (n : String) => qs.contains n
  let q : Assign.Quals := Assign.Quals.mk (has "onmatch") (has "latch") (has "onchange") (has "increase")
    (has "decrease") (has "notnone") (has "asbool") (has "nocontrib")
  let cur := valOfJson ((j.getObjVal? "cur").toOption.getD Json.null)
  let y := valOfJson ((j.getObjVal? "y").toOption.getD Json.null)
  let lm := getBool j "lm"
  let dm := getBool j "dm" true
  let sp := Spec.Assign.assign q cur y (lm == dm) dm
  let specJ := Json.mkObj [("write", match sp.1 with | some v => Json.mkObj [("v", jsonOfVal v)] | none => Json.null),
                           ("vote", toJson sp.2)]
  match Assign.assign q cur y lm dm with
  | .typeError => Json.mkObj [("model", Json.mkObj [("error", toJson "TypeError")]), ("spec", specJ)]
  | .ok w v => Json.mkObj [("model", Json.mkObj [("write", match w with | some x => Json.mkObj [("v", jsonOfVal x)] | none => Json.null),
                                                 ("vote", toJson v)]), ("spec", specJ)]

/-! op `policy`: policy words, validation-mode string (or null), error ids → effects -/
def jOptBool : Option Bool → Json
  | some b => toJson b
  | none => Json.null

def opPolicy (j : Json) : Json :=
  let ws := (getArr j "policy").toList.map (fun x => match x with | .str s => s | _ => "")
  let p : Err.Policy := { raise := ws.contains "raise", collect := ws.contains "collect", stop := ws.contains "stop",
                          fail := ws.contains "fail", print := ws.contains "print", quiet := ws.contains "quiet" }
  let vm : Option String := match j.getObjVal? "vmode" with
    | .ok (.str s) => some s
    | _ => none
  let o := Err.readOverride vm
  let es := (getArr j "errors").toList.map (fun x => (x.getNat?).toOption.getD 0)
  let r := Err.handleAll p o {} es
  let sp := Spec.Err.outcome p o es
  Json.mkObj [("override", Json.mkObj [("raise", jOptBool o.raise), ("print", jOptBool o.print), ("stop", jOptBool o.stop),
                                       ("fail", jOptBool o.fail), ("match", jOptBool o.matchv)]),
    ("raised", toJson r.2), ("stopped", toJson r.1.stopped), ("valid", toJson r.1.valid),
    ("collected", toJson r.1.collected), ("printed", toJson r.1.printed),
    ("spec", Json.mkObj [("raised", toJson sp.raised), ("stopped", toJson sp.stopped), ("valid", toJson sp.valid),
                         ("collected", toJson sp.collected), ("printed", toJson sp.printed)])]

/-! op `files`: an operation history over the named-files store; contents are numbered by the
    harness (distinct bytes ↦ distinct numbers) and the model's hash is the identity on them -/
def fileOpOfJson (j : Json) : Files.Op Nat :=
  let o := getStr j "op"
  if o == "add" then .add (getStr j "name") (getStr j "src") (getNat j "content")
  else if o == "remove" then .remove (getStr j "name")
  else if o == "mutate" then .mutateSource (getStr j "src") (getNat j "content")
  else .newInstance

def jsonOfStore (s : Files.Store Nat Nat) (names : List String) : Json :=
  Json.mkObj [("names", toJson (Files.names s)),
    ("state", Json.arr (names.map (fun n =>
      Json.mkObj [("name", toJson n),
        ("get", match Files.get s n with
          | some (src, d) => Json.arr #[toJson src, toJson d]
          | none => Json.null),
        ("bytes", match Files.bytes s n with | some c => toJson c | none => Json.null),
        ("manifest", match Files.lookup s n with
          | some d => Json.arr (d.manifest.map (fun e => Json.arr #[toJson e.fingerprint, toJson e.fileHome])).toArray
          | none => Json.null),
        ("files", match Files.lookup s n with
          | some d => Json.arr (d.files.map (fun f => Json.arr #[toJson f.1.1, toJson f.1.2, toJson f.2])).toArray
          | none => Json.null)])).toArray)]

def opFiles (j : Json) : Json :=
  let ops := (getArr j "ops").toList.map fileOpOfJson
  let names := (getArr j "names").toList.map (fun x => match x with | .str s => s | _ => "")
  let init : Files.Store Nat Nat := []
  let states := ops.foldl (fun (acc : Files.Store Nat Nat × List Json) op =>
      let s' := Files.step (fun c => c) acc.1 op
      (s', acc.2 ++ [jsonOfStore s' names])) (init, [])
  Json.mkObj [("after", Json.arr states.2.toArray)]

/-! op `paths`: a list of csvpath texts (each as [codepoint, isalnum, isspace] triples) → the group
    file, what `_get_named_paths` reads back, the identities, and the selections for `ident` -/
def opPaths (j : Json) : Json :=
  let paths : List Meta.MStr := (getArr j "paths").toList.map (fun p => match p with
    | .arr a => a.toList.map mcharOfJson
    | _ => [])
  let strs : List Paths.Str := paths.map (fun p => p.map (·.c))
  let group := Paths.strFromList strs
  let back := Paths.getNamedPaths group
  let idOf := fun (p : Meta.MStr) =>
    let pk := Meta.extract (Meta.strip p)
    let kc := Meta.strip pk.2
    let fields := (Meta.collect kc).map (fun kv => (kv.1.map (·.c), kv.2.map (fun v => v.map (·.c))))
    if kc.isEmpty then some [] else Paths.identityOf fields
  let ids := paths.map idOf
  let g : Paths.Identified := (ids.zip (if back.length == strs.length then back else strs)).map (fun x => (x.1.getD [], x.2))
  let ident := (getStr j "ident").toList
  let js := fun (l : List Paths.Str) => Json.arr (l.map (fun x => toJson (String.ofList x))).toArray
  Json.mkObj [("group", toJson (String.ofList group)), ("back", js back),
    ("ids", Json.arr (ids.map (fun i => match i with | some v => toJson (String.ofList v) | none => Json.null)).toArray),
    ("one", match Paths.findOne g ident with | some v => toJson (String.ofList v) | none => Json.null),
    ("to", js (Paths.getTo g ident)), ("from", js (Paths.getFrom g ident))]

/-! op `byline`: members (scan text, cwnm, matcher script) × records → caller lines and every
    member's collected lines and final flags, from the breadth-first model -/
def opByLine (j : Json) : Json :=
  let recs := (getArr j "recs").toList.map recOfJson
  let ifAll := getBool j "if_all_agree"
  let ms := (getArr j "members").toList
  let parsed := ms.map (fun mj => (parseScanText (getStr mj "scan"), getBool mj "cwnm",
      (getArr mj "script").toList.map entryOfJson))
  if parsed.any (fun p => match p.1 with | .error _ => true | .ok _ => false) then
    Json.mkObj [("error", toJson "scan")]
  else
    let members : List (Group.Member Script) := parsed.map (fun p =>
      { m := scripted, scan := (match p.1 with | .ok s => s | .error _ => {}), cwnm := p.2.1 })
    let inits : List (Run.LoopSt Script) := parsed.map (fun p => { ms := { todo := p.2.2 } })
    let out := Group.byLine members ifAll recs inits
    Json.mkObj [("caller", Json.arr (out.1.map jsonOfRec).toArray),
      ("members", Json.arr (out.2.map (fun x => Json.mkObj [
        ("lines", Json.arr (x.lines.map jsonOfRec).toArray), ("flags", jsonOfFlags x.st.fl),
        ("scan_count", toJson x.st.scanCount), ("script_left", toJson x.st.ms.todo.length),
        ("underflow", toJson x.st.ms.underflow)])).toArray)]

/-! op `rundirs`: a history of runs (group, start time) → the run directory each one gets, and
    what `:last` / `:first` resolve to within each group after each run -/
def tsOfJson (j : Json) : RunDir.TS :=
  match j with
  | .arr a =>
    let g := fun (i : Nat) => (a[i]?.getD Json.null |>.getNat?).toOption.getD 0
    ⟨g 0, g 1, g 2, g 3, g 4, g 5⟩
  | _ => ⟨0, 0, 0, 0, 0, 0⟩

def nameKey (n : List Char) : Nat :=
  -- `strptime(x, ms if "." in x else s)`: the `.N` suffix is read as a fraction of a second and
  -- does not change the order of names from different seconds
  match RunDir.parse (n.takeWhile (· != '.')) with
  | some t => t.key
  | none => 0

def opRunDirs (j : Json) : Json :=
  let runs := (getArr j "runs").toList.map (fun r => ((getStr r "group").toList, tsOfJson ((r.getObjVal? "ts").toOption.getD Json.null)))
  let prefixes := (getArr j "prefix").toList.map (fun x => match x with | .str s => s.toList | _ => [])
  let step := fun (acc : List (List Char × List Char) × List Json) (r : List Char × RunDir.TS) =>
    match RunDir.getRunDir (fun n => acc.1.contains (r.1, n)) r.2 1000 with
    | none => (acc.1, acc.2 ++ [Json.null])
    | some d =>
      let all := acc.1 ++ [(r.1, d)]
      let mine := (all.filter (fun x => x.1 == r.1)).map (·.2)
      let res := prefixes.map (fun pre =>
        let cands := (mine.filter (fun n => pre.isPrefixOf n)).map (fun n => (n, nameKey n))
        Json.mkObj [("prefix", toJson (String.ofList pre)),
          ("last", match RunDir.pickLast cands with | some x => toJson (String.ofList x.1) | none => Json.null),
          ("first", match RunDir.pickFirst cands with | some x => toJson (String.ofList x.1) | none => Json.null)])
      (all, acc.2 ++ [Json.mkObj [("dir", toJson (String.ofList d)), ("resolve", Json.arr res.toArray)]])
  let out := runs.foldl step ([], [])
  Json.mkObj [("runs", Json.arr out.2.toArray)]

/-! op `archive`: member results (as data) and an optional abort point → the modelled run
    directory: which files each member directory holds, which have fingerprints, the manifests -/
def opArchive (j : Json) : Json :=
  let ms := (getArr j "members").toList.map (fun m =>
    ({ identity := getStr m "identity", vars := 0, errors := List.replicate (getNat m "nerrors") 0,
       printouts := (getArr m "printouts").toList.map (fun x => match x with | .str s => s | _ => ""),
       lines := (getArr m "lines").toList.map recOfJson, unmatched := (getArr m "unmatched").toList.map recOfJson,
       valid := getBool m "valid" true, completed := getBool m "completed" true } : Archive.MemberResult Nat Nat))
  let abortAt := optNat j "abort_at"
  let out := Archive.serialRun (fun (_ : Archive.Content Nat Nat) => (0 : Nat)) ms abortAt
  let man := out.1.manifest.getD Archive.startManifest
  Json.mkObj [("raised", toJson out.2),
    ("manifest", Json.mkObj [("status", toJson man.status),
      ("all_valid", match man.allValid with | some b => toJson b | none => Json.null),
      ("all_completed", match man.allCompleted with | some b => toJson b | none => Json.null),
      ("error_count", match man.errorCount with | some b => toJson b | none => Json.null)]),
    ("members", Json.arr (out.1.members.map (fun m => Json.mkObj [("identity", toJson m.1),
      ("files", toJson ((m.2.files.map (·.1)).toArray.qsort (· < ·)).toList),
      ("fingerprinted", toJson ((m.2.manifest.map (fun mm => mm.fingerprints.map (·.1))).getD []))])).toArray)]

/-! op `chain`: stages (scan, preceding?, matcher script) over an origin file → what each stage
    reads and collects in a serial run -/
def opChain (j : Json) : Json :=
  let origin := (getArr j "recs").toList.map recOfJson
  let sj := (getArr j "stages").toList
  let parsed := sj.map (fun m => (parseScanText (getStr m "scan"), getBool m "preceding",
      (getArr m "script").toList.map entryOfJson))
  if parsed.any (fun p => match p.1 with | .error _ => true | .ok _ => false) then
    Json.mkObj [("error", toJson "scan")]
  else
    let stages : List (Chain.Stage Script) := parsed.map (fun p =>
      { m := scripted, scan := (match p.1 with | .ok s => s | .error _ => {}), init := { todo := p.2.2 }, preceding := p.2.1 })
    let out := Chain.serialChain origin stages none
    Json.mkObj [("stages", Json.arr (out.map (fun x => Json.mkObj [
      ("input", Json.arr (x.1.map jsonOfRec).toArray), ("lines", Json.arr (x.2.map jsonOfRec).toArray)])).toArray)]

/-! op `headers`: records → header names; and the value of `#name` / `#index` on every record -/
def opHeaders (j : Json) : Json :=
  let recs := (getArr j "recs").toList.map recOfJson
  let hs := Headers.headersOf PyStr.strip recs
  let names := (getArr j "names").toList.map (fun x => match x with | .str s => s | _ => "")
  let vals := fun (r : Headers.HRef) => Json.arr (recs.map (fun l => match Headers.headerValue PyStr.strip hs l r with
      | some v => toJson v | none => Json.null)).toArray
  Json.mkObj [("headers", toJson hs),
    ("by_name", Json.arr (names.map (fun n => vals (.name n))).toArray),
    ("index_of", Json.arr (names.map (fun n => jOptNat (Headers.headerIndex hs n))).toArray),
    ("by_index", Json.arr ((List.range (getNat j "width")).map (fun i => vals (.index i))).toArray)]

/-! op `csv`: records and a dialect → the text `csv.writer` writes, and what `csv.reader` reads back from it.
    op `csvread`: any text and a dialect → the records `csv.reader` yields (null = `csv.Error`) -/
def dialectOfJson (j : Json) : Csv.Dialect :=
  { delim := (getStr j "delim").toList.headD ',', quote := (getStr j "quote").toList.headD '"', limit := getNat j "limit" 131072 }

def jsonOfCsvRead : Option (List Csv.Rec) → Json
  | none => Json.null
  | some rs => Json.arr (rs.map (fun r => Json.arr (r.map (fun c => toJson (String.ofList c))).toArray)).toArray

def opCsv (j : Json) : Json :=
  let d := dialectOfJson j
  let recs : List Csv.Rec := (getArr j "recs").toList.map (fun r => (recOfJson r).map String.toList)
  -- `crlf`: the writer's default line terminator (data.csv, unmatched.csv, the header cache)
  let text := if getBool j "crlf" then Csv.renderCRLF d recs else Csv.render d recs
  Json.mkObj [("text", toJson (String.ofList text)), ("read", jsonOfCsvRead (Csv.read d text))]

/-- op `hdrcache`: header names → the text of the header cache file and what is read back from it -/
def opHdrCache (j : Json) : Json :=
  let hs := (getArr j "headers").toList.map (fun x => match x with | .str s => s.toList | _ => [])
  let text := Cache.store hs
  Json.mkObj [("text", toJson (String.ofList text)),
    ("load", match Cache.load text with
      | none => Json.null
      | some l => toJson (l.map String.ofList)),
    ("load_of", match j.getObjVal? "text" with
      | .ok (.str t) => (match Cache.load t.toList with | none => Json.null | some l => toJson (l.map String.ofList))
      | _ => Json.null)]

def opCsvRead (j : Json) : Json :=
  Json.mkObj [("read", jsonOfCsvRead (Csv.read (dialectOfJson j) (getStr j "text").toList))]

/-! op `interp`: a parsed match part (as the harness reads it off the real Matcher's tree), a scan
    part, records, logic mode and run configuration → the whole run under the interpreter model -/
partial def valueOfJson (j : Json) : Val.Value :=
  match j with
  | .null => .none
  | .bool b => .bool b
  | .str s => .str s
  | .num _ => (match j.getInt? with | .ok i => .int i | .error _ => .none)
  | .arr a => .list (a.toList.map valueOfJson)
  | .obj _ =>
    match j.getObjVal? "f" with
    | .ok f => (match f.getInt? with | .ok i => .flt i | .error _ => .none)
    | .error _ =>
      match j.getObjVal? "d" with
      | .ok (.arr kv) => .dict (kv.toList.map (fun p => match p with
          | .arr a => (valueOfJson (a[0]?.getD Json.null), valueOfJson (a[1]?.getD Json.null))
          | _ => (Val.Value.none, Val.Value.none)))
      | _ => .none

partial def jsonOfValue : Val.Value → Json
  | .none => Json.null
  | .bool b => toJson b
  | .int i => toJson i
  | .flt i => Json.mkObj [("f", toJson i)]
  | .str s => toJson s
  | .list xs => Json.arr (xs.map jsonOfValue).toArray
  | .dict kv => Json.mkObj [("d", Json.arr (kv.map (fun p => Json.arr #[jsonOfValue p.1, jsonOfValue p.2])).toArray)]

def strList (j : Json) (k : String) : List String :=
  (getArr j k).toList.map (fun x => match x with | .str s => s | _ => "")

partial def nodeOfJson (j : Json) : Interp.Node :=
  let k := getStr j "k"
  let id := getNat j "id"
  if k == "term" then .term id (valueOfJson ((j.getObjVal? "v").toOption.getD Json.null))
  else if k == "header" then
    (match optNat j "index" with
     | some i => .header id (.index i) (strList j "quals")
     | none => .header id (.name (getStr j "name")) (strList j "quals"))
  else if k == "var" then .var id (getStr j "name") (strList j "quals")
  else if k == "fn" then .fn id (getStr j "name") (strList j "quals") ((getArr j "args").toList.map nodeOfJson)
  else .eq id (getStr j "op") (nodeOfJson ((j.getObjVal? "l").toOption.getD Json.null))
        (nodeOfJson ((j.getObjVal? "r").toOption.getD Json.null))

def kvOfJson (j : Json) (k : String) : List (Val.Value × Val.Value) :=
  match valueOfJson ((j.getObjVal? k).toOption.getD Json.null) with
  | .dict kv => kv
  | _ => []

def opInterp (j : Json) : Json :=
  match parseScanText (getStr j "scan") with
  | .error e => Json.mkObj [("error", toJson e)]
  | .ok scan =>
    let recs := (getArr j "recs").toList.map recOfJson
    let prog := (getArr j "prog").toList.map nodeOfJson
    let cfgj := (j.getObjVal? "cfg").toOption.getD (Json.mkObj [])
    let cfg : Run.Cfg := { cwnm := getBool cfgj "cwnm", willRun := getBool cfgj "will_run" true,
                           unmatchedAvail := getBool cfgj "unmatched_avail" }
    let headers := Headers.headersOf PyStr.strip recs
    let dataEnd : Int := (recs.foldl (fun (acc : Nat × Int × Int) r =>
        let d := Run.trackData acc.1 r acc.2.1 acc.2.2
        (acc.1 + 1, d.1, d.2)) (0, 0, 0)).2.1
    let ms : Interp.MState := { prog := prog, headers := headers, dm := getBool j "and" true, scan := scan,
                                dataEndCount := dataEnd, vars := [], pmeta := kvOfJson j "metadata", pstatic := kvOfJson j "static" }
    let st0 : Run.LoopSt Interp.MState := { ms := ms }
    let method := getStr j "method"
    let (lines, st, acc) :=
      if method == "collectN" then Run.collectN Interp.interpMatcher scan cfg (getNat j "n") recs st0
      else if method == "next" then Run.nextRun Interp.interpMatcher scan cfg recs st0
      else Run.collectRun Interp.interpMatcher scan cfg recs st0
    Json.mkObj [("lines", Json.arr (lines.map jsonOfRec).toArray), ("flags", jsonOfFlags st.fl),
      ("scan_count", toJson st.scanCount), ("unmatched", Json.arr (acc.unmatched.map jsonOfRec).toArray),
      ("variables", Json.arr (st.ms.vars.map (fun p => Json.arr #[toJson p.1, jsonOfValue p.2])).toArray),
      ("printouts", toJson st.ms.prints), ("headers", toJson headers),
      ("unmodelled", match st.ms.bad with | some w => toJson w | none => Json.null)]

/-! op `print`: a print string and the data a run holds at that moment → what print sends out.
    op `printspec`: chunks → the print string as written, whether C16's theorem covers it, and
    the text that must come out given the values of the references -/
def opPrint (j : Json) : Json :=
  let env : Print.PEnv := { vars := kvOfJson j "vars", headers := strList j "headers", line := strList j "line",
                            metadata := kvOfJson j "metadata", fields := kvOfJson j "fields" }
  match Print.printWith env (getStr j "tpl") with
  | .printed s => Json.mkObj [("printed", toJson s)]
  | .error => Json.mkObj [("error", toJson true)]
  | .unmodelled w => Json.mkObj [("unmodelled", toJson w)]

def nameFormOfJson (j : Json) : Spec.Print.NameForm :=
  if getBool j "quoted" then .quoted (getStr j "s").toList else .simple (getStr j "s").toList

def dtypeOfString (s : String) : Print.DType :=
  if s == "headers" then .headers else if s == "metadata" then .metadata else if s == "csvpath" then .csvpath else .variables

def chunkOfJson (j : Json) : Spec.Print.Chunk :=
  match j.getObjVal? "lit" with
  | .ok (.str s) => .lit s.toList
  | _ =>
    .ref { dtype := dtypeOfString (getStr j "type"),
           name := nameFormOfJson ((j.getObjVal? "name").toOption.getD Json.null),
           tracking := match j.getObjVal? "tracking" with
             | .ok (.obj o) => some (nameFormOfJson (.obj o))
             | _ => none }

def opPrintSpec (j : Json) : Json :=
  let chunks := (getArr j "chunks").toList.map chunkOfJson
  let values := (getArr j "values").toList.map (fun x => match x with | .str s => some s.toList | _ => none)
  -- the i-th reference of the chunk list has the i-th value
  let rec fill : List Spec.Print.Chunk → List (Option (List Char)) → Option (List Char)
    | [], _ => some []
    | .lit s :: rest, vs => (fill rest vs).map (s ++ ·)
    | .ref _ :: rest, v :: vs => (match v, fill rest vs with | some x, some out => some (x ++ out) | _, _ => none)
    | .ref _ :: _, [] => none
  Json.mkObj [("source", toJson (String.ofList (Spec.Print.source false chunks))),
              ("wf", toJson (Spec.Print.wfB chunks)),
              ("expected", match fill chunks values with | some e => toJson (String.ofList e) | none => Json.null)]

/-! op `parse`: the text of a match part → the component trees of the parser model -/
mutual
partial def jsonOfNode : Match.Node → Json
  | .term (.str v) => Json.mkObj [("k", "term"), ("t", "str"), ("v", toJson (String.ofList v))]
  | .term (.num v) => Json.mkObj [("k", "term"), ("t", "num"), ("v", toJson (String.ofList v))]
  | .term (.regex v) => Json.mkObj [("k", "term"), ("t", "regex"), ("v", toJson (String.ofList v))]
  | .header v => Json.mkObj [("k", "header"), ("name", toJson (String.ofList v))]
  | .variable v => Json.mkObj [("k", "var"), ("name", toJson (String.ofList v))]
  | .reference v => Json.mkObj [("k", "ref"), ("name", toJson (String.ofList v))]
  | .fn n as => Json.mkObj [("k", "fn"), ("name", toJson (String.ofList n)), ("args", Json.arr (jsonOfArgs as).toArray)]
  | .eq op l r => Json.mkObj [("k", "eq"), ("op", match op with | .eq => "==" | .assign => "=" | .when_ => "->"),
                              ("l", jsonOfNode l), ("r", jsonOfNode r)]
partial def jsonOfArgs : Match.Args → List Json
  | .nil => []
  | .cons a rest => jsonOfNode a :: jsonOfArgs rest
end

def opParse (j : Json) : Json :=
  let txt := getStr j "text"
  match Match.lex txt.toList with
    | none => Json.mkObj [("rejected", "lex")]
    | some ts =>
      match Match.parseToks ts with
      | none => Json.mkObj [("rejected", "parse"), ("ntokens", toJson ts.length)]
      | some es => Json.mkObj [("tree", Json.arr (es.map jsonOfNode).toArray), ("ntokens", toJson ts.length)]

/-! ### the Py prelude of the source translator, operator by operator (suite `pyops`) -/

partial def pyOfJson (j : Json) : Py.V :=
  match j with
  | .null => .none
  | .bool b => .bool b
  | .str s => .str s
  | .num n => .int n.mantissa   -- the harness sends integers only
  | .obj _ =>
    match j.getObjVal? "ints" with
    | .ok (.arr xs) => .ints (xs.toList.map fun x => match x with
        | .num n => some n.mantissa
        | _ => none)
    | _ =>
      match j.getObjVal? "strs" with
      | .ok (.arr xs) => .strs (xs.toList.map fun x => match x with
          | .str s => s
          | _ => "")
      | _ =>
        match j.getObjValAs? String "exc" with
        | .ok n => .exc n
        | .error _ => .exc "bad-json"
  | _ => .exc "bad-json"

def pyToJson (v : Py.V) : Json :=
  match v with
  | .none => Json.null
  | .bool b => toJson b
  | .int i => toJson i
  | .str s => toJson s
  | .ints xs => Json.mkObj [("ints", Json.arr (xs.map fun x => match x with
      | some i => toJson i
      | none => Json.null).toArray)]
  | .strs xs => Json.mkObj [("strs", toJson xs)]
  | .exc n => Json.mkObj [("exc", toJson n)]

def opPyOp (j : Json) : Json :=
  let f := getStr j "f"
  let args : List Py.V := match j.getObjVal? "args" with
    | .ok (.arr xs) => xs.toList.map pyOfJson
    | _ => []
  let r : Py.V :=
    match f, args with
    | "truthy", [a] => .bool (Py.truthy a)
    | "not", [a] => Py.not_ a
    | "bool", [a] => Py.bool_ a
    | "strip", [a] => Py.strip_ a
    | "find", [a, b] => Py.find_ a b
    | "and", [a, b] => Py.and_ a b
    | "or", [a, b] => Py.or_ a b
    | "eq", [a, b] => Py.eq a b
    | "ne", [a, b] => Py.ne a b
    | "lt", [a, b] => Py.lt a b
    | "le", [a, b] => Py.le a b
    | "gt", [a, b] => Py.gt a b
    | "ge", [a, b] => Py.ge a b
    | "append", [a, b] => Py.append_ a b
    | "is", [a, b] => Py.is_ a b
    | "isnot", [a, b] => Py.isnot a b
    | "in", [a, b] => Py.in_ a b
    | "notin", [a, b] => Py.notin a b
    | "len", [a] => Py.len a
    | "max", [a] => Py.max a
    | "min", [a] => Py.min a
    | "add", [a, b] => Py.add a b
    | "sub", [a, b] => Py.sub a b
    | "ite", [c, a, b] => Py.ite_ c a b
    | "asbool", [a] => Py.asbool a
    | "isinstance_bool", [a] => Py.isinstance_bool a
    | "isinstance_int", [a] => Py.isinstance_int a
    | "isinstance_str", [a] => Py.isinstance_str a
    | _, _ => .exc "bad-op"
  Json.mkObj [("r", pyToJson r)]

def handle (line : String) : Json :=
  match Json.parse line with
  | .error e => Json.mkObj [("error", toJson s!"bad-json: {e}")]
  | .ok j =>
    let op := getStr j "op"
    if op == "scan" then opScan j
    else if op == "run" then opRun j
    else if op == "den" then opDen j
    else if op == "meta" then opMeta j
    else if op == "assign" then opAssign j
    else if op == "policy" then opPolicy j
    else if op == "files" then opFiles j
    else if op == "paths" then opPaths j
    else if op == "byline" then opByLine j
    else if op == "rundirs" then opRunDirs j
    else if op == "archive" then opArchive j
    else if op == "chain" then opChain j
    else if op == "headers" then opHeaders j
    else if op == "csv" then opCsv j
    else if op == "csvread" then opCsvRead j
    else if op == "hdrcache" then opHdrCache j
    else if op == "interp" then opInterp j
    else if op == "print" then opPrint j
    else if op == "parse" then opParse j
    else if op == "printspec" then opPrintSpec j
    else if op == "pyop" then opPyOp j
    else Json.mkObj [("error", toJson s!"bad-op: {op}")]

partial def loop (h : IO.FS.Stream) (out : IO.FS.Stream) : IO Unit := do
  let line ← h.getLine
  if line.isEmpty then return ()
  let t := line.trimAscii.toString
  if !t.isEmpty then
    out.putStrLn (handle t).compress
    out.flush
  loop h out

end Driver

def main : IO Unit := do
  Driver.loop (← IO.getStdin) (← IO.getStdout)
