import Model.Scan
import Model.RunLoop
import Model.Metadata
