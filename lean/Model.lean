import Model.Scan
import Model.RunLoop
import Model.Metadata
import Model.Assign
import Model.ErrorPolicy
import Model.FileStore
import Model.PathsStore
import Model.Group
