import Model.Scan
import Model.RunLoop
