import Model.Match
/-!
# What C17 demands of the match-part parser

`toks` writes a component tree as the token sequence of the documented grammar; `render` writes a
token sequence as text under a *layout* (the white space before each token, comments between
components).  The property: every well-shaped tree, under every admissible layout, parses back to
exactly that tree.
-/
namespace Spec.Match
open Model.Match

def termTok : TermV → Tok
  | .str s => .str s
  | .num s => .num s
  | .regex s => .regex s

def opTok : Op → Tok
  | .eq => .equals
  | .assign => .assign
  | .when_ => .when_

mutual
/-- the tokens of a component, in source order -/
def toks : Node → List Tok
  | .term t => [termTok t]
  | .header s => [.header s]
  | .variable s => [.variable s]
  | .reference s => [.reference s]
  | .fn n as => .fname n :: .lp :: (toksArgs as ++ [.rp])
  | .eq op l r => toks l ++ opTok op :: toks r
def toksArgs : Args → List Tok
  | .nil => []
  | .cons a .nil => toks a
  | .cons a (.cons b rest) => toks a ++ .comma :: toksArgs (.cons b rest)
end

/-! The shapes the grammar admits (`left`, `a`, `(left|REFERENCE|term)`, `action`, `expression`). -/
mutual
def okLeft : Node → Bool
  | .header _ => true
  | .variable _ => true
  | .fn _ as => okArgs as
  | _ => false
def okRhs : Node → Bool
  | .term _ => true
  | .reference _ => true
  | .header _ => true
  | .variable _ => true
  | .fn _ as => okArgs as
  | _ => false
def okArg : Node → Bool
  | .term _ => true
  | .reference _ => true
  | .header _ => true
  | .variable _ => true
  | .fn _ as => okArgs as
  | .eq .eq l r => okLeft l && okRhs r
  | _ => false
def okArgs : Args → Bool
  | .nil => true
  | .cons a rest => okArg a && okArgs rest
end

def okAction : Node → Bool
  | .fn n as => okLeft (.fn n as)
  | .eq .assign (.variable _) r => okRhs r
  | _ => false

/-- what may stand before `->` -/
def okActedOn : Node → Bool
  | .reference _ => true
  | .eq .eq l r => okLeft l && okRhs r
  | n => okLeft n

def okExpr : Node → Bool
  | .eq .assign (.variable _) r => okRhs r
  | .eq .when_ x act => okActedOn x && okAction act
  | n => okActedOn n

/-- an item between the brackets: a component or a comment -/
inductive Item where
  | comp (e : Node)
  | comment

def itemToks : Item → List Tok
  | .comp e => toks e
  | .comment => [.comment]

def comps : List Item → List Node
  | [] => []
  | .comp e :: rest => e :: comps rest
  | .comment :: rest => comps rest

def okItems (items : List Item) : Bool :=
  items.all (fun i => match i with | .comp e => okExpr e | .comment => true)

/-- the whole match part as tokens -/
def matchToks (items : List Item) : List Tok :=
  .lb :: ((items.map itemToks).flatten ++ [.rb])

/-! fuel that suffices for a component (three per token) -/
mutual
def need : Node → Nat
  | .fn _ as => needArgs as + 3
  | .eq _ l r => need l + need r + 3
  | _ => 3
def needArgs : Args → Nat
  | .nil => 3
  | .cons a rest => need a + needArgs rest + 3
end

end Spec.Match

/-! ## Layout: tokens as text -/
namespace Spec.Match
open Model.Match

/-- a token as written (`body` is the text of a comment) -/
def tokText (t : Tok) (body : List Char) : List Char :=
  match t with
  | .lb => ['[']
  | .rb => [']']
  | .lp => ['(']
  | .rp => [')']
  | .comma => [',']
  | .assign => ['=']
  | .equals => ['=', '=']
  | .when_ => ['-', '>']
  | .comment => '~' :: body ++ ['~']
  | .header s => '#' :: s
  | .variable s => '@' :: s
  | .reference s => '$' :: s
  | .fname s => s
  | .str s => '"' :: s ++ ['"']
  | .num s => s
  | .regex s => s

/-- an unsigned number as the property's quantifier writes it: `12`, `12.`, `12.5`, `.5` -/
def WFUnsigned (s : List Char) : Prop :=
  (∃ ds fs, ds ≠ [] ∧ (∀ c ∈ ds, isDigit c = true) ∧ (∀ c ∈ fs, isDigit c = true) ∧ (s = ds ∨ s = ds ++ '.' :: fs)) ∨
  (∃ fs, fs ≠ [] ∧ (∀ c ∈ fs, isDigit c = true) ∧ s = '.' :: fs)

/-- the token texts the grammar admits -/
def WFTok (t : Tok) (body : List Char) : Prop :=
  match t with
  | .header s =>
    (s ≠ [] ∧ ∀ c ∈ s, nameCh c = true) ∨
    (∃ b, b ≠ [] ∧ (∀ c ∈ b, qhCh c = true) ∧ s = '"' :: b ++ ['"'])
  | .variable s => s ≠ [] ∧ ∀ c ∈ s, nameCh c = true
  | .reference s => s ≠ [] ∧ ∀ c ∈ s, nameCh c = true
  | .fname s => ∃ c r, s = c :: r ∧ c.isAlpha = true ∧ ∀ d ∈ r, nameCh d = true
  | .str s => ∀ c ∈ s, c ≠ '"'
  | .num s => WFUnsigned s ∨ (∃ u, WFUnsigned u ∧ (s = '+' :: u ∨ s = '-' :: u))
  | .regex s => ∃ b, (∀ c ∈ b, c ≠ '/' ∧ c ≠ '\\') ∧ s = '/' :: b ++ ['/']
  | .comment => ∀ c ∈ body, c ≠ '~'
  | _ => True

/-- would the character `c`, written right after `t`, run on into `t`? -/
def glue (t : Tok) (c : Char) : Bool :=
  match t with
  | .header s => (s.getLast? != some '"') && nameCh c
  | .variable _ => nameCh c
  | .reference _ => nameCh c
  | .fname _ => nameCh c
  | .num _ => nameCh c
  | .assign => c == '='
  | _ => false

structure Piece where
  gap : List Char          -- white space written before the token
  tok : Tok
  body : List Char := []   -- the text of a comment

def pieceText (p : Piece) : List Char := p.gap ++ tokText p.tok p.body

def render (ps : List Piece) (trail : List Char) : List Char :=
  (ps.map pieceText).flatten ++ trail

/-- an admissible layout: gaps are white space, tokens are well formed, and two tokens are written
    without a gap only where the second cannot run on into the first -/
def WFLayout : List Piece → List Char → Prop
  | [], trail => ∀ c ∈ trail, isWS c = true
  | p :: rest, trail =>
    (∀ c ∈ p.gap, isWS c = true) ∧ WFTok p.tok p.body ∧
    (∀ c, (render rest trail).head? = some c → glue p.tok c = false) ∧ WFLayout rest trail

end Spec.Match
