/-
  Reference semantics of the scan part, written from docs/ ("scan part" of README and
  docs/files.md) and from property C02 — never from scanner.py:
    `*` every line · `N*` line N to the end · `N` that line · `a-b` the inclusive range (a lone
    range may be written in either order) · `+` the union of its operands.
  Line numbers are 0-based record positions; blank records are never offered.
-/
import Model.Scan

namespace Spec.Scan
open Model.Scan (Term Op Expr)

/-- an operand of a `+` list -/
inductive Item where
  | line (n : Nat)
  | range (a b : Nat)      -- forward: a ≤ b
  deriving Repr, DecidableEq, Inhabited

/-- the class K of the quantifier of C02 -/
inductive K where
  | all                          -- `*`
  | fromN (n : Nat)              -- `N*`
  | loneRange (a b : Nat)        -- `a-b`, either order
  | list (first : Item) (rest : List Item)   -- `+`-joined numbers and forward ranges
  deriving Repr, DecidableEq, Inhabited

def Item.den : Item → Nat → Bool
  | .line m, n => n == m
  | .range a b, n => decide (a ≤ n ∧ n ≤ b)

def Item.lo : Item → Nat
  | .line m => m
  | .range a _ => a

def Item.hi : Item → Nat
  | .line m => m
  | .range _ b => b

/-- what a scan part denotes -/
def K.den : K → Nat → Bool
  | .all, _ => true
  | .fromN m, n => decide (m ≤ n)
  | .loneRange a b, n => decide (min a b ≤ n ∧ n ≤ max a b)
  | .list f r, n => f.den n || r.any (·.den n)

/-- forward ranges, ascending and non-overlapping: every operand starts after the previous
    one ended -/
def ascendingFrom (lo : Nat) : List Item → Prop
  | [] => True
  | i :: is => lo ≤ i.lo ∧ i.lo ≤ i.hi ∧ ascendingFrom (i.hi + 1) is

def K.WF : K → Prop
  | .list f r => f.lo ≤ f.hi ∧ ascendingFrom (f.hi + 1) r
  | _ => True

instance : (lo : Nat) → (l : List Item) → Decidable (ascendingFrom lo l)
  | _, [] => isTrue trivial
  | lo, i :: is =>
    have := instDecidableAscendingFrom (i.hi + 1) is
    by unfold ascendingFrom; exact inferInstance
where instDecidableAscendingFrom : (lo : Nat) → (l : List Item) → Decidable (ascendingFrom lo l)
  | _, [] => isTrue trivial
  | lo, i :: is =>
    have := instDecidableAscendingFrom (i.hi + 1) is
    by unfold ascendingFrom; exact inferInstance

instance (k : K) : Decidable k.WF := by
  cases k <;> unfold K.WF <;> exact inferInstance

/-- concrete syntax of an operand after a `+` -/
def Item.ops : Item → List (Op × Term)
  | .line n => [(.plus, .num n)]
  | .range a b => [(.plus, .num a), (.minus, .num b)]

/-- how a member of K is written -/
def K.toExpr : K → Expr
  | .all => ⟨.star, []⟩
  | .fromN n => ⟨.numStar n, []⟩
  | .loneRange a b => ⟨.num a, [(.minus, .num b)]⟩
  | .list (.line n) r => ⟨.num n, r.flatMap Item.ops⟩
  | .list (.range a b) r => ⟨.num a, (.minus, .num b) :: r.flatMap Item.ops⟩

/-- the greatest denoted line, for the finite shapes -/
def K.last? : K → Option Nat
  | .all => none
  | .fromN _ => none
  | .loneRange a b => some (max a b)
  | .list f r => some ((r.getLast?.getD f).hi)

/-- the lines offered to the match part: the records at denoted positions that are not blank
    (positions counted from `i` for the first record of the list) -/
def offeredFrom (den : Nat → Bool) (i : Nat) : List (List String) → List Nat
  | [] => []
  | r :: rs => (if den i && !r.isEmpty then [i] else []) ++ offeredFrom den (i + 1) rs

def offered (k : K) (recs : List (List String)) : List Nat := offeredFrom k.den 0 recs

end Spec.Scan
