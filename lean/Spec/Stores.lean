/-
  Abstract specification of the named-files area (property C11): a versioned, content-addressed,
  immutable store.  name ↦ list of versions (digest, source name); `add` appends a version iff it
  differs from the current one; `get` is the current version; `remove` forgets the name.
-/
namespace Spec.Files

abbrev Versions (δ : Type) := List (δ × String)
abbrev Spec (δ : Type) := List (String × Versions δ)

variable {δ : Type} [DecidableEq δ]

def versions (s : Spec δ) (name : String) : Option (Versions δ) := (s.find? (·.1 == name)).map (·.2)

def setV (s : Spec δ) (name : String) (v : Versions δ) : Spec δ :=
  match s with
  | [] => [(name, v)]
  | (n, v') :: r => if n == name then (n, v) :: r else (n, v') :: setV r name v

def add (s : Spec δ) (name src : String) (d : δ) : Spec δ :=
  let v := (versions s name).getD []
  setV s name (if v.getLast? == some (d, src) then v else v ++ [(d, src)])

def remove (s : Spec δ) (name : String) : Spec δ := s.filter (fun p => !(p.1 == name))

def current (s : Spec δ) (name : String) : Option (δ × String) := (versions s name).bind (·.getLast?)

end Spec.Files
