/-
  Reference semantics of error handling, from property C05 and docs/config.md ("errors" section):
  each flag acts independently; a csvpath's validation-mode overrides the flag for that csvpath.
-/
import Model.ErrorPolicy

namespace Spec.Err
open Model.Err (Policy Override)

/-- the effective flag -/
def eff (configured : Bool) (override : Option Bool) : Bool :=
  match override with
  | some b => b
  | none => configured

/-- what must be true after a line on which the (non-empty) list `es` of errors was raised:
    stop ⇔ stopped; fail ⇔ invalid; and — when the exception does not reach the caller — one
    record per error iff collect, one printout per error iff print.  When `raise` is set the
    exception reaches the caller at the first error, whose own record/printout are still made. -/
structure Outcome where
  raised : Bool
  stopped : Bool
  valid : Bool
  collected : List Nat
  printed : List Nat
  deriving Repr, DecidableEq

def outcome (p : Policy) (o : Override) (es : List Nat) : Outcome :=
  let r := eff p.raise o.raise
  let handled := if r then es.take 1 else es
  { raised := r && !es.isEmpty,
    stopped := eff p.stop o.stop && !es.isEmpty,
    valid := !(eff p.fail o.fail && !es.isEmpty),
    collected := if p.collect then handled else [],
    printed := if eff p.print o.print then handled else [] }

/-- documented tokens of validation-mode -/
inductive Tok where
  | pos (family : String)
  | neg (family : String)
  deriving Repr, DecidableEq

end Spec.Err
