import Model.Print
/-!
# What C16 demands of a print string

A print string is written from *chunks*: literal text and references.  `source` is the string as
the author writes it (a dot right after a reference is written `..`), `expected` is what the
property says must come out: every literal character unchanged, every reference replaced by its
value.  `WF` is the class of strings the property quantifies over.
-/
namespace Spec.Print
open Model.Print

inductive NameForm where
  | simple (s : List Char)
  | quoted (s : List Char)
  deriving Repr, DecidableEq

structure RefW where
  dtype : DType
  name : NameForm
  tracking : Option NameForm
  deriving Repr, DecidableEq

inductive Chunk where
  | lit (s : List Char)
  | ref (r : RefW)
  deriving Repr, DecidableEq

def typeName : DType → List Char
  | .variables => ['v', 'a', 'r', 'i', 'a', 'b', 'l', 'e', 's']
  | .headers => ['h', 'e', 'a', 'd', 'e', 'r', 's']
  | .metadata => ['m', 'e', 't', 'a', 'd', 'a', 't', 'a']
  | .csvpath => ['c', 's', 'v', 'p', 'a', 't', 'h']

def writeName : NameForm → List Char
  | .simple s => s
  | .quoted s => '\'' :: s ++ ['\'']

def unquoted : NameForm → List Char
  | .simple s => s
  | .quoted s => s

/-- a local reference as written: `$.type.name` or `$.type.name.tracking` -/
def writeRef (r : RefW) : List Char :=
  '$' :: '.' :: typeName r.dtype ++ '.' :: writeName r.name ++
    (match r.tracking with | some t => '.' :: writeName t | none => [])

/-- the reference the resolution step must be asked for -/
def refOf (r : RefW) : Ref :=
  { root := [], dtype := r.dtype, name := unquoted r.name, tracking := r.tracking.map writeName }

/-- the print string as written; the flag says that the previous chunk was a reference -/
def source : Bool → List Chunk → List Char
  | _, [] => []
  | a, .lit s :: rest => (if a && s.head? == some '.' then '.' :: s else s) ++ source false rest
  | _, .ref r :: rest => writeRef r ++ source true rest

/-- what must be printed -/
def expected (resolve : Ref → Option (List Char)) : List Chunk → Option (List Char)
  | [] => some []
  | .lit s :: rest => (expected resolve rest).map (s ++ ·)
  | .ref r :: rest =>
    match resolve (refOf r), expected resolve rest with
    | some v, some out => some (v ++ out)
    | _, _ => none

/-- a character of a text chunk: not `$`, and white space only of the kinds Lark's WS knows -/
def plain (c : Char) : Bool := c != '$' && (!Model.PyStr.isSpace c || isWS c)

def WFName : NameForm → Prop
  | .simple s => s ≠ [] ∧ ∀ c ∈ s, isSimple c = true
  | .quoted s => s ≠ [] ∧ ∀ c ∈ s, c ≠ '\''

def WFRef (r : RefW) : Prop :=
  WFName r.name ∧ (∀ t, r.tracking = some t → WFName t)

/-- the last name of the reference as written -/
def lastName (r : RefW) : NameForm := r.tracking.getD r.name

/-- may `c` follow the reference directly?  After a simple name it has to end the name. -/
def endsName (r : RefW) (c : Char) : Prop :=
  match lastName r with
  | .simple _ => isSimple c = false
  | .quoted _ => True

/-- the strings the property quantifies over: text chunks of plain characters and references in
    any arrangement, except that two references need at least one character between them (see the
    known finding `adjacent-references`) -/
def WF : List Chunk → Prop
  | [] => True
  | .lit s :: rest => s ≠ [] ∧ (∀ c ∈ s, plain c = true) ∧ WF rest
  | [.ref r] => WFRef r
  | .ref r :: .lit s :: rest => WFRef r ∧ (∀ c, s.head? = some c → endsName r c) ∧ WF (.lit s :: rest)
  | .ref _ :: .ref _ :: _ => False

/-! The same class as a Boolean function, so that the driver can say for each generated print
string whether the theorem covers it (`wfB_sound` in Props/C16.lean). -/
def wfNameB : NameForm → Bool
  | .simple s => !s.isEmpty && s.all isSimple
  | .quoted s => !s.isEmpty && s.all (· != '\'')

def wfRefB (r : RefW) : Bool :=
  wfNameB r.name && (match r.tracking with | some t => wfNameB t | none => true)

def endsNameB (r : RefW) (c : Char) : Bool :=
  match lastName r with
  | .simple _ => !isSimple c
  | .quoted _ => true

def wfB : List Chunk → Bool
  | [] => true
  | .lit s :: rest => !s.isEmpty && s.all plain && wfB rest
  | [.ref r] => wfRefB r
  | .ref r :: .lit s :: rest =>
    wfRefB r && (match s.head? with | some c => endsNameB r c | none => true) && wfB (.lit s :: rest)
  | .ref _ :: .ref _ :: _ => false

end Spec.Print
