/-
  Reference semantics of qualified assignment `@x.<qualifiers> = y`, written from
  docs/assignment.md and docs/qualifiers.md (and property C14), as one flat decision list:

    onmatch gates everything on the rest of the line matching;
    an onchange assignment of the value the variable already holds votes negative;
    a latched variable that is set keeps its value and never votes negative;
    then notnone, increase, decrease block the write and vote negative;
    otherwise the value is written and the vote is positive;
    asbool replaces a positive vote by the truth of y;  nocontrib makes the vote neutral.

  "Positive" is the neutral element of the logic mode (`default_match`): True under AND, False
  under OR; "negative" is its negation.
-/
import Model.Assign

namespace Spec.Assign
open Model.Assign (Val Quals)

/-- docs/qualifiers.md: "only set when it would go up in value. The first value set, when the
    current value is None, always works." -/
def goesUp : Val → Val → Bool
  | _, .none => false          -- None is not a value that goes up ("True if y is > x")
  | .none, _ => true
  | .int c, .int y => decide (c < y)
  | .str c, .str y => decide (c < y)
  | _, _ => false

def goesDown : Val → Val → Bool
  | _, .none => false
  | .none, _ => true
  | .int c, .int y => decide (y < c)
  | .str c, .str y => decide (y < c)
  | _, _ => false

/-- (value written, vote) -/
def assign (q : Quals) (cur y : Val) (restMatches : Bool) (dm : Bool) : Option Val × Bool :=
  let pos := dm
  let neg := !dm
  let base : Option Val × Bool :=
    if q.onmatch && !restMatches then (none, neg)
    else if (q.latch || q.onchange) && cur == y then (none, if q.onchange then neg else pos)
    else if q.latch && cur != .none then (none, pos)
    else if q.notnone && y == .none then (none, neg)
    else if q.increase && !goesUp cur y then (none, neg)
    else if q.decrease && !goesDown cur y then (none, neg)
    else (some y, pos)
  let v1 := if q.asbool && base.2 == pos then Model.Assign.asbool y else base.2
  (base.1, if q.nocontrib then pos else v1)

end Spec.Assign
