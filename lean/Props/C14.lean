/-
  C14 — Assignment qualifiers decide the vote and the write per the documented table.
-/
import Model.Assign
import Spec.Assign
import Proofs.Assign

namespace Props.C14
open Model.Assign Proofs.Assign

/-- For all 256 qualifier subsets, all current values, all new values (unbounded ints, any
    strings, None), both answers of the rest of the line and both logic modes: what is written
    and what the assignment votes is what the documented decision list says.
    Hypotheses: `comparable` — Python can order the two values (no int against str), and
    `inQuantifier` — the new value is not a falsy non-None value (0, "") under increase/decrease
    (see `c14_outside_quantifier`). -/
theorem c14_table (q : Quals) (cur y : Val) (lm dm : Bool)
    (hc : comparable cur y = true) (hq : inQuantifier q y = true) :
    assign q cur y lm dm =
      .ok (Spec.Assign.assign q cur y (lm == dm) dm).1 (Spec.Assign.assign q cur y (lm == dm) dm).2 :=
  assign_eq q cur y lm dm hc hq

/-- latch never votes negative (unless onchange or another blocking qualifier is also set):
    with only `latch` (and optionally nocontrib/asbool off) the vote is the neutral one -/
theorem c14_latch_never_negative (cur y : Val) (lm dm : Bool) (hc : comparable cur y = true) :
    ∃ w, assign { latch := true } cur y lm dm = .ok w dm := by
  rw [c14_table _ _ _ _ _ hc (by simp [inQuantifier])]
  refine ⟨(Spec.Assign.assign { latch := true } cur y (lm == dm) dm).1, ?_⟩
  congr 1
  simp only [Spec.Assign.assign]
  by_cases h1 : cur = y
  · simp [h1]
  · by_cases h2 : cur = Val.none
    · subst h2; simp [h1]
    · simp [h1, h2, bne_val]

/-- nocontrib makes the vote neutral whatever the other qualifiers, values and line verdict -/
theorem c14_nocontrib_neutral (q : Quals) (hn : q.nocontrib = true) (cur y : Val) (lm dm : Bool)
    (hc : comparable cur y = true) (hq : inQuantifier q y = true) :
    ∃ w, assign q cur y lm dm = .ok w dm := by
  rw [c14_table _ _ _ _ _ hc hq]
  refine ⟨(Spec.Assign.assign q cur y (lm == dm) dm).1, ?_⟩
  congr 1
  simp [Spec.Assign.assign, hn]

/-- onmatch gates everything: when the rest of the line does not match nothing is written -/
theorem c14_onmatch_gate (q : Quals) (ho : q.onmatch = true) (cur y : Val) (lm dm : Bool) (hl : lm ≠ dm)
    (hc : comparable cur y = true) (hq : inQuantifier q y = true) :
    ∃ v, assign q cur y lm dm = .ok none v := by
  rw [c14_table _ _ _ _ _ hc hq]
  have : (lm == dm) = false := by simpa using hl
  refine ⟨(Spec.Assign.assign q cur y (lm == dm) dm).2, ?_⟩
  congr 1
  simp [Spec.Assign.assign, ho, this]

/-- the value of `x` after any sequence of assignments is the fold of the documented decision -/
def stepModel (q : Quals) (dm : Bool) (cur : Val) (ylm : Val × Bool) : Val :=
  match assign q cur ylm.1 ylm.2 dm with
  | .ok (some v) _ => v
  | _ => cur

def stepSpec (q : Quals) (dm : Bool) (cur : Val) (ylm : Val × Bool) : Val :=
  match (Spec.Assign.assign q cur ylm.1 (ylm.2 == dm) dm).1 with
  | some v => v
  | none => cur

theorem c14_history (q : Quals) (dm : Bool) (ys : List (Val × Bool)) (cur : Val)
    (hq : ∀ y ∈ ys, inQuantifier q y.1 = true)
    (hint : (∀ y ∈ ys, ∃ i, y.1 = .int i ∨ y.1 = .none) ∧ (∃ i, cur = .int i ∨ cur = .none)) :
    ys.foldl (stepModel q dm) cur = ys.foldl (stepSpec q dm) cur := by
  induction ys generalizing cur with
  | nil => rfl
  | cons y ys ih =>
    obtain ⟨hys, hcur⟩ := hint
    have hc : comparable cur y.1 = true := by
      obtain ⟨i, hi | hi⟩ := hcur <;> obtain ⟨j, hj | hj⟩ := hys y (List.mem_cons_self ..) <;>
        simp [hi, hj, comparable]
    have e : stepModel q dm cur y = stepSpec q dm cur y := by
      simp only [stepModel, stepSpec, c14_table q cur y.1 y.2 dm hc (hq y (List.mem_cons_self ..))]
      cases (Spec.Assign.assign q cur y.1 (y.2 == dm) dm).1 <;> rfl
    simp only [List.foldl_cons, e]
    apply ih
    · intro z hz; exact hq z (List.mem_cons_of_mem _ hz)
    · refine ⟨fun z hz => hys z (List.mem_cons_of_mem _ hz), ?_⟩
      -- the new current value is the old one or y
      simp only [stepSpec]
      cases hw : (Spec.Assign.assign q cur y.1 (y.2 == dm) dm).1 with
      | none => exact hcur
      | some v =>
        have : v = y.1 := by
          simp only [Spec.Assign.assign] at hw
          repeat' split at hw
          all_goals first | (simp at hw; done) | (simp at hw; exact hw.symm)
        rw [this]; exact hys y (List.mem_cons_self ..)

/-- the hypothesis `inQuantifier` is needed: a first assignment of 0 under `increase` is blocked
    by the code although docs/qualifiers.md says the first set always works -/
theorem c14_outside_quantifier :
    assign { increase := true } .none (.int 0) true true = .ok none false ∧
    Spec.Assign.assign { increase := true } .none (.int 0) true true = (some (.int 0), true) := by
  decide

/-! Non-vacuity -/
example : assign { onchange := true, notnone := true } (.int 2) (.int 3) true true = .ok (some (.int 3)) true := by decide
example : assign { latch := true, asbool := true } (.int 2) (.str "false") false true = .ok none false := by decide

end Props.C14
