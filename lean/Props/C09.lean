/-
  C09 — The archived results of a run say what the run did  (and the abort clauses of C18).
  Member results are arbitrary data; the hash function is a parameter.
-/
import Model.Archive
import Proofs.Csv

namespace Props.C09
open Model.Archive

variable {ν ε δ : Type}

/-- what "the member directory says what the member did" means -/
structure Consistent (H : Content ν ε → δ) (r : MemberResult ν ε) (d : MemberDir ν ε δ) : Prop where
  vars : fileOf d "vars.json" = some (.vars r.vars)
  errors : fileOf d "errors.json" = some (.errors r.errors)
  metaFile : fileOf d "meta.json" = some (.metaInfo r.identity)
  data : fileOf d "data.csv" = (if r.lines.isEmpty then none else some (.csv r.lines))
  unmatched : fileOf d "unmatched.csv" = (if r.unmatched.isEmpty then none else some (.csv r.unmatched))
  printouts : fileOf d "printouts.txt" = (if r.printouts.isEmpty then none else some (.text r.printouts))
  manifest : ∃ m, d.manifest = some m ∧ m.valid = r.valid ∧ m.completed = r.completed ∧
    m.errorCount = r.errors.length ∧
    (∀ n h, (n, h) ∈ m.fingerprints → ∃ c, fileOf d n = some c ∧ h = H c) ∧
    (∀ n c, n ∈ fingerprinted → fileOf d n = some c → (n, H c) ∈ m.fingerprints)

theorem saveMember_consistent (H : Content ν ε → δ) (r : MemberResult ν ε) :
    Consistent H r (saveMember H r) := by
  refine ⟨?_, ?_, ?_, ?_, ?_, ?_, ?_⟩
  all_goals try (cases h1 : r.lines.isEmpty <;> cases h2 : r.unmatched.isEmpty <;> cases h3 : r.printouts.isEmpty <;>
    simp [saveMember, fileOf, fileIn, memberFiles, h1, h2, h3, List.find?_cons] <;> decide)
  refine ⟨_, rfl, rfl, rfl, rfl, ?_, ?_⟩
  · intro n h hm
    simp only [List.mem_filterMap] at hm
    obtain ⟨n', _, hn'⟩ := hm
    cases hc : fileIn (memberFiles r) n' with
    | none => rw [hc] at hn'; simp at hn'
    | some c =>
      rw [hc] at hn'
      simp only [Option.map_some, Option.some.injEq, Prod.mk.injEq] at hn'
      obtain ⟨rfl, rfl⟩ := hn'
      exact ⟨c, hc, rfl⟩
  · intro n c hn hc
    simp only [List.mem_filterMap]
    exact ⟨n, hn, by simp only [saveMember, fileOf] at hc; rw [hc]; rfl⟩

/-- After a serial run returns normally: the run manifest says `complete`, its all_valid /
    all_completed / error_count are the conjunction / sum over the members, there is one directory
    per member named by its identity (or index), and every member directory is consistent with the
    member's in-memory result — in particular every fingerprint is the hash of the file's final
    content. -/
theorem c09_consistent (H : Content ν ε → δ) (results : List (MemberResult ν ε)) :
    let out := serialRun H results none
    out.2 = false ∧
    out.1.manifest = some (completeManifest results) ∧
    out.1.members.map (·.1) = results.map (·.identity) ∧
    ∀ i (h : i < results.length), ∃ d, out.1.members[i]? = some (results[i].identity, d) ∧ Consistent H results[i] d := by
  have gen : ∀ (rs : List (MemberResult ν ε)) (k : Nat) (acc : List (String × MemberDir ν ε δ)),
      serialFrom H k rs none acc = (acc ++ rs.map (fun r => (r.identity, saveMember H r)), false) := by
    intro rs
    induction rs with
    | nil => intro k acc; simp [serialFrom]
    | cons r rs ih => intro k acc; simp [serialFrom, ih]
  intro out
  have e : out = ((⟨some (completeManifest results), results.map (fun r => (r.identity, saveMember H r))⟩ :
      RunDirFS ν ε δ), false) := by
    simp [out, serialRun, gen]
  rw [e]
  refine ⟨rfl, rfl, by simp, ?_⟩
  intro i h
  exact ⟨saveMember H results[i], by simp [h], saveMember_consistent H _⟩

/-- C18, abort clauses: when member k's run raises and the policy re-raises, the exception
    reaches the caller, the run manifest never says `complete`, members before k keep complete,
    consistent results, member k itself has its directory with readable meta/vars/errors files
    and a manifest carrying its (not completed) flags, and no later member is started. -/
theorem c18_abort (H : Content ν ε → δ) (results : List (MemberResult ν ε)) (k : Nat) (hk : k < results.length) :
    let out := serialRun H results (some k)
    out.2 = true ∧
    out.1.manifest = some startManifest ∧
    out.1.members = (results.take (k + 1)).map (fun r => (r.identity, saveMember H r)) := by
  have gen : ∀ (rs : List (MemberResult ν ε)) (j : Nat) (acc : List (String × MemberDir ν ε δ)),
      j ≤ k → k < j + rs.length →
      serialFrom H j rs (some k) acc =
        (acc ++ (rs.take (k + 1 - j)).map (fun r => (r.identity, saveMember H r)), true) := by
    intro rs
    induction rs with
    | nil => intro j acc h1 h2; simp at h2; omega
    | cons r rs ih =>
      intro j acc h1 h2
      simp only [serialFrom]
      by_cases hj : j = k
      · rw [hj]
        have : k + 1 - k = 1 := by omega
        simp [this]
      · have hne : (some k == some j) = false := by simp; omega
        simp only [hne, Bool.false_eq_true, if_false]
        rw [ih (j + 1) _ (by omega) (by simp at h2; omega)]
        have : k + 1 - j = (k + 1 - (j + 1)) + 1 := by omega
        rw [this]; simp
  intro out
  have := gen results 0 [] (by omega) (by omega)
  simp [out, serialRun, this]

/-! what `Content.csv rows` stands for on disk -/

/-- `csv.writer(f)` / `csv.reader(f)` with no arguments -/
def csvDefault : Model.Csv.Dialect := ⟨',', '"', 131072⟩

/-- the bytes of data.csv (written by the line spooler in the run's dialect `d`) and of
    unmatched.csv (`d = csvDefault`): `csv.writer(f, …).writerow` per line with the default line
    terminator, file opened in text mode -/
def csvText (d : Model.Csv.Dialect) (rows : List Rec) : List Char :=
  Model.Csv.renderCRLF d (rows.map (·.map String.toList))

/-- **data.csv and unmatched.csv say which lines were kept**: read back with `csv.reader` in the
    same dialect over a text-mode file (as `Result.lines` does and as the next member of a
    `source-mode: preceding` chain reads them) they give exactly the lines the member held in
    memory — every cell, in order — whatever the cells contain (no carriage return), for every
    delimiter and quote character -/
theorem c09_csv_content (d : Model.Csv.Dialect) (hd : Proofs.Csv.WFD d) (rows : List Rec)
    (h : ∀ r ∈ rows, ∀ c ∈ r, '\r' ∉ c.toList ∧ c.toList.length ≤ d.limit) :
    (Model.Csv.read d (csvText d rows)).map (·.map (·.map String.ofList)) = some rows := by
  unfold csvText
  rw [Proofs.Csv.read_renderCRLF d hd]
  · simp [Function.comp_def]
  · intro r hr c hc
    simp only [List.mem_map] at hr
    obtain ⟨r0, hr0, e⟩ := hr
    subst e
    simp only [List.mem_map] at hc
    obtain ⟨c0, hc0, e⟩ := hc
    subst e
    exact h r0 hr0 c0 hc0

example : (Model.Csv.read csvDefault (csvText csvDefault [["he said \"hi\"", "a,b"], ["line\nbreak", ""]])).map (·.map (·.map String.ofList))
    = some [["he said \"hi\"", "a,b"], ["line\nbreak", ""]] := by decide

example : Proofs.Csv.WFD csvDefault := ⟨by decide, by decide, by decide, by decide, by decide⟩

/-! Non-vacuity (variables are a number, errors are line numbers, the "hash" is the constructor tag) -/
def tagH : Content Nat Nat → Nat
  | .metaInfo _ => 0 | .vars v => 100 + v | .errors es => 200 + es.length | .csv rows => 300 + rows.length | .text ls => 400 + ls.length

def sampleResult : MemberResult Nat Nat := ⟨"a", 7, [3], ["p"], [["x"]], [], false, true⟩

example : ((serialRun tagH [sampleResult] none).1.members.map (fun m => m.2.manifest.map (·.fingerprints))) =
    [some [("data.csv", 301), ("meta.json", 0), ("printouts.txt", 401), ("errors.json", 201), ("vars.json", 107)]] := by decide

end Props.C09
