/-
  C12 — Named-paths groups round-trip and select by identity.
-/
import Model.PathsStore
import Proofs.PathsStore

namespace Props.C12
open Model.Paths Proofs.Paths

/-- Round trip of the group file: for every non-empty list of csvpaths none of which is blank or
    contains the marker (any other text: outer comments, inner comments, newlines, brackets),
    `_get_named_paths (_str_from_list ps)` returns the same csvpaths in the same order, each with
    only blank lines added around it. -/
theorem c12_roundtrip (ps : List Str) (hne : ps ≠ []) (hc : ∀ p ∈ ps, Clean p)
    (hb : ∀ p ∈ ps, allBlank p = false) :
    getNamedPaths (strFromList ps) = pieces ps := by
  unfold getNamedPaths split
  rw [strFromList_eq ps hne]
  have hnl : ∀ a b, nl2 = a ++ b → b ≠ [] → marker.isPrefixOf (b ++ groupText ps) = false := by
    apply noStart_of_clean
    · decide
    · intro c hcq
      have : c = '\n' := by simp [nl2] at hcq; exact hcq.symm
      subst this; decide
  rw [splitGo_plain marker nl2 (groupText ps) [] hnl, split_groupText ps hc hne]
  have hfirst : allBlank (nl2.reverse ++ []).reverse = true := by decide
  simp only [List.filter_cons, hfirst, Bool.not_true, Bool.false_eq_true, if_false]
  -- every piece is non-blank
  have hall : ∀ (l : List Str), (∀ p ∈ l, allBlank p = false) → ∀ q ∈ pieces l, allBlank q = false := by
    intro l
    induction l with
    | nil => intro _ q hq; simp [pieces] at hq
    | cons p r ih =>
      intro hl q hq
      have hpb := hl p (List.mem_cons_self ..)
      have key : ∀ (x y : Str), allBlank (x ++ p ++ y) = false := by
        intro x y
        simp only [allBlank, List.all_append, Bool.and_eq_false_iff] at hpb ⊢
        left; right; exact hpb
      cases r with
      | nil =>
        simp only [pieces, List.mem_singleton] at hq
        subst hq; simpa using key nl2 []
      | cons p' r' =>
        simp only [pieces, List.mem_cons] at hq
        rcases hq with rfl | hq
        · exact key nl2 nl2
        · exact ih (fun z hz => hl z (List.mem_cons_of_mem _ hz)) q (by simpa [pieces] using hq)
  rw [List.filter_eq_self.mpr]
  intro q hq
  simp [hall ps hb q hq]

/-- each returned piece is its csvpath up to surrounding blank lines, in the same order -/
theorem c12_pieces_shape (ps : List Str) :
    (pieces ps).length = ps.length ∧
    ∀ i (h : i < ps.length), ∃ tail, (tail = nl2 ∨ tail = []) ∧
      (pieces ps)[i]? = some (nl2 ++ ps[i] ++ tail) := by
  induction ps with
  | nil => exact ⟨rfl, fun i h => by simp at h⟩
  | cons p r ih =>
    cases r with
    | nil =>
      refine ⟨rfl, ?_⟩
      intro i h
      have : i = 0 := by simp at h; omega
      subst this
      exact ⟨[], Or.inr rfl, by simp [pieces]⟩
    | cons p' r' =>
      refine ⟨by simp [pieces, ih.1], ?_⟩
      intro i h
      cases i with
      | zero => exact ⟨nl2, Or.inl rfl, by simp [pieces]⟩
      | succ j =>
        obtain ⟨tail, ht, he⟩ := ih.2 j (by simpa using h)
        exact ⟨tail, ht, by simpa [pieces] using he⟩

/-- selection by identity: `name#id` returns the member whose identity is `id`; for unique
    identities `:to` is the prefix of the group ending at it and `:from` the suffix starting at
    it, and together they cover the group with the member counted once in each. -/
theorem c12_select (g : Identified) (ident : Str) (pre post : Identified) (p : Str)
    (hg : g = pre ++ (ident, p) :: post) (hpre : ∀ x ∈ pre, (x.1 == ident) = false) :
    findOne g ident = some p ∧
    getTo g ident = pre.map (·.2) ++ [p] ∧
    getFrom g ident = p :: post.map (·.2) := by
  subst hg
  induction pre with
  | nil => simp [findOne, getTo, getFrom]
  | cons x xs ih =>
    obtain ⟨i, q⟩ := x
    have hx : (i == ident) = false := hpre (i, q) (List.mem_cons_self ..)
    have ih' := ih (fun y hy => hpre y (List.mem_cons_of_mem _ hy))
    simp only [findOne, getTo, getFrom, List.cons_append, List.find?_cons, hx, Bool.false_eq_true,
      if_false, List.map_cons] at ih' ⊢
    exact ⟨ih'.1, by rw [ih'.2.1], ih'.2.2⟩

/-- the group's manifest gains one entry per change of the group file and none for an identical
    re-add: over any history of fingerprints written, the manifest is the history with adjacent
    repeats collapsed -/
def collapse {δ : Type} [DecidableEq δ] : List δ → List δ
  | [] => []
  | [x] => [x]
  | x :: y :: r => if x = y then collapse (y :: r) else x :: collapse (y :: r)

theorem c12_manifest {δ : Type} [DecidableEq δ] (fs : List δ) :
    fs.foldl manifestAdd [] = collapse fs := by
  have gen : ∀ (fs : List δ) (init : List δ) (x : δ),
      fs.foldl manifestAdd (init ++ [x]) = init ++ collapse (x :: fs) := by
    intro fs
    induction fs with
    | nil => intro init x; simp [collapse]
    | cons f r ih =>
      intro init x
      simp only [List.foldl_cons, manifestAdd, List.getLast?_append, List.getLast?_singleton, Option.some_or]
      by_cases hxf : x = f
      · subst hxf
        simp only [beq_self_eq_true, if_true, collapse]
        exact ih init x
      · have : (some x == some f) = false := by simp [hxf]
        simp only [this, Bool.false_eq_true, if_false, collapse, hxf]
        have := ih (init ++ [x]) f
        simp only [List.append_assoc] at this ⊢
        rw [this]; simp
  cases fs with
  | nil => rfl
  | cons f r =>
    have := gen r [] f
    simpa [List.foldl_cons, manifestAdd] using this

/-- identity precedence: id > Id > ID > name > Name > NAME -/
theorem c12_identity_precedence (v w : Option Str) :
    identityOf [("name".toList, w), ("id".toList, v)] = v ∧
    identityOf [("NAME".toList, w), ("Name".toList, v)] = v ∧
    identityOf [("Name".toList, w), ("ID".toList, v)] = v ∧
    identityOf ([] : List (Str × Option Str)) = some [] := by
  refine ⟨?_, ?_, ?_, rfl⟩ <;> simp [identityOf]

/-! Non-vacuity: a two-member group with comments, brackets and newlines round-trips -/
example : getNamedPaths (strFromList ["~ id: a ~ $[*][yes()\n #1 -> @x = 2]".toList, "$[1-3][~c~ no()]".toList]) =
    ["\n\n~ id: a ~ $[*][yes()\n #1 -> @x = 2]\n\n".toList, "\n\n$[1-3][~c~ no()]".toList] := by decide

end Props.C12
