/-
  C11 — The named-files area is a versioned, content-addressed, immutable store.
  The hash function `H` is a parameter (SHA-256 is not modelled); contents are opaque.
-/
import Model.FileStore
import Spec.Stores
import Proofs.FileStore

namespace Props.C11
open Model.Files Proofs.Files

variable {κ δ : Type} [DecidableEq δ]

/-- the abstract specification's step for an operation -/
def specStep (H : κ → δ) (a : Spec.Files.Spec δ) : Op κ → Spec.Files.Spec δ
  | .add n src c => Spec.Files.add a n src (H c)
  | .remove n => Spec.Files.remove a n
  | .newInstance => a
  | .mutateSource _ _ => a

/-- Refinement: after any sequence of operations (add / remove / new instance / edit of a source
    file), the manifests of the store are exactly the version lists of the abstract store — one
    entry per registration that changes the current version (different digest or different source
    file name) and none for a repeat. -/
theorem c11_refines (H : κ → δ) (ops : List (Op κ)) :
    abs (ops.foldl (step H) []) = ops.foldl (specStep H) [] := by
  suffices ∀ s, abs (ops.foldl (step H) s) = ops.foldl (specStep H) (abs s) from this []
  induction ops with
  | nil => intro s; rfl
  | cons op ops ih =>
    intro s
    simp only [List.foldl_cons]
    rw [ih, abs_step]
    cases op <;> rfl

/-- `get_named_file(name)` is the abstract store's current version -/
theorem c11_get (H : κ → δ) (ops : List (Op κ)) (n : String) :
    Model.Files.get (ops.foldl (step H) []) n =
      (Spec.Files.current (ops.foldl (specStep H) []) n).map (fun v => (v.2, v.1)) := by
  rw [get_abs, c11_refines]

/-- content addressing: in every reachable state, the file `get_named_file(name)` names exists and
    its bytes hash to the fingerprint in its name (which is also the manifest's last fingerprint) -/
theorem c11_content_addressed (H : κ → δ) (ops : List (Op κ)) (n src : String) (h : δ)
    (hg : Model.Files.get (ops.foldl (step H) []) n = some (src, h)) :
    ∃ c, bytes (ops.foldl (step H) []) n = some c ∧ H c = h ∧
      fingerprint (ops.foldl (step H) []) n = some h := by
  have wf := run_WF H ops
  generalize ops.foldl (step H) [] = s at hg wf
  unfold Model.Files.get at hg
  cases hl : lookup s n with
  | none => rw [hl] at hg; cases hg
  | some d =>
    rw [hl] at hg
    simp only at hg
    cases hm : d.manifest.getLast? with
    | none => rw [hm] at hg; cases hg
    | some e =>
      rw [hm] at hg
      simp only [Option.map_some, Option.some.injEq, Prod.mk.injEq] at hg
      obtain ⟨c, hc⟩ := (wf n d hl).present e (List.mem_of_getLast? hm)
      refine ⟨c, ?_, ?_, ?_⟩
      · simp only [bytes, Model.Files.get, hl, hm, Option.map_some]; exact hc
      · have := (wf n d hl).addressed _ _ hc; rw [this]; exact hg.2
      · simp only [fingerprint, Model.Files.get, hl, hm, Option.map_some, hg.2]

/-- the most recent registration wins: right after `add(name, src, c)` the bytes behind
    `get_named_file(name)` hash to `H c` (so they *are* `c` whenever `H` is injective on the
    contents of the history) -/
theorem c11_latest (H : κ → δ) (ops : List (Op κ)) (n src : String) (c : κ) :
    ∃ x, bytes ((ops ++ [Op.add n src c]).foldl (step H) []) n = some x ∧ H x = H c ∧
      Model.Files.get ((ops ++ [Op.add n src c]).foldl (step H) []) n = some (src, H c) := by
  have wf := run_WF H ops
  simp only [List.foldl_append, List.foldl_cons, List.foldl_nil, step]
  generalize ops.foldl (step H) [] = s at wf
  have hd : DirWF H ((lookup s n).getD {}) := by
    cases hl : lookup s n with
    | none => simpa using emptyDir_WF H
    | some d0 => simpa using wf n d0 hl
  obtain ⟨x, hx, hh⟩ := addDir_has H _ hd src c
  have hlast : (addDir H ((lookup s n).getD {}) src c).manifest.getLast? =
      some { fingerprint := H c, fileHome := src } := by
    unfold addDir
    simp only
    cases hl : ((lookup s n).getD {}).manifest.getLast? with
    | none => simp
    | some e =>
      obtain ⟨f, g⟩ := e
      by_cases h1 : f = H c <;> by_cases h2 : g = src <;> simp [h1, h2, hl]
  refine ⟨x, ?_, hh, ?_⟩
  · simp only [bytes, Model.Files.get, add_eq, lookup_setDir_same, hlast, Option.map_some]; exact hx
  · simp only [Model.Files.get, add_eq, lookup_setDir_same, hlast, Option.map_some]

/-- immutability: a stored version keeps its bytes through every operation that is not the
    removal of its name -/
theorem c11_immutable (H : κ → δ) (s : Store κ δ) (op : Op κ) (n : String) (d : NameDir κ δ)
    (k : String × δ) (x : κ) (hl : lookup s n = some d) (hx : fileAt d k = some x)
    (hop : ∀ m, op = .remove m → m ≠ n) :
    ∃ d', lookup (step H s op) n = some d' ∧ fileAt d' k = some x := by
  cases op with
  | add m src c =>
    by_cases hmn : n = m
    · subst hmn
      refine ⟨addDir H d src c, by simp only [step, add_eq, lookup_setDir_same, hl, Option.getD_some], ?_⟩
      exact addDir_keeps H d src c k x hx
    · exact ⟨d, by simp only [step, add_eq, lookup_setDir_other _ _ _ _ hmn, hl], hx⟩
  | remove m =>
    have : n ≠ m := fun e => hop m rfl e.symm
    exact ⟨d, by simp only [step, lookup_remove_other _ _ _ this, hl], hx⟩
  | newInstance => exact ⟨d, hl, hx⟩
  | mutateSource _ _ => exact ⟨d, hl, hx⟩

/-- a fresh CsvPaths instance and later edits of a source file leave the store as it is -/
theorem c11_fresh_instance_and_source_edits (H : κ → δ) (s : Store κ δ) (src : String) (c : κ) :
    step H s .newInstance = s ∧ step H s (.mutateSource src c) = s := ⟨rfl, rfl⟩

/-! Non-vacuity (contents are numbers, the "hash" is mod 10 — deliberately colliding) -/
example : Model.Files.get ([Op.add "f" "a.csv" 11, .add "f" "a.csv" 11, .add "f" "b.csv" 11, .add "f" "a.csv" 12].foldl
    (step (fun (c : Nat) => c % 10)) []) "f" = some ("a.csv", 2) := by decide
example : ((lookup ([Op.add "f" "a.csv" 11, .add "f" "a.csv" 11, .add "f" "b.csv" 11].foldl
    (step (fun (c : Nat) => c % 10)) []) "f").map (·.manifest.length)) = some 2 := by decide

end Props.C11
