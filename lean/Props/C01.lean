/-
  C01 — Returned lines are exactly the scanned lines that satisfy the match part.
  Run-loop clause (parametric in the matcher): whatever the match part is, the lines returned are
  exactly the offered records on which the matcher answered True, each once, in file order.
  The component-level clauses (what "satisfy" means) are in Props/C01Interp.lean.
-/
import Model.RunLoop
import Proofs.RunLoop

namespace Props.C01
open Model.Scan Model.Run Proofs.Run

variable {σ : Type}

theorem c01_runloop (m : MatcherSem σ) (scan : St) (cfg : Cfg) (hw : cfg.willRun = true)
    (hd : cfg.cwnm = false) (recs : List Rec) (ms : σ) :
    let c := collectRun m scan cfg recs { ms := ms }
    c.1 = c.2.1.matched.map (fun j => recs.getD j []) ∧
    c.2.1.matched.Sublist c.2.1.offered ∧
    c.2.1.offered.Pairwise (· < ·) := by
  intro c
  have hy : c.2.2.yielded = c.2.1.matched := by
    simp only [c, collectRun, runWith, hw, if_true, hd]
    exact runFrom_yielded m scan false _ (endIdxOf recs) recs none 0 { ms := ms } {} rfl
  have hinv : Inv (0 + recs.length) c.2.1 := by
    simp only [c, collectRun, runWith, hw, if_true]
    exact runFrom_Inv m scan _ _ (endIdxOf recs) recs none 0 { ms := ms } {} (Inv_init ms)
  have hsorted := runFrom_offered_sorted m scan cfg.cwnm (true && cfg.unmatchedAvail) (endIdxOf recs) recs none 0
    { ms := ms } {} (Inv_init ms) (by simp)
  refine ⟨?_, hinv.msub, ?_⟩
  · simp only [c, collectRun, runWith, hw, if_true] at hy ⊢
    obtain ⟨ys, h1, h2, _⟩ := runFrom_lines m scan cfg.cwnm (true && cfg.unmatchedAvail) (endIdxOf recs) recs none 0
      { ms := ms } {}
    rw [← hy, h1, h2]; simp
  · simpa [c, collectRun, runWith, hw] using hsorted

end Props.C01
