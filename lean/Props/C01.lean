/-
  C01 — Returned lines are exactly the scanned lines that satisfy the match part.
  Run-loop clause (parametric in the matcher): whatever the match part is, the lines returned are
  exactly the offered records on which the matcher answered True, each once, in file order.
  The component-level clauses (what "satisfy" means) are in Props/C01Interp.lean.
-/
import Model.RunLoop
import Proofs.RunLoop
import Model.Matcher
import Proofs.Matcher
import Proofs.Funcs

namespace Props.C01
open Model.Scan Model.Run Proofs.Run

variable {σ : Type}

theorem c01_runloop (m : MatcherSem σ) (scan : St) (cfg : Cfg) (hw : cfg.willRun = true)
    (hd : cfg.cwnm = false) (recs : List Rec) (ms : σ) :
    let c := collectRun m scan cfg recs { ms := ms }
    c.1 = c.2.1.matched.map (fun j => recs.getD j []) ∧
    c.2.1.matched.Sublist c.2.1.offered ∧
    c.2.1.offered.Pairwise (· < ·) := by
  intro c
  have hy : c.2.2.yielded = c.2.1.matched := by
    simp only [c, collectRun, runWith, hw, if_true, hd]
    exact runFrom_yielded m scan false _ (endIdxOf recs) recs none 0 { ms := ms } {} rfl
  have hinv : Inv (0 + recs.length) c.2.1 := by
    simp only [c, collectRun, runWith, hw, if_true]
    exact runFrom_Inv m scan _ _ (endIdxOf recs) recs none 0 { ms := ms } {} (Inv_init ms)
  have hsorted := runFrom_offered_sorted m scan cfg.cwnm (true && cfg.unmatchedAvail) (endIdxOf recs) recs none 0
    { ms := ms } {} (Inv_init ms) (by simp)
  refine ⟨?_, hinv.msub, ?_⟩
  · simp only [c, collectRun, runWith, hw, if_true] at hy ⊢
    obtain ⟨ys, h1, h2, _⟩ := runFrom_lines m scan cfg.cwnm (true && cfg.unmatchedAvail) (endIdxOf recs) recs none 0
      { ms := ms } {}
    rw [← hy, h1, h2]; simp
  · simpa [c, collectRun, runWith, hw] using hsorted

/-- Top level of the interpreter: when no component stops or skips the line, the components are
    evaluated left to right — each in the state its predecessors left — and the line matches
    exactly when all of them hold (logic-mode AND) / any of them holds (logic-mode OR).  `votes`
    is that plain left-to-right evaluation; `Clean` says no expression is reached with the stop
    or skip flag set (the cut itself is C13's clause). -/
theorem c01_toplevel (env : Model.Interp.Env) (prog : List Model.Interp.Node) (v : Model.Interp.View)
    (hc : Proofs.Matcher.Clean env prog v) :
    (Model.Interp.matchLine env prog v).1 =
      (if env.dm then (Proofs.Matcher.votes env prog v).all id else (Proofs.Matcher.votes env prog v).any id) := by
  unfold Model.Interp.matchLine
  rw [Proofs.Matcher.matchExprs_clean env prog v (!env.dm) none hc]
  cases env.dm <;> simp

/-! ### the documented meaning of the comparison and boolean functions, on the model

For integers the `above` family is `>`/`>=` as documented. The `lt` family answers `<=`: that is the
known finding `lt-is-le` (the code computes `<`, drops it and returns `<=`); the theorem states
what the model — and, by the correspondence suite, the code — does, so the finding is on record in
the proofs as well. -/
theorem c01_compare_ints (s : Model.Interp.ES) (a b : Int) :
    Model.Interp.aboveBelow "above" (.int a) (.int b) s = (decide (a > b), s) ∧
    Model.Interp.aboveBelow "gt" (.int a) (.int b) s = (decide (a > b), s) ∧
    Model.Interp.aboveBelow "after" (.int a) (.int b) s = (decide (a > b), s) ∧
    Model.Interp.aboveBelow "gte" (.int a) (.int b) s = (decide (a ≥ b), s) ∧
    Model.Interp.aboveBelow "lte" (.int a) (.int b) s = (decide (a ≤ b), s) ∧
    Model.Interp.aboveBelow "lt" (.int a) (.int b) s = (decide (a ≤ b), s) ∧
    Model.Interp.aboveBelow "below" (.int a) (.int b) s = (decide (a ≤ b), s) ∧
    Model.Interp.aboveBelow "before" (.int a) (.int b) s = (decide (a ≤ b), s) :=
  Proofs.Funcs.cmp_ints s a b

/-- `not(x)` holds exactly when `x` does not -/
theorem c01_not (fuel : Nat) (env : Model.Interp.Env) (id : Nat) (q : List String) (a : Model.Interp.Node)
    (s : Model.Interp.ES) :
    Model.Interp.decideFn (fuel + 1) env id "not" q [a] s =
      (some (!((Model.Interp.evalM fuel env a s).1 == some true)), (Model.Interp.evalM fuel env a s).2) :=
  Proofs.Funcs.fn_not fuel env id q a s

/-- `and(x, y)`: `y` is evaluated (in the state `x` leaves) only when `x` holds; the answer is `y`'s then, `x`'s otherwise -/
theorem c01_and (fuel : Nat) (env : Model.Interp.Env) (id : Nat) (q : List String) (a b : Model.Interp.Node)
    (s : Model.Interp.ES) :
    (Model.Interp.decideFn (fuel + 1) env id "and" q [a, b] s).1 =
      (if (Model.Interp.evalM fuel env a s).1 == some true
       then (Model.Interp.evalM fuel env b (Model.Interp.evalM fuel env a s).2).1
       else (Model.Interp.evalM fuel env a s).1) :=
  Proofs.Funcs.fn_and fuel env id q a b s

/-- `or(x, y)` holds exactly when one of them does -/
theorem c01_or (fuel : Nat) (env : Model.Interp.Env) (id : Nat) (q : List String) (a b : Model.Interp.Node)
    (s : Model.Interp.ES) :
    (Model.Interp.decideFn (fuel + 1) env id "or" q [a, b] s).1 =
      some ((Model.Interp.evalM fuel env a s).1 == some true ||
            (Model.Interp.evalM fuel env b (Model.Interp.evalM fuel env a s).2).1 == some true) :=
  Proofs.Funcs.fn_or fuel env id q a b s

/-- string and math functions on arguments that evaluate to strings / integers (whatever the arguments are: cells, variables,
    nested functions): `concat` concatenates, `length` counts characters, `strip` trims, `starts_with` tests the trimmed
    prefix, `add` adds — each in the state its arguments leave, changing nothing itself -/
theorem c01_strings_math (fuel : Nat) (env : Model.Interp.Env) (id : Nat) (q : List String) (a b : Model.Interp.Node)
    (s s1 s2 : Model.Interp.ES) :
    (∀ x y : String, Model.Interp.evalV fuel env a s = (.str x, s1) → Model.Interp.evalV fuel env b s1 = (.str y, s2) →
      Model.Interp.produceFn (fuel + 1) env id "concat" q [a, b] s = (.str (x ++ y), s2) ∧
      Model.Interp.produceFn (fuel + 1) env id "starts_with" q [a, b] s =
        (.bool ((Model.PyStr.strip y).toList.isPrefixOf (Model.PyStr.strip x).toList), s2)) ∧
    (∀ x : String, Model.Interp.evalV fuel env a s = (.str x, s1) →
      Model.Interp.produceFn (fuel + 1) env id "length" q [a] s = (.int x.length, s1) ∧
      Model.Interp.produceFn (fuel + 1) env id "strip" q [a] s = (.str (Model.PyStr.strip x), s1)) ∧
    (∀ x y : Int, Model.Interp.evalV fuel env a s = (.int x, s1) → Model.Interp.evalV fuel env b s1 = (.int y, s2) →
      Model.Interp.produceFn (fuel + 1) env id "add" q [a, b] s = (.flt (x + y), s2)) :=
  ⟨fun x y h1 h2 => ⟨Proofs.Funcs.fn_concat fuel env id q a b x y s s1 s2 h1 h2,
                     Proofs.Funcs.fn_starts_with fuel env id q a b x y s s1 s2 h1 h2⟩,
   fun x h1 => ⟨Proofs.Funcs.fn_length fuel env id q a x s s1 h1, Proofs.Funcs.fn_strip fuel env id q a x s s1 h1⟩,
   fun x y h1 h2 => Proofs.Funcs.fn_add fuel env id q a b x y s s1 s2 h1 h2⟩

end Props.C01
