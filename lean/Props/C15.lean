/-
  C15 — Comment mode settings take effect; matched and unmatched partition the file.
  Run-loop clauses (parametric in the matcher) and the metadata scanner clause.
-/
import Model.RunLoop
import Proofs.RunLoop
import Model.Metadata
import Proofs.Metadata
import Proofs.MetaFields

namespace Props.C15
open Model.Scan Model.Run Proofs.Run

variable {σ : Type}

/-- `return-mode: no-matches` vs the default: the matcher is called on the same records with the
    same states (the final loop states are equal), the default mode yields exactly the offered
    records that matched, no-matches yields exactly the offered records that did not, and those
    two lists partition the offered (scanned) records, order preserved. -/
theorem c15_complement (m : MatcherSem σ) (scan : St) (cfg : Cfg) (hw : cfg.willRun = true)
    (recs : List Rec) (ms : σ) :
    let d := nextRun m scan { cfg with cwnm := false } recs { ms := ms }
    let n := nextRun m scan { cfg with cwnm := true } recs { ms := ms }
    n.2.1 = d.2.1 ∧
    d.2.2.yielded = d.2.1.matched ∧
    n.2.2.yielded = d.2.1.declined ∧
    d.2.1.matched.Sublist d.2.1.offered ∧ d.2.1.declined.Sublist d.2.1.offered ∧
    (∀ j ∈ d.2.1.offered, (j ∈ d.2.1.matched ↔ j ∉ d.2.1.declined)) ∧
    d.1 = d.2.2.yielded.map (fun j => recs.getD j []) ∧
    n.1 = n.2.2.yielded.map (fun j => recs.getD j []) := by
  intro d n
  have hst : n.2.1 = d.2.1 := by
    simp only [n, d, nextRun, runWith, hw, if_true]
    exact runFrom_cwnm_state m scan (endIdxOf recs) recs 0 { ms := ms } {} {} _ _
  have hyd : d.2.2.yielded = d.2.1.matched := by
    simp only [d, nextRun, runWith, hw, if_true]
    exact runFrom_yielded m scan false _ (endIdxOf recs) recs none 0 { ms := ms } {} rfl
  have hyn : n.2.2.yielded = n.2.1.declined := by
    simp only [n, nextRun, runWith, hw, if_true]
    exact runFrom_yielded m scan true _ (endIdxOf recs) recs none 0 { ms := ms } {} rfl
  have hinv : Inv (0 + recs.length) d.2.1 := by
    simp only [d, nextRun, runWith, hw, if_true]
    exact runFrom_Inv m scan false _ (endIdxOf recs) recs none 0 { ms := ms } {} (Inv_init ms)
  have hl : ∀ (c : Bool), let x := nextRun m scan { cfg with cwnm := c } recs { ms := ms }
      x.1 = x.2.2.yielded.map (fun j => recs.getD j []) := by
    intro c
    simp only [nextRun, runWith, hw, if_true]
    obtain ⟨ys, h1, h2, _⟩ := runFrom_lines m scan c (false && cfg.unmatchedAvail) (endIdxOf recs) recs none 0
      { ms := ms } {}
    rw [h1, h2]; simp
  exact ⟨hst, hyd, by rw [hyn, hst], hinv.msub, hinv.dsub, hinv.part, hl false, hl true⟩

/-- `unmatched-mode: keep` under `collect()`: the collected lines and the unmatched lines
    together are exactly the records read (positions 0 … seen-1), each once, each list in file
    order; blank records and records outside the scan are among the unmatched. -/
theorem c15_partition (m : MatcherSem σ) (scan : St) (cfg : Cfg) (hw : cfg.willRun = true)
    (hk : cfg.unmatchedAvail = true) (recs : List Rec) (st : LoopSt σ) :
    let c := collectRun m scan cfg recs st
    c.2.2.seen ≤ recs.length ∧
    (∀ j, j < c.2.2.seen → (j ∈ c.2.2.yielded ↔ j ∉ c.2.2.unmatchedIdx)) ∧
    (∀ j ∈ c.2.2.yielded, j < c.2.2.seen) ∧ (∀ j ∈ c.2.2.unmatchedIdx, j < c.2.2.seen) ∧
    c.2.2.yielded.Pairwise (· < ·) ∧ c.2.2.unmatchedIdx.Pairwise (· < ·) ∧
    c.1 = c.2.2.yielded.map (fun j => recs.getD j []) ∧
    c.2.2.unmatched = c.2.2.unmatchedIdx.map (fun j => recs.getD j []) := by
  intro c
  simp only [c, collectRun, runWith, hw, hk, if_true, Bool.and_self]
  obtain ⟨n, _, h2, h3⟩ := runFrom_partition m scan cfg.cwnm (endIdxOf recs) recs 0 st {} AccInv_init
  obtain ⟨ys, y1, y2, _⟩ := runFrom_lines m scan cfg.cwnm true (endIdxOf recs) recs none 0 st {}
  obtain ⟨us, u1, u2, _⟩ := runFrom_unmatched m scan cfg.cwnm true (endIdxOf recs) recs none 0 st {}
  refine ⟨by rw [h3.seen]; omega, ?_, ?_, ?_, h3.ysorted, h3.usorted, ?_, ?_⟩
  · intro j hj; rw [h3.seen] at hj; exact h3.part j hj
  · intro j hj; rw [h3.seen]; exact h3.ylt j hj
  · intro j hj; rw [h3.seen]; exact h3.ult j hj
  · rw [y1, y2]; simp
  · rw [u1, u2]; simp

/-- `run-mode: no-run`: the matcher is never called, nothing is returned, no record is read -/
theorem c15_norun (m : MatcherSem σ) (scan : St) (cfg : Cfg) (hw : cfg.willRun = false)
    (budget : Option Nat) (recs : List Rec) (st : LoopSt σ) :
    runWith m scan cfg budget recs st = ([], finalize st, {}) := by
  simp [runWith, hw]

/-- Metadata clause, removal of the outer comment: for any outer comment free of `~ [ ] $`
    (any other characters, any Unicode classification), any layout between the comment and the
    csvpath, and any csvpath text that starts with `$` and ends with `]` (inner `~…~` comments,
    brackets, references included), the csvpath — scan part and match part — is returned
    unchanged and the comment text is returned whole to the field scanner. -/
theorem c15_extract (t1 t2 dollar rb : Model.Meta.MChar) (k w body : Model.Meta.MStr)
    (ht1 : t1.c = '~') (ht2 : t2.c = '~') (hd : dollar.c = '$') (hr : rb.c = ']')
    (hk : ∀ x ∈ k, Proofs.Meta.plain x = true) (hw : ∀ x ∈ w, Proofs.Meta.plain x = true) :
    Model.Meta.extract ([t1] ++ k ++ [t2] ++ w ++ [dollar] ++ body ++ [rb]) = ([dollar] ++ body ++ [rb], k) :=
  Proofs.Meta.extract_comment_then_path t1 t2 dollar rb k w body ht1 ht2 hd hr hk hw

theorem c15_extract_no_comment (dollar rb : Model.Meta.MChar) (body : Model.Meta.MStr)
    (hd : dollar.c = '$') (hr : rb.c = ']') :
    Model.Meta.extract ([dollar] ++ body ++ [rb]) = ([dollar] ++ body ++ [rb], []) :=
  Proofs.Meta.extract_plain_path dollar rb body hd hr

/-! Non-vacuity -/
def evenIdx : MatcherSem Nat where
  eval ctx _ s fl := (ctx.idx % 2 == 0, s + 1, fl)

example : (nextRun evenIdx { all := true } { cwnm := true } [["a"], ["b"], [], ["c"]] { ms := 0 }).1 = [["b"], ["c"]] := by
  decide
example : (collectRun evenIdx { all := true } { unmatchedAvail := true } [["a"], ["b"], [], ["c"]] { ms := 0 }).2.2.unmatchedIdx
    = [1, 2, 3] := by decide

/-- **fields**: an outer comment made of free text (no colon, ending in white space) followed by
    `key: value` fields — keys of word characters, values of any characters but a colon that do
    not begin or end with white space, fields separated by white space, keys distinct — yields
    exactly those fields in `metadata`, in order, values trimmed. `isalnum`/`isspace` are whatever
    Python says for each character (they are part of `MChar`). -/
theorem c15_fields (colon : Model.Meta.MChar) (hc : colon.c = ':') (free : Model.Meta.MStr)
    (fs : List Proofs.MetaFields.Field) (hfree : Proofs.MetaFields.FreeOK free)
    (hwf : ∀ f ∈ fs, Proofs.MetaFields.WFField f) (hsep : Proofs.MetaFields.Separated fs)
    (hnd : (fs.map (·.key)).Nodup) :
    Model.Meta.collect (free ++ Proofs.MetaFields.render colon fs) = fs.map (fun f => (f.key, some f.val)) :=
  Proofs.MetaFields.collect_fields colon hc free fs hfree hwf hsep hnd

/-! Non-vacuity: `note id: x1 description: two words` -/
section demo
open Model.Meta
private def ch (c : Char) : MChar := { c := c, alnum := c.isAlphanum, space := c == ' ' || c == '\n' }
private def str (s : String) : MStr := s.toList.map ch

example : collect (str "note id: x1 description: two words") =
    [(str "id", some (str "x1")), (str "description", some (str "two words"))] := by decide

example : Proofs.MetaFields.WFField { key := str "id", ws := str " ", val := str "x1", sep := str " " } :=
  { key_ne := by decide, key_ok := by decide, ws_ok := by decide, val_ok := by decide,
    val_head := ⟨ch 'x', [ch '1'], rfl, by decide⟩, sep_ok := by decide, strip_val := by decide, strip_key := by decide }
end demo

end Props.C15
