import Generated.Facts
import Model.Match
/-!
Tie (T) for C17: the character classes of the match-part lexer are those of `LarkParser.GRAMMAR`
as it stands in /repo now.
-/
namespace Props.C17Tie
open Model.Match

theorem variable_class : ∀ c, c < 128 → nameCh (Char.ofNat c) = Generated.matchVariableAscii.contains c := by decide +kernel
theorem reference_class : ∀ c, c < 128 → nameCh (Char.ofNat c) = Generated.matchReferenceAscii.contains c := by decide +kernel
theorem header_class : ∀ c, c < 128 → nameCh (Char.ofNat c) = Generated.matchHeaderAscii.contains c := by decide +kernel
theorem quoted_header_class : ∀ c, c < 128 → qhCh (Char.ofNat c) = Generated.matchQuotedHeaderAscii.contains c := by decide +kernel
theorem fn_first_class : ∀ c, c < 128 → (Char.ofNat c).isAlpha = Generated.matchFnFirstAscii.contains c := by decide +kernel
theorem fn_rest_class : ∀ c, c < 128 → nameCh (Char.ofNat c) = Generated.matchFnRestAscii.contains c := by decide +kernel
theorem ws_class : ∀ c, c < 128 → isWS (Char.ofNat c) = Generated.wsAscii.contains c := by decide +kernel

end Props.C17Tie
