import Generated.Facts
import Model.Print
/-!
Tie (T) for C16: the character classes and keywords of the print model are those of
`LarkPrintParser.GRAMMAR` as it stands in /repo now (tools/extract.py evaluates the grammar's own
regular expressions on every ASCII character and writes the tables to Generated/Facts.lean).
-/
namespace Props.C16Tie

theorem simple_name_class :
    ∀ c, c < 128 → Model.Print.isSimple (Char.ofNat c) = Generated.printSimpleAscii.contains c := by decide +kernel

theorem text_class :
    ∀ c, c < 128 → Model.Print.isText (Char.ofNat c) = Generated.printTextAscii.contains c := by decide +kernel

theorem ws_class :
    ∀ c, c < 128 → Model.Print.isWS (Char.ofNat c) = Generated.wsAscii.contains c := by decide +kernel

theorem type_keywords :
    Generated.printTypes.map (fun s => (Model.Print.typeOf (s.toList ++ ['.'])).map (·.2)) =
      [some ['.'], some ['.'], some ['.'], some ['.']] := by decide +kernel

end Props.C16Tie
