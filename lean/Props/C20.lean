/-
  C20 — Data and values flow between csvpaths as declared.
-/
import Model.Chain

namespace Props.C20
open Model.Scan Model.Run Model.Chain

variable {σ : Type}

/-- every stage with `source-mode: preceding` (after the first) reads exactly the lines its
    predecessor collected; every other stage reads the origin file -/
theorem c20_chain_inputs (origin : List Rec) :
    ∀ (stages : List (Stage σ)) (prev : Option (List Rec)) (i : Nat) (h : i < stages.length),
      ((serialChain origin stages prev)[i]?).map (·.1) =
        some (if stages[i].preceding then
                (if i = 0 then prev.getD origin
                 else (((serialChain origin stages prev)[i - 1]?).map (·.2)).getD origin)
              else origin) := by
  intro stages
  induction stages with
  | nil => intro prev i h; simp at h
  | cons s rest ih =>
    intro prev i h
    cases i with
    | zero =>
      simp only [serialChain, List.getElem?_cons_zero, Option.map_some, List.getElem_cons_zero, if_true]
      cases hp : s.preceding <;> cases prev <;> simp
    | succ j =>
      have hj : j < rest.length := by simpa using h
      simp only [serialChain, List.getElem?_cons_succ, List.getElem_cons_succ]
      rw [ih (some _) j hj]
      cases j with
      | zero => simp
      | succ k => simp

/-- a chain in which every later stage is `preceding`: the last result is the composition of the
    stages applied to the origin file -/
theorem c20_chain_compose (origin : List Rec) (s0 : Stage σ) (rest : List (Stage σ))
    (hp : ∀ s ∈ rest, s.preceding = true) :
    ((serialChain origin (s0 :: rest) none).getLast?.map (·.2)) =
      some (rest.foldl (fun acc s => stageLines s acc) (stageLines s0 origin)) := by
  have gen : ∀ (rest : List (Stage σ)) (p : List Rec) (first : List Rec × List Rec),
      (∀ s ∈ rest, s.preceding = true) → first.2 = p →
      ((first :: serialChain origin rest (some p)).getLast?.map (·.2)) =
        some (rest.foldl (fun acc s => stageLines s acc) p) := by
    intro rest
    induction rest with
    | nil => intro p first _ h; simp [serialChain, h]
    | cons s r ih =>
      intro p first hp h
      have hs := hp s (List.mem_cons_self ..)
      simp only [serialChain, hs, List.foldl_cons]
      rw [List.getLast?_cons_cons]
      exact ih (stageLines s p) (p, stageLines s p) (fun x hx => hp x (List.mem_cons_of_mem _ hx)) rfl
  have : serialChain origin (s0 :: rest) none =
      (origin, stageLines s0 origin) :: serialChain origin rest (some (stageLines s0 origin)) := by
    simp only [serialChain]
    cases s0.preceding <;> rfl
  rw [this]
  exact gen rest _ _ hp rfl

/-- a variable written by exactly one member of the referenced group is found with that member's
    final value in the merged variables a reference reads -/
theorem c20_varref {ν : Type} (before : List (List (String × ν))) (mine : List (String × ν))
    (after : List (List (String × ν))) (name : String)
    (hb : ∀ r ∈ before, ∀ kv ∈ r, (kv.1 == name) = false) :
    lookupVar (mergeVars (before ++ mine :: after)) name = lookupVar mine name ∨
    (lookupVar mine name = none) := by
  by_cases hm : lookupVar mine name = none
  · exact Or.inr hm
  · left
    -- nothing before has the name; the first hit in the merge is in `mine`
    have gen : ∀ (ms : List (List (String × ν))) (vs : List (String × ν)),
        ms.foldl (fun vs r => vs ++ r.filter (fun kv => !(vs.any (·.1 == kv.1)))) vs =
          vs ++ (ms.foldl (fun vs r => vs ++ r.filter (fun kv => !(vs.any (·.1 == kv.1)))) vs).drop vs.length := by
      intro ms
      induction ms with
      | nil => intro vs; simp
      | cons r rs ih =>
        intro vs
        simp only [List.foldl_cons]
        rw [ih]
        simp [List.append_assoc, List.drop_append]
    have nob : ∀ (bs : List (List (String × ν))) (vs : List (String × ν)),
        (∀ r ∈ bs, ∀ kv ∈ r, (kv.1 == name) = false) → (∀ kv ∈ vs, (kv.1 == name) = false) →
        ∀ kv ∈ bs.foldl (fun vs r => vs ++ r.filter (fun kv => !(vs.any (·.1 == kv.1)))) vs, (kv.1 == name) = false := by
      intro bs
      induction bs with
      | nil => intro vs _ hv; simpa using hv
      | cons r rs ih =>
        intro vs hbs hv
        simp only [List.foldl_cons]
        apply ih _ (fun x hx => hbs x (List.mem_cons_of_mem _ hx))
        intro kv hkv
        rcases List.mem_append.mp hkv with h | h
        · exact hv kv h
        · exact hbs r (List.mem_cons_self ..) kv (List.mem_filter.mp h).1
    unfold mergeVars
    rw [List.foldl_append, List.foldl_cons]
    have hB := nob before [] hb (by simp)
    generalize before.foldl (fun vs r => vs ++ r.filter (fun kv => !(vs.any (·.1 == kv.1)))) [] = B at hB
    rw [gen]
    unfold lookupVar
    rw [List.find?_append, List.find?_append]
    have e1 : B.find? (fun x => x.1 == name) = none := by
      rw [List.find?_eq_none]; intro x hx; simp [hB x hx]
    have e2 : (mine.filter (fun kv => !(B.any (·.1 == kv.1)))).find? (fun x => x.1 == name) =
        mine.find? (fun x => x.1 == name) := by
      rw [List.find?_filter]
      congr 1
      funext x
      by_cases hx : (x.1 == name) = true
      · have hxn : x.1 = name := by simpa using hx
        have : B.any (fun y => y.1 == x.1) = false := by
          rw [List.any_eq_false]; intro y hy; rw [hxn]; simp [hB y hy]
        simp [hx, this]
      · simp [hx]
    rw [e1, e2]
    simp only [Option.none_or]
    cases hf : mine.find? (fun x => x.1 == name) with
    | none => simp [lookupVar, hf] at hm
    | some v => simp

/-- a header reference is the list of (stripped) cells under the header in the lines the
    referenced member collected — one per line that is long enough, in order -/
theorem c20_headerref (strip : String → String) (i : Nat) (lines : List Rec) :
    headerValues strip i lines = (lines.filter (fun l => l.length > i)).map (fun l => strip (l.getD i "")) := by
  induction lines with
  | nil => rfl
  | cons l ls ih =>
    simp only [headerValues, List.filterMap_cons, List.filter_cons] at ih ⊢
    by_cases h : l.length > i
    · simp only [h, if_true, decide_true, List.map_cons]; rw [ih]
    · simp only [h, if_false, decide_false, Bool.false_eq_true]; exact ih

end Props.C20
