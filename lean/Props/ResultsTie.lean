import Generated.CoreResults
import Proofs.BridgeResults
/-! Tie (T) for what a group's results say as a whole (C04, C20): the Lean translation of `ResultsManager.is_valid` and `has_lines`,
    with their loops over the results of the group (regenerated from /repo's working tree on every run, Generated/CoreResults.lean). -/
namespace Props.ResultsTie
open Proofs.BridgeResults

/-- C04 (aggregation), of the translated source: for every group, `results_manager.is_valid(name)` is the conjunction of what the
    members' results say (`Result.is_valid` — the known finding result-valid-needs-start lives there, not here). -/
theorem c04_aggregate_source (ext : Py.Ext) (e : Py.Env) (vs : List Bool) (name : Py.V) (effs : List Py.Eff) (h : ShowsValid e vs) :
    Generated.Results.ResultsManager.is_valid ext e name effs = .ok (.bool (vs.all id)) e effs :=
  is_valid_bridge ext e vs name effs h

/-- C20: `has_lines(name)` holds exactly when some member of the group collected a line -/
theorem c20_has_lines_source (ext : Py.Ext) (e : Py.Env) (ls : List (List String)) (name : Py.V) (effs : List Py.Eff)
    (h : ShowsLines e ls) :
    Generated.Results.ResultsManager.has_lines ext e name effs = .ok (.bool (ls.any fun l => !l.isEmpty)) e effs :=
  has_lines_bridge ext e ls name effs h

/-! non-vacuity -/
def exEnv : Py.Env := fun k =>
  if k = "len(results)" then .int 2
  else if k = Py.ikey "results" 0 ".is_valid" then .bool true else if k = Py.ikey "results" 1 ".is_valid" then .bool false
  else .none
example : ShowsValid exEnv [true, false] := by
  refine ⟨rfl, ?_⟩; intro i h; (have : i = 0 ∨ i = 1 := by simp at h; omega); rcases this with rfl | rfl <;> decide +revert

end Props.ResultsTie
