import Generated.CoreIdentity
import Model.PathsStore
import Proofs.BridgeIdentity
import Props.C12
/-! Tie (T) for the identity of a csvpath (C12): the Lean translation of `CsvPath.identity`, regenerated from /repo's working tree on
    every run (Generated/CoreIdentity.lean), computes `Model.Paths.identityOf` for every list of metadata fields (a field may hold
    None). -/
namespace Props.IdentityTie
open Model.Paths Proofs.BridgeIdentity

theorem identity_source_is_model (ext : Py.Ext) (fields : List (String × Option String)) (effs : List Py.Eff) :
    okV (Generated.Identity.CsvPath.identity ext (metaEnv fields) effs) = some (optV (identityOf (toM fields))) :=
  identity_bridge ext fields effs

/-- C12 (identity precedence), of the translated source: `id` wins over `name`, `Name` over `NAME`, `ID` over `Name`; a csvpath
    without any of the six fields has the identity "". -/
theorem c12_identity_precedence_source (ext : Py.Ext) (v w : String) (effs : List Py.Eff) :
    okV (Generated.Identity.CsvPath.identity ext (metaEnv [("name", some w), ("id", some v)]) effs) = some (.str v) ∧
    okV (Generated.Identity.CsvPath.identity ext (metaEnv [("NAME", some w), ("Name", some v)]) effs) = some (.str v) ∧
    okV (Generated.Identity.CsvPath.identity ext (metaEnv [("Name", some w), ("ID", some v)]) effs) = some (.str v) ∧
    okV (Generated.Identity.CsvPath.identity ext (metaEnv [("description", some w)]) effs) = some (.str "") := by
  have h := Props.C12.c12_identity_precedence
  refine ⟨?_, ?_, ?_, ?_⟩ <;> rw [identity_source_is_model] <;>
    simp [toM, identityOf, optV, String.ofList_toList]

end Props.IdentityTie
