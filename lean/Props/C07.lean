/-
  C07 — collect(), next() and fast_forward() are the same run.
  All theorems are parametric in the matcher (`MatcherSem σ` is an arbitrary function of the line,
  its own state — variables, errors, printouts — and the flags), so they hold for every csvpath.
-/
import Model.RunLoop
import Proofs.RunLoop

namespace Props.C07
open Model.Scan Model.Run Proofs.Run

variable {σ : Type}

/-- `collect()` returns the lines `next()` yields and leaves the same state: matcher state
    (variables, errors, printouts), flags (stopped, validity, advance, frozen, match count),
    scan count and line-monitor counters. -/
theorem c07_collect_next (m : MatcherSem σ) (scan : St) (cfg : Cfg) (recs : List Rec) (st : LoopSt σ) :
    (collectRun m scan cfg recs st).1 = (nextRun m scan cfg recs st).1 ∧
    (collectRun m scan cfg recs st).2.1 = (nextRun m scan cfg recs st).2.1 := by
  unfold collectRun nextRun runWith
  by_cases hw : cfg.willRun = true
  · simp only [hw, if_true]
    have := runFrom_keepUnm m scan cfg.cwnm (endIdxOf recs) recs none 0 st {} {}
      (true && cfg.unmatchedAvail) (false && cfg.unmatchedAvail) rfl rfl
    exact ⟨this.1, this.2.1⟩
  · simp [hw]

/-- `fast_forward()` ends in the state `collect()` ends in -/
theorem c07_ff (m : MatcherSem σ) (scan : St) (cfg : Cfg) (recs : List Rec) (st : LoopSt σ) :
    ffRun m scan cfg recs st = (collectRun m scan cfg recs st).2.1 := by
  unfold ffRun; exact (c07_collect_next m scan cfg recs st).2.symm

/-- `collect(nexts=n)`, n ≥ 1, returns the first n lines of `collect()` -/
theorem c07_prefix (m : MatcherSem σ) (scan : St) (cfg : Cfg) (n : Nat) (hn : 1 ≤ n) (recs : List Rec)
    (st : LoopSt σ) :
    (collectN m scan cfg n recs st).1 = ((collectRun m scan cfg recs st).1).take n := by
  unfold collectN collectRun runWith
  by_cases hw : cfg.willRun = true
  · simp only [hw, if_true]
    exact runFrom_budget_lines m scan _ _ _ recs n 0 st {} hn
  · simp [hw]

/-- `collect(nexts=n)` performs no side effect belonging to a later line: when `collect()` has
    at least n lines, the whole result (lines, state, accumulators) of `collect(nexts=n)` is
    determined by a prefix of the file — replacing everything after that prefix by any other
    records changes nothing. -/
theorem c07_no_later_effect (m : MatcherSem σ) (scan : St) (cwnm ku : Bool) (endIdx : Option Nat)
    (n : Nat) (hn : 1 ≤ n) (recs : List Rec) (st : LoopSt σ)
    (hlen : n ≤ ((runFrom m scan cwnm ku endIdx none 0 recs st {}).1).length) :
    ∃ j, j ≤ recs.length ∧ ∀ other,
      runFrom m scan cwnm ku endIdx (some n) 0 (recs.take j ++ other) st {} =
        runFrom m scan cwnm ku endIdx (some n) 0 recs st {} :=
  runFrom_budget_suffix m scan cwnm ku endIdx recs n 0 st {} hn hlen

/-- `collect(nexts=0)` is `collect(nexts=1)` (as the loop in `collect` is written) -/
theorem c07_nexts_zero (m : MatcherSem σ) (scan : St) (cfg : Cfg) (recs : List Rec) (st : LoopSt σ) :
    collectN m scan cfg 0 recs st = collectN m scan cfg 1 recs st := by
  unfold collectN runWith
  by_cases hw : cfg.willRun = true
  · simp only [hw, if_true]; exact runFrom_budget_zero m scan _ _ _ recs 0 st {}
  · simp [hw]

/-! Non-vacuity: a concrete run that stops early (matcher: match everything, stop at record 1). -/
def stopAt1 : MatcherSem Nat where
  eval ctx _ s fl := (true, s + 1, { fl with stopped := ctx.idx == 1 })

example : (collectRun stopAt1 { all := true } {} [["a"], ["b"], ["c"]] { ms := 0 }).1 = [["a"], ["b"]] := by
  decide
example : (collectN stopAt1 { all := true } {} 1 [["a"], ["b"], ["c"]] { ms := 0 }).2.1.ms = 1 := by
  decide

end Props.C07
