import Generated.CoreModes
import Model.Modes
import Proofs.BridgeModes
/-! Tie (T) for C15 ("comment mode settings take effect"): the `value` getters of ReturnMode, RunMode and UnmatchedMode are
    translated from /repo's working tree to Lean on every run (heap mode, Generated/CoreModes.lean) and proved to read the
    metadata field of the outer comment as `Model.Modes` says — for every text of the field. -/
namespace Props.C15Tie
open Model.Modes Proofs.BridgeModes

/-- `return-mode`: after `update()` (the cache is None) the getter answers True exactly for `no-matches`, False for `matches` or a
    missing field (surrounding white space aside), and raises InputException for anything else -/
theorem return_mode_source_is_model (ext : Py.Ext) (e : Py.Env) (m : Option String) (effs : List Py.Eff)
    (h1 : e "self._return_mode" = .none) (h2 : e "self.controller.get(return-mode)" = optStr m) :
    okV (Generated.Modes.ReturnMode.value ext e effs) = (returnMode m).map Py.V.bool ∧
    (returnMode m = Option.none → raisedOf (Generated.Modes.ReturnMode.value ext e effs) = some "InputException") :=
  return_mode_bridge ext e m effs h1 h2

/-- `run-mode`: False exactly for `no-run`, True for `run` or a missing field, InputException otherwise -/
theorem run_mode_source_is_model (ext : Py.Ext) (e : Py.Env) (m : Option String) (effs : List Py.Eff)
    (h1 : e "self._run_mode" = .none) (h2 : e "self.controller.get(run-mode)" = optStr m) :
    okV (Generated.Modes.RunMode.value ext e effs) = (runMode m).map Py.V.bool ∧
    (runMode m = Option.none → raisedOf (Generated.Modes.RunMode.value ext e effs) = some "InputException") :=
  run_mode_bridge ext e m effs h1 h2

/-- `unmatched-mode`: unmatched lines are kept iff the field is there and does not contain `no-keep` -/
theorem unmatched_mode_source_is_model (ext : Py.Ext) (e : Py.Env) (m : Option String) (effs : List Py.Eff)
    (h1 : e "self._unmatched_mode" = .none) (h2 : e "self.controller.get(unmatched-mode)" = optStr m) :
    okV (Generated.Modes.UnmatchedMode.value ext e effs) = some (.bool (unmatchedMode m)) :=
  unmatched_mode_bridge ext e m effs h1 h2

/-- `source-mode` (C20): the csvpath reads its predecessor's collected lines iff the field is `preceding` -/
theorem source_mode_source_is_model (ext : Py.Ext) (e : Py.Env) (m : Option String) (effs : List Py.Eff)
    (h1 : e "self._source_mode" = .none) (h2 : e "self.controller.get(source-mode)" = optStr m) :
    okV (Generated.Modes.SourceMode.value ext e effs) = some (.bool (sourceMode m)) :=
  source_mode_bridge ext e m effs h1 h2

/-- the settings the property names, as written -/
theorem c15_settings :
    returnMode (some "no-matches") = some true ∧ returnMode (some "matches") = some false ∧ returnMode none = some false ∧
    runMode (some "no-run") = some false ∧ runMode (some "run") = some true ∧ runMode none = some true ∧
    unmatchedMode (some "keep") = true ∧ unmatchedMode (some "no-keep") = false ∧ unmatchedMode none = false := by
  decide

end Props.C15Tie
