import Generated.CoreWhen
import Model.WhenTop
import Model.Interp
import Proofs.BridgeWhen
/-! Tie (T) for the when/do operator (C03, C04): the Lean translation of `Equality._do_when`, regenerated from /repo's working tree
    on every run in heap mode (Generated/CoreWhen.lean), computes `Model.WhenTop.whenDo`.  The two sides of `->` are the opaque
    calls `self.left.matches(skip=skip)` and `self.right.matches(skip=skip)`: any functions of the environment that keep
    `Proofs.BridgeWhen.Contract` (they return values, leave values in the environment, and the left-hand side does not change the
    facts `_do_when` reads about it).  The interpreter model's `evalWhen` is the same definition over the interpreter's state. -/
namespace Props.WhenTie
open Model.WhenTop Proofs.BridgeWhen
open Proofs.BridgeMatches (Clean okVE)

theorem when_source_is_model (ext : Py.Ext) (e : Py.Env) (skip : Py.V) (effs : List Py.Eff) (dm nc a b d : Bool)
    (hC : Contract ext) (hcl : Clean e) (hskip : Py.isExc skip = false) (hop : e "self.op" = .str "->")
    (hf : Facts e dm nc a b) (hd : e "self.default_match()" = .bool d) :
    okVE (Generated.When.Equality._do_when ext e skip effs) =
      some (.bool (whenDo (world ext skip) dm nc (a && b) e).1, (whenDo (world ext skip) dm nc (a && b) e).2) :=
  when_bridge ext e skip effs dm nc a b d hC hcl hskip hop hf hd

/-- C03 (order), of the translated source: when the left-hand side answers True (and is not a `last()` that overrides frozen) the
    right-hand side runs exactly once, in the state the left-hand side left (plus the operator's own two marks), and what
    `_do_when` leaves is what the right-hand side left. -/
theorem c03_when_order_source (ext : Py.Ext) (e : Py.Env) (skip : Py.V) (effs : List Py.Eff) (dm nc d : Bool)
    (hC : Contract ext) (hcl : Clean e) (hskip : Py.isExc skip = false) (hop : e "self.op" = .str "->")
    (hf : Facts e dm nc false false) (hd : e "self.default_match()" = .bool d) (hs : Py.truthy (e "self.sentinel") = false)
    (hl : Py.isb (ext "left_matches" [skip] (Py.upd e "self.sentinel" (.bool true))).1 (.bool true) = true) :
    okVE (Generated.When.Equality._do_when ext e skip effs) =
      some (.bool (!(!dm && nc)),
        (ext "right_matches" [skip]
          (Py.upd (ext "left_matches" [skip] (Py.upd e "self.sentinel" (.bool true))).2 "self.DO_WHEN" (.bool true))).2) := by
  rw [when_source_is_model ext e skip effs dm nc false false d hC hcl hskip hop hf hd]
  simp only [whenDo, world, hs, hl, Bool.false_eq_true, if_false, if_true, Bool.and_false]

/-- `last() -> x` (C13), of the translated source: when the left-hand side is a function that overrides frozen (`last()`, `fail()`) and
    answers True, the right-hand side runs with the csvpath unfrozen, and the freeze is put back afterwards. -/
theorem c13_when_override_source (ext : Py.Ext) (e : Py.Env) (skip : Py.V) (effs : List Py.Eff) (dm nc d : Bool)
    (hC : Contract ext) (hcl : Clean e) (hskip : Py.isExc skip = false) (hop : e "self.op" = .str "->")
    (hf : Facts e dm nc true true) (hd : e "self.default_match()" = .bool d) (hs : Py.truthy (e "self.sentinel") = false)
    (hl : Py.isb (ext "left_matches" [skip] (Py.upd e "self.sentinel" (.bool true))).1 (.bool true) = true) :
    okVE (Generated.When.Equality._do_when ext e skip effs) =
      some (.bool (!(!dm && nc)),
        Py.upd (ext "right_matches" [skip]
          (Py.upd (Py.upd (ext "left_matches" [skip] (Py.upd e "self.sentinel" (.bool true))).2
            "self.matcher.csvpath.is_frozen" (.bool false)) "self.DO_WHEN" (.bool true))).2
          "self.matcher.csvpath.is_frozen" (.bool true)) := by
  rw [when_source_is_model ext e skip effs dm nc true true d hC hcl hskip hop hf hd]
  simp only [whenDo, world, hs, hl, Bool.false_eq_true, if_false, if_true, Bool.and_self]

/-- C04 (unexecuted branch), of the translated source: when the left-hand side does not answer True the right-hand side is not
    called at all — what `_do_when` leaves is what the left-hand side left, plus the mark `DO_WHEN = False`. -/
theorem c04_unexecuted_branch_source (ext : Py.Ext) (e : Py.Env) (skip : Py.V) (effs : List Py.Eff) (dm nc a b d : Bool)
    (hC : Contract ext) (hcl : Clean e) (hskip : Py.isExc skip = false) (hop : e "self.op" = .str "->")
    (hf : Facts e dm nc a b) (hd : e "self.default_match()" = .bool d) (hs : Py.truthy (e "self.sentinel") = false)
    (hl : Py.isb (ext "left_matches" [skip] (Py.upd e "self.sentinel" (.bool true))).1 (.bool true) = false) :
    okVE (Generated.When.Equality._do_when ext e skip effs) =
      some (.bool (if !dm && nc then false else nc),
        Py.upd (ext "left_matches" [skip] (Py.upd e "self.sentinel" (.bool true))).2 "self.DO_WHEN" (.bool false)) := by
  rw [when_source_is_model ext e skip effs dm nc a b d hC hcl hskip hop hf hd]
  simp only [whenDo, world, hs, hl, Bool.false_eq_true, if_false, if_true, Bool.and_false]

/-! ### the interpreter model's `evalWhen` is an instance -/
open Model.Interp in
def interpWorld (fuel : Nat) (env : Model.Interp.Env) (l r : Model.Interp.Node) : World Model.Interp.ES where
  evalL s := ((evalM fuel env l s).1 == some true, (evalM fuel env l s).2)
  evalR s := (evalM fuel env r s).2
  sentinel _ := false
  setSentinel s := s
  defaultMatch _ := env.dm
  setDoWhen _ s := s
  setFrozen b s := emit s (.freeze b)

open Model.Interp in
theorem interp_is_instance (fuel : Nat) (env : Model.Interp.Env) (l r : Model.Interp.Node) (s : Model.Interp.ES) :
    evalWhen (fuel + 1) env l r s =
      (some (whenDo (interpWorld fuel env l r) env.dm (nodeNocontrib l) (overridesFrozen l) s).1,
       (whenDo (interpWorld fuel env l r) env.dm (nodeNocontrib l) (overridesFrozen l) s).2) := by
  cases hdm : env.dm <;> cases hnc : nodeNocontrib l <;> cases hov : overridesFrozen l <;>
    by_cases hl : (evalM fuel env l s).1 = some true <;> simp [evalWhen, whenDo, interpWorld, *]

/-! non-vacuity -/
def exExt : Py.Ext := fun name _ e => (.bool (name == "left_matches"), e)
def exEnv : Py.Env := fun k =>
  if k = "self.op" then .str "->" else if k = "self.matcher._AND" then .bool true
  else if k = "self._left_nocontrib(self.left)" then .bool false else if k = "isinstance(self.left, Function)" then .bool false
  else if k = "self.left.override_frozen()" then .bool false else if k = "self.default_match()" then .bool true
  else if k = "self.sentinel" then .bool false else .none
example : Contract exExt := ⟨fun _ _ _ => rfl, fun _ _ _ h => h, fun _ _ _ _ _ _ h => h⟩
example : Facts exEnv true false false false := ⟨rfl, rfl, rfl, rfl⟩
example : Clean exEnv := fun k => by simp only [exEnv]; repeat' split
                                     all_goals rfl

end Props.WhenTie
