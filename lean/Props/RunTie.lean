import Generated.CoreConsiderLine
import Model.RunLoop
import Proofs.BridgeConsiderLine
import Proofs.RunLoop
/-! Tie (T) for the run loop (C13, and through the run-loop theorems C01, C02, C03, C07, C15): the Lean translation of
    `CsvPath._consider_line` — with `raise_match_count_if`, `stop` and `LineMonitor.is_last_line_and_blank`, regenerated from
    /repo's working tree on every run in heap mode (Generated/CoreConsiderLine.lean) — computes `Model.Run.considerLine`.

    The matcher is the opaque call `self.matches(line)`: any function of the environment that keeps
    `Proofs.BridgeConsiderLine.Contract` (returns a value; leaves `scan_count`, `_current_match_count` and the fields the
    method only reads alone; leaves booleans in `stopped`/`is_valid`/`_freeze_path` and naturals in
    `advance_count`/`match_count`).  The scanner's `includes`/`is_last` are questions to the world, assumed to answer as
    `Model.Scan.includes`/`isLast` do (which `Props.C02Tie` proves of their translated source). -/
namespace Props.RunTie
open Model.Run Model.Scan Proofs.BridgeConsiderLine

/-- For every scan part, return mode, record (blank or not), line number, loop state and contract-keeping matcher: run on
    the environment of the loop state, the translated `_consider_line` returns the model's verdict and leaves exactly the
    environment of the model's next loop state. -/
theorem consider_line_source_is_model (ext : Py.Ext) (scan : St) (cwnm : Bool) (endIdx : Option Nat) (i : Nat) (r : Rec)
    (st : LoopSt Py.Env) (effs : List Py.Eff) (hC : Contract ext scan endIdx i) (hro : ReadOnly st.ms cwnm endIdx i) :
    okVE (Generated.ConsiderLine.CsvPath._consider_line ext (envOf endIdx i st) (lineV r) effs) =
        some (.bool (considerLine (sem ext) scan cwnm endIdx i r st).1,
              envOf endIdx i (considerLine (sem ext) scan cwnm endIdx i r st).2) ∧
      ReadOnly (considerLine (sem ext) scan cwnm endIdx i r st).2.ms cwnm endIdx i :=
  consider_line_bridge ext scan cwnm endIdx i r st effs hC hro

/-- C13 (advance), of the translated source: while `advance_count` is positive a scanned line is answered False (True under
    return-mode no-matches), the matcher is not called, and the count goes down by one. -/
theorem advance_source (ext : Py.Ext) (scan : St) (endIdx : Option Nat) (i : Nat) (x : String) (xs : List String)
    (st : LoopSt Py.Env) (effs : List Py.Eff) (hC : Contract ext scan endIdx i) (hro : ReadOnly st.ms false endIdx i)
    (hinc : includes scan i = true) (hadv : 0 < st.fl.advance) :
    ∃ env', okVE (Generated.ConsiderLine.CsvPath._consider_line ext (envOf endIdx i st) (lineV (x :: xs)) effs) =
        some (.bool false, env') ∧ env' "self.advance_count" = natV (st.fl.advance - 1) ∧
        env' "self.scan_count" = natV (st.scanCount + 1) ∧ env' "self.match_count" = natV st.fl.matchCount := by
  obtain ⟨h, _⟩ := consider_line_source_is_model ext scan false endIdx i (x :: xs) st effs hC hro
  have hb : (considerLine (sem ext) scan false endIdx i (x :: xs) st).1 = false := by
    cases hL : isLast scan endIdx i <;>
      simp [considerLine, considerCore, hinc, advanceOrMatch, offer, hadv, conclude, markStop, hL, decide?]
  rw [hb] at h
  refine ⟨_, h, ?_, ?_, ?_⟩ <;>
    cases hL : isLast scan endIdx i <;>
    simp [envOf, considerLine, considerCore, hinc, advanceOrMatch, hadv, conclude, markStop, offer, decAdvance, mkCtx, recon, hL]

end Props.RunTie
