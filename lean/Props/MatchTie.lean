import Generated.CoreMatches
import Model.MatchTop
import Proofs.BridgeMatches
import Proofs.MatchTop
/-! Tie (T) for the top level of a match (C01, C13): the Lean translation of `Matcher.matches` — with its `for` loop over the match
    components, regenerated from /repo's working tree on every run in heap mode (Generated/CoreMatches.lean) — computes
    `Model.MatchTop.matchLine`, of which the interpreter model's `matchLine` is an instance.

    The match components are the opaque calls `et[0].matches(skip=[])`: any functions of the environment that keep
    `Proofs.BridgeMatches.Contract` (they return a value, leave values in the environment, and leave the logic mode, the csvpath
    object and the `et[1]` marks of all components alone — that is, they do not use the onmatch look-ahead).  `clear_errors()` and
    `_do_lasts()` are opaque calls too.  So the statements below are about every csvpath of that kind, not about a function set. -/
namespace Props.MatchTie
open Model.MatchTop Proofs.BridgeMatches

/-- For every number of components, both logic modes, every line and every contract-keeping world: the translated
    `Matcher.matches` returns the model's verdict and leaves exactly the environment the model leaves. -/
theorem matches_source_is_model (ext : Py.Ext) (n : Nat) (dm : Bool) (e : Py.Env) (effs : List Py.Eff) (r : List String)
    (endIdx : Option Nat) (i : Nat) (hC : Contract ext) (hinv : Inv dm 0 e) (hlen : e "len(self.expressions)" = .int n)
    (hli : LineInfo e r endIdx i) :
    okVE (Generated.Matches.Matcher.matches ext e effs) =
      some (.bool (matchLine (world ext n) dm (blankLast r endIdx i) e).1, (matchLine (world ext n) dm (blankLast r endIdx i) e).2) :=
  matches_bridge ext n dm e effs r endIdx i hC hinv hlen hli

/-- C01 (top level), of the translated source: on a line that is not the blank last line and on which no component sees the stop
    or the skip flag set, the verdict `Matcher.matches` returns is the AND (in OR mode the OR) of the components' votes, each
    component evaluated in the state its predecessor left. -/
theorem c01_toplevel_source (ext : Py.Ext) (n : Nat) (dm : Bool) (e : Py.Env) (effs : List Py.Eff) (r : List String)
    (endIdx : Option Nat) (i : Nat) (hC : Contract ext) (hinv : Inv dm 0 e) (hlen : e "len(self.expressions)" = .int n)
    (hli : LineInfo e r endIdx i) (hbl : blankLast r endIdx i = false)
    (hq : ∀ t ∈ states (world ext n) n 0 e, (world ext n).stopped t = false ∧ (world ext n).skip t = false) :
    ∃ env', okVE (Generated.Matches.Matcher.matches ext e effs) =
      some (.bool (if dm then (votes (world ext n) n 0 e).all id else (votes (world ext n) n 0 e).any id), env') := by
  have h := matches_source_is_model ext n dm e effs r endIdx i hC hinv hlen hli
  refine ⟨(matchLine (world ext n) dm (blankLast r endIdx i) e).2, ?_⟩
  rw [h, hbl]
  have hv := Proofs.MatchTop.go_verdict (world ext n) dm n 0 e (!dm) hq
  simp only [matchLine, Bool.false_eq_true, if_false]
  have hn : (world ext n).n = n := rfl
  rw [hn, hv]
  cases dm <;> simp

/-- C03 (same line), of the translated source: on a line on which no component sees the stop or the skip flag set, every component
    is evaluated exactly once, in the order written, each in the state its predecessors left; what `Matcher.matches` leaves behind
    is that state with the line's errors handled. -/
theorem c03_sameline_source (ext : Py.Ext) (n : Nat) (dm : Bool) (e : Py.Env) (effs : List Py.Eff) (r : List String)
    (endIdx : Option Nat) (i : Nat) (hC : Contract ext) (hinv : Inv dm 0 e) (hlen : e "len(self.expressions)" = .int n)
    (hli : LineInfo e r endIdx i) (hbl : blankLast r endIdx i = false)
    (hq : ∀ t ∈ states (world ext n) n 0 e, (world ext n).stopped t = false ∧ (world ext n).skip t = false) :
    ∃ b, okVE (Generated.Matches.Matcher.matches ext e effs) =
      some (.bool b, (world ext n).finish ((world ext n).clearErrors (afterAll (world ext n) n 0 e))) := by
  have h := matches_source_is_model ext n dm e effs r endIdx i hC hinv hlen hli
  refine ⟨(matchLine (world ext n) dm (blankLast r endIdx i) e).1, ?_⟩
  rw [h, hbl]
  simp only [matchLine, Bool.false_eq_true, if_false]
  have hn : (world ext n).n = n := rfl
  rw [hn, Proofs.MatchTop.go_final (world ext n) dm n 0 e (!dm) hq]

/-- C13 (stop), of the translated source: a component that sees the stop flag set is not evaluated, nor is any later one; the
    line does not match. -/
theorem c13_stop_cut_source (ext : Py.Ext) (n : Nat) (dm : Bool) (e : Py.Env) (effs : List Py.Eff) (r : List String)
    (endIdx : Option Nat) (i : Nat) (hC : Contract ext) (hinv : Inv dm 0 e) (hlen : e "len(self.expressions)" = .int (n + 1))
    (hli : LineInfo e r endIdx i) (hbl : blankLast r endIdx i = false) (hs : (world ext (n + 1)).stopped e = true) :
    okVE (Generated.Matches.Matcher.matches ext e effs) = some (.bool false, (world ext (n + 1)).clearErrors e) := by
  have h := matches_source_is_model ext (n + 1) dm e effs r endIdx i hC hinv hlen hli
  rw [h, hbl]
  simp only [matchLine, Bool.false_eq_true, if_false]
  have hn : (world ext (n + 1)).n = n + 1 := rfl
  rw [hn, Proofs.MatchTop.go_stop_cut _ _ _ _ _ _ hs]

/-- C13 (skip), of the translated source: a component that sees the skip flag set is not evaluated, nor is any later one; the
    line does not match and the flag is cleared for the next line. -/
theorem c13_skip_cut_source (ext : Py.Ext) (n : Nat) (dm : Bool) (e : Py.Env) (effs : List Py.Eff) (r : List String)
    (endIdx : Option Nat) (i : Nat) (hC : Contract ext) (hinv : Inv dm 0 e) (hlen : e "len(self.expressions)" = .int (n + 1))
    (hli : LineInfo e r endIdx i) (hbl : blankLast r endIdx i = false) (hs : (world ext (n + 1)).stopped e = false)
    (hk : (world ext (n + 1)).skip e = true) :
    okVE (Generated.Matches.Matcher.matches ext e effs) =
      some (.bool false, (world ext (n + 1)).clearErrors ((world ext (n + 1)).clearSkip e)) := by
  have h := matches_source_is_model ext (n + 1) dm e effs r endIdx i hC hinv hlen hli
  rw [h, hbl]
  simp only [matchLine, Bool.false_eq_true, if_false]
  have hn : (world ext (n + 1)).n = n + 1 := rfl
  rw [hn, Proofs.MatchTop.go_skip_cut _ _ _ _ _ _ hs hk]

/-- the interpreter model's top level is the same abstract loop (so `c01_toplevel`, `c13_stop_cut`, `c13_skip_cut` of the
    interpreter model and the statements above are about one definition) -/
theorem interp_is_instance (env : Model.Interp.Env) (prog : List Model.Interp.Node) (v : Model.Interp.View) :
    Model.Interp.matchLine env prog v =
      let r := go (Proofs.MatchTop.interpWorld env prog) env.dm prog.length 0 (v, none) (!env.dm)
      (r.1, r.2.1, r.2.2) :=
  Proofs.MatchTop.matchLine_is_go env prog v

/-! non-vacuity: a world and an environment that meet the hypotheses (two components that vote True and leave everything alone,
    AND mode, an ordinary line) -/
def exExt : Py.Ext := fun _ _ e => (.bool true, e)
def exEnv : Py.Env := fun k =>
  if k = "self._AND" then .bool true else if k = "self.csvpath" then .str "csvpath"
  else if k = "len(self.expressions)" then .int 2 else if k = "self.line" then .strs ["a"]
  else if k = "self.csvpath.line_monitor._physical_line_number" then .int 1 else .none

example : Contract exExt := ⟨fun _ _ _ => rfl, fun _ _ _ h => h, fun _ _ => rfl, fun _ _ => rfl, fun _ _ _ => rfl⟩
example : Inv true 0 exEnv := by
  have hne : ∀ j (k : String), k.toList.head? ≠ some '#' → ¬ ckey j = k := fun j k h => ckey_ne j k h
  refine ⟨fun k => ?_, rfl, rfl, fun j _ => ?_⟩
  · simp only [exEnv]; repeat' split
    all_goals rfl
  · simp only [exEnv, hne j _ (by decide : ("self._AND" : String).toList.head? ≠ some '#'),
      hne j _ (by decide : ("self.csvpath" : String).toList.head? ≠ some '#'),
      hne j _ (by decide : ("len(self.expressions)" : String).toList.head? ≠ some '#'),
      hne j _ (by decide : ("self.line" : String).toList.head? ≠ some '#'),
      hne j _ (by decide : ("self.csvpath.line_monitor._physical_line_number" : String).toList.head? ≠ some '#'), if_false]
example : LineInfo exEnv ["a"] Option.none 1 := ⟨rfl, rfl, rfl⟩

end Props.MatchTie
