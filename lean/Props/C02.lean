/-
  C02 — The scan part selects exactly the lines it denotes.
  Property theorems only (helper lemmas live in Proofs/Scan.lean and Proofs/RunLoop.lean).
-/
import Model.Scan
import Spec.Scan
import Proofs.Scan
import Proofs.RunLoop

namespace Props.C02
open Model.Scan Spec.Scan Proofs.Scan Model.Run Proofs.Run

/-- Every scan part of class K parses, and the parsed scanner state has a closed description:
    either a `*`/`N*` state, a pending lone range, or `these` = exactly the denoted lines. -/
theorem c02_parse (k : K) (hk : k.WF) :
    ∃ s, parse k.toExpr = .ok s ∧ (∀ n, includes s n = k.den n) ∧
      (∀ e n, isLast s e n = match k.last? with
                              | some m => n == m
                              | none => e == some n) := by
  cases k with
  | all =>
    refine ⟨{ all := true }, rfl, ?_, ?_⟩
    · intro n; simp [includes, K.den]
    · intro e n; simp [isLast, K.last?]
  | fromN m =>
    cases m with
    | zero =>
      refine ⟨{ all := true, frm := none }, rfl, ?_, ?_⟩
      · intro n; simp [includes, K.den]
      · intro e n; simp [isLast, K.last?]
    | succ m =>
      refine ⟨{ all := true, frm := some (m + 1) }, rfl, ?_, ?_⟩
      · intro n; simp [includes, K.den]
      · intro e n; simp [isLast, K.last?]
  | loneRange a b =>
    refine ⟨stA a b, ?_, ?_, ?_⟩
    · simp [parse, K.toExpr, pTerm, collectNumber, termVal, extendIfNew, exprVal, stepOp,
        collectRange, stA, finish]
    · intro n; exact includes_stA a b n
    · intro e n; exact isLast_stA a b e n
  | list f r =>
    obtain ⟨hf, hr⟩ := hk
    -- everything after the first operand is a fold from a B state
    have fromB : ∀ {den0 : Nat → Bool} {s0 : St} {lo : Nat}, InvB den0 s0 →
        (∀ n, den0 n = true → n < lo) → ascendingFrom lo r →
        (∀ n, den0 n = f.den n) → lo = f.hi + 1 → den0 f.hi = true →
        ∃ s, finish ((r.flatMap Item.ops).foldl stepOp (.ok (s0, s0.these))) = .ok s ∧
          (∀ n, includes s n = (K.list f r).den n) ∧
          (∀ e n, isLast s e n = (n == (r.getLast?.getD f).hi)) := by
      intro den0 s0 lo h0 hlt hasc hden hlo hfhi
      obtain ⟨s, es, hs⟩ := foldItems_B r h0 hlt hasc
      refine ⟨s, by rw [es]; rfl, ?_, ?_⟩
      · intro n; rw [includes_of_InvB hs n]; simp [K.den, hden]
      · intro e n
        have hspec := last_spec f r hf (by rw [← hlo]; exact hasc)
        apply isLast_of_InvB hs
        · simp only [hden]; exact hspec.1
        · intro m hm; simp only [hden] at hm; exact hspec.2 m hm
    cases f with
    | line m =>
      have h0 : InvB (Item.line m).den ({ these := [some m] } : St) := by
        refine ⟨rfl, rfl, rfl, by simp, by simp, ?_⟩
        intro n; simp [Item.den]
      obtain ⟨s, es, hi, hl⟩ := fromB h0 (by intro n hn; simp [Item.den] at hn; simp [Item.hi]; omega)
        hr (fun _ => rfl) rfl (by simp [Item.den, Item.hi])
      refine ⟨s, ?_, hi, ?_⟩
      · simpa [parse, K.toExpr, pTerm, collectNumber, termVal, extendIfNew, exprVal] using es
      · intro e n; simp only [K.last?]; exact hl e n
    | range a b =>
      simp only [Item.lo, Item.hi] at hf
      cases r with
      | nil =>
        refine ⟨stA a b, ?_, ?_, ?_⟩
        · simp [parse, K.toExpr, pTerm, collectNumber, termVal, extendIfNew, exprVal, stepOp,
            collectRange, stA, finish]
        · intro n; rw [includes_stA]
          have e1 : min a b = a := by omega
          have e2 : max a b = b := by omega
          simp [K.den, Item.den, e1, e2]
        · intro e n; rw [isLast_stA]
          have : max a b = b := by omega
          simp [K.last?, Item.hi, this]
      | cons i is =>
        have h0 := stB_InvB a b hf
        obtain ⟨s, es, hi, hl⟩ := fromB (den0 := (Item.range a b).den) h0
          (by intro n hn; simp [Item.den] at hn; simp [Item.hi]; omega)
          hr (fun _ => rfl) rfl (by simp [Item.den, Item.hi]; omega)
        refine ⟨s, ?_, hi, ?_⟩
        · have e0 : parse (K.list (.range a b) (i :: is)).toExpr =
              finish (((i :: is).flatMap Item.ops).foldl stepOp (.ok (stA a b, [some a]))) := by
            simp [parse, K.toExpr, pTerm, collectNumber, termVal, extendIfNew, exprVal, stepOp,
              collectRange, stA]
          rw [e0, List.flatMap_cons, foldl_ops_A a b hf, ← List.flatMap_cons]
          exact es
        · intro e n; simp only [K.last?]; exact hl e n

/-- the last line of a finite scan part is denoted and is the greatest denoted line:
    the scanner's own stop never precedes a denoted line -/
theorem c02_last_is_greatest (k : K) (hk : k.WF) (m : Nat) (h : k.last? = some m) :
    k.den m = true ∧ ∀ n, k.den n = true → n ≤ m := by
  cases k with
  | all => cases h
  | fromN _ => cases h
  | loneRange a b =>
    simp only [K.last?, Option.some.injEq] at h
    subst h
    simp only [K.den]
    constructor
    · simp; omega
    · intro n hn; simp at hn; omega
  | list f r =>
    simp only [K.last?, Option.some.injEq] at h
    subst h
    obtain ⟨hf, hr⟩ := hk
    have := last_spec f r hf hr
    simp only [K.den]
    exact this

/-- Run-level clause, for every file and every matcher that does not itself stop the run or
    advance: the records offered to the match part are exactly the denoted non-blank records, in
    file order, and `scan_count` is their number — for `next()`/`fast_forward()` and for
    `collect()`, in both return-modes, with or without `unmatched-mode: keep`.  (The scanner's own
    stop at `is_last` never cuts off a denoted record.) -/
theorem c02_offered {σ : Type} (k : K) (hk : k.WF) (m : MatcherSem σ) (hq : Quiet m) (cfg : Cfg)
    (hrun : cfg.willRun = true) (recs : List Rec) (ms : σ) :
    ∃ s, parse k.toExpr = .ok s ∧
      (runWith m s cfg none recs { ms := ms }).2.1.offered = Spec.Scan.offered k recs ∧
      (runWith m s cfg none recs { ms := ms }).2.1.scanCount = (Spec.Scan.offered k recs).length := by
  obtain ⟨s, hp, hinc, hlast⟩ := c02_parse k hk
  refine ⟨s, hp, ?_⟩
  have hl : ∀ n, isLast s (endIdxOf recs) n = true → ∀ j, n < j → j < recs.length → k.den j = false := by
    intro n hn j hj hjN
    rw [hlast] at hn
    cases hk' : k.last? with
    | none =>
      rw [hk'] at hn
      simp only [endIdxOf] at hn
      split at hn
      · cases hn
      · simp at hn; omega
    | some mx =>
      rw [hk'] at hn
      have : n = mx := by simpa using hn
      subst this
      cases hd : k.den j with
      | false => rfl
      | true => have := (c02_last_is_greatest k hk n hk').2 j hd; omega
  have hoff := runFrom_offered m hq s cfg.cwnm (cfg.collecting && cfg.unmatchedAvail) (endIdxOf recs)
    k.den hinc recs.length hl recs 0 { ms := ms } {} (by simp) rfl rfl
  have hinv := runFrom_Inv m s cfg.cwnm (cfg.collecting && cfg.unmatchedAvail) (endIdxOf recs) recs none 0
    { ms := ms } {} (Inv_init ms)
  simp only [runWith, hrun, if_true]
  refine ⟨by simpa [Spec.Scan.offered] using hoff, ?_⟩
  rw [hinv.scan, hoff]; simp [Spec.Scan.offered]

/-! Non-vacuity: concrete members of K satisfying the hypotheses, evaluated by the kernel. -/
example : (K.list (.range 0 3) [.line 9]).WF := by decide
example : (parse (K.list (.range 0 3) [.line 9]).toExpr).toOption.map (fun s => includes s 9) = some true := by
  decide
example : (parse (K.loneRange 3 0).toExpr).toOption.map (fun s => (isLast s (some 6) 0, isLast s (some 6) 3))
    = some (false, true) := by decide

end Props.C02
