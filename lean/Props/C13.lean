/-
  C13 — stop, skip, advance and last control the run as documented.
  Run-loop clauses, parametric in the matcher; the interpreter clauses are in Props/C13Interp.lean.
-/
import Model.RunLoop
import Proofs.RunLoop
import Model.Matcher
import Proofs.Matcher

namespace Props.C13
open Model.Scan Model.Run Proofs.Run

variable {σ : Type}

/-- `advance(n)`: while the advance counter is positive a scanned record passes without the
    matcher being called at all — the matcher state (variables, printouts, errors) is untouched,
    the record counts as scanned, not as matched, validity is unchanged and the counter goes
    down by one. -/
theorem c13_advance (m : MatcherSem σ) (scan : St) (endIdx : Option Nat) (i : Nat) (r : Rec)
    (st : LoopSt σ) (hr : r.isEmpty = false) (hi : includes scan i = true) (ha : st.fl.advance > 0) :
    (considerCore m scan endIdx i r st).1 = some false ∧
    (considerCore m scan endIdx i r st).2.ms = st.ms ∧
    (considerCore m scan endIdx i r st).2.fl.advance = st.fl.advance - 1 ∧
    (considerCore m scan endIdx i r st).2.fl.matchCount = st.fl.matchCount ∧
    (considerCore m scan endIdx i r st).2.fl.valid = st.fl.valid ∧
    (considerCore m scan endIdx i r st).2.scanCount = st.scanCount + 1 :=
  considerCore_advancing m scan endIdx i r st hr hi ha

/-- a file that ends in a blank record: the matcher is still called once for that record, with
    the run frozen and `blankLast` set (so that `last()` can fire), and the record is not returned
    in either return-mode and does not count as scanned. -/
theorem c13_last_blank (m : MatcherSem σ) (scan : St) (cwnm : Bool) (endIdx : Option Nat) (i : Nat)
    (st : LoopSt σ) (he : endIdx = some i) :
    considerLine m scan cwnm endIdx i [] st =
      (false, (callMatcher m endIdx i true [] { st with fl := { st.fl with frozen := true } }).2) ∧
    (considerLine m scan cwnm endIdx i [] st).2.scanCount = st.scanCount := by
  unfold considerLine
  rw [considerCore_blankLast m scan endIdx i st he]
  exact ⟨by simp [decide?], rfl⟩

/-- once the stop flag is set after a record (by `stop()`, by an error policy with `stop`, or by
    the scanner's own last line) no later record is read: the run ends with that record. -/
theorem c13_stop_ends_run (m : MatcherSem σ) (scan : St) (cwnm ku : Bool) (endIdx : Option Nat)
    (i : Nat) (r : Rec) (rs : List Rec) (st : LoopSt σ) (acc : Acc)
    (hs : (considerLine m scan cwnm endIdx i r (trackLine i r st)).2.fl.stopped = true) :
    (runFrom m scan cwnm ku endIdx none i (r :: rs) st acc).2.1 =
      finalize (considerLine m scan cwnm endIdx i r (trackLine i r st)).2 ∧
    (runFrom m scan cwnm ku endIdx none i (r :: rs) st acc).2.2.seen = acc.seen + 1 := by
  have e2 : (none == some 1 || none == some 0) = false := by simp
  simp only [runFrom, e2, Bool.false_eq_true, if_false, hs, if_true]
  split <;> refine ⟨rfl, ?_⟩ <;> (unfold accStep; split <;> (try split) <;> rfl)

/-- `stop()`: once the stop flag is set, no later component of the line is evaluated (the view is
    returned untouched) and the line is not matched; a stop set by the *last* component is not
    seen by this loop, so that line's verdict stands -/
theorem c13_stop_cut (env : Model.Interp.Env) (e : Model.Interp.Node) (es : List Model.Interp.Node)
    (v : Model.Interp.View) (f : Bool) (b : Option String) (h : v.stopped = true) :
    Model.Interp.matchExprs env (e :: es) v f b = (false, v, b) ∧
    (v.skip = false → Model.Interp.matchExprs env [] v f b = (!f, v, b)) :=
  ⟨Proofs.Matcher.matchExprs_stopped env e es v f b h, fun hk => by simp [Model.Interp.matchExprs, hk]⟩

/-- `skip()`: once the skip flag is set, no later component of the line is evaluated, the line is
    not matched, and the flag is cleared so that the next line proceeds normally -/
theorem c13_skip_cut (env : Model.Interp.Env) (e : Model.Interp.Node) (es : List Model.Interp.Node)
    (v : Model.Interp.View) (f : Bool) (b : Option String) (hs : v.stopped = false) (h : v.skip = true) :
    Model.Interp.matchExprs env (e :: es) v f b = (false, { v with skip := false }, b) ∧
    Model.Interp.matchExprs env [] v f b = (false, { v with skip := false }, b) :=
  ⟨Proofs.Matcher.matchExprs_skip env e es v f b hs h, by simp [Model.Interp.matchExprs, h]⟩

/-! Non-vacuity -/
def adv2 : MatcherSem Nat where
  eval ctx _ s fl := (true, s + 1, { fl with advance := if ctx.idx == 0 then 2 else fl.advance })

example : (nextRun adv2 { all := true } {} [["a"], ["b"], ["c"], ["d"]] { ms := 0 }).1 = [["a"], ["d"]] := by decide
example : (nextRun adv2 { all := true } {} [["a"], ["b"], ["c"], ["d"]] { ms := 0 }).2.1.ms = 2 := by decide

end Props.C13
