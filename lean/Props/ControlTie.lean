import Generated.CoreControl
import Model.ControlTop
import Model.Interp
import Proofs.BridgeControl
/-! Tie (T) for the control functions (C13, C04): the Lean translation of `Stop._decide_match` (with `Stopper._stop_me` and
    `CsvPath.stop`), `Skip._decide_match` (with `Skipper._skip_me`) and `Fail._decide_match`, regenerated from /repo's working tree
    on every run (Generated/CoreControl.lean), computes `Model.ControlTop.stopFn`, `skipFn`, `failFn`.  The condition of
    `stop(cond)`/`skip(cond)` is the opaque call `self.children[0].matches(skip=skip)`: any function of the environment that keeps
    `Proofs.BridgeControl.Contract`.  The interpreter model's cases for these functions are the same definitions over its state. -/
namespace Props.ControlTie
open Model.ControlTop Proofs.BridgeControl
open Proofs.BridgeMatches (Clean okVE)

theorem stop_source_is_model (ext : Py.Ext) (e : Py.Env) (skip : Py.V) (effs : List Py.Eff) (n : Nat) (nm : String) (d o o' : Bool)
    (hC : Contract ext) (hcl : Clean e) (hskip : Py.isExc skip = false) (hf : Facts e n nm d o o') :
    okVE (Generated.Control.Stop._decide_match ext e skip effs) =
      some (.none, stopFn (world ext skip d) (n == 1) (nm == "fail_and_stop") e) :=
  stop_bridge ext e skip effs n nm d o o' hC hcl hskip hf

theorem skip_source_is_model (ext : Py.Ext) (e : Py.Env) (skip : Py.V) (effs : List Py.Eff) (n : Nat) (nm : String) (d o o' : Bool)
    (hC : Contract ext) (hcl : Clean e) (hskip : Py.isExc skip = false) (hf : Facts e n nm d o o') :
    okVE (Generated.Control.Skip._decide_match ext e skip effs) = some (.none, skipFn (world ext skip d) (n == 1) o' e) :=
  skip_bridge ext e skip effs n nm d o o' hC hcl hskip hf

theorem fail_source_is_model (ext : Py.Ext) (e : Py.Env) (skip : Py.V) (effs : List Py.Eff) (n : Nat) (nm : String) (d o o' : Bool)
    (hf : Facts e n nm d o o') :
    okVE (Generated.Control.Fail._decide_match ext e skip effs) = some (.none, failFn (world ext skip d) e) :=
  fail_bridge ext e skip effs n nm d o o' hf

/-- C13 (stop with a condition), of the translated source: the run is stopped exactly when the condition answers True; otherwise the
    flags are those the condition left. `fail_and_stop` fails the file exactly when it stops. -/
theorem c13_stop_cond_source (ext : Py.Ext) (e : Py.Env) (skip : Py.V) (effs : List Py.Eff) (nm : String) (d o o' : Bool)
    (hC : Contract ext) (hcl : Clean e) (hskip : Py.isExc skip = false) (hf : Facts e 1 nm d o o') :
    ∃ env', okVE (Generated.Control.Stop._decide_match ext e skip effs) = some (.none, env') ∧
      (Py.isb (ext "child_matches" [skip] e).1 (.bool true) = true →
        env' "self.matcher.csvpath.stopped" = .bool true ∧
        (nm = "fail_and_stop" → env' "self.matcher.csvpath.is_valid" = .bool false) ∧
        (¬ nm = "fail_and_stop" → env' "self.matcher.csvpath.is_valid" = (ext "child_matches" [skip] e).2 "self.matcher.csvpath.is_valid")) ∧
      (Py.isb (ext "child_matches" [skip] e).1 (.bool true) = false →
        env' "self.matcher.csvpath.stopped" = (ext "child_matches" [skip] e).2 "self.matcher.csvpath.stopped" ∧
        env' "self.matcher.csvpath.is_valid" = (ext "child_matches" [skip] e).2 "self.matcher.csvpath.is_valid") := by
  refine ⟨_, stop_source_is_model ext e skip effs 1 nm d o o' hC hcl hskip hf, ?_, ?_⟩
  · intro h
    by_cases hnm : nm = "fail_and_stop" <;> simp [stopFn, fire, world, Py.upd, h, hnm]
  · intro h
    simp [stopFn, fire, world, Py.upd, h]

/-- C04 (fail), of the translated source: `fail()` clears the verdict, whatever else is the case. -/
theorem c04_fail_source (ext : Py.Ext) (e : Py.Env) (skip : Py.V) (effs : List Py.Eff) (n : Nat) (nm : String) (d o o' : Bool)
    (hf : Facts e n nm d o o') :
    ∃ env', okVE (Generated.Control.Fail._decide_match ext e skip effs) = some (.none, env') ∧
      env' "self.matcher.csvpath.is_valid" = .bool false := by
  refine ⟨_, fail_source_is_model ext e skip effs n nm d o o' hf, ?_⟩
  simp [failFn, world, Py.upd]

/-! ### the interpreter model's cases are instances -/
open Model.Interp in
def interpWorld (fuel : Nat) (env : Model.Interp.Env) (a : Model.Interp.Node) : World Model.Interp.ES where
  evalChild s := ((evalM fuel env a s).1 == some true, (evalM fuel env a s).2)
  setStopped s := emit s .stop
  setInvalid s := emit s .invalid
  setSkip s := emit s .skip
  setMatch s := s

open Model.Interp in
theorem interp_stop_is_instance (fuel : Nat) (env : Model.Interp.Env) (id : Nat) (q : List String) (a : Model.Interp.Node)
    (s : Model.Interp.ES) (fas : Bool) :
    decideFn (fuel + 1) env id (if fas then "fail_and_stop" else "stop") q [a] s =
      (some env.dm, stopFn (interpWorld fuel env a) true fas s) ∧
    decideFn (fuel + 1) env id (if fas then "fail_and_stop" else "stop") q [] s =
      (some env.dm, stopFn (interpWorld fuel env a) false fas s) := by
  cases fas <;> refine ⟨?_, ?_⟩ <;> unfold decideFn <;>
    simp only [String.reduceBEq, Bool.or_self, Bool.or_false, Bool.or_true, Bool.false_eq_true, if_false, if_true, stopFn, fire, interpWorld] <;>
    (try split) <;> simp_all

open Model.Interp in
theorem interp_skip_is_instance (fuel : Nat) (env : Model.Interp.Env) (id : Nat) (q : List String) (a : Model.Interp.Node)
    (s : Model.Interp.ES) (hq : q.contains "once" = false) :
    decideFn (fuel + 1) env id "skip" q [a] s = (some env.dm, skipFn (interpWorld fuel env a) true true s) ∧
    decideFn (fuel + 1) env id "skip" q [] s = (some env.dm, skipFn (interpWorld fuel env a) false true s) := by
  refine ⟨?_, ?_⟩ <;> unfold decideFn <;>
    simp only [String.reduceBEq, Bool.or_self, Bool.or_false, Bool.or_true, Bool.false_eq_true, if_false, if_true, skipFn, interpWorld, hq] <;>
    (try split) <;> simp_all

open Model.Interp in
theorem interp_fail_is_instance (fuel : Nat) (env : Model.Interp.Env) (id : Nat) (q : List String) (a : Model.Interp.Node)
    (s : Model.Interp.ES) :
    decideFn (fuel + 1) env id "fail" q [] s = (some env.dm, failFn (interpWorld fuel env a) s) := by
  unfold decideFn
  simp only [String.reduceBEq, Bool.or_self, Bool.or_false, Bool.or_true, Bool.false_eq_true, if_false, if_true, failFn, interpWorld]
  simp

/-! non-vacuity -/
def exExt : Py.Ext := fun _ _ e => (.bool true, e)
def exEnv : Py.Env := fun k =>
  if k = "len(self.children)" then .int 1 else if k = "self.name" then .str "fail_and_stop"
  else if k = "self.default_match()" then .bool true else if k = "self.once" then .bool false
  else if k = "self.do_once()" then .bool true else .none
example : Contract exExt := ⟨fun _ _ _ => rfl, fun _ _ _ h => h, fun _ _ _ _ _ _ _ h => h⟩
example : Facts exEnv 1 "fail_and_stop" true false true := ⟨rfl, rfl, rfl, rfl, rfl⟩

end Props.ControlTie
