import Model.Print
import Spec.Print
import Proofs.Print
/-!
# C16 — print() emits its text verbatim with references replaced by current values

`c16_verbatim`: for every print string written from text chunks and references (class `WF`: plain
text characters; names as the grammar admits them; a character between two references) and for
every resolution of references to values, what print sends to the printers is exactly the chunks'
text with each reference replaced by its value.  The `..` escape prints one dot.

What the theorem does not cover is stated beside it: two references with nothing between them
(`c16_adjacent_fails`, known finding `adjacent-references`), the resolution of a reference against
the run's data (model `resolveEnv`, tied by correspondence), and which executions of print happen
(`onmatch`, `once`; oracle in the harness).
-/
namespace Props.C16
open Model.Print Spec.Print Proofs.Print

theorem c16_go (resolve : Ref → Option (List Char)) :
    (t : List Chunk) → WF t →
      go resolve 0 (source false t ++ [' ']) = (expected resolve t).map (· ++ [' '])
  | [], _ => by
    simp [source, expected, go, isWS]
  | .lit s :: rest, h => by
    obtain ⟨_, hp, hr⟩ := h
    have ih := c16_go resolve rest hr
    simp only [source, Bool.false_and, Bool.false_eq_true, if_false, List.append_assoc]
    rw [go_plain resolve s _ hp, ih]
    simp only [expected]
    cases expected resolve rest <;> simp
  | [.ref r], h => by
    have hr : WFRef r := h
    simp only [source, List.append_nil, writeRef_eq, List.cons_append]
    have hp := parseRef_write r hr [' '] [' '] [] (Sent.char ' ' (by decide))
      (by
        intro c hc
        simp at hc
        subst hc
        unfold follows
        cases lastName r <;> simp [blank_not_simple])
    simp only [List.append_nil] at hp
    have hk := go_skip resolve (body r ++ [' ']) []
    simp only [List.append_nil] at hk
    simp only [go, beq_self_eq_true, if_true, hp, List.length_nil, Nat.sub_zero, hk, expected]
    cases resolve (refOf r) <;> simp
  | .ref r :: .lit s :: rest, h => by
    obtain ⟨hr, hend, hlit⟩ := h
    obtain ⟨hne, hp, hrest⟩ := hlit
    have ih := c16_go resolve rest hrest
    cases s with
    | nil => exact absurd rfl hne
    | cons c s' =>
      have hps' : ∀ d ∈ s', plain d = true := fun d hd => hp d (by simp [hd])
      have hfol : ∀ x, (c :: s').head? = some x → follows (lastName r) x := by
        intro x hx
        have := hend x hx
        unfold endsName at this
        unfold follows
        cases hl : lastName r <;> simp_all
      -- the tail after the sentinel
      let W := s' ++ (source false rest ++ [' '])
      have hW : go resolve 0 W = ((expected resolve rest).map (· ++ [' '])).map (s' ++ ·) := by
        simp only [W]
        rw [go_plain resolve s' _ hps', ih]
      by_cases hc : c = '.'
      · subst hc
        have hpr := parseRef_write r hr ['.', '.'] ['.'] W Sent.dots
          (by
            intro x hx; simp at hx; subst hx
            unfold follows; cases lastName r <;> simp [dot_not_simple])
        have hk := go_skip resolve (body r ++ ['.', '.']) W
        have hsrc : source false (.ref r :: .lit ('.' :: s') :: rest) ++ [' '] =
            '$' :: (body r ++ ['.', '.'] ++ W) := by
          simp [source, writeRef_eq, W]
        rw [hsrc]
        have hlen : (body r ++ ['.', '.'] ++ W).length - W.length = (body r ++ ['.', '.']).length := by
          simp only [List.length_append]; omega
        simp only [go, beq_self_eq_true, if_true, hpr, hlen, hk, hW, expected]
        cases resolve (refOf r) <;> cases expected resolve rest <;> simp
      · have hpr := parseRef_write r hr [c] [c] W (Sent.char c hc)
          (by
            intro x hx; simp at hx; subst hx
            exact hfol c rfl)
        have hk := go_skip resolve (body r ++ [c]) W
        have hsrc : source false (.ref r :: .lit (c :: s') :: rest) ++ [' '] =
            '$' :: (body r ++ [c] ++ W) := by
          have : (c == '.') = false := by simpa using hc
          simp [source, writeRef_eq, W, this]
        rw [hsrc]
        have hlen : (body r ++ [c] ++ W).length - W.length = (body r ++ [c]).length := by
          simp only [List.length_append]; omega
        simp only [go, beq_self_eq_true, if_true, hpr, hlen, hk, hW, expected]
        cases resolve (refOf r) <;> cases expected resolve rest <;> simp
  | .ref _ :: .ref _ :: _, h => absurd h (by simp [WF])

/-- **C16** (text and references): print sends exactly the text with the references replaced. -/
theorem c16_verbatim (resolve : Ref → Option (List Char)) (t : List Chunk) (h : WF t) :
    printString resolve (source false t) = expected resolve t := by
  unfold printString
  rw [c16_go resolve t h]
  cases expected resolve t with
  | none => rfl
  | some e => simp

theorem wfNameB_sound (n : NameForm) (h : wfNameB n = true) : WFName n := by
  cases n with
  | simple s =>
    simp only [wfNameB, Bool.and_eq_true, Bool.not_eq_true', List.all_eq_true] at h
    exact ⟨by intro e; simp [e] at h, h.2⟩
  | quoted s =>
    simp only [wfNameB, Bool.and_eq_true, Bool.not_eq_true', List.all_eq_true] at h
    exact ⟨by intro e; simp [e] at h, fun c hc => by simpa using h.2 c hc⟩

theorem wfRefB_sound (r : RefW) (h : wfRefB r = true) : WFRef r := by
  simp only [wfRefB, Bool.and_eq_true] at h
  refine ⟨wfNameB_sound _ h.1, ?_⟩
  intro t ht
  have h2 := h.2
  rw [ht] at h2
  exact wfNameB_sound _ h2

theorem wfB_sound : (t : List Chunk) → wfB t = true → WF t
  | [], _ => trivial
  | .lit s :: rest, h => by
    simp only [wfB, Bool.and_eq_true, Bool.not_eq_true', List.all_eq_true] at h
    exact ⟨by intro e; simp [e] at h, h.1.2, wfB_sound rest h.2⟩
  | [.ref r], h => wfRefB_sound r (by simpa [wfB] using h)
  | .ref r :: .lit s :: rest, h => by
    have h : (wfRefB r && (match s.head? with | some c => endsNameB r c | none => true) &&
        wfB (.lit s :: rest)) = true := h
    simp only [Bool.and_eq_true] at h
    refine ⟨wfRefB_sound r h.1.1, ?_, wfB_sound (.lit s :: rest) h.2⟩
    intro c hc
    have h2 := h.1.2
    rw [hc] at h2
    unfold endsNameB at h2
    unfold endsName
    cases hl : lastName r <;> simp_all
  | .ref _ :: .ref _ :: _, h => by simp [wfB] at h

/-- the form the driver evaluates: every generated print string for which `wfB` answers true is
    covered -/
theorem c16_verbatim_b (resolve : Ref → Option (List Char)) (t : List Chunk) (h : wfB t = true) :
    printString resolve (source false t) = expected resolve t :=
  c16_verbatim resolve t (wfB_sound t h)

/-! Non-vacuity: a string with adjacent punctuation, the dot escape, a quoted name and a tracking
value is in the class, and the theorem's conclusion is the intended text. -/
def demo : List Chunk :=
  [.ref ⟨.headers, .simple ['a'], none⟩, .lit [','], .ref ⟨.variables, .simple ['v'], some (.simple ['k'])⟩,
   .lit ['.', ' ', 'x', ' '], .ref ⟨.headers, .quoted ['a', ' ', 'b'], none⟩]

def demoResolve (r : Ref) : Option (List Char) := some ('<' :: r.name ++ ['>'])

example : WF demo := by
  simp [demo, WF, WFRef, WFName, endsName, lastName, plain, isWS]
  decide

example : String.ofList (source false demo) = "$.headers.a,$.variables.v.k.. x $.headers.'a b'" := by decide
example : (printString demoResolve (source false demo)).map String.ofList = some "<a>,<v>. x <a b>" := by
  decide

/-- the part of the property that fails on the model and on the code alike: two references with
    nothing between them — the `$` of the second is taken as the sentinel of the first and the
    second is printed as text (known finding `adjacent-references`). -/
theorem c16_adjacent_fails :
    (printString demoResolve "$.headers.a$.headers.b".toList).map String.ofList = some "<a>$.headers.b" := by
  decide

end Props.C16
