import Model.Match
import Spec.Match
import Proofs.Match
import Proofs.Lex
/-!
# C17 — What runs is what was written: parsing is unambiguous and layout-insensitive

Token level (`c17_tokens`): for every list of well-shaped components, with comments anywhere
between them, the modelled parser returns exactly those components — same kinds, names, operators,
argument order and literal values, whatever the nesting depth; comments leave no trace.
`c17_unique`: two well-shaped sources with the same token sequence are the same components, i.e.
a token sequence has one reading.

Character level (`c17_layout`, below): the token sequence does not depend on the white space
between tokens.
-/
namespace Props.C17
open Model.Match Spec.Match Proofs.Match

/-- **C17** (tree = source): the parser inverts `matchToks` on every well-shaped source -/
theorem c17_tokens (items : List Item) (h : okItems items = true) :
    parseToks (matchToks items) = some (comps items) := by
  unfold parseToks matchToks
  simp only
  apply pExprs_rt _ items h
  · intro e he
    have h1 := need_le e
    have h2 := item_len_le items (.comp e) he
    simp only [itemToks] at h2
    simp only [List.length_cons, List.length_append, List.length_nil]
    omega
  · have := items_len_le items
    simp only [List.length_cons, List.length_append, List.length_nil]
    omega

/-- a token sequence has one reading -/
theorem c17_unique (a b : List Item) (ha : okItems a = true) (hb : okItems b = true)
    (h : matchToks a = matchToks b) : comps a = comps b := by
  have h1 := c17_tokens a ha
  have h2 := c17_tokens b hb
  rw [h] at h1
  exact Option.some.inj (h1.symm.trans h2)

theorem comps_map (es : List Node) : comps (es.map Item.comp) = es := by
  induction es with
  | nil => rfl
  | cons e rest ih => simp [comps, ih]

theorem ok_comps : (items : List Item) → okItems items = true → okItems ((comps items).map Item.comp) = true
  | [], _ => rfl
  | .comment :: rest, h => by
    have hr : okItems rest = true := by
      simp only [okItems, List.all_cons, Bool.and_eq_true] at h ⊢; exact h.2
    simpa [comps] using ok_comps rest hr
  | .comp e :: rest, h => by
    have hr : okItems rest = true := by
      simp only [okItems, List.all_cons, Bool.and_eq_true] at h ⊢; exact h.2
    have he : okExpr e = true := by
      simp only [okItems, List.all_cons, Bool.and_eq_true] at h; exact h.1
    have := ok_comps rest hr
    simp only [okItems, comps, List.map_cons, List.all_cons, Bool.and_eq_true] at this ⊢
    exact ⟨he, this⟩

/-- comments between components do not change the tree -/
theorem c17_comments (items : List Item) (h : okItems items = true) :
    parseToks (matchToks items) = parseToks (matchToks ((comps items).map Item.comp)) := by
  rw [c17_tokens items h, c17_tokens _ (ok_comps items h), comps_map]

/-- **C17** (layout): the lexer reads back the tokens of every admissible layout — any white space
    (blanks, tabs, newlines) before any token and after the last one; no white space at all where the
    next character cannot run on into the token before it -/
theorem c17_layout (ps : List Piece) (trail : List Char) (h : WFLayout ps trail) :
    lex (render ps trail) = some (ps.map (·.tok)) :=
  Proofs.Lex.lex_layout ps trail h

/-- **C17** (text to tree): a well-shaped source, written in any admissible layout with comments
    anywhere between its components, parses to exactly its components -/
theorem c17_roundtrip (items : List Item) (ps : List Piece) (trail : List Char)
    (hi : okItems items = true) (ht : ps.map (·.tok) = matchToks items) (hl : WFLayout ps trail) :
    parse (render ps trail) = some (comps items) := by
  unfold parse
  rw [c17_layout ps trail hl, ht]
  exact c17_tokens items hi

/-- two layouts of the same components (comments included or not) give the same tree -/
theorem c17_layout_insensitive (a b : List Item) (pa pb : List Piece) (ta tb : List Char)
    (ha : okItems a = true) (hb : okItems b = true) (hab : comps a = comps b)
    (hta : pa.map (·.tok) = matchToks a) (htb : pb.map (·.tok) = matchToks b)
    (hla : WFLayout pa ta) (hlb : WFLayout pb tb) :
    parse (render pa ta) = parse (render pb tb) := by
  rw [c17_roundtrip a pa ta ha hta hla, c17_roundtrip b pb tb hb htb hlb, hab]

/-! Non-vacuity: a nested source with every kind of component -/
def demo : List Item :=
  [.comment,
   .comp (.eq .when_ (.eq .eq (.header ['a']) (.term (.num ['1'])))
      (.fn ['p', 'r', 'i', 'n', 't'] (.cons (.term (.str ['x'])) (.cons (.variable ['v', '.', 'k']) .nil)))),
   .comp (.eq .assign (.variable ['x']) (.fn ['y', 'e', 's'] .nil)),
   .comment,
   .comp (.reference ['p', '.', 'v']),
   .comp (.fn ['n', 'o', 't'] (.cons (.eq .eq (.fn ['c', 'o', 'u', 'n', 't'] .nil) (.header ['b'])) .nil))]

example : okItems demo = true := by decide
example : (parseToks (matchToks demo)).map List.length = some 4 := by decide

/-- a dense and a spread-out layout of a small source, and what they parse to -/
def demoPieces (g : List Char) : List Piece :=
  [⟨[], .lb, []⟩, ⟨g, .header ['a'], []⟩, ⟨g, .equals, []⟩, ⟨g, .num ['-', '1', '.', '5'], []⟩,
   ⟨[' '], .when_, []⟩, ⟨g, .fname ['f'], []⟩, ⟨g, .lp, []⟩, ⟨g, .str ['x', ' ', 'y'], []⟩, ⟨g, .rp, []⟩,
   ⟨g, .comment, [' ', 'n', 'o', 't', 'e', ' ']⟩, ⟨g, .rb, []⟩]

example : String.ofList (render (demoPieces []) []) = "[#a==-1.5 ->f(\"x y\")~ note ~]" := by decide
example : String.ofList (render (demoPieces ['\n', ' ']) [' ']) =
    "[\n #a\n ==\n -1.5 ->\n f\n (\n \"x y\"\n )\n ~ note ~\n ] " := by decide
example : (parse (render (demoPieces []) [])).map List.length = some 1 := by decide
example : (parse (render (demoPieces ['\n', ' ']) [' '])).map List.length = some 1 := by decide
/-- the dense layout meets the hypotheses of `c17_layout` (the premises are satisfiable) -/
example : WFLayout (demoPieces []) [] := by
  simp only [WFLayout, demoPieces, WFTok, render, pieceText, tokText, glue, List.map, List.flatten, List.append_nil,
    List.nil_append, List.cons_append, List.head?_cons]
  refine ⟨?_, ?_, ?_, ?_, ?_, ?_, ?_, ?_, ?_, ?_, ?_, ?_, ?_, ?_, ?_, ?_, ?_, ?_, ?_, ?_, ?_, ?_, ?_, ?_, ?_, ?_, ?_, ?_, ?_, ?_, ?_, ?_, ?_⟩
  all_goals (first | trivial | decide | (intro c hc; simp at hc; try (subst hc); try decide) | skip)
  · exact Or.inl ⟨by simp, by intro c hc; simp at hc; subst hc; decide⟩
  · refine Or.inr ⟨['1', '.', '5'], Or.inl ⟨['1'], ['5'], by simp, ?_, ?_, Or.inr rfl⟩, Or.inr rfl⟩
    · intro c hc; simp at hc; subst hc; decide
    · intro c hc; simp at hc; subst hc; decide
  · exact ⟨'f', [], rfl, by decide, by intro d hd; simp at hd⟩

end Props.C17
