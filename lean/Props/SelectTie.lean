import Generated.CoreSelect
import Model.PathsStore
import Proofs.BridgeSelect
import Props.C12
/-! Tie (T) for selecting members of a named-paths group by identity (C12): the Lean translation of `PathsManager._get_to`,
    `_get_from` and `_find_one` — with their loops over the (identity, csvpath) pairs, regenerated from /repo's working tree on every
    run (Generated/CoreSelect.lean) — computes `Model.Paths.getTo`, `getFrom`, `findOne` for every group `g` and every identity.  The
    pairs (`get_identified_paths_in`, which runs the metadata parser over the group's members) are an object list of the world. -/
namespace Props.SelectTie
open Model.Paths Proofs.BridgeSelect

theorem get_to_source_is_model (ext : Py.Ext) (e : Py.Env) (g : List (String × String)) (npn : Py.V) (ident : String)
    (effs : List Py.Eff) (hL : IsList e g) :
    Generated.Select.PathsManager._get_to ext e npn (.str ident) effs =
      .ok (.strs ((getTo (toModel g) ident.toList).map String.ofList)) e effs :=
  get_to_bridge ext e g npn ident effs hL

theorem get_from_source_is_model (ext : Py.Ext) (e : Py.Env) (g : List (String × String)) (npn : Py.V) (ident : String)
    (effs : List Py.Eff) (hL : IsList e g) :
    Generated.Select.PathsManager._get_from ext e npn (.str ident) effs =
      .ok (.strs ((getFrom (toModel g) ident.toList).map String.ofList)) e effs :=
  get_from_bridge ext e g npn ident effs hL

/-- `_find_one` returns the member with that identity, and raises `InputException` exactly when there is none -/
theorem find_one_source_is_model (ext : Py.Ext) (e : Py.Env) (g : List (String × String)) (npn ident : String)
    (effs : List Py.Eff) (hL : IsList e g) :
    Generated.Select.PathsManager._find_one ext e (.str npn) (.str ident) effs =
      resOf ((findOne (toModel g) ident.toList).map String.ofList) e effs :=
  find_one_bridge ext e g npn ident effs hL

/-- C12 (selection), of the translated source: in a group whose member `(ident, p)` is the first with that identity, `name#ident`
    is `p`, `:to` is the group up to and including it, `:from` is the group from it on. -/
theorem c12_select_source (ext : Py.Ext) (e : Py.Env) (pre post : List (String × String)) (ident p npn : String) (effs : List Py.Eff)
    (hL : IsList e (pre ++ (ident, p) :: post)) (hpre : ∀ x ∈ pre, (x.1 == ident) = false) :
    Generated.Select.PathsManager._find_one ext e (.str npn) (.str ident) effs = .ok (.str p) e effs ∧
    Generated.Select.PathsManager._get_to ext e (.str npn) (.str ident) effs = .ok (.strs (pre.map (·.2) ++ [p])) e effs ∧
    Generated.Select.PathsManager._get_from ext e (.str npn) (.str ident) effs = .ok (.strs (p :: post.map (·.2))) e effs := by
  have hm := Props.C12.c12_select (toModel (pre ++ (ident, p) :: post)) ident.toList (toModel pre) (toModel post) p.toList
    (by simp [toModel]) (by
      intro x hx
      simp only [toModel, List.mem_map] at hx
      obtain ⟨y, hy, rfl⟩ := hx
      simpa [beq_toList] using hpre y hy)
  refine ⟨?_, ?_, ?_⟩
  · rw [find_one_source_is_model ext e _ npn ident effs hL, hm.1]; simp [resOf, String.ofList_toList]
  · rw [get_to_source_is_model ext e _ (.str npn) ident effs hL, hm.2.1]; simp [toModel, String.ofList_toList, Function.comp_def]
  · rw [get_from_source_is_model ext e _ (.str npn) ident effs hL, hm.2.2]; simp [toModel, String.ofList_toList, Function.comp_def]

/-! non-vacuity: an environment showing a two-member group -/
def exEnv : Py.Env := fun k =>
  if k = "len(idpaths)" then .int 2
  else if k = Py.ikey "idpaths" 0 "[0]" then .str "a" else if k = Py.ikey "idpaths" 0 "[1]" then .str "$[*][yes()]"
  else if k = Py.ikey "idpaths" 1 "[0]" then .str "b" else if k = Py.ikey "idpaths" 1 "[1]" then .str "$[1][no()]"
  else .none
example : IsList exEnv [("a", "$[*][yes()]"), ("b", "$[1][no()]")] := by
  refine ⟨rfl, ?_, ?_⟩ <;> intro i h <;> (have : i = 0 ∨ i = 1 := by simp at h; omega) <;> rcases this with rfl | rfl <;> decide +revert

end Props.SelectTie
