/-
  C19 — Results depend only on the csvpath, the file and the configuration.
  The Lean part: the one explicit cross-run state, the header cache, returns what was stored
  (warm = cold) for safe header lists; and the model of a run is a function of (csvpath, records,
  configuration) by construction.  Process-global Python state has no counterpart in the model:
  history-independence of the implementation is tested (suite `jobs`).
-/
import Model.Cache
import Proofs.PathsStore
import Proofs.Csv

namespace Props.C19
open Model.Paths Model.Cache Proofs.Paths

theorem noComma_noStart (h r : Str) (hc : h.contains ',' = false) :
    ∀ a b, h = a ++ b → b ≠ [] → comma.isPrefixOf (b ++ r) = false := by
  intro a b hab hb
  cases b with
  | nil => exact absurd rfl hb
  | cons x xs =>
    have hx : x ≠ ',' := by
      intro e
      have : (',' : Char) ∈ h := by rw [hab, e.symm]; simp
      have : h.contains ',' = true := by simpa using this
      rw [hc] at this; cases this
    have hx' : ¬ (',' : Char) = x := fun e => hx e.symm
    simp [comma, List.isPrefixOf, hx']

theorem split_join (rest : List Str) : ∀ (h : Str) (cur : Str),
    (∀ x ∈ h :: rest, x.contains ',' = false) →
    splitGo comma 0 (joinComma (h :: rest)) cur = (cur.reverse ++ h) :: rest := by
  induction rest with
  | nil =>
    intro h cur hc
    have hh := hc h (List.mem_cons_self ..)
    simp only [joinComma]
    have := splitGo_plain comma h [] cur (noComma_noStart h [] hh)
    simp only [List.append_nil] at this
    rw [this]; simp [splitGo]
  | cons h2 r2 ih =>
    intro h cur hc
    have hh := hc h (List.mem_cons_self ..)
    simp only [joinComma]
    rw [List.append_assoc, splitGo_plain comma h _ cur (noComma_noStart h _ hh)]
    rw [splitGo_sep comma (by decide)]
    rw [ih h2 [] (fun x hx => hc x (List.mem_cons_of_mem _ hx))]
    simp

/-- warm = cold: what the cache returns is what was stored, for every header list whose cells
    contain no comma (cleaned headers never do) — given that the line is read back as a comma
    split, which holds for lines free of quote characters and line breaks -/
theorem c19_cache_roundtrip (hs : List Str) (hc : ∀ h ∈ hs, h.contains ',' = false) (h1 : hs ≠ [[]]) :
    readBack (joinComma hs) = hs := by
  unfold readBack
  cases hs with
  | nil => simp [joinComma]
  | cons h rest =>
    have hne : (joinComma (h :: rest)).isEmpty = false := by
      cases rest with
      | nil =>
        cases h with
        | nil => exact absurd rfl h1
        | cons _ _ => simp [joinComma]
      | cons h2 r2 => simp [joinComma, comma]
    simp only [hne, Bool.false_eq_true, if_false, split]
    rw [split_join rest h [] hc]
    simp

/-- **warm = cold, on the csv model**: the header cache as repaired writes the headers with
    `csv.writer` and reads them with `csv.reader`; for *every* header list — empty, a single empty
    name, names holding commas, quote characters, line feeds — with no carriage return in a name
    (a text-mode reader never delivers one) the cache returns exactly the list that was stored. -/
theorem c19_cache_roundtrip_csv (hs : List Str) (h : ∀ x ∈ hs, '\r' ∉ x ∧ x.length ≤ cacheDialect.limit) :
    load (store hs) = some hs := by
  unfold load store
  rw [Proofs.Csv.read_recordCRLF cacheDialect ⟨by decide, by decide, by decide, by decide, by decide⟩ hs h]
  cases hs with
  | nil => rfl
  | cons x xs => simp

example : load (store [[], "a,b".toList, "q\"".toList, "two\nlines".toList]) = some [[], "a,b".toList, "q\"".toList, "two\nlines".toList] := by
  decide

example : load (store [[]]) = some [[]] := by decide

/-- why the plain join was not enough (the defect repaired in /repo): with it `['']` came back
    as `[]` -/
theorem c19_cache_loses_single_empty : readBack (joinComma [[]]) = [] := by decide

example : readBack (joinComma ["a".toList, "b c".toList, "".toList]) = ["a".toList, "b c".toList, "".toList] := by decide

end Props.C19
