/-
  C06 — Lines are delivered as they are in the file; headers are the first data line.
  What is proved: nothing between the reader and the caller alters a record (for every matcher),
  and the header clauses on the header model; and, on the model of Python's csv module
  (`Model/Csv.lean`: the reader's state machine and the writer's quoting rule, tied to the real
  module by the correspondence check), that reading what `csv.writer` wrote gives back the records
  cell for cell, for every dialect and every cell text without a carriage return.  UTF-8 decoding
  is below the model.
-/
import Model.RunLoop
import Model.Headers
import Model.Csv
import Proofs.RunLoop
import Proofs.Csv

namespace Props.C06
open Model.Scan Model.Run Proofs.Run Model.Headers

variable {σ : Type}

/-- every line `collect()`/`next()` returns and every line kept as unmatched *is* one of the
    records the reader produced — same cells, same order, at strictly increasing positions —
    whatever the match part is (programs that rewrite the line with replace/append/collect are
    outside the modelled matcher interface) -/
theorem c06_identity (m : MatcherSem σ) (scan : St) (cfg : Cfg) (budget : Option Nat) (recs : List Rec)
    (st : LoopSt σ) :
    (∃ ys : List Nat, (runWith m scan cfg budget recs st).1 = ys.map (fun j => recs.getD j []) ∧
      ∀ j ∈ ys, j < recs.length) ∧
    (∃ us : List Nat, (runWith m scan cfg budget recs st).2.2.unmatched = us.map (fun j => recs.getD j []) ∧
      ∀ j ∈ us, j < recs.length) := by
  unfold runWith
  split
  · obtain ⟨ys, _, h2, h3⟩ := runFrom_lines m scan cfg.cwnm (cfg.collecting && cfg.unmatchedAvail) (endIdxOf recs)
      recs budget 0 st {}
    obtain ⟨us, _, u2, u3⟩ := runFrom_unmatched m scan cfg.cwnm (cfg.collecting && cfg.unmatchedAvail) (endIdxOf recs)
      recs budget 0 st {}
    refine ⟨⟨ys, by simpa using h2, fun j hj => by have := h3 j hj; omega⟩,
            ⟨us, by simpa using u2, fun j hj => by have := u3 j hj; omega⟩⟩
  · exact ⟨⟨[], rfl, by simp⟩, ⟨[], rfl, by simp⟩⟩

/-- the header names are the cleaned cells of the first non-blank record -/
theorem c06_headers (strip : String → String) (blanks : List Rec) (hb : ∀ b ∈ blanks, b = []) (first : Rec)
    (hf : first ≠ []) (rest : List Rec) :
    headersOf strip (blanks ++ first :: rest) = first.map (cleanHeader strip) := by
  induction blanks with
  | nil =>
    cases first with
    | nil => exact absurd rfl hf
    | cons c cs => simp [headersOf]
  | cons b bs ih =>
    have : b = [] := hb b (List.mem_cons_self ..)
    subst this
    simp only [List.cons_append, headersOf, List.isEmpty_nil, if_true]
    exact ih (fun x hx => hb x (List.mem_cons_of_mem _ hx))

/-- a cleaned header contains none of the delimiter-like characters -/
theorem c06_clean (strip : String → String) (h : String) (c : Char) (hc : c ∈ removed) :
    c ∉ (cleanHeader strip h).toList := by
  unfold cleanHeader
  intro hm
  simp only [String.toList_ofList, List.mem_filter] at hm
  have := hm.2
  simp [hc] at this

/-- `#name` and `#index` address the same cell on every line -/
theorem c06_name_index (strip : String → String) (headers : List String) (name : String) (i : Nat)
    (h : headerIndex headers name = some i) (line : Rec) :
    headerValue strip headers line (.name name) = headerValue strip headers line (.index i) := by
  simp [headerValue, h]

/-- the index found is the first position holding that name -/
theorem c06_index_is_first (headers : List String) (name : String) (i : Nat)
    (h : headerIndex headers name = some i) :
    headers[i]? = some name ∧ ∀ j, j < i → headers[j]? ≠ some name := by
  induction headers generalizing i with
  | nil => simp [headerIndex] at h
  | cons x xs ih =>
    simp only [headerIndex] at h
    by_cases hx : (x == name) = true
    · simp only [hx, if_true, Option.some.injEq] at h
      subst h
      exact ⟨by simpa using hx, fun j hj => by omega⟩
    · simp only [hx] at h
      cases hr : headerIndex xs name with
      | none => rw [hr] at h; simp at h
      | some k =>
        rw [hr] at h
        simp only [Option.map_some, Bool.false_eq_true, if_false, Option.some.injEq] at h
        subst h
        obtain ⟨h1, h2⟩ := ih k hr
        refine ⟨by simpa using h1, ?_⟩
        intro j hj
        cases j with
        | zero => simpa using hx
        | succ j' => simpa using h2 j' (by omega)

/-- a header missing from a short row (or unknown) reads as absent rather than failing -/
theorem c06_short_row (strip : String → String) (headers : List String) (line : Rec) (name : String) (i : Nat)
    (h : headerIndex headers name = some i) (hshort : line.length ≤ i) :
    headerValue strip headers line (.name name) = none ∧ headerValue strip headers line (.index i) = none := by
  have : line[i]? = none := by simp; omega
  simp [headerValue, h, this]

example : headersOf id [[], [" a;", "b|c"], ["1", "2"]] = [" a", "bc"] := by decide

/-! the csv layer -/
open Model.Csv in
/-- **writer then reader is the identity**: for every delimiter and quote character (distinct, not
    line ends), every list of records — blank records, ragged rows, empty cells, cells holding
    delimiters, quote characters, line feeds and any other text — with no carriage return in a cell
    and no cell longer than the field size limit, `csv.reader` over the text `csv.writer` produced
    yields exactly those records: same count, same cells, same order. -/
theorem c06_csv_roundtrip (d : Dialect) (hd : Proofs.Csv.WFD d) (recs : List Model.Csv.Rec)
    (h : ∀ r ∈ recs, ∀ c ∈ r, '\r' ∉ c ∧ c.length ≤ d.limit) :
    Model.Csv.read d (render d recs) = some recs :=
  Proofs.Csv.read_render d hd recs h

open Model.Csv in
/-- the two clauses together: what the run returns are cells of the records that were written -/
theorem c06_delivered (d : Dialect) (hd : Proofs.Csv.WFD d) (recs : List Model.Csv.Rec)
    (h : ∀ r ∈ recs, ∀ c ∈ r, '\r' ∉ c ∧ c.length ≤ d.limit)
    (m : MatcherSem σ) (scan : St) (cfg : Cfg) (budget : Option Nat) (st : LoopSt σ) :
    ∃ file : List Model.Run.Rec, (Model.Csv.read d (render d recs)).map (·.map (·.map String.ofList)) = some file ∧
      file = recs.map (·.map String.ofList) ∧
      ∃ ys : List Nat, (runWith m scan cfg budget file st).1 = ys.map (fun j => file.getD j []) ∧ ∀ j ∈ ys, j < file.length := by
  refine ⟨recs.map (·.map String.ofList), ?_, rfl, ?_⟩
  · rw [c06_csv_roundtrip d hd recs h]; rfl
  · exact (c06_identity m scan cfg budget _ st).1

/-- the premises are satisfiable and the statement is not about tidy cells only -/
example : Model.Csv.read ⟨',', '"', 131072⟩ (Model.Csv.render ⟨',', '"', 131072⟩
      [["a,b".toList, "say \"hi\"".toList, "two\nlines".toList], [], [[]], [[], "x".toList]])
    = some [["a,b".toList, "say \"hi\"".toList, "two\nlines".toList], [], [[]], [[], "x".toList]] := by decide

/-- the hypothesis the proof forced: a carriage return in a cell is written unquoted and splits the
    record when it is read back (the property's quantifier excludes CR) -/
example : Model.Csv.read ⟨',', '"', 131072⟩ (Model.Csv.render ⟨',', '"', 131072⟩ [["a\rb".toList]])
    = some [["a".toList], ["b".toList]] := by decide

end Props.C06
