/-
  C03 — Variables and run counters end up with the values the csvpath assigns.
  Counter clauses at run-loop level (parametric in the matcher).
-/
import Model.RunLoop
import Proofs.RunLoop
import Model.Matcher
import Proofs.Matcher
import Proofs.Funcs

namespace Props.C03
open Model.Scan Model.Run Proofs.Run

variable {σ : Type}

/-- `scan_count` is the number of lines offered to the match part — for every matcher -/
theorem c03_scan_count (m : MatcherSem σ) (scan : St) (cfg : Cfg) (budget : Option Nat)
    (recs : List Rec) (ms : σ) :
    (runWith m scan cfg budget recs { ms := ms }).2.1.scanCount =
      (runWith m scan cfg budget recs { ms := ms }).2.1.offered.length := by
  unfold runWith
  split
  · exact (runFrom_Inv m scan _ _ (endIdxOf recs) recs budget 0 { ms := ms } {} (Inv_init ms)).scan
  · rfl

/-- `match_count` is the number of lines that matched — for every matcher that raises the count
    early only on a line it then reports as matching (contract `CountsOK`) -/
theorem c03_match_count (m : MatcherSem σ) (hm : CountsOK m) (scan : St) (cfg : Cfg) (budget : Option Nat)
    (recs : List Rec) (ms : σ) :
    (runWith m scan cfg budget recs { ms := ms }).2.1.fl.matchCount =
      (runWith m scan cfg budget recs { ms := ms }).2.1.matched.length := by
  unfold runWith
  split
  · exact runFrom_matchCount m hm scan _ _ (endIdxOf recs) recs budget 0 { ms := ms } {} rfl
  · rfl

/-- what the matcher is shown on an offered record: the 1-based number of scans so far and the
    match count before the line (`count()` = that + 1 on a matching line) -/
theorem c03_ctx_counts (i : Nat) (endIdx : Option Nat) (st : LoopSt σ) :
    (mkCtx i endIdx false (offer i st)).scanCount = st.scanCount + 1 ∧
    (mkCtx i endIdx false (offer i st)).curMatchCount = st.fl.matchCount ∧
    (mkCtx i endIdx false (offer i st)).idx = i := ⟨rfl, rfl, rfl⟩

/-- same-line dependency: a component is evaluated in the state produced by the effects of the
    components before it on the same line (so an assignment reads what earlier components of the
    line wrote) -/
theorem c03_sameline (env : Model.Interp.Env) (e : Model.Interp.Node) (es : List Model.Interp.Node)
    (v : Model.Interp.View) (f : Bool) (b : Option String) (hs : v.stopped = false) (hk : v.skip = false) :
    ∃ f' b', Model.Interp.matchExprs env (e :: es) v f b =
      Model.Interp.matchExprs env es (Model.Interp.applyAll v (Model.Interp.evalExpr env v e).2.1) f' b' :=
  ⟨_, _, Proofs.Matcher.matchExprs_step env e es v f b hs hk⟩

/-- `left -> right`: when `left` holds, `right` is evaluated in the state `left` leaves (so an
    assignment on the right sees what the left side wrote), and that is all the component does -/
theorem c03_when_order (fuel : Nat) (env : Model.Interp.Env) (l r : Model.Interp.Node) (s : Model.Interp.ES)
    (h : ((Model.Interp.evalM fuel env l s).1 == some true) = true) (ho : Model.Interp.overridesFrozen l = false) :
    (Model.Interp.evalWhen (fuel + 1) env l r s).2 =
      (Model.Interp.evalM fuel env r (Model.Interp.evalM fuel env l s).2).2 :=
  Proofs.Matcher.when_true fuel env l r s h ho

/-- `line_number()`, `count_lines()`, `count_scans()`, `count()` and `total_lines()` report, on every line and whatever
    else the csvpath does, the line's 0-based position, the 1-based count of data lines, the 1-based number of the scan
    (`c03_ctx_counts`: the loop's `scan_count` after it was raised for this line) and the match count so far plus one — the
    fields of the environment the matcher is handed for the line (`interpMatcher` fills them from the run loop's context) —
    and change no state. -/
theorem c03_position_functions (fuel : Nat) (env : Model.Interp.Env) (id : Nat) (q : List String) (s : Model.Interp.ES) :
    Model.Interp.produceFn (fuel + 1) env id "line_number" q [] s = (.int env.idx, s) ∧
    Model.Interp.produceFn (fuel + 1) env id "count_lines" q [] s = (.int env.dataCount, s) ∧
    Model.Interp.produceFn (fuel + 1) env id "count_scans" q [] s = (.int env.scanCount, s) ∧
    Model.Interp.produceFn (fuel + 1) env id "count" q [] s = (.int (env.matchCount + 1), s) ∧
    Model.Interp.produceFn (fuel + 1) env id "total_lines" q [] s = (.int env.dataEndCount, s) :=
  Proofs.Funcs.fn_positions fuel env id q s

end Props.C03
