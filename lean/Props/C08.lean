/-
  C08 — A csvpath gives the same results alone, in a serial run and breadth-first.
  Parametric in every member's matcher: the theorems hold for every group of csvpaths that do not
  use the cross-path signals.
-/
import Model.Group
import Proofs.Group

namespace Props.C08
open Model.Scan Model.Run Model.Group Proofs.Group

variable {σ : Type}

/-- Breadth-first = alone: after `next_by_line` / `collect_by_line` / `fast_forward_by_line` over
    any file, every member has exactly the loop state (matcher state = variables, printouts,
    errors; validity, stop state, counters) and exactly the collected lines it has after running
    alone over the same file (`soloFrom` — the member's own records until it stops), whatever the
    other members do and in whatever order the group lists them. -/
theorem c08_byline (members : List (Member σ)) (ifAll : Bool) (recs : List Rec) (inits : List (LoopSt σ))
    (hl : members.length = inits.length) (hs : ∀ s ∈ inits, s.fl.stopped = false) :
    (byLine members ifAll recs inits).2 =
      (members.zip inits).map (fun p => soloFrom p.1 (endIdxOf recs) 0 recs { st := p.2 }) := by
  unfold byLine
  have h0 : stoppedCount (inits.map (fun s => ({ st := s } : MSt σ))) = 0 := by
    unfold stoppedCount
    rw [List.length_eq_zero_iff, List.filter_eq_nil_iff]
    intro a ha
    obtain ⟨s, hs', rfl⟩ := List.mem_map.mp ha
    simp [hs s hs']
  rw [byLineFrom_members members (endIdxOf recs) ifAll recs 0 _ 0 (by simpa using hl) h0.symm]
  unfold soloAll
  rw [List.zip_map_right, List.map_map]
  rfl

/-- alone = `CsvPath.next()`/`collect()`: the solo fold is the standalone run (same lines, same
    final state up to the `finalize` the breadth-first run does not perform) -/
theorem c08_solo_is_standalone (mem : Member σ) (ku : Bool) (recs : List Rec) (st : LoopSt σ)
    (hs : st.fl.stopped = false) :
    (runFrom mem.m mem.scan mem.cwnm ku (endIdxOf recs) none 0 recs st {}).1 =
      (soloFrom mem (endIdxOf recs) 0 recs { st := st }).lines ∧
    (runFrom mem.m mem.scan mem.cwnm ku (endIdxOf recs) none 0 recs st {}).2.1 =
      finalize (soloFrom mem (endIdxOf recs) 0 recs { st := st }).st := by
  have := runFrom_solo mem ku (endIdxOf recs) recs 0 st {} [] hs
  exact ⟨by simpa using this.1, this.2⟩

/-- what the caller of a breadth-first run gets for one record: the union of the decisions of
    the members still running (the intersection with `if_all_agree`) -/
def decisions (endIdx : Option Nat) (i : Nat) (r : Rec) (pairs : List (Member σ × MSt σ)) : List Bool :=
  (pairs.filter (fun p => !p.2.st.fl.stopped)).map (fun p => (memberStep p.1 endIdx i r p.2).1)

theorem c08_union (endIdx : Option Nat) (ifAll : Bool) (i : Nat) (r : Rec) :
    ∀ (pairs : List (Member σ × MSt σ)) (keep : Bool) (cnt : Nat),
      (stepMembers endIdx ifAll i r pairs keep cnt).2.1 =
        (if ifAll then keep && (decisions endIdx i r pairs).all id
         else keep || (decisions endIdx i r pairs).any id) := by
  intro pairs
  induction pairs with
  | nil => intro keep cnt; cases ifAll <;> simp [stepMembers, decisions]
  | cons p rest ih =>
    intro keep cnt
    obtain ⟨mem, ms⟩ := p
    by_cases hs : ms.st.fl.stopped = true
    · simp only [stepMembers, hs, if_true, decisions, List.filter_cons, Bool.not_true, Bool.false_eq_true, if_false]
      exact ih keep cnt
    · have hs' : ms.st.fl.stopped = false := by simpa using hs
      simp only [stepMembers, hs', Bool.false_eq_true, if_false, decisions, List.filter_cons, Bool.not_false,
        if_true, List.map_cons, List.all_cons, List.any_cons, id]
      rw [ih]
      cases ifAll <;> simp [decisions, Bool.and_assoc, Bool.or_assoc]

/-! Non-vacuity: two members, the first stops at record 1; breadth-first equals alone -/
def stopAt (k : Nat) : MatcherSem Nat where
  eval ctx _ s fl := (true, s + 1, { fl with stopped := ctx.idx == k })

example : ((byLine [{ m := stopAt 1, scan := { all := true } }, { m := stopAt 9, scan := { all := true } }] false
    [["a"], ["b"], ["c"]] [{ ms := 0 }, { ms := 0 }]).2.map (fun x => (x.st.ms, x.lines.length))) = [(2, 2), (3, 3)] := by
  decide

end Props.C08
