import Generated.Facts
import Generated.CoreAssign
import Model.Interp
import Proofs.BridgeAssign
import Props.C14
/-! Tie (T) for C14.

  * `qualifier_words`: the qualifier words the model knows are the `Qualities` of /repo now.
  * `assignment_source_is_model`: the Lean translation of `Equality._do_assignment_new_impl`, `_latch_and_onchange`,
    `_set_variable_if` and `_test_friendly_line_matches` — regenerated from /repo's working tree on every run by
    tools/py2lean.py into Generated/CoreAssign.lean — computes the hand-written model `Model.Assign.assign`.
  * `c14_table_source`: hence the documented decision table holds of the translated source itself. -/
namespace Props.C14Tie
open Model.Assign Proofs.BridgeAssign

theorem qualifier_words :
    Generated.qualities.all Model.Interp.knownQuals.contains = true ∧
    Model.Interp.knownQuals.all Generated.qualities.contains = true := by decide

/-- For every qualifier set, every current and new value (None, any int, any string), both logic modes, both answers
    of the look-ahead, given as test argument or live: the translated source returns the model's vote, records the
    model's write as its one `set_variable` effect (none when the model writes nothing) and raises TypeError exactly
    when the model does. -/
theorem assignment_source_is_model (q : Quals) (cur y : Val) (lmArg : Option Bool) (dm lm : Bool) (name tracking : Py.V)
    (hn : notExc name = true) (ht : notExc tracking = true) (effs : List Py.Eff) :
    Generated.Assign.Equality._do_assignment_new_impl (selfEnv dm lm) name tracking (argsEnv q cur y lmArg) effs
      = outRes name tracking effs (assign q cur y (lmSeen lmArg lm) dm) :=
  do_assignment_bridge q cur y lmArg dm lm name tracking hn ht effs

/-- The decision table of docs/assignment.md, stated of the translated source. -/
theorem c14_table_source (q : Quals) (cur y : Val) (lmArg : Option Bool) (dm lm : Bool) (name tracking : Py.V)
    (hn : notExc name = true) (ht : notExc tracking = true) (effs : List Py.Eff)
    (hc : Proofs.Assign.comparable cur y = true) (hq : Proofs.Assign.inQuantifier q y = true) :
    Generated.Assign.Equality._do_assignment_new_impl (selfEnv dm lm) name tracking (argsEnv q cur y lmArg) effs
      = outRes name tracking effs
          (.ok (Spec.Assign.assign q cur y (lmSeen lmArg lm == dm) dm).1 (Spec.Assign.assign q cur y (lmSeen lmArg lm == dm) dm).2) := by
  rw [assignment_source_is_model q cur y lmArg dm lm name tracking hn ht effs, Props.C14.c14_table q cur y _ dm hc hq]

/-- non-vacuity: `@x.increase = 7` over a current 3 in an AND csvpath writes 7 and votes True -/
example : Generated.Assign.Equality._do_assignment_new_impl (selfEnv true true) (.str "x") .none
    (argsEnv { increase := true } (.int 3) (.int 7) none) [] =
    .ok (.bool true) [{ name := "set_variable value= tracking=", args := [.str "x", .int 7, .none] }] := by decide

end Props.C14Tie
