import Generated.Facts
import Model.Interp
/-! Tie (T) for C14: the qualifier words the model knows are the `Qualities` of /repo now. -/
namespace Props.C14Tie
theorem qualifier_words :
    Generated.qualities.all Model.Interp.knownQuals.contains = true ∧
    Model.Interp.knownQuals.all Generated.qualities.contains = true := by decide
end Props.C14Tie
