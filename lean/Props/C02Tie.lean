import Generated.CoreScanner
import Model.Scan
import Proofs.BridgeScanner
import Props.C02
/-! Tie (T) for C02: the Lean translation of `Scanner.includes` and `Scanner.is_last`, regenerated from /repo's working
    tree on every run (Generated/CoreScanner.lean), computes the hand-written `Model.Scan.includes` / `isLast`; hence the
    translated source selects exactly the denoted lines of every scan part of class K. -/
namespace Props.C02Tie
open Model.Scan Spec.Scan Proofs.BridgeScanner

theorem includes_source_is_model (s : St) (endLine : Option Nat) (line : Nat) (effs : List Py.Eff) :
    Generated.Scanner.Scanner.includes (scanEnv s endLine) (.int line) (.int (-1)) (.int (-1)) .none .none effs
      = .ok (.bool (includes s line)) effs :=
  includes_bridge s endLine line effs

/-- `is_last` for a scanner whose `these` list holds no None -/
theorem is_last_source_is_model (all : Bool) (frm to : Option Nat) (ys : List Nat) (endLine : Option Nat) (line : Nat)
    (effs : List Py.Eff) :
    Generated.Scanner.Scanner.is_last (scanEnv ⟨ys.map some, all, frm, to⟩ endLine) (.int line) (.int (-1)) (.int (-1))
        .none .none effs
      = .ok (.bool (isLast ⟨ys.map some, all, frm, to⟩ endLine line)) effs :=
  is_last_bridge all frm to ys endLine line effs

/-- Every scan part of class K parses (model of the PLY actions) to a scanner state on which the *translated source*
    of `Scanner.includes` answers the denotation, for every line number. -/
theorem c02_includes_source (k : K) (hk : k.WF) :
    ∃ s, parse k.toExpr = .ok s ∧
      ∀ (endLine : Option Nat) (n : Nat) (effs : List Py.Eff),
        Generated.Scanner.Scanner.includes (scanEnv s endLine) (.int n) (.int (-1)) (.int (-1)) .none .none effs
          = .ok (.bool (k.den n)) effs := by
  obtain ⟨s, hp, hi, _⟩ := Props.C02.c02_parse k hk
  exact ⟨s, hp, fun e n effs => by rw [includes_source_is_model, hi]⟩

/-- non-vacuity: `[2-4]` includes line 3 and ends at line 4 -/
example : Generated.Scanner.Scanner.includes (scanEnv { frm := some 2, to := some 4 } none) (.int 3) (.int (-1)) (.int (-1)) .none .none []
    = .ok (.bool true) [] := by decide
example : Generated.Scanner.Scanner.is_last (scanEnv { frm := some 2, to := some 4 } none) (.int 4) (.int (-1)) (.int (-1)) .none .none []
    = .ok (.bool true) [] := by decide

end Props.C02Tie
