/-
  C10 — Every run gets its own run directory and never touches an earlier run's results.
-/
import Model.RunDir

namespace Props.C10
open Model.RunDir

theorem dval_digit (n : Nat) : dval (digit n) = some (n % 10) := by
  have h : n % 10 < 10 := Nat.mod_lt _ (by omega)
  unfold digit
  generalize n % 10 = k at h
  have : k = 0 ∨ k = 1 ∨ k = 2 ∨ k = 3 ∨ k = 4 ∨ k = 5 ∨ k = 6 ∨ k = 7 ∨ k = 8 ∨ k = 9 := by omega
  rcases this with rfl | rfl | rfl | rfl | rfl | rfl | rfl | rfl | rfl | rfl <;> decide

theorem num_pad2 (n : Nat) (h : n < 100) : num (pad2 n) = some n := by
  simp only [num, pad2, List.foldl_cons, List.foldl_nil, dval_digit]
  congr 1; omega

theorem num_pad4 (n : Nat) (h : n < 10000) : num (pad4 n) = some n := by
  simp only [num, pad4, List.foldl_cons, List.foldl_nil, dval_digit]
  congr 1; omega

/-- the directory name of a run parses back to its start time: names are read as the times
    they were written from (24-hour clock, at any time of day) -/
theorem c10_format_parse (t : TS) (hv : t.valid) : parse (format t) = some t := by
  obtain ⟨h1, h2, h3, h4, h5, h6, h7, h8, h9⟩ := hv
  have e1 := num_pad4 t.y (by omega)
  have e2 := num_pad2 t.mo (by omega)
  have e3 := num_pad2 t.d (by omega)
  have e4 := num_pad2 t.h (by omega)
  have e5 := num_pad2 t.mi (by omega)
  have e6 := num_pad2 t.s (by omega)
  simp only [pad2, pad4] at e1 e2 e3 e4 e5 e6
  simp only [format, pad2, pad4, List.cons_append, List.nil_append, parse, e1, e2, e3, e4, e5, e6]

/-- chronological order: the sort key orders valid times exactly as the calendar does -/
theorem c10_key_chrono (a b : TS) (ha : a.valid) (hb : b.valid) :
    a.key < b.key ↔
      (a.y < b.y ∨ (a.y = b.y ∧ (a.mo < b.mo ∨ (a.mo = b.mo ∧ (a.d < b.d ∨ (a.d = b.d ∧
        (a.h < b.h ∨ (a.h = b.h ∧ (a.mi < b.mi ∨ (a.mi = b.mi ∧ a.s < b.s)))))))))) := by
  obtain ⟨_, _, _, _, _, _, _, _, _⟩ := ha
  obtain ⟨_, _, _, _, _, _, _, _, _⟩ := hb
  unfold TS.key
  constructor <;> intro h <;> omega

theorem firstFree_fresh (used : List Char → Bool) (name : List Char) :
    ∀ (fuel i : Nat) (r : List Char), firstFree used name fuel i = some r → used r = false := by
  intro fuel
  induction fuel with
  | zero => intro i r h; simp [firstFree] at h
  | succ n ih =>
    intro i r h
    simp only [firstFree] at h
    split at h
    · exact ih (i + 1) r h
    · rename_i hu
      cases h
      simpa using hu

/-- a run directory handed out is one no earlier run used -/
theorem c10_fresh_dir (used : List Char → Bool) (t : TS) (fuel : Nat) (r : List Char)
    (h : getRunDir used t fuel = some r) : used r = false := by
  unfold getRunDir at h
  split at h
  · exact firstFree_fresh used _ fuel 0 r h
  · rename_i hu; cases h; simpa using hu

/-- over any history of runs (any groups, any instances, any clock readings, any number in the
    same second) the run directories are pairwise different: each run gets the name `getRunDir`
    computes against the directories that already exist under its group -/
def runAll (fuel : Nat) : List (List Char × TS) → List (List Char × List Char) → Option (List (List Char × List Char))
  | [], acc => some acc
  | (grp, t) :: rest, acc =>
    match getRunDir (fun n => acc.contains (grp, n)) t fuel with
    | none => none
    | some d => runAll fuel rest (acc ++ [(grp, d)])

theorem c10_history (fuel : Nat) (hist : List (List Char × TS)) :
    ∀ (acc out : List (List Char × List Char)), acc.Nodup → runAll fuel hist acc = some out → out.Nodup := by
  induction hist with
  | nil => intro acc out h e; simp [runAll] at e; subst e; exact h
  | cons x rest ih =>
    intro acc out h e
    obtain ⟨grp, t⟩ := x
    simp only [runAll] at e
    split at e
    · cases e
    · rename_i d hd
      have hf := c10_fresh_dir _ t fuel d hd
      apply ih (acc ++ [(grp, d)]) out _ e
      rw [List.nodup_append]
      refine ⟨h, by simp, ?_⟩
      intro a ha b hb hab
      simp at hb; subst hb; subst hab
      have : acc.contains (grp, d) = true := by simpa using ha
      rw [this] at hf; cases hf

theorem pickLast_cons_ne_none (y : List Char × Nat) (ys : List (List Char × Nat)) : pickLast (y :: ys) ≠ none := by
  simp only [pickLast]
  cases pickLast ys with
  | none => simp
  | some b => simp only; split <;> simp

theorem pickFirst_cons_ne_none (y : List Char × Nat) (ys : List (List Char × Nat)) : pickFirst (y :: ys) ≠ none := by
  simp only [pickFirst]
  cases pickFirst ys with
  | none => simp
  | some b => simp only; split <;> simp

/-- `:last` resolves to a run of greatest start time among the candidates, `:first` to one of
    least start time (for runs started in different seconds these are *the* latest/earliest) -/
theorem c10_last (l : List (List Char × Nat)) (b : List Char × Nat) (h : pickLast l = some b) :
    b ∈ l ∧ ∀ x ∈ l, x.2 ≤ b.2 := by
  induction l generalizing b with
  | nil => simp [pickLast] at h
  | cons x xs ih =>
    simp only [pickLast] at h
    cases hp : pickLast xs with
    | none =>
      rw [hp] at h; cases h
      cases xs with
      | nil => simp
      | cons y ys => exact absurd hp (pickLast_cons_ne_none y ys)
    | some c =>
      rw [hp] at h
      obtain ⟨hc1, hc2⟩ := ih c hp
      by_cases hx : x.2 > c.2
      · simp only [hx, if_true] at h; cases h
        refine ⟨by simp, ?_⟩
        intro z hz
        rcases List.mem_cons.mp hz with rfl | hz
        · omega
        · have := hc2 z hz; omega
      · simp only [hx, if_false] at h; cases h
        refine ⟨List.mem_cons_of_mem _ hc1, ?_⟩
        intro z hz
        rcases List.mem_cons.mp hz with rfl | hz
        · omega
        · exact hc2 z hz

theorem c10_first (l : List (List Char × Nat)) (b : List Char × Nat) (h : pickFirst l = some b) :
    b ∈ l ∧ ∀ x ∈ l, b.2 ≤ x.2 := by
  induction l generalizing b with
  | nil => simp [pickFirst] at h
  | cons x xs ih =>
    simp only [pickFirst] at h
    cases hp : pickFirst xs with
    | none =>
      rw [hp] at h; cases h
      cases xs with
      | nil => simp
      | cons y ys => exact absurd hp (pickFirst_cons_ne_none y ys)
    | some c =>
      rw [hp] at h
      obtain ⟨hc1, hc2⟩ := ih c hp
      by_cases hx : x.2 ≤ c.2
      · simp only [hx, if_true] at h; cases h
        refine ⟨by simp, ?_⟩
        intro z hz
        rcases List.mem_cons.mp hz with rfl | hz
        · omega
        · have := hc2 z hz; omega
      · simp only [hx, if_false] at h; cases h
        refine ⟨List.mem_cons_of_mem _ hc1, ?_⟩
        intro z hz
        rcases List.mem_cons.mp hz with rfl | hz
        · omega
        · exact hc2 z hz

/-- with the 12-hour clock the property fails: 1 pm would be written as an earlier hour than noon -/
example : (⟨2026, 9, 29, 13, 0, 0⟩ : TS).key > (⟨2026, 9, 29, 12, 59, 59⟩ : TS).key := by decide
example : format ⟨2026, 9, 29, 13, 0, 5⟩ = "2026-09-29_13-00-05".toList := by decide
example : getRunDir (fun n => n == "2026-09-29_13-00-05".toList || n == "2026-09-29_13-00-05.0".toList) ⟨2026, 9, 29, 13, 0, 5⟩ 5
    = some "2026-09-29_13-00-05.1".toList := by decide

end Props.C10
