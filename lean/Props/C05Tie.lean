import Generated.Facts
import Generated.CoreHandleIf
import Model.ErrorPolicy
import Proofs.BridgeHandleIf
import Props.C05
/-! Tie (T) for C05.

  * `policy_words`: the words of an error policy are the values of `OnError` in /repo now.
  * `handle_if_source_is_model`: the Lean translation of `ErrorHandler._handle_if` and `ErrorCommsManager.do_i_raise /
    do_i_print / do_i_stop / do_i_fail`, regenerated from /repo's working tree on every run (Generated/CoreHandleIf.lean),
    performs the model's effects in the model's order and raises exactly when the model says so.
  * `c05_policy_source`: hence the per-flag outcome of C05 holds of the translated source itself. -/
namespace Props.C05Tie
open Model.Err Proofs.BridgeHandleIf

theorem policy_words : Generated.onError = Model.Err.policyTokens := by decide

theorem handle_if_source_is_model (p : Policy) (o : Override) (e : Nat) (s : ESt) (effs : List Py.Eff) :
    ∃ done : List Py.Eff,
      Generated.HandleIf.ErrorHandler._handle_if (envH p o) (.strs (words p)) (.int e) effs =
        (if (handleOne p o s e).2 then .raised "MatchException" (effs ++ done) else .ok .none (effs ++ done)) ∧
      done.foldl (applyEff e) s = (handleOne p o s e).1 := by
  refine ⟨effsOf p o (.int e), ?_, effs_are_handleOne p o e s⟩
  rw [handle_if_bridge]
  rfl

/-- Each policy flag decides exactly its own outcome, in the translated source: the exception reaches the caller iff
    `raise` (or the validation-mode override), the error is collected iff `collect`, `is_valid` drops iff `fail`, the
    run stops iff `stop`, the message is printed iff `print`. -/
theorem c05_policy_source (p : Policy) (o : Override) (e : Nat) (s : ESt) (effs : List Py.Eff) :
    ∃ done : List Py.Eff,
      Generated.HandleIf.ErrorHandler._handle_if (envH p o) (.strs (words p)) (.int e) effs =
        (if doRaise p o then .raised "MatchException" (effs ++ done) else .ok .none (effs ++ done)) ∧
      (done.foldl (applyEff e) s).stopped = (s.stopped || doStop p o) ∧
      (done.foldl (applyEff e) s).valid = (s.valid && !doFail p o) ∧
      (done.foldl (applyEff e) s).collected = s.collected ++ (if p.collect then [e] else []) ∧
      (done.foldl (applyEff e) s).printed = s.printed ++ (if doPrint p o then [e] else []) := by
  obtain ⟨done, h1, h2⟩ := handle_if_source_is_model p o e s effs
  obtain ⟨f1, f2, f3, f4, f5⟩ := Props.C05.handleOne_fields p o s e
  refine ⟨done, ?_, ?_, ?_, ?_, ?_⟩
  · rw [h1, f1]
  · rw [h2, f2]
  · rw [h2, f3]
  · rw [h2, f4]
  · rw [h2, f5]

/-- non-vacuity: policy `collect, fail` without override on a running valid csvpath -/
example : Generated.HandleIf.ErrorHandler._handle_if (envH { collect := true, fail := true } {})
    (.strs (words { collect := true, fail := true })) (.int 4) [] =
    .ok .none [{ name := "collect_error", args := [.int 4] }, { name := "set self._csvpath.is_valid", args := [.bool false] }] := by
  decide

end Props.C05Tie
