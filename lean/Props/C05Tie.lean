import Generated.Facts
import Model.ErrorPolicy
/-! Tie (T) for C05: the words of an error policy are the values of `OnError` in /repo now. -/
namespace Props.C05Tie
theorem policy_words : Generated.onError = Model.Err.policyTokens := by decide
end Props.C05Tie
