/-
  C04 — The validity verdict is False exactly when the csvpath failed the file.
-/
import Model.Matcher
import Model.Archive
import Proofs.Matcher

namespace Props.C04
open Model.Interp Model.Run Proofs.Matcher

/-- one line: validity after the line is validity before it, minus any `invalid` effect of a
    component that was actually evaluated (fail(), fail_and_stop() firing) — for every program,
    every line, every state.  In particular it never returns to True. -/
theorem c04_line (env : Env) (prog : List Node) (v : View) :
    (matchLine env prog v).2.1.valid = (v.valid && !(effectsOf env prog v).any isInvalid) :=
  matchExprs_valid env prog v (!env.dm) none

/-- a whole run under the interpreter: once False the verdict is never True again -/
theorem c04_run_monotone (scan : Model.Scan.St) (cwnm ku : Bool) (endIdx : Option Nat) (recs : List Rec)
    (budget : Option Nat) (i : Nat) (st : LoopSt MState) (acc : Acc)
    (h : (runFrom interpMatcher scan cwnm ku endIdx budget i recs st acc).2.1.fl.valid = true) :
    st.fl.valid = true :=
  runFrom_validMono interpMatcher interp_validMono scan cwnm ku endIdx recs budget i st acc h

/-- … and the same for every matcher that itself never sets validity back (the run loop never
    writes the flag) -/
theorem c04_loop_never_writes {σ : Type} (m : MatcherSem σ) (hm : ValidMono m) (scan : Model.Scan.St)
    (cwnm ku : Bool) (endIdx : Option Nat) (recs : List Rec) (budget : Option Nat) (i : Nat) (st : LoopSt σ)
    (acc : Acc) (h : (runFrom m scan cwnm ku endIdx budget i recs st acc).2.1.fl.valid = true) :
    st.fl.valid = true :=
  runFrom_validMono m hm scan cwnm ku endIdx recs budget i st acc h

/-- the run manifest's all_valid is the conjunction of the members' verdicts -/
theorem c04_aggregate {ν ε : Type} (results : List (Model.Archive.MemberResult ν ε)) :
    (Model.Archive.completeManifest results).allValid = some (results.all (fun r => r.valid)) := by
  simp [Model.Archive.completeManifest, Model.Archive.conj, List.all_map]

/-- a branch that is not executed cannot touch the verdict (or anything else): when the left side of
    `left -> right` does not hold, the state after the component is the state after `left` alone,
    whatever `right` is (a `fail()`, a `fail_and_stop()`, an assignment, …) -/
theorem c04_unexecuted_branch (fuel : Nat) (env : Env) (l r : Node) (s : ES)
    (h : ((evalM fuel env l s).1 == some true) = false) :
    (evalWhen (fuel + 1) env l r s).2 = (evalM fuel env l s).2 :=
  Proofs.Matcher.when_false fuel env l r s h

end Props.C04
