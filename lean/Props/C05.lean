/-
  C05 — Errors in match components are handled exactly as the error policy says.
-/
import Model.ErrorPolicy
import Spec.Errors

namespace Props.C05
open Model.Err

/-- For every policy (all 2^6 subsets), every validation-mode override and every list of errors
    raised on a line (any length): starting from a running, valid csvpath, handling them leaves
    exactly the outcome the policy flags prescribe. -/
theorem handleOne_fields (p : Policy) (o : Override) (s : ESt) (e : Nat) :
    (handleOne p o s e).2 = doRaise p o ∧
    (handleOne p o s e).1.stopped = (s.stopped || doStop p o) ∧
    (handleOne p o s e).1.valid = (s.valid && !doFail p o) ∧
    (handleOne p o s e).1.collected = s.collected ++ (if p.collect then [e] else []) ∧
    (handleOne p o s e).1.printed = s.printed ++ (if doPrint p o then [e] else []) := by
  unfold handleOne
  cases doStop p o <;> cases p.collect <;> cases doFail p o <;> cases doPrint p o <;> simp

theorem handleAll_fields (p : Policy) (o : Override) : ∀ (es : List Nat) (s : ESt),
    (handleAll p o s es).2 = (doRaise p o && !es.isEmpty) ∧
    (handleAll p o s es).1.stopped = (s.stopped || (doStop p o && !es.isEmpty)) ∧
    (handleAll p o s es).1.valid = (s.valid && !(doFail p o && !es.isEmpty)) ∧
    (handleAll p o s es).1.collected =
      s.collected ++ (if p.collect then (if doRaise p o then es.take 1 else es) else []) ∧
    (handleAll p o s es).1.printed =
      s.printed ++ (if doPrint p o then (if doRaise p o then es.take 1 else es) else []) := by
  intro es
  induction es with
  | nil => intro s; simp [handleAll]
  | cons e es ih =>
    intro s
    obtain ⟨f1, f2, f3, f4, f5⟩ := handleOne_fields p o s e
    unfold handleAll
    cases hR : doRaise p o
    · rw [hR] at f1
      simp only [f1, Bool.false_eq_true, if_false]
      obtain ⟨h1, h2, h3, h4, h5⟩ := ih (handleOne p o s e).1
      rw [hR] at h1 h4 h5
      refine ⟨by simpa using h1, ?_, ?_, ?_, ?_⟩
      · rw [h2, f2]; cases doStop p o <;> cases es <;> simp
      · rw [h3, f3]; cases doFail p o <;> cases es <;> simp
      · rw [h4, f4]; cases p.collect <;> simp
      · rw [h5, f5]; cases doPrint p o <;> simp
    · rw [hR] at f1
      simp only [f1, if_true]
      refine ⟨by simp, ?_, ?_, ?_, ?_⟩
      · rw [f2]; simp
      · rw [f3]; simp
      · rw [f4]; cases p.collect <;> simp
      · rw [f5]; cases doPrint p o <;> simp

/-- `collect` is decided by the policy alone; raise/print/stop/fail by the override when the
    csvpath's validation-mode mentions them, else by the policy -/
theorem c05_override (p : Policy) (o : Override) :
    doRaise p o = Spec.Err.eff p.raise o.raise ∧ doPrint p o = Spec.Err.eff p.print o.print ∧
    doStop p o = Spec.Err.eff p.stop o.stop ∧ doFail p o = Spec.Err.eff p.fail o.fail := by
  unfold doRaise doPrint doStop doFail Spec.Err.eff
  cases o.raise <;> cases o.print <;> cases o.stop <;> cases o.fail <;> simp

/-- For every policy (all 2^6 subsets), every validation-mode override and every list of errors
    raised on a line (any length): starting from a running, valid csvpath, handling them leaves
    exactly the outcome the policy flags prescribe. -/
theorem c05_policy (p : Policy) (o : Override) (es : List Nat) :
    (handleAll p o {} es).2 = (Spec.Err.outcome p o es).raised ∧
    (handleAll p o {} es).1.stopped = (Spec.Err.outcome p o es).stopped ∧
    (handleAll p o {} es).1.valid = (Spec.Err.outcome p o es).valid ∧
    (handleAll p o {} es).1.collected = (Spec.Err.outcome p o es).collected ∧
    (handleAll p o {} es).1.printed = (Spec.Err.outcome p o es).printed := by
  obtain ⟨h1, h2, h3, h4, h5⟩ := handleAll_fields p o es {}
  obtain ⟨o1, o2, o3, o4⟩ := c05_override p o
  simp only [Spec.Err.outcome, ← o1, ← o2, ← o3, ← o4]
  exact ⟨h1, by simpa using h2, by simpa using h3, by simpa using h4, by simpa using h5⟩

/-- the validation-mode reader on the documented tokens: every way of mentioning each of the five
    families (absent / `x` / `no-x`), written as a comma-separated list, is read as intended —
    the whole finite table, checked by kernel evaluation. -/
def famText (fam : String) : Option Bool → List String
  | none => []
  | some true => [fam]
  | some false => ["no-" ++ fam]

def settingText (r pr st f m : Option Bool) : String :=
  ", ".intercalate (famText "raise" r ++ famText "print" pr ++ famText "stop" st ++ famText "fail" f ++ famText "match" m)

def allOB : List (Option Bool) := [none, some true, some false]

theorem c05_validation_tokens :
    ∀ r ∈ allOB, ∀ pr ∈ allOB, ∀ st ∈ allOB, ∀ f ∈ allOB, ∀ m ∈ allOB,
      readOverride (some (settingText r pr st f m)) =
        { raise := r, print := pr, stop := st, fail := f, matchv := m } := by
  decide +kernel

/-! Non-vacuity -/
example : (handleAll { collect := true, stop := true } { stop := some false } {} [3, 4]).1.collected = [3, 4] := by decide
example : (handleAll { raise := true, print := true } {} {} [3, 4]).1.printed = [3] := by decide

end Props.C05
