import Generated.CoreLineMonitor
import Model.RunLoop
import Proofs.BridgeLineMonitor
/-! Tie (T) for the line monitor (C03): the Lean translation of `LineMonitor.next_line` and `set_end_lines_and_reset`, regenerated
    from /repo's working tree on every run (Generated/CoreLineMonitor.lean), keeps the counters the run-loop model keeps
    (`Model.Run.trackData` for the data counters; the physical line number is the record's index, the physical count one more). -/
namespace Props.MonitorTie
open Model.Run Proofs.BridgeLineMonitor

/-- one record: from the monitor after `i` records to the monitor after `i + 1`, for every record, blank or not -/
theorem next_line_source_is_model (ext : Py.Ext) (rest : Py.Env) (i : Nat) (dc dn : Int) (lastLine : Py.V) (r : Rec) (effs : List Py.Eff) :
    okVE (Generated.LineMonitor.LineMonitor.next_line ext (monEnv rest i dc dn) lastLine (.strs r) effs) =
      some (.none, monEnv rest (i + 1) (trackData i r dc dn).1 (trackData i r dc dn).2) :=
  next_line_bridge ext rest i dc dn lastLine r effs

/-- the translated `next_line` as a step over records -/
def stepMon (ext : Py.Ext) (e : Py.Env) (r : Rec) : Option Py.Env :=
  (okVE (Generated.LineMonitor.LineMonitor.next_line ext e .none (.strs r) [])).map (·.2)

/-- the model's data counters folded over the records from index `i` on -/
def trackAll : Nat → Int → Int → List Rec → Int × Int
  | _, dc, dn, [] => (dc, dn)
  | i, dc, dn, r :: rs => trackAll (i + 1) (trackData i r dc dn).1 (trackData i r dc dn).2 rs

/-- C03 (line counters), of the translated source, for every file: stepping the monitor through any list of records leaves the
    physical count at the number of records, the physical line number at the index of the last one, and the data counters at
    what the run-loop model computes. -/
theorem monitor_over_file (ext : Py.Ext) (rest : Py.Env) (recs : List Rec) (i : Nat) (dc dn : Int) :
    recs.foldlM (stepMon ext) (monEnv rest i dc dn) =
      some (monEnv rest (i + recs.length) (trackAll i dc dn recs).1 (trackAll i dc dn recs).2) := by
  induction recs generalizing i dc dn with
  | nil => simp [trackAll]
  | cons r rs ih =>
    have h := next_line_source_is_model ext rest i dc dn .none r []
    simp only [List.foldlM_cons, stepMon, h, Option.map_some, Option.bind_eq_bind, Option.bind_some]
    rw [ih (i + 1)]
    simp [trackAll, Nat.add_assoc, Nat.add_comm 1]

/-- after a file of `n + 1` records the physical line number is `n` and the physical count `n + 1` -/
theorem physical_after_file (ext : Py.Ext) (rest : Py.Env) (recs : List Rec) (r : Rec) :
    ∃ e, (recs ++ [r]).foldlM (stepMon ext) (monEnv rest 0 0 0) = some e ∧
      e "self._physical_line_number" = .int recs.length ∧ e "self._physical_line_count" = .int (recs.length + 1) := by
  refine ⟨_, monitor_over_file ext rest (recs ++ [r]) 0 0 0, ?_, ?_⟩ <;> simp [monEnv, optInt]

theorem set_end_source (ext : Py.Ext) (env : Py.Env) (effs : List Py.Eff)
    (h1 : Py.isExc (env "self._physical_line_count") = false) (h2 : Py.isExc (env "self._physical_line_number") = false)
    (h3 : Py.isExc (env "self._data_line_count") = false) (h4 : Py.isExc (env "self._data_line_number") = false) :
    ∃ env', okVE (Generated.LineMonitor.LineMonitor.set_end_lines_and_reset ext env effs) = some (.none, env') ∧
      env' "self._physical_end_line_count" = env "self._physical_line_count" ∧
      env' "self._physical_end_line_number" = env "self._physical_line_number" ∧
      env' "self._data_end_line_count" = env "self._data_line_count" ∧
      env' "self._data_end_line_number" = env "self._data_line_number" ∧
      env' "self._physical_line_count" = .none ∧ env' "self._physical_line_number" = .none ∧
      env' "self._data_line_count" = .none ∧ env' "self._data_line_number" = .none :=
  set_end_bridge ext env effs h1 h2 h3 h4

/-! non-vacuity: a file that starts with a blank line, then two records (the data count starts at -1 and restarts at 1) -/
example : trackAll 0 0 0 [[], ["a"], ["b"]] = (2, 2) := by decide

end Props.MonitorTie
