import Generated.CoreLast
import Model.Interp
import Proofs.BridgeLast
/-! Tie (T) for last() (C13): the Lean translation of `Last._decide_match` with `LineMonitor.is_last_line`, regenerated from /repo's
    working tree on every run (Generated/CoreLast.lean).  What it encloses is the opaque call `self.children[0].matches(...)`;
    `scanner.is_last(n)` is a question to the scanner (answered as `Model.Scan.isLast` by `Props.C02Tie`). -/
namespace Props.LastTie
open Proofs.BridgeLast
open Proofs.BridgeMatches (okVE)

theorem last_source_is_model (ext : Py.Ext) (e : Py.Env) (skip : Py.V) (effs : List Py.Eff) (endIdx : Option Nat) (i : Nat)
    (hasScanner scanLast : Bool) (n : Nat) (hval : ∀ name a e, Py.isExc (ext name a e).1 = false)
    (hf : Facts e endIdx i hasScanner scanLast n ext) :
    okVE (Generated.Last.Last._decide_match ext e skip effs) =
      some (.none, lastFn ext (holds endIdx i hasScanner scanLast) n e) :=
  last_bridge ext e skip effs endIdx i hasScanner scanLast n hval hf

/-- C13 (last), of the translated source: `last()` answers True exactly on the file's last line and on the last line the scan part
    selects; on any other line what it encloses is not run and nothing but its own answer is written. -/
theorem c13_last_source (ext : Py.Ext) (e : Py.Env) (skip : Py.V) (effs : List Py.Eff) (endIdx : Option Nat) (i : Nat)
    (hasScanner scanLast : Bool) (n : Nat) (hval : ∀ name a e, Py.isExc (ext name a e).1 = false)
    (hf : Facts e endIdx i hasScanner scanLast n ext) :
    ∃ env', okVE (Generated.Last.Last._decide_match ext e skip effs) = some (.none, env') ∧
      (holds endIdx i hasScanner scanLast = false → env' = Py.upd e "self.match" (.bool false)) ∧
      (holds endIdx i hasScanner scanLast = true → n = 0 → env' = Py.upd e "self.match" (.bool true)) ∧
      (holds endIdx i hasScanner scanLast = true → n = 1 →
        env' = Py.upd (ext "child_matches" [] (Py.upd (Py.upd e "self.match" (.bool true)) "self.matcher.csvpath.is_frozen" (.bool false))).2
          "self.matcher.csvpath.is_frozen" (.bool true)) := by
  refine ⟨_, last_source_is_model ext e skip effs endIdx i hasScanner scanLast n hval hf, ?_, ?_, ?_⟩
  · intro h; simp [lastFn, h]
  · intro h hn; subst hn; simp [lastFn, h]
  · intro h hn; subst hn; simp [lastFn, h]

/-- the interpreter model's `last` has the same shape: it holds on the last line of the file or of the scan, and runs what it
    encloses there between lifting and restoring the freeze -/
theorem interp_last (fuel : Nat) (env : Model.Interp.Env) (id : Nat) (q : List String) (a : Model.Interp.Node) (s : Model.Interp.ES) :
    Model.Interp.decideFn (fuel + 1) env id "last" q [] s = (some (env.isLastLine || env.scanIsLast), s) ∧
    Model.Interp.decideFn (fuel + 1) env id "last" q [a] s =
      (if env.isLastLine || env.scanIsLast then
        (some true, Model.Interp.emit (Model.Interp.evalM fuel env a (Model.Interp.emit s (.freeze false))).2 (.freeze true))
       else (some false, s)) := by
  refine ⟨?_, ?_⟩ <;> unfold Model.Interp.decideFn <;>
    simp only [String.reduceBEq, Bool.or_self, Bool.or_false, Bool.or_true, Bool.false_eq_true, if_false, if_true] <;>
    cases (env.isLastLine || env.scanIsLast) <;> simp

end Props.LastTie
