import Generated.Facts
import Model.RunDir
/-! Tie (T) for C10: run directories are named with the one `strftime` format the model implements. -/
namespace Props.C10Tie
theorem run_dir_format : Generated.runDirFormats = [Model.RunDir.formatSpec] := by decide
/-- and `format` writes that format (checked on a timestamp with distinct fields, afternoon hour) -/
theorem format_example :
    String.ofList (Model.RunDir.format { y := 2026, mo := 9, d := 29, h := 13, mi := 5, s := 7 }) = "2026-09-29_13-05-07" := by decide
end Props.C10Tie
