import Generated.Facts
