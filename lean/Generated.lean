import Generated.Facts
import Generated.CoreAssign
import Generated.CoreHandleIf
import Generated.CoreScanner
import Generated.CoreConsiderLine
import Generated.CoreModes
import Generated.CoreMatches
import Generated.CoreWhen
