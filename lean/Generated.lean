import Generated.Facts
import Generated.CoreAssign
