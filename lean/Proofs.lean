import Proofs.Scan
import Proofs.RunLoop
import Proofs.Metadata
import Proofs.Assign
import Proofs.FileStore
import Proofs.PathsStore
import Proofs.Group
import Proofs.Matcher
