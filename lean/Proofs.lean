import Proofs.Scan
