import Props.C01
import Props.C02
import Props.C03
import Props.C05
import Props.C07
import Props.C13
import Props.C14
import Props.C15
