import Props.C02
