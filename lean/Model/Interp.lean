/-
  Interpreter model (L1): how one line is matched.  Transcribes `Matcher.matches` (AND/OR
  aggregation, stop/skip tests before every expression, `_do_lasts`), `Expression.matches`,
  `Equality` (==, assignment, when/do), `Header`, `Variable`, `Term`, the `Function` skeleton
  (frozen test, per-line caches of value and match, sibling values first, then decide/produce)
  and a core set of functions.  Constructs outside the set, the look-ahead of `onmatch`, and any
  situation in which the Python code would raise or leave the integral-number domain answer
  `unmodelled`; the harness counts and drops those cases.

  Design: an expression is evaluated by `evalExpr : Env → View → Node → Option Bool × List Effect`;
  the matcher applies the effects with `applyAll`.  All line-level theorems are about the small
  top-level functions and the `Effect` type, never about the inside of the evaluator.
  Import-free.
-/
import Model.Value
import Model.Print
import Model.Headers
import Model.Assign
import Model.RunLoop

namespace Model.Interp
open Model.Val

inductive HRefK where
  | name (s : String)
  | index (i : Nat)
  deriving Repr, Inhabited

inductive Node where
  | term (id : Nat) (v : Value)
  | header (id : Nat) (ref : HRefK) (quals : List String)
  | var (id : Nat) (name : String) (quals : List String)
  | fn (id : Nat) (name : String) (quals : List String) (args : List Node)
  | eq (id : Nat) (op : String) (l r : Node)     -- "==", "=", "->"
  deriving Repr, Inhabited

def Node.id : Node → Nat
  | .term i _ => i | .header i _ _ => i | .var i _ _ => i | .fn i _ _ _ => i | .eq i _ _ _ => i

abbrev Vars := List (String × Value)

/-- what a line can change -/
structure View where
  vars : Vars := []
  stopped : Bool := false
  skip : Bool := false
  frozen : Bool := false
  valid : Bool := true
  advance : Nat := 0
  prints : List String := []
  deriving Repr, Inhabited

inductive Effect where
  | vars (v : Vars)          -- the variable store after a write
  | stop
  | skip
  | advance (n : Nat)
  | invalid
  | print (s : String)
  | freeze (b : Bool)
  deriving Repr, Inhabited

def applyEff (v : View) : Effect → View
  | .vars x => { v with vars := x }
  | .stop => { v with stopped := true }
  | .skip => { v with skip := true }
  | .advance n => { v with advance := n }
  | .invalid => { v with valid := false }
  | .print s => { v with prints := v.prints ++ [s] }
  | .freeze b => { v with frozen := b }

def applyAll (v : View) (es : List Effect) : View := es.foldl applyEff v

/-- read-only facts about the line -/
structure Env where
  line : List String
  headers : List String
  dm : Bool                 -- default_match: True under AND, False under OR
  idx : Nat                 -- physical line number
  dataCount : Int           -- data_line_count
  dataNumber : Int          -- data_line_number
  dataEndCount : Int        -- total_lines()
  scanCount : Nat
  matchCount : Nat          -- current_match_count
  isLastLine : Bool         -- line_monitor.is_last_line()
  scanIsLast : Bool         -- scanner.is_last(line number)
  pmeta : List (Value × Value) := []     -- CsvPath.metadata, for `$.metadata.x` in print strings
  pstatic : List (Value × Value) := []   -- identity, delimiter, quotechar, for `$.csvpath.x`
  deriving Repr, Inhabited

structure Cell where
  value : Value := .none
  mtch : Option Bool := none
  mtchDone : Bool := false
  argsDone : Bool := false
  deriving Repr, Inhabited

structure ES where
  v : View
  effs : List Effect := []
  memo : List (Nat × Cell) := []
  bad : Option String := none
  deriving Repr, Inhabited

def emit (s : ES) (e : Effect) : ES := { s with v := applyEff s.v e, effs := s.effs ++ [e] }

def unmodelled (s : ES) (why : String) : ES := if s.bad.isSome then s else { s with bad := some why }

def cell (s : ES) (id : Nat) : Cell := ((s.memo.find? (·.1 == id)).map (·.2)).getD {}

def setCell (s : ES) (id : Nat) (c : Cell) : ES :=
  { s with memo := (id, c) :: s.memo.filter (fun p => p.1 != id) }

/-! ### variables (`CsvPath.set_variable` / `get_variable`) -/

def lookupVar (vs : Vars) (n : String) : Option Value := (vs.find? (·.1 == n)).map (·.2)

def setVarPlain (vs : Vars) (n : String) (x : Value) : Vars :=
  if vs.any (·.1 == n) then vs.map (fun p => if p.1 == n then (n, x) else p) else vs ++ [(n, x)]

def dictGet (kv : List (Value × Value)) (k : Value) : Option Value := (kv.find? (fun p => pyEq p.1 k)).map (·.2)

def dictSet (kv : List (Value × Value)) (k x : Value) : List (Value × Value) :=
  if kv.any (fun p => pyEq p.1 k) then kv.map (fun p => if pyEq p.1 k then (p.1, x) else p) else kv ++ [(k, x)]

/-- `set_variable(name, value=…, tracking=…)`; ignored while frozen -/
def setVariable (s : ES) (n : String) (tracking0 : Option Value) (x : Value) : ES :=
  let tracking := match tracking0 with      -- `if tracking is not None`
    | some .none => none
    | t => t
  if s.v.frozen then s
  else
    match tracking with
    | none => emit s (.vars (setVarPlain s.v.vars n x))
    | some t =>
      match lookupVar s.v.vars n with
      | none => emit s (.vars (setVarPlain s.v.vars n (.dict [(t, x)])))
      | some (.dict kv) => emit s (.vars (setVarPlain s.v.vars n (.dict (dictSet kv t x))))
      | some _ => unmodelled s "tracking assignment to a non-dict variable"

/-- `get_variable(name, tracking=…, set_if_none=…)` -/
def getVariable (s : ES) (n : String) (tracking0 : Option Value) (setIfNone : Option Value) : Value × ES :=
  let tracking := match tracking0 with
    | some .none => none
    | t => t
  let sin := if s.v.frozen then none else setIfNone
  match tracking with
  | some t =>
    match lookupVar s.v.vars n with
    | some (.dict kv) =>
      if kv.isEmpty then
        -- `if not thedict: thedict = {}; thedict[tracking] = set_if_none`
        let kv' := [(t, sin.getD .none)]
        let s1 := emit s (.vars (setVarPlain s.v.vars n (.dict kv')))
        (sin.getD .none, s1)
      else
        let cur := (dictGet kv t).getD .none
        match sin with
        | some d => if !truthy cur then (d, emit s (.vars (setVarPlain s.v.vars n (.dict (dictSet kv t d))))) else (cur, s)
        | none => (cur, s)
    | some _ =>
      -- not a dict (or falsy non-dict): `thedict.get` is skipped, value None; with set_if_none Python
      -- assigns into a non-dict: outside the model
      (match sin with
       | some _ => (.none, unmodelled s "tracking read of a non-dict variable with a default")
       | none => (.none, s))
    | none =>
      let s1 := emit s (.vars (setVarPlain s.v.vars n (.dict [(t, sin.getD .none)])))
      (sin.getD .none, s1)
  | none =>
    match lookupVar s.v.vars n with
    | some x => (x, s)
    | none =>
      match sin with
      | some d => (d, emit s (.vars (setVarPlain s.v.vars n d)))
      | none => (.none, s)

/-! ### helpers -/

def knownQuals : List String :=
  ["onmatch", "onchange", "asbool", "nocontrib", "latch", "increase", "decrease", "notnone", "distinct", "once"]

def firstNonTerm (quals : List String) : Option String := quals.find? (fun q => !knownQuals.contains q)

def headerValue (env : Env) (ref : HRefK) : Option String :=
  match ref with
  | .index i => env.line[i]?
  | .name n =>
    match Model.Headers.headerIndex env.headers n with
    | none => none
    | some k => env.line[k]?

def overridesFrozen (n : Node) : Bool :=
  match n with
  | .fn _ name _ _ => name == "last" || name == "fail" || name == "fail_all"
  | _ => false

def nodeNocontrib : Node → Bool
  | .eq _ _ l _ => nodeNocontrib l
  | .fn _ _ q _ => q.contains "nocontrib"
  | .header _ _ q => q.contains "nocontrib"
  | .var _ _ q => q.contains "nocontrib"
  | .term _ _ => false

def isTerm : Node → Bool
  | .term _ _ => true
  | _ => false

def fmt (s : ES) (x : Value) : String × ES :=
  match pyFormat x with
  | .ok t => (t, s)
  | .unmodelled w => ("", unmodelled s w)

def toAssignVal : Value → Option Model.Assign.Val
  | .none => some .none
  | .int i => some (.int i)
  | .flt i => some (.int i)
  | .bool b => some (.int (if b then 1 else 0))
  | .str t => some (.str t)
  | _ => none

def assignQuals (q : List String) : Model.Assign.Quals :=
  { onmatch := q.contains "onmatch", latch := q.contains "latch", onchange := q.contains "onchange",
    increase := q.contains "increase", decrease := q.contains "decrease", notnone := q.contains "notnone",
    asbool := q.contains "asbool", nocontrib := q.contains "nocontrib" }

/-- number or string comparison of `above`/`below` & friends: numbers first — when `float()`
    succeeds on both (bools excluded) they compare as numbers, otherwise as stripped strings; as
    built, the `lt` family answers `<=` -/
def aboveBelow (name : String) (a b : Value) (s : ES) : Bool × ES :=
  let above := name == "gt" || name == "above" || name == "after" || name == "gte"
  let orEq := name == "gte" || !above      -- lt, below, before, lte all end in `<=`
  let cmp := fun (lt eq : Bool) => if above then (if orEq then !lt else (!lt && !eq)) else (lt || eq)
  let isBool := fun (x : Value) => match x with | .bool _ => true | _ => false
  let strings := fun (s0 : ES) =>
    let (sa, s1) := fmt s0 a
    let (sb, s2) := fmt s1 b
    let ta := Model.PyStr.strip sa
    let tb := Model.PyStr.strip sb
    (cmp (decide (ta < tb)) (ta == tb), s2)
  match a, b with
  | .none, .none => (cmp false true, s)       -- "None" against "None" as strings
  | .none, _ => (false, s)
  | _, .none => (false, s)
  | _, _ =>
    if isBool a || isBool b then strings s
    else
      match floatable a, floatable b with
      | some true, some true =>
        (match pyFloat a, pyFloat b with
         | .ok x, .ok y => (cmp (decide (x < y)) (x == y), s)
         | _, _ => (false, unmodelled s "comparison of non-integral numbers"))
      | some false, _ => strings s
      | _, some false => strings s
      | _, _ => (false, unmodelled s "comparison: cannot tell whether float() succeeds")

def betweenCmp {α : Type} (name : String) (ltF : α → α → Bool) (_eqF : α → α → Bool) (me a b : α) : Bool :=
  let gt := fun x y => ltF y x
  let ge := fun x y => !ltF x y
  let (high, low) := if gt a b then (a, b) else (b, a)
  if name == "range" || name == "from_to" then ge high me && ge me low
  else if name == "between" || name == "inside" then gt high me && gt me low
  else (ltF high me && ltF low me) || (gt high me && gt low me)

/-! ### the evaluator -/

mutual

/-- `matches()` of a node -/
def evalM : Nat → Env → Node → ES → Option Bool × ES
  | 0, _, _, s => (none, unmodelled s "fuel")
  | fuel + 1, env, n, s =>
    match n with
    | .term _ _ => (some true, s)
    | .header id _ q =>
      let c := cell s id
      if c.mtchDone then (c.mtch, s)
      else
        let (x, s1) := evalV fuel env n s
        let m := if q.contains "asbool" then asbool x else !isNone x
        let c1 := cell s1 id
        (some m, setCell s1 id { c1 with mtch := some m, mtchDone := true })
    | .var id _ q =>
      let c := cell s id
      if c.mtchDone then (c.mtch, s)
      else
        let (x, s1) := evalV fuel env n s
        let m := if q.contains "asbool" then asbool x else !(x == .none)
        let c1 := cell s1 id
        (some m, setCell s1 id { c1 with mtch := some m, mtchDone := true })
    | .eq id op l r =>
      let c := cell s id
      if c.mtchDone then (c.mtch, s)
      else
        let (m, s1) :=
          if op == "=" then
            match l with
            | .var _ name q => evalAssign fuel env name q r s
            | _ => (none, unmodelled s "assignment to a non-variable")
          else if op == "->" then evalWhen fuel env l r s
          else
            let (a, s1) := evalV fuel env l s
            let (b, s2) := evalV fuel env r s1
            let (fa, s3) := fmt s2 a
            let (fb, s4) := fmt s3 b
            (some (Model.PyStr.strip fa == Model.PyStr.strip fb || pyEq a b), s4)
        let c1 := cell s1 id
        (m, setCell s1 id { c1 with mtch := m, mtchDone := true })
    | .fn id name q args =>
      if s.v.frozen && !overridesFrozen n then
        let c := cell s id
        (some (if c.mtchDone then c.mtch.getD true else true), s)
      else
        let c := cell s id
        if c.mtchDone then (c.mtch, s)
        else if q.contains "onmatch" || q.contains "onchange" then (none, unmodelled s "onmatch/onchange qualifier")
        else
          let s0 := siblingValues fuel env id args s
          let (m, s1) := decideFn fuel env id name q args s0
          let c1 := cell s1 id
          (m, setCell s1 id { c1 with mtch := m, mtchDone := true })

/-- `to_value()` of a node -/
def evalV : Nat → Env → Node → ES → Value × ES
  | 0, _, _, s => (.none, unmodelled s "fuel")
  | fuel + 1, env, n, s =>
    match n with
    | .term _ x => (x, s)
    | .header id ref q =>
      let c := cell s id
      if c.argsDone then (c.value, s)     -- `argsDone` doubles as "computed" for headers
      else
        let raw := headerValue env ref
        let x : Value := match raw with
          | some t => if q.contains "asbool" then .bool (asbool (.str t)) else .str (Model.PyStr.strip t)
          | none => if q.contains "asbool" then .bool false else .none
        (x, setCell s id { c with value := x, argsDone := true })
    | .var id name q =>
      let c := cell s id
      if truthy c.value then (c.value, s)
      else
        let track := (firstNonTerm q).map Value.str
        let (x, s1) := getVariable s name track none
        -- the "True"/"False" retry with a bool key
        let (x2, s2) :=
          if x == .none then
            match firstNonTerm q with
            | some "True" => getVariable s1 name (some (.bool true)) none
            | some "False" => getVariable s1 name (some (.bool false)) none
            | _ => (x, s1)
          else (x, s1)
        let c1 := cell s2 id
        (x2, setCell s2 id { c1 with value := x2 })
    | .eq _ _ _ _ =>
      let (m, s1) := evalM fuel env n s
      ((match m with | some b => .bool b | none => .none), s1)
    | .fn id name q args =>
      if s.v.frozen && !overridesFrozen n then
        let c := cell s id
        ((if c.value == .none then .bool (if c.mtchDone then c.mtch.getD true else true) else c.value), s)
      else
        let c := cell s id
        if !(c.value == .none) then (c.value, s)
        else if q.contains "onmatch" || q.contains "onchange" then (.none, unmodelled s "onmatch/onchange qualifier")
        else
          -- `Count.to_value` is its own: no argument validation pass
          let s0 := if name == "count" then s else siblingValues fuel env id args s
          let (x, s1) := produceFn fuel env id name q args s0
          let x' := match x with
            | .str t => .str (Model.PyStr.strip t)
            | y => y
          let c1 := cell s1 id
          (x', setCell s1 id { c1 with value := x' })

/-- `Args.matches(self.sibling_values())`: the siblings' values are computed (once per line)
    before the function decides or produces; type mismatches are outside the model -/
def siblingValues : Nat → Env → Nat → List Node → ES → ES
  | 0, _, _, _, s => unmodelled s "fuel"
  | fuel + 1, env, id, args, s =>
    let c := cell s id
    if c.argsDone then s
    else
      let s1 :=
        match args with
        | [.eq _ _ _ _] => unmodelled s "a function whose only argument is an equality"
        | _ => args.foldl (fun acc a => (evalV fuel env a acc).2) s
      let c1 := cell s1 id
      setCell s1 id { c1 with argsDone := true }

/-- `left -> right` -/
def evalWhen : Nat → Env → Node → Node → ES → Option Bool × ES
  | 0, _, _, _, s => (none, unmodelled s "fuel")
  | fuel + 1, env, l, r, s =>
    let (lm, s1) := evalM fuel env l s
    if lm == some true then
      let b := if !env.dm && nodeNocontrib l then false else true
      let ov := overridesFrozen l
      let s2 := if ov then emit s1 (.freeze false) else s1
      let (_, s3) := evalM fuel env r s2
      let s4 := if ov then emit s3 (.freeze true) else s3
      (some b, s4)
    else
      if !env.dm && nodeNocontrib l then (some false, s1) else (some (nodeNocontrib l), s1)

/-- Python stores a *reference* when a list or dict is assigned to a second variable or pushed on a
stack, so later updates of the original show through.  The model has value semantics; it refuses
(`unmodelled`) instead of guessing. -/
def isContainer : Value → Bool
  | .list _ => true
  | .dict _ => true
  | _ => false

def setVariableA (s : ES) (n : String) (tracking0 : Option Value) (x : Value) : ES :=
  if isContainer x then unmodelled s "aliasing of a mutable value" else setVariable s n tracking0 x

/-- `@name.quals = right` -/
def evalAssign : Nat → Env → String → List String → Node → ES → Option Bool × ES
  | 0, _, _, _, _, s => (none, unmodelled s "fuel")
  | fuel + 1, env, name, q, r, s =>
    let isCount := match r with
      | .fn _ fname _ [] => fname == "count" || fname == "has_matches"
      | _ => false
    if q.contains "onmatch" || isCount then (none, unmodelled s "assignment that looks ahead (onmatch or bare count())")
    else
      let (y, s1) := evalV fuel env r s
      let tracking := (firstNonTerm q).map Value.str
      let (cur, s2) := getVariable s1 name tracking none
      let aq := assignQuals q
      if !(aq.latch || aq.onchange || aq.increase || aq.decrease || aq.notnone || aq.asbool || aq.nocontrib) then
        (some env.dm, setVariableA s2 name tracking y)
      else
        match toAssignVal cur, toAssignVal y with
        | some c, some yy =>
          match Model.Assign.assign aq c yy env.dm env.dm with
          | .typeError => (none, unmodelled s2 "TypeError comparing int with str in an assignment")
          | .ok w vote =>
            let s3 := match w with
              | some _ => setVariableA s2 name tracking y
              | none => s2
            (some vote, s3)
        | _, _ => (none, unmodelled s2 "qualified assignment of a list or dict")

/-- `_decide_match` -/
def decideFn : Nat → Env → Nat → String → List String → List Node → ES → Option Bool × ES
  | 0, _, _, _, _, _, s => (none, unmodelled s "fuel")
  | fuel + 1, env, id, name, q, args, s =>
    let dflt : Option Bool := some env.dm
    let viaValue := fun (f : Value → Option Bool) =>
      let (x, s1) := evalV fuel env (.fn id name q args) s
      (f x, s1)
    if name == "yes" || name == "true" then (some true, s)
    else if name == "no" || name == "false" then (some false, s)
    else if name == "not" then
      match args with
      | [a] => let (m, s1) := evalM fuel env a s; (some (!(m == some true)), s1)
      | _ => (none, unmodelled s "not: arity")
    else if name == "and" then
      args.foldl (fun (acc : Option Bool × ES × Bool) a =>
          if acc.2.2 then acc
          else
            let (m, s1) := evalM fuel env a acc.2.1
            (m, s1, !(m == some true))) (none, s, false) |> fun r => (r.1, r.2.1)
    else if name == "or" then
      args.foldl (fun (acc : Option Bool × ES × Bool) a =>
          if acc.2.2 then acc
          else
            let (m, s1) := evalM fuel env a acc.2.1
            if m == some true then (some true, s1, true) else (some false, s1, false)) (some false, s, false)
        |> fun r => (r.1, r.2.1)
    else if name == "exists" then
      match args with
      | [a] => let (x, s1) := evalV fuel env a s; (some (!isEmptyV x), s1)
      | _ => (none, unmodelled s "exists: arity")
    else if name == "empty" then
      match args with
      | [.fn _ _ _ _] => (none, unmodelled s "empty(function)")
      | [a] => let (x, s1) := evalV fuel env a s; (some (isEmptyV x), s1)
      | _ => (none, unmodelled s "empty: arity")
    else if name == "in" then
      match args with
      | t :: rest =>
        let (tv, s1) := evalV fuel env t s
        let (items, s2) := rest.foldl (fun (acc : List Value × ES) a =>
            let (x, sa) := evalV fuel env a acc.2
            if isTerm a then
              let (f, sb) := fmt sa x
              (acc.1 ++ ((Model.PyStr.strip f).splitOn "|").map (fun p => Value.str (Model.PyStr.strip p)), sb)
            else
              match x with
              | .list xs => (acc.1 ++ xs, sa)
              | .dict kv => (acc.1 ++ kv.map (·.1), sa)
              | y => (acc.1 ++ [y], sa)) ([], s1)
        (some (items.any (fun i => pyEq tv i)), s2)
      | _ => (none, unmodelled s "in: arity")
    else if ["gt", "above", "after", "gte", "lt", "below", "before", "lte"].contains name then
      match args with
      | [a, b] =>
        let (x, s1) := evalV fuel env a s
        let (y, s2) := evalV fuel env b s1
        let (m, s3) := aboveBelow name x y s2
        (some m, s3)
      | _ => (none, unmodelled s "above/below: arity")
    else if name == "equals" || name == "eq" then
      match args with
      | [a, b] =>
        let (l, s1) := evalV fuel env a s
        let (r, s2) := evalV fuel env b s1
        if (truthy l && !truthy r) || (truthy r && !truthy l) then (some false, s2)
        else if l == .none && r == .none then (some true, s2)
        else
          match floatable l, floatable r with
          | some true, some true =>
            (match pyFloat l, pyFloat r with
             | .ok x, .ok y => (some (x == y), s2)
             | _, _ => (none, unmodelled s2 "equals on non-integral numbers"))
          | none, _ => (none, unmodelled s2 "equals: cannot tell whether float() succeeds")
          | _, none => (none, unmodelled s2 "equals: cannot tell whether float() succeeds")
          | _, _ =>
            let (fl, s3) := fmt s2 l
            let (fr, s4) := fmt s3 r
            (some (fl == fr), s4)
      | _ => (none, unmodelled s "equals: arity")
    else if ["between", "inside", "from_to", "range", "beyond", "outside"].contains name then
      match args with
      | [m0, a0, b0] =>
        let (me, s1) := evalV fuel env m0 s
        let (a, s2) := evalV fuel env a0 s1
        let (b, s3) := evalV fuel env b0 s2
        if me == .none || a == .none || b == .none then (some false, s3)
        else
          match floatable me, floatable a, floatable b with
          | some true, some true, some true =>
            (match pyFloat me, pyFloat a, pyFloat b with
             | .ok x, .ok y, .ok z => (some (betweenCmp name (fun p r => decide (p < r)) (· == ·) x y z), s3)
             | _, _, _ => (none, unmodelled s3 "between on non-integral numbers"))
          | some _, some _, some _ =>
            let (fm, s4) := fmt s3 me
            let (fa, s5) := fmt s4 a
            let (fb, s6) := fmt s5 b
            (some (betweenCmp name (fun (p r : String) => decide (p < r)) (· == ·)
              (Model.PyStr.strip fm) (Model.PyStr.strip fa) (Model.PyStr.strip fb)), s6)
          | _, _, _ => (none, unmodelled s3 "between: cannot tell whether float() succeeds")
      | _ => (none, unmodelled s "between: arity")
    else if name == "concat" || name == "lower" || name == "strip" || name == "add" || name == "subtract"
        || name == "minus" || name == "multiply" || name == "int" || name == "counter" || name == "sum"
        || name == "subtotal" then
      let (_, s1) := evalV fuel env (.fn id name q args) s
      (dflt, s1)
    else if name == "first" then viaValue (fun x => some (x == .none))
    else if name == "tally" then viaValue (fun _ => some true)
    else if name == "upper" then viaValue (fun x => some (!(x == .none)))
    else if name == "length" then
      viaValue (fun x => match x with | .int i => some (decide (i > 0)) | _ => none)
    else if name == "starts_with" || name == "min_length" || name == "max_length" || name == "too_long"
        || name == "too_short" then
      viaValue (fun x => match x with | .bool b => some b | _ => none)
    else if name == "count" then
      match args with
      | [] => let (_, s1) := evalV fuel env (.fn id name q args) s; (dflt, s1)
      | [_] => let (_, s1) := evalV fuel env (.fn id name q args) s; (dflt, s1)      -- `matches` always answers the default
      | _ => (none, unmodelled s "count(x, y)")
    else if ["count_lines", "line_number", "count_scans", "total_lines", "count_headers", "count_headers_in_line"].contains name then
      (none, s)      -- no `_decide_match`: the match stays None
    else if name == "every" then
      viaValue (fun x => match x with | .int i => some (i == 0) | _ => none)
    else if name == "push" || name == "push_distinct" then
      match args with
      | [kn, vn] =>
        let (k, s1) := evalV fuel env kn s
        let (x, s2) := evalV fuel env vn s1
        match k with
        | .str key =>
          if s2.v.frozen then (dflt, s2)
          else
            let (stack, s3) := getVariable s2 key none (some (.list []))
            match stack with
            | .list xs =>
              if isContainer x then (none, unmodelled s3 "aliasing of a mutable value")
              else if (q.contains "distinct" || name == "push_distinct") && xs.any (fun y => pyEq y x) then (dflt, s3)
              else if q.contains "notnone" && isEmptyV x then (dflt, s3)
              else (dflt, emit s3 (.vars (setVarPlain s3.v.vars key (.list (xs ++ [x])))))
            | _ => (none, unmodelled s3 "push onto a non-list variable")
        | _ => (none, unmodelled s2 "push: non-string name")
      | _ => (none, unmodelled s "push: arity")
    else if name == "pop" || name == "peek" then
      let (x, s1) := evalV fuel env (.fn id name q args) s
      (if q.contains "asbool" then some (asbool x) else dflt, s1)
    else if name == "stack" then (dflt, s)
    else if name == "get" then viaValue (fun x => some (!(x == .none)))
    else if name == "put" then viaValue (fun x => some (!(x == .none)))
    else if name == "stop" || name == "fail_and_stop" then
      let fire := fun (s0 : ES) =>
        let s1 := emit s0 .stop
        if name == "fail_and_stop" then emit s1 .invalid else s1
      match args with
      | [] => (dflt, fire s)
      | [a] => let (m, s1) := evalM fuel env a s; (dflt, if m == some true then fire s1 else s1)
      | _ => (none, unmodelled s "stop: arity")
    else if name == "skip" then
      if q.contains "once" then (none, unmodelled s "skip.once")
      else
        match args with
        | [] => (dflt, emit s .skip)
        | [a] => let (m, s1) := evalM fuel env a s; (dflt, if m == some true then emit s1 .skip else s1)
        | _ => (none, unmodelled s "skip: arity")
    else if name == "advance" then
      match args with
      | [a] =>
        let (x, s1) := evalV fuel env a s
        match x with
        | .int i => if i ≥ 0 then (dflt, emit s1 (.advance i.toNat)) else (none, unmodelled s1 "advance(negative)")
        | .flt i => if i ≥ 0 then (dflt, emit s1 (.advance i.toNat)) else (none, unmodelled s1 "advance(negative)")
        | .str t => match parseIntegral t with
          | some (i, false) => if i ≥ 0 then (dflt, emit s1 (.advance i.toNat)) else (none, unmodelled s1 "advance(negative)")
          | _ => (none, unmodelled s1 "advance(non-int string)")
        | _ => (none, unmodelled s1 "advance: argument")
      | _ => (none, unmodelled s "advance: arity")
    else if name == "last" then
      let m := env.isLastLine || env.scanIsLast
      if m then
        match args with
        | [] => (some true, s)
        | [a] =>
          let s1 := emit s (.freeze false)
          let (_, s2) := evalM fuel env a s1
          (some true, emit s2 (.freeze true))
        | _ => (none, unmodelled s "last: arity")
      else (some false, s)
    else if name == "firstline" || name == "firstscan" then
      let m := if name == "firstscan" then env.scanCount == 1 else env.dataNumber == 0
      if m then
        match args with
        | [] => (some true, s)
        | [a] => let (_, s1) := evalM fuel env a s; (some true, s1)
        | _ => (none, unmodelled s "firstline: arity")
      else (some false, s)
    else if name == "fail" then (dflt, emit s .invalid)
    else if name == "failed" then (some (!s.v.valid), s)
    else if name == "valid" then (some s.v.valid, s)
    else if name == "print" then
      if q.contains "once" then (none, unmodelled s "print.once")
      else
        match args with
        | [a] =>
          let (x, s1) := evalV fuel env a s
          match x with
          | .str t =>
            if t.contains '$' then
              -- references are resolved against what the run holds at this point of this line
              let penv : Model.Print.PEnv :=
                { vars := s1.v.vars.map (fun p => (Value.str p.1, p.2)), headers := env.headers, line := env.line,
                  metadata := env.pmeta,
                  fields := env.pstatic ++
                    [(.str "count_lines", .int (env.idx + 1)), (.str "line_number", .int env.idx),
                     (.str "count_scans", .int env.scanCount), (.str "count_matches", .int env.matchCount),
                     (.str "valid", .bool s1.v.valid), (.str "stopped", .bool s1.v.stopped)] }
              match Model.Print.printWith penv t with
              | .printed out => (dflt, emit s1 (.print out))
              | .error => (none, unmodelled s1 "print: the print string does not parse (an error, C05)")
              | .unmodelled w => (none, unmodelled s1 w)
            else
              -- the template parser returns the text with its own trailing blank, which print() drops
              (dflt, emit s1 (.print t))
          | _ => (none, unmodelled s1 "print: non-string")
        | _ => (none, unmodelled s "print with a second argument")
    else (none, unmodelled s ("function not in the model: " ++ name))

/-- `_produce_value` -/
def produceFn : Nat → Env → Nat → String → List String → List Node → ES → Value × ES
  | 0, _, _, _, _, _, s => (.none, unmodelled s "fuel")
  | fuel + 1, env, id, name, q, args, s =>
    let viaMatch :=
      let (m, s1) := evalM fuel env (.fn id name q args) s
      ((match m with | some b => Value.bool b | none => Value.none), s1)
    if ["yes", "true", "no", "false", "not", "and", "or", "exists", "empty", "in", "gt", "above", "after", "gte", "lt",
        "below", "before", "lte", "equals", "eq", "between", "inside", "from_to", "range", "beyond", "outside", "last",
        "firstline", "firstscan", "fail", "failed", "valid"].contains name then viaMatch
    else if name == "concat" then
      let (out, s1) := args.foldl (fun (acc : String × ES) a =>
          let (x, sa) := evalV fuel env a acc.2
          let (f, sb) := fmt sa x
          (acc.1 ++ f, sb)) ("", s)
      (.str out, s1)
    else if name == "length" then
      match args with
      | [a] =>
        let (x, s1) := evalV fuel env a s
        if truthy x then
          let (f, s2) := fmt s1 x
          (.int f.length, s2)
        else (.int 0, s1)
      | _ => (.none, unmodelled s "length: arity")
    else if name == "lower" || name == "upper" || name == "strip" then
      match args with
      | [a] =>
        let (x, s1) := evalV fuel env a s
        let (f, s2) := fmt s1 x
        if name == "strip" then (.str (Model.PyStr.strip f), s2)
        else if !isAscii f then (.none, unmodelled s2 "lower/upper of non-ASCII text")
        else (.str (if name == "lower" then lowerAscii f else upperAscii f), s2)
      | _ => (.none, unmodelled s "lower/upper/strip: arity")
    else if name == "starts_with" then
      match args with
      | [a, b] =>
        let (x, s1) := evalV fuel env a s
        let (y, s2) := evalV fuel env b s1
        let (fx, s3) := fmt s2 x
        let (fy, s4) := fmt s3 y
        (.bool ((Model.PyStr.strip fy).toList.isPrefixOf (Model.PyStr.strip fx).toList), s4)
      | _ => (.none, unmodelled s "starts_with: arity")
    else if name == "min_length" || name == "too_long" || name == "max_length" || name == "too_short" then
      match args with
      | [a, b] =>
        let (x, s1) := evalV fuel env a s
        let (y, s2) := evalV fuel env b s1
        match x, toInt y with
        | .str t, .ok n =>
          let len : Int := t.length
          (.bool (if name == "min_length" || name == "too_long" then decide (len ≥ n) else decide (len ≤ n)), s2)
        | _, _ => (.none, unmodelled s2 "min/max_length of a non-string")
      | _ => (.none, unmodelled s "min/max_length: arity")
    else if name == "add" then
      let r := args.foldl (fun (acc : Option Int × ES) a =>
          let (x, sa) := evalV fuel env a acc.2
          let x' := if isNone x then Value.int 0 else x
          match acc.1, pyFloat x' with
          | some t, .ok v => (some (t + v), sa)
          | _, .unmodelled w => (none, unmodelled sa w)
          | none, _ => (none, sa)) (some 0, s)
      ((match r.1 with | some t => .flt t | none => .none), r.2)
    else if name == "subtract" || name == "minus" then
      match args with
      | [.term _ x] =>
        (match x with
         | .int i => (.int (-i), s)
         | .flt i => (.int (-i), s)
         | .str t => (match parseIntegral t with
            | some (i, false) => (.int (-i), s)
            | _ => (.none, unmodelled s "minus(non-int string)"))
         | _ => (.none, unmodelled s "minus: argument"))
      | [_] => (.none, s)      -- a single non-term child: neither branch of `_produce_value` applies
      | a :: rest =>
        let (x, s1) := evalV fuel env a s
        rest.foldl (fun (acc : Value × ES) b =>
            let (y, sb) := evalV fuel env b acc.2
            match pyFloat acc.1, pyFloat y with
            | .ok p, .ok r => (.flt (p - r), sb)
            | .unmodelled w, _ => (.none, unmodelled sb w)
            | _, .unmodelled w => (.none, unmodelled sb w)) (x, s1)
      | [] => (.none, unmodelled s "subtract: arity")
    else if name == "multiply" then
      let r := args.foldl (fun (acc : Value × ES × Nat × Bool) a =>
          if acc.2.2.2 then acc
          else
            let (x, sa) := evalV fuel env a acc.2.1
            if x == .none then (.int 0, sa, acc.2.2.1 + 1, true)
            else if acc.2.2.1 == 0 then (x, sa, 1, false)
            else
              match pyFloat x, pyFloat acc.1 with
              | .ok p, .ok r => (.flt (p * r), sa, acc.2.2.1 + 1, false)
              | .unmodelled w, _ => (.none, unmodelled sa w, acc.2.2.1 + 1, true)
              | _, .unmodelled w => (.none, unmodelled sa w, acc.2.2.1 + 1, true)) (.int 0, s, 0, false)
      (r.1, r.2.1)
    else if name == "int" then
      match args with
      | [a] =>
        let (x, s1) := evalV fuel env a s
        if x == .none then (.none, s1)
        else match toInt x with
          | .ok i => (.int i, s1)
          | .unmodelled w => (.none, unmodelled s1 w)
      | _ => (.none, unmodelled s "int: arity")
    else if name == "count" then
      match args with
      | [] => (.int (env.matchCount + 1), s)
      | [a] =>
        -- count.name(x): one counter per value of x (for an equality: True / False), under the name qualifier
        (match a, firstNonTerm q with
         | .eq _ _ _ _, some cname | .fn _ _ _ _, some cname =>
           let (tracked, s1) := evalV fuel env a s
           let (cur, s2) := getVariable s1 cname (some tracked) (some (.int 0))
           (match cur with
            | .int c => (.int (c + 1), setVariable s2 cname (some tracked) (.int (c + 1)))
            | _ => (.none, unmodelled s2 "count(x) on a non-int counter"))
         | _, _ => (.none, unmodelled s "count(x) without a name qualifier, or x not a function or equality"))
      | _ => (.none, unmodelled s "count(x, y)")
    else if name == "count_lines" then (.int env.dataCount, s)
    else if name == "line_number" then (.int env.idx, s)
    else if name == "count_scans" then (.int env.scanCount, s)
    else if name == "total_lines" then (.int env.dataEndCount, s)
    else if name == "count_headers" then (.int env.headers.length, s)
    else if name == "count_headers_in_line" then (.int env.line.length, s)
    else if name == "counter" then
      match firstNonTerm q with
      | none => (.none, unmodelled s "counter without a name qualifier")
      | some cname =>
        let inc : Value × ES := match args with
          | [] => (.none, s)
          | [a] => evalV fuel env a s
          | _ => (.none, unmodelled s "counter: arity")
        let (cur, s2) := getVariable inc.2 cname none (some (.int 0))
        match cur, (if inc.1 == .none then R.ok (1 : Int) else toInt inc.1) with
        | .int c, .ok d => let s3 := setVariable s2 cname none (.int (c + d)); (.int (c + d), s3)
        | _, _ => (.none, unmodelled s2 "counter on a non-int variable")
    else if name == "first" then
      -- first.py: the line number of the first sighting of the (stringified) value; None on a first sighting
      if args.isEmpty then (.none, unmodelled s "first: arity")
      else
        let (txt, s1) := args.foldl (fun (acc : String × ES) a =>
            let (x, sa) := evalV fuel env a acc.2
            let (f, sb) := fmt sa x
            (acc.1 ++ f, sb)) ("", s)
        let key := Value.str (Model.PyStr.strip txt)
        let myId := (firstNonTerm q).getD name
        let (v, s2) := getVariable s1 myId (some key) none
        if v == .none then (.none, setVariable s2 myId (some key) (.int env.idx))
        else (v, s2)
    else if name == "tally" then
      -- tally.py: one counter per sibling and value, plus one for the combination
      let base := (firstNonTerm q).getD "tally"
      let store := fun (st : ES) (nm : String) (txt : String) =>
        let vname := if nm == "" then base else base ++ "_" ++ nm
        if Model.PyStr.strip txt == "" then st
        else
          let (cnt, st1) := getVariable st vname (some (.str txt)) none
          match (if cnt == .none then some (0 : Int) else match cnt with | .int c => some c | _ => none) with
          | some c => setVariable st1 vname (some (.str txt)) (.int (c + 1))
          | none => unmodelled st1 "tally on a non-int counter"
      let nameOf := fun (n : Node) => match n with
        | .header _ (.name h) _ => some h
        | .header _ (.index i) _ => some (toString i)
        | .var _ v _ => some v
        | .fn _ f _ _ => some f
        | _ => none
      let r := args.foldl (fun (acc : String × ES) a =>
          let (x, sa) := evalV fuel env a acc.2
          let (f, sb) := fmt sa x
          match nameOf a with
          | some nm => (acc.1 ++ f ++ "|", store sb nm f)
          | none => (acc.1, unmodelled sb "tally of a term or equality")) ("", s)
      let s2 := if args.length > 1 then store r.2 "" (String.ofList (r.1.toList.dropLast)) else r.2
      (.bool true, s2)
    else if name == "sum" then
      match args with
      | [a] =>
        let vname := (firstNonTerm q).getD name
        let (cur, s1) := getVariable s vname none (some (.int 0))
        let (x, s2) := evalV fuel env a s1
        let add : R (Int × Bool) := if isNone x then .ok (0, false) else match pyFloat x with
          | .ok v => .ok (v, true)
          | .unmodelled w => .unmodelled w
        (match cur, add with
         | .int c, .ok (v, isf) => let r := if isf then Value.flt (c + v) else Value.int (c + v); (r, setVariable s2 vname none r)
         | .flt c, .ok (v, _) => let r := Value.flt (c + v); (r, setVariable s2 vname none r)
         | _, .unmodelled w => (.none, unmodelled s2 w)
         | _, _ => (.none, unmodelled s2 "sum on a non-number variable"))
      | _ => (.none, unmodelled s "sum: arity")
    else if name == "subtotal" then
      match args with
      | [a, b] =>
        let vname := (firstNonTerm q).getD name
        let (t, s1) := evalV fuel env a s
        let (c, s2) := evalV fuel env b s1
        if t == .none then (.none, unmodelled s2 "subtotal by None")
        else
          let (cur, s3) := getVariable s2 vname (some t) (some (.int 0))
          let add : R Int := if c == .none then .ok 0 else match c with
            | .str txt => if Model.PyStr.strip txt == "" then .ok 0 else pyFloat c
            | _ => pyFloat c
          (match cur, add with
           | .int k, .ok v => let r := Value.flt (k + v); (r, setVariable s3 vname (some t) r)
           | .flt k, .ok v => let r := Value.flt (k + v); (r, setVariable s3 vname (some t) r)
           | _, .unmodelled w => (.none, unmodelled s3 w)
           | _, _ => (.none, unmodelled s3 "subtotal on a non-number variable"))
      | _ => (.none, unmodelled s "subtotal: arity")
    else if name == "every" then
      match firstNonTerm q, args with
      | some ename, [a, b] =>
        if q.length != 1 then (.none, unmodelled s "every with several qualifiers")
        else
          let (tracked, s1) := evalV fuel env a s
          let (cur, s2) := getVariable s1 ename (some tracked) (some (.int 0))
          match cur with
          | .int c =>
            let s3 := setVariable s2 ename (some tracked) (.int (c + 1))
            let (ev, s4) := evalV fuel env b s3
            (match toInt ev with
             | .ok n => if n > 0 then (.int ((c + 1) % n), s4) else (.none, unmodelled s4 "every(x, n<=0)")
             | .unmodelled w => (.none, unmodelled s4 w))
          | _ => (.none, unmodelled s2 "every on a non-int counter")
      | _, _ => (.none, unmodelled s "every without a name qualifier")
    else if name == "push" || name == "push_distinct" || name == "stop" || name == "fail_and_stop" || name == "skip"
        || name == "advance" || name == "print" then (.none, s)
    else if name == "pop" then
      match args with
      | [a] =>
        let (k, s1) := evalV fuel env a s
        match k with
        | .str key =>
          let (stack, s2) := getVariable s1 key none (some (.list []))
          match stack with
          | .list xs =>
            (match xs.getLast? with
             | some top => (top, setVariable s2 key none (.list xs.dropLast))
             | none => (.none, s2))
          | _ => (.none, unmodelled s2 "pop from a non-list variable")
        | _ => (.none, unmodelled s1 "pop: non-string name")
      | _ => (.none, unmodelled s "pop: arity")
    else if name == "peek" then
      match args with
      | [a, b] =>
        let (k, s1) := evalV fuel env a s
        let (iv, s2) := evalV fuel env b s1
        match k, iv with
        | .str key, .int i =>
          let (stack, s3) := getVariable s2 key none (some (.list []))
          match stack with
          | .list xs =>
            if i ≥ 0 then ((xs[i.toNat]?).getD .none, s3)
            else if (-i).toNat ≤ xs.length then ((xs[xs.length - (-i).toNat]?).getD .none, s3)
            else (.none, unmodelled s3 "peek: negative index out of range")
          | _ => (.none, unmodelled s3 "peek on a non-list variable")
        | _, _ => (.none, unmodelled s2 "peek: arguments")
      | _ => (.none, unmodelled s "peek: arity")
    else if name == "stack" then
      match args with
      | [a] =>
        let (k, s1) := evalV fuel env a s
        match k with
        | .str key =>
          let (stack, s2) := getVariable s1 key none (some (.list []))
          match stack with
          | .list _ => (stack, s2)
          | other => let w := Value.list [other]; (w, setVariable s2 key none w)
        | _ => (.none, unmodelled s1 "stack: non-string name")
      | _ => (.none, unmodelled s "stack: arity")
    else if name == "get" then
      match args with
      | [a] =>
        let (k, s1) := evalV fuel env a s
        match k with
        | .str key => let (x, s2) := getVariable s1 key none none; (x, s2)
        | _ => (.none, unmodelled s1 "get: non-string name")
      | [a, b] =>
        let (k, s1) := evalV fuel env a s
        let (t, s2) := evalV fuel env b s1
        match k with
        | .str key =>
          let (x, s3) := getVariable s2 key none none
          (match x, t with
           | .none, _ => (.none, s3)
           | .list xs, .int i => (if i ≥ 0 then (xs[i.toNat]?).getD .none else .none, s3)
           | .dict kv, _ => ((dictGet kv t).getD .none, s3)
           | _, _ => (.none, s3))
        | _ => (.none, unmodelled s2 "get: non-string name")
      | _ => (.none, unmodelled s "get: arity")
    else if name == "put" then
      match args with
      | [a, b] =>
        let (k, s1) := evalV fuel env a s
        let (x, s2) := evalV fuel env b s1
        (match k with
         | .str key => (.none, setVariableA s2 key none x)
         | _ => (.none, unmodelled s2 "put: non-string name"))
      | [a, b, c] =>
        let (k, s1) := evalV fuel env a s
        let (t, s2) := evalV fuel env b s1
        let (x, s3) := evalV fuel env c s2
        (match k with
         | .str key => (.none, setVariableA s3 key (some t) x)
         | _ => (.none, unmodelled s3 "put: non-string name"))
      | _ => (.none, unmodelled s "put: arity")
    else (.none, unmodelled s ("function not in the model: " ++ name))

end

end Model.Interp
