/-
  Python values as the match components see them, and the helpers of
  csvpath/matching/util/expression_utility.py on them.  `float` is modelled only at integral
  values (`flt i` = `i.0`); anything that would leave that domain answers `unmodelled`.
  Import-free.
-/
import Model.PyStr

namespace Model.Val
open Model.PyStr

inductive Value where
  | none
  | bool (b : Bool)
  | int (i : Int)
  | flt (i : Int)                     -- the float i.0
  | str (s : String)
  | list (xs : List Value)
  | dict (kv : List (Value × Value))   -- tracking variables
  deriving Repr, Inhabited

/-- results of operations that can leave the modelled domain or raise in Python -/
inductive R (α : Type) where
  | ok (a : α)
  | unmodelled (why : String)
  deriving Repr, Inhabited

instance : Monad R where
  pure := R.ok
  bind x f := match x with
    | .ok a => f a
    | .unmodelled w => .unmodelled w

mutual
  def Value.beq : Value → Value → Bool
    | .none, .none => true
    | .bool a, .bool b => a == b
    | .int a, .int b => a == b
    | .flt a, .flt b => a == b
    | .str a, .str b => a == b
    | .list a, .list b => Value.beqList a b
    | .dict a, .dict b => Value.beqDict a b
    | _, _ => false
  def Value.beqList : List Value → List Value → Bool
    | [], [] => true
    | x :: xs, y :: ys => Value.beq x y && Value.beqList xs ys
    | _, _ => false
  def Value.beqDict : List (Value × Value) → List (Value × Value) → Bool
    | [], [] => true
    | (k, v) :: xs, (k', v') :: ys => Value.beq k k' && Value.beq v v' && Value.beqDict xs ys
    | _, _ => false
end

instance : BEq Value := ⟨Value.beq⟩

/-- Python `==` between the modelled values (numbers compare across int/float/bool) -/
def pyEq : Value → Value → Bool
  | .int a, .flt b => a == b
  | .flt a, .int b => a == b
  | .bool a, .int b => (if a then 1 else 0) == b
  | .int a, .bool b => a == (if b then 1 else 0)
  | .bool a, .flt b => (if a then 1 else 0) == b
  | .flt a, .bool b => a == (if b then 1 else 0)
  | a, b => a == b

/-- `f"{v}"` for scalars; lists and dicts only when they hold plain scalars without quotes -/
def fmtScalar : Value → Option String
  | .none => some "None"
  | .bool true => some "True"
  | .bool false => some "False"
  | .int i => some (toString i)
  | .flt i => some (toString i ++ ".0")
  | .str s => some s
  | _ => Option.none

def reprScalar : Value → Option String
  | .str s => if s.contains '\'' || s.contains '\\' || s.contains '\n' then Option.none else some ("'" ++ s ++ "'")
  | v => fmtScalar v

def pyFormat : Value → R String
  | .list xs =>
    match xs.mapM reprScalar with
    | some parts => .ok ("[" ++ ", ".intercalate parts ++ "]")
    | Option.none => .unmodelled "repr of a nested or quoted list"
  | .dict _ => .unmodelled "repr of a dict"
  | v => match fmtScalar v with
    | some s => .ok s
    | Option.none => .unmodelled "format"

/-- Python truthiness -/
def truthy : Value → Bool
  | .none => false
  | .bool b => b
  | .int i => i != 0
  | .flt i => i != 0
  | .str s => s != ""
  | .list xs => !xs.isEmpty
  | .dict kv => !kv.isEmpty

/-- `ExpressionUtility.is_none` -/
def isNone : Value → Bool
  | .none => true
  | .str s => s == "None" || s == "nan" || isBlank s
  | _ => false

/-- `ExpressionUtility.is_empty` -/
partial def isEmptyV : Value → Bool
  | .list xs => xs.isEmpty || xs.all isEmptyV
  | .dict kv => kv.isEmpty
  | v => isNone v

def lowerAscii (s : String) : String :=
  String.ofList (s.toList.map (fun c => if 'A' ≤ c ∧ c ≤ 'Z' then Char.ofNat (c.toNat + 32) else c))

def upperAscii (s : String) : String :=
  String.ofList (s.toList.map (fun c => if 'a' ≤ c ∧ c ≤ 'z' then Char.ofNat (c.toNat - 32) else c))

def isAscii (s : String) : Bool := s.toList.all (fun c => c.toNat < 128)

/-- `ExpressionUtility.asbool` -/
def asbool : Value → Bool
  | .none => false
  | .bool b => b
  | .int i => i != 0
  | .flt i => i != 0
  | .list xs => xs.isEmpty || true      -- [] is True by the `in [True, [], (), {}]` test, non-empty by bool()
  | .dict _ => true
  | .str s =>
    let t := lowerAscii (strip s)
    if t == "false" then false
    else if strip s == "nan" || strip s == "NaN" then false
    else if t == "true" then true
    else s != ""

/-- an integer literal as `int()`/`float()` read it: optional sign, digits, optional `.0…`;
    surrounding blanks ignored.  Returns (value, written with a dot) -/
def parseIntegral (s : String) : Option (Int × Bool) :=
  let cs := (strip s).toList
  let (neg, ds) := match cs with
    | '-' :: r => (true, r)
    | '+' :: r => (false, r)
    | r => (false, r)
  let ip := ds.takeWhile Char.isDigit
  let rest := ds.dropWhile Char.isDigit
  if ip.isEmpty then Option.none
  else
    let n : Int := ip.foldl (fun a c => a * 10 + (c.toNat - 48)) 0
    let v := if neg then -n else n
    match rest with
    | [] => some (v, false)
    | '.' :: zs => if zs.all (· == '0') then some (v, true) else Option.none
    | _ => Option.none

/-- Python `float(v)`, integral results only -/
def pyFloat : Value → R Int
  | .int i => .ok i
  | .flt i => .ok i
  | .bool b => .ok (if b then 1 else 0)
  | .str s => match parseIntegral s with
    | some (v, _) => .ok v
    | Option.none => .unmodelled "float() of a non-integral or non-numeric string"
  | _ => .unmodelled "float() of a non-scalar"

/-- can `float(v)` succeed at all? (used where the code catches ValueError); none = cannot tell -/
def floatable : Value → Option Bool
  | .int _ => some true
  | .flt _ => some true
  | .bool _ => some true
  | .str s =>
    match parseIntegral s with
    | some _ => some true
    | Option.none =>
      -- clearly not a number: no digit at all (and not inf/nan spellings)
      let t := lowerAscii (strip s)
      if t.toList.any Char.isDigit || t == "inf" || t == "-inf" || t == "nan" || t == "infinity" || t == "+inf" then Option.none
      else some false
  | .none => some false
  | _ => some false

/-- `ExpressionUtility.to_int`, integral results only -/
def toInt : Value → R Int
  | .none => .ok 0
  | .bool b => .ok (if b then 1 else 0)
  | .int i => .ok i
  | .flt i => .ok i
  | .str s =>
    if isBlank s then .ok 0
    else match parseIntegral s with
      | some (v, _) => .ok v
      | Option.none => .unmodelled "to_int of a string that is not a plain integral number"
  | _ => .unmodelled "to_int of a non-scalar"

end Model.Val
