/-
  Model of Python's `csv` module as `CsvDataReader.next` uses it (csvpath/util/file_readers.py):
  `open(path, "r", encoding="utf-8")` — text mode with universal newlines — handed to
  `csv.reader(file, delimiter=…, quotechar=…)`, everything else at the dialect defaults
  (doublequote, no escapechar, no skipinitialspace, QUOTE_MINIMAL, strict off).  The reader is the
  state machine of `Modules/_csv.c` (`parse_process_char`, `Reader_iternext`), the writer is
  `csv.writer(f, delimiter, quotechar, lineterminator="\n")` (`join_append_data`, `csv_writerow`),
  which is how the property's quantifier produces its files.  Import-free.
-/
namespace Model.Csv

abbrev Cell := List Char
abbrev Rec := List Cell

structure Dialect where
  delim : Char
  quote : Char
  /-- `csv.field_size_limit()` -/
  limit : Nat
  deriving Repr

inductive PState where
  | startRecord | startField | inField | inQuoted | quoteInQuoted | eatCrnl
  deriving DecidableEq, Repr

/-- parser state of one `Reader`: `field` is the field being built (reversed), `fields` the
    fields saved for the current record (reversed), `bad` = `csv.Error` was raised -/
structure RState where
  st : PState := .startRecord
  field : List Char := []
  fields : List Cell := []
  bad : Bool := false
  deriving Repr

def isNL (c : Char) : Bool := c == '\n' || c == '\r'

/-- `parse_save_field` -/
def saveField (s : RState) : RState := { s with fields := s.field.reverse :: s.fields, field := [] }

/-- `parse_add_char`: "field larger than field limit" -/
def addChar (d : Dialect) (s : RState) (c : Char) : RState :=
  if s.field.length < d.limit then { s with field := c :: s.field } else { s with bad := true }

def startFieldStep (d : Dialect) (s : RState) : Option Char → RState
  | none => { saveField s with st := .startRecord }
  | some c =>
    if isNL c then { saveField s with st := .eatCrnl }
    else if c == d.quote then { s with st := .inQuoted }
    else if c == d.delim then saveField s
    else { addChar d s c with st := .inField }

/-- `parse_process_char`; `none` is the EOL the reader feeds after every line -/
def step (d : Dialect) (s : RState) (i : Option Char) : RState :=
  match s.st with
  | .startRecord =>
    match i with
    | none => s
    | some c => if isNL c then { s with st := .eatCrnl } else startFieldStep d { s with st := .startField } i
  | .startField => startFieldStep d s i
  | .inField =>
    match i with
    | none => { saveField s with st := .startRecord }
    | some c =>
      if isNL c then { saveField s with st := .eatCrnl }
      else if c == d.delim then { saveField s with st := .startField }
      else addChar d s c
  | .inQuoted =>
    match i with
    | none => s
    | some c => if c == d.quote then { s with st := .quoteInQuoted } else addChar d s c
  | .quoteInQuoted =>
    match i with
    | none => { saveField s with st := .startRecord }
    | some c =>
      if c == d.quote then { addChar d s c with st := .inQuoted }
      else if c == d.delim then { saveField s with st := .startField }
      else if isNL c then { saveField s with st := .eatCrnl }
      else { addChar d s c with st := .inField }
  | .eatCrnl =>
    match i with
    | none => { s with st := .startRecord }
    | some c => if isNL c then s else { s with bad := true }

/-- the reader over the character stream of the file: `out` = records returned so far (reversed),
    `pending` = characters seen since the last line end -/
structure Acc where
  s : RState := {}
  out : List Rec := []
  pending : Bool := false
  deriving Repr

/-- the EOL after a line, and `Reader_iternext` returning the record when the state is back at
    START_RECORD (then `parse_reset`) -/
def endLine (d : Dialect) (a : Acc) : Acc :=
  let s2 := step d a.s none
  if s2.st = .startRecord then { s := { bad := s2.bad }, out := s2.fields.reverse :: a.out, pending := false }
  else { a with s := s2, pending := false }

def feed (d : Dialect) (a : Acc) (c : Char) : Acc :=
  let a1 := { a with s := step d a.s (some c), pending := true }
  if c == '\n' then endLine d a1 else a1

/-- end of input: a last line without a line end still gets its EOL; then "End of input":
    a field under construction or an open quoted field is saved and the record returned -/
def finish (d : Dialect) (a : Acc) : Option (List Rec) :=
  let a1 := if a.pending then endLine d a else a
  let out := if a1.s.field ≠ [] ∨ a1.s.st = .inQuoted then (saveField a1.s).fields.reverse :: a1.out else a1.out
  if a1.s.bad then none else some out.reverse

/-- text mode with `newline=None`: `\r\n` and `\r` arrive as `\n` -/
def universal : List Char → List Char
  | [] => []
  | '\r' :: '\n' :: cs => '\n' :: universal cs
  | '\r' :: cs => '\n' :: universal cs
  | c :: cs => c :: universal cs

/-- all records `csv.reader` yields for a file with this text; `none` = `csv.Error` -/
def read (d : Dialect) (text : List Char) : Option (List Rec) :=
  finish d ((universal text).foldl (feed d) {})

/-! the writer -/

/-- QUOTE_MINIMAL: a field is quoted when it holds the delimiter, the quote character or a
    character of the line terminator -/
def needsQuote (d : Dialect) (cell : Cell) : Bool :=
  cell.any (fun c => c == d.delim || c == d.quote || c == '\n')

def escape (d : Dialect) : Cell → List Char
  | [] => []
  | c :: cs => if c == d.quote then c :: c :: escape d cs else c :: escape d cs

def encCell (d : Dialect) (cell : Cell) : List Char :=
  if needsQuote d cell then d.quote :: (escape d cell ++ [d.quote]) else cell

def encCells (d : Dialect) : List Cell → List Char
  | [] => ['\n']
  | [c] => encCell d c ++ ['\n']
  | c :: cs => encCell d c ++ d.delim :: encCells d cs

/-- `writerow`: an empty row is a blank line; a row of one empty field is written `""` -/
def encRecord (d : Dialect) : Rec → List Char
  | [] => ['\n']
  | [[]] => [d.quote, d.quote, '\n']
  | cs => encCells d cs

def render (d : Dialect) (recs : List Rec) : List Char := recs.flatMap (encRecord d)

/-! the writer with its default line terminator `"\r\n"` (as `csv.writer(buf)` in file_cacher.py):
    a carriage return in a cell is then a character of the line terminator and quotes the cell -/

def needsQuoteCRLF (d : Dialect) (cell : Cell) : Bool :=
  cell.any (fun c => c == d.delim || c == d.quote || c == '\r' || c == '\n')

def encCellCRLF (d : Dialect) (cell : Cell) : List Char :=
  if needsQuoteCRLF d cell then d.quote :: (escape d cell ++ [d.quote]) else cell

def encCellsCRLF (d : Dialect) : List Cell → List Char
  | [] => ['\r', '\n']
  | [c] => encCellCRLF d c ++ ['\r', '\n']
  | c :: cs => encCellCRLF d c ++ d.delim :: encCellsCRLF d cs

def encRecordCRLF (d : Dialect) : Rec → List Char
  | [] => ['\r', '\n']
  | [[]] => [d.quote, d.quote, '\r', '\n']
  | cs => encCellsCRLF d cs

def renderCRLF (d : Dialect) (recs : List Rec) : List Char := recs.flatMap (encRecordCRLF d)

end Model.Csv
