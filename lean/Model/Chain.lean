/-
  Model of data and value flow between csvpaths (csvpath/csvpaths.py `_load_csvpath` with
  `source-mode: preceding`; `ResultsManager.get_variables`; `Reference._variable_value` /
  `_get_value_from_results`).  Members are parametric in their matcher.  Import-free.
-/
import Model.RunLoop

namespace Model.Chain
open Model.Scan Model.Run

/-- a stage of a serial named-paths run -/
structure Stage (σ : Type) where
  m : MatcherSem σ
  scan : St
  cfg : Cfg := {}
  init : σ
  preceding : Bool := false     -- source-mode: preceding

/-- the lines a stage collects from an input -/
def stageLines {σ} (s : Stage σ) (input : List Rec) : List Rec :=
  (collectRun s.m s.scan s.cfg input { ms := s.init }).1

/-- a serial run: every stage reads the origin file, or — with source-mode preceding — the
    data.csv of the stage before it.  Returns what each stage read and what it collected. -/
def serialChain {σ} (origin : List Rec) : List (Stage σ) → Option (List Rec) → List (List Rec × List Rec)
  | [], _ => []
  | s :: rest, prev =>
    let input := match s.preceding, prev with
      | true, some p => p
      | _, _ => origin
    let out := stageLines s input
    (input, out) :: serialChain origin rest (some out)

/-- `ResultsManager.get_variables`: `{**r.variables, **vs}` over the members in order — the first
    member that has a name wins -/
def mergeVars {ν : Type} (members : List (List (String × ν))) : List (String × ν) :=
  members.foldl (fun vs r => vs ++ r.filter (fun kv => !(vs.any (·.1 == kv.1)))) []

def lookupVar {ν : Type} (vs : List (String × ν)) (name : String) : Option ν :=
  (vs.find? (·.1 == name)).map (·.2)

/-- `_get_value_from_results`: the stripped cells under header index i of the collected lines -/
def headerValues (strip : String → String) (i : Nat) (lines : List Rec) : List String :=
  lines.filterMap (fun l => if l.length > i then some (strip (l.getD i "")) else none)

end Model.Chain
