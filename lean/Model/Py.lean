import Model.PyStr
/-
  Py — the run-time prelude of the source translator (tools/py2lean.py).

  The translator turns selected Python functions of /repo (decision cores: no loops, no I/O) into
  Lean definitions on every run (lean/Generated/Core*.lean).  The emitted definitions are written
  against this file only:

  * `V`   — the Python values the cores handle (None, bool, int, str, list of int, list of str) plus
            `exc n`, an exception of class `n` travelling as a value through *pure* expressions
            (every operator is strict in it; `and`/`or`/conditional expressions are lazy exactly as
            in Python, which is sound because the translated expressions have no side effects);
  * `Res` — what a statement list ends in: a returned value or a raised exception, each with the
            effects (`Eff`) performed so far, in order.  Effects are the calls and attribute
            writes the per-core configuration of the translator names (e.g. `set_variable`,
            `self._csvpath.stopped = …`); logging and explain-mode calls are dropped.
  * `Env` — reads of `self.<path>`, of zero-argument observer calls such as
            `self.default_match()`, and of constant-key subscripts of a record parameter.

  The operators below are a transcription of CPython's behaviour on this value domain; they are
  compared with the real interpreter by the `pyops` suite on every run.  Import-free.
-/
namespace Py

inductive V where
  | none
  | bool (b : Bool)
  | int (i : Int)
  | str (s : String)
  | ints (xs : List (Option Int))   -- a list of ints and Nones (the scanner's `these`)
  | strs (xs : List String)
  | exc (name : String)
  deriving Repr, DecidableEq, Inhabited

abbrev Env := String → V

structure Eff where
  name : String
  args : List V
  deriving Repr, DecidableEq, Inhabited

inductive Res where
  | ok (v : V) (effs : List Eff)
  | raised (exc : String) (effs : List Eff)
  deriving Repr, DecidableEq, Inhabited

/-- `bool(v)` -/
def truthy : V → Bool
  | .none => false
  | .bool b => b
  | .int i => i != 0
  | .str s => s != ""
  | .ints xs => !xs.isEmpty
  | .strs xs => !xs.isEmpty
  | .exc _ => false

def isExc : V → Bool
  | .exc _ => true
  | _ => false

/-- numbers: bool is a subclass of int -/
def num? : V → Option Int
  | .bool b => some (if b then 1 else 0)
  | .int i => some i
  | _ => Option.none

/-- `a == b` as a Lean Bool (no exception on this domain) -/
def eqb (a b : V) : Bool :=
  match num? a, num? b with
  | some x, some y => x == y
  | _, _ =>
    match a, b with
    | .none, .none => true
    | .str x, .str y => x == y
    | .ints x, .ints y => x == y
    | .strs x, .strs y => x == y
    | .ints x, .strs y => x.isEmpty && y.isEmpty
    | .strs x, .ints y => x.isEmpty && y.isEmpty
    | _, _ => false

/-- strictness in exceptions for binary operators -/
@[inline] def strict2 (a b : V) (f : V → V → V) : V :=
  match a with
  | .exc n => .exc n
  | _ => match b with
    | .exc n => .exc n
    | _ => f a b

def eq (a b : V) : V := strict2 a b fun a b => .bool (eqb a b)
def ne (a b : V) : V := strict2 a b fun a b => .bool (!eqb a b)

/-- `a is b` for the operands the cores use: None, True, False and small ints/strings
    (identity of a constant); a bool is never identical to an int -/
def isb (a b : V) : Bool :=
  match a, b with
  | .none, .none => true
  | .bool x, .bool y => x == y
  | .int x, .int y => x == y
  | .str x, .str y => x == y
  | _, _ => false

def is_ (a b : V) : V := strict2 a b fun a b => .bool (isb a b)
def isnot (a b : V) : V := strict2 a b fun a b => .bool (!isb a b)

/-- ordering: numbers with numbers, strings with strings, anything else is a TypeError -/
def cmp (fi : Int → Int → Bool) (fs : String → String → Bool) (a b : V) : V :=
  strict2 a b fun a b =>
    match num? a, num? b with
    | some x, some y => .bool (fi x y)
    | _, _ =>
      match a, b with
      | .str x, .str y => .bool (fs x y)
      | _, _ => .exc "TypeError"

def lt := cmp (fun x y => decide (x < y)) (fun x y => decide (x < y))
def le := cmp (fun x y => decide (x ≤ y)) (fun x y => decide (x ≤ y))
def gt := cmp (fun x y => decide (x > y)) (fun x y => decide (x > y))
def ge := cmp (fun x y => decide (x ≥ y)) (fun x y => decide (x ≥ y))

def not_ (a : V) : V :=
  match a with
  | .exc n => .exc n
  | a => .bool (!truthy a)

/-- `s.strip()` (CPython's whitespace table, `Model.PyStr`) -/
def strip_ (a : V) : V :=
  match a with
  | .exc n => .exc n
  | .str s => .str (Model.PyStr.strip s)
  | .none => .exc "AttributeError"
  | _ => .exc "AttributeError"

/-- index of the first occurrence of `xs` in `ys`, from position `i` -/
def findFrom (xs : List Char) : List Char → Nat → Option Nat
  | [], i => if xs.isEmpty then some i else Option.none
  | y :: ys, i => if xs.isPrefixOf (y :: ys) then some i else findFrom xs ys (i + 1)

/-- `s.find(sub)` -/
def find_ (a b : V) : V :=
  match a, b with
  | .exc n, _ => .exc n
  | _, .exc n => .exc n
  | .str s, .str t => match findFrom t.toList s.toList 0 with
    | some i => .int i
    | Option.none => .int (-1)
  | .str _, _ => .exc "TypeError"
  | _, _ => .exc "AttributeError"

/-- `bool(a)` -/
def bool_ (a : V) : V :=
  match a with
  | .exc n => .exc n
  | a => .bool (truthy a)

/-- `a and b`: `b` is looked at only when `a` is truthy -/
def and_ (a b : V) : V :=
  match a with
  | .exc n => .exc n
  | a => if truthy a then b else a

/-- `a or b` -/
def or_ (a b : V) : V :=
  match a with
  | .exc n => .exc n
  | a => if truthy a then a else b

/-- `x if c else y` -/
def ite_ (c x y : V) : V :=
  match c with
  | .exc n => .exc n
  | c => if truthy c then x else y

/-- substring test on character lists -/
def isInfix (xs ys : List Char) : Bool :=
  match ys with
  | [] => xs.isEmpty
  | y :: ys' => xs.isPrefixOf (y :: ys') || isInfix xs ys'

/-- `a == x` for a member of an `ints` list -/
def eqOpt (a : V) (x : Option Int) : Bool :=
  match x with
  | some i => eqb a (.int i)
  | Option.none => eqb a .none

/-- `a in b` -/
def in_ (a b : V) : V :=
  strict2 a b fun a b =>
    match b with
    | .ints xs => .bool (xs.any (eqOpt a))
    | .strs xs => .bool (xs.any fun x => eqb a (.str x))
    | .str s =>
      match a with
      | .str t => .bool (isInfix t.toList s.toList)
      | _ => .exc "TypeError"
    | _ => .exc "TypeError"

def notin (a b : V) : V := not_ (in_ a b)

def len (a : V) : V :=
  match a with
  | .exc n => .exc n
  | .str s => .int s.length
  | .ints xs => .int xs.length
  | .strs xs => .int xs.length
  | _ => .exc "TypeError"

/-- the ints of a list without Nones -/
def allInts : List (Option Int) → Option (List Int)
  | [] => some []
  | some i :: xs => (allInts xs).map (i :: ·)
  | Option.none :: _ => Option.none

def maxList : List Int → Option Int
  | [] => Option.none
  | x :: xs => match maxList xs with
    | Option.none => some x
    | some m => some (if x > m then x else m)

def minList : List Int → Option Int
  | [] => Option.none
  | x :: xs => match minList xs with
    | Option.none => some x
    | some m => some (if x < m then x else m)

/-- `max(xs)`: ValueError on the empty list, the element itself for a one-element list (even None), TypeError as soon
    as None meets an int -/
def max (a : V) : V :=
  match a with
  | .exc n => .exc n
  | .ints [] => .exc "ValueError"
  | .ints [Option.none] => .none
  | .ints xs => match (allInts xs).bind maxList with
    | some m => .int m
    | Option.none => .exc "TypeError"
  | _ => .exc "TypeError"

def min (a : V) : V :=
  match a with
  | .exc n => .exc n
  | .ints [] => .exc "ValueError"
  | .ints [Option.none] => .none
  | .ints xs => match (allInts xs).bind minList with
    | some m => .int m
    | Option.none => .exc "TypeError"
  | _ => .exc "TypeError"

def add (a b : V) : V :=
  strict2 a b fun a b =>
    match num? a, num? b with
    | some x, some y => .int (x + y)
    | _, _ =>
      match a, b with
      | .str x, .str y => .str (x ++ y)
      | .ints x, .ints y => .ints (x ++ y)
      | .strs x, .strs y => .strs (x ++ y)
      | _, _ => .exc "TypeError"

def sub (a b : V) : V :=
  strict2 a b fun a b =>
    match num? a, num? b with
    | some x, some y => .int (x - y)
    | _, _ => .exc "TypeError"

/-- ASCII lower-casing and blank stripping, enough for `"true"`/`"false"`/`"nan"` -/
def lowerAscii (s : String) : String :=
  String.ofList (s.toList.map (fun c => if 'A' ≤ c ∧ c ≤ 'Z' then Char.ofNat (c.toNat + 32) else c))

def stripBlanks (s : String) : String :=
  String.ofList ((s.toList.dropWhile (· == ' ')).reverse.dropWhile (· == ' ')).reverse

/-- `ExpressionUtility.asbool` on this value domain (tied by the `assign` suite, as before) -/
def asbool (v : V) : V :=
  match v with
  | .exc n => .exc n
  | .none => .bool false
  | .bool b => .bool b
  | .int i => .bool (i != 0)
  | .str s =>
    let t := lowerAscii (stripBlanks s)
    if t == "false" then .bool false
    else if t == "true" then .bool true
    else if s == "nan" || s == "NaN" then .bool false
    else .bool (s != "")
  | v => .bool (truthy v)

/-! ### statements -/

/-- `return v` -/
def ret (v : V) (effs : List Eff) : Res :=
  match v with
  | .exc n => .raised n effs
  | v => .ok v effs

/-- `x = v; k x` -/
def letv (v : V) (effs : List Eff) (k : V → Res) : Res :=
  match v with
  | .exc n => .raised n effs
  | v => k v

/-- `if c: a else: b` -/
def cond (c : V) (effs : List Eff) (a b : Res) : Res :=
  match c with
  | .exc n => .raised n effs
  | c => if truthy c then a else b

def firstExc : List V → Option String
  | [] => Option.none
  | .exc n :: _ => some n
  | _ :: vs => firstExc vs

/-- a recorded effect (a call or an attribute write named in the core's configuration) -/
def eff (name : String) (args : List V) (effs : List Eff) (k : List Eff → Res) : Res :=
  match firstExc args with
  | some n => .raised n effs
  | Option.none => k (effs ++ [{ name := name, args := args }])

/-- call of another translated function, then `k` on its value and effects -/
def bind (r : Res) (k : V → List Eff → Res) : Res :=
  match r with
  | .ok v effs => k v effs
  | .raised n effs => .raised n effs

/-- the value of an effect-free translated function used inside an expression -/
def val (r : Res) : V :=
  match r with
  | .ok v _ => v
  | .raised n _ => .exc n

def isinstance_bool (v : V) : V :=
  match v with
  | .exc n => .exc n
  | .bool _ => .bool true
  | _ => .bool false

/-- `isinstance(v, int)`: a bool is an int -/
def isinstance_int (v : V) : V :=
  match v with
  | .exc n => .exc n
  | .bool _ => .bool true
  | .int _ => .bool true
  | _ => .bool false

def isinstance_str (v : V) : V :=
  match v with
  | .exc n => .exc n
  | .str _ => .bool true
  | _ => .bool false

/-! ### object lists (heap mode)

  `for i, et in enumerate(self.<list>)`: the fields of the elements live in the environment under the keys `ikey`; the
  encoding is chosen so that keys of different elements differ by length and no element key equals an attribute path
  (an attribute path does not start with `#`). -/

def stars (i : Nat) : String := String.ofList (List.replicate i '*')

/-- the environment key of field `f` of element `i` of the object list at `path` -/
def ikey (path : String) (i : Nat) (f : String) : String := "#" ++ stars i ++ "#" ++ path ++ f

/-- `k in d` for a dict attribute with constant keys: the key's environment value is `KeyError` when the key is absent -/
def haskey (v : V) : V :=
  match v with
  | .exc n => if n = "KeyError" then .bool false else .exc n
  | _ => .bool true

/-- `xs.append(x)` on a local list of strings (the translation rebinds the local) -/
def append_ (xs x : V) : V :=
  match xs, x with
  | .exc n, _ => .exc n
  | _, .exc n => .exc n
  | .strs l, .str s => .strs (l ++ [s])
  | _, _ => .exc "TypeError"

/-- the `i`-th loop-carried local -/
def nth (locs : List V) (i : Nat) : V := locs.getD i (V.exc "UnboundLocalError")

def natOf : V → Nat
  | .int i => i.toNat
  | _ => 0

/-! ### heap mode

  For methods that read an attribute after writing it (or after calling something that may write it) the environment is
  threaded as state: `H.setattr` updates it, `H.call` hands it to an opaque callee of the outside world (`Ext`: name,
  arguments, environment ↦ value, new environment), `H.oracle` asks the world a question that changes nothing. -/

/-- the world outside the translated core -/
abbrev Ext := String → List V → Env → V × Env

def upd (env : Env) (k : String) (v : V) : Env := fun p => if p = k then v else env p

namespace H

inductive Res where
  | ok (v : V) (env : Env) (effs : List Eff)
  | raised (exc : String) (env : Env) (effs : List Eff)

def ret (v : V) (env : Env) (effs : List Eff) : Res :=
  match v with
  | .exc n => .raised n env effs
  | v => .ok v env effs

def letv (v : V) (env : Env) (effs : List Eff) (k : V → Res) : Res :=
  match v with
  | .exc n => .raised n env effs
  | v => k v

def cond (c : V) (env : Env) (effs : List Eff) (a b : Res) : Res :=
  match c with
  | .exc n => .raised n env effs
  | c => if truthy c then a else b

/-- `self.<path> = v` -/
def setattr (path : String) (v : V) (env : Env) (effs : List Eff) (k : Env → List Eff → Res) : Res :=
  match v with
  | .exc n => .raised n env effs
  | v => k (upd env path v) (effs ++ [{ name := "set " ++ path, args := [v] }])

/-- a recorded effect that leaves the environment alone -/
def eff (name : String) (args : List V) (env : Env) (effs : List Eff) (k : List Eff → Res) : Res :=
  match firstExc args with
  | some n => .raised n env effs
  | Option.none => k (effs ++ [{ name := name, args := args }])

/-- an opaque call into the world: its value, and whatever it did to the environment -/
def call (ext : Ext) (name : String) (args : List V) (env : Env) (effs : List Eff) (k : V → Env → List Eff → Res) : Res :=
  match firstExc args with
  | some n => .raised n env effs
  | Option.none =>
    match (ext name args env).1 with
    | .exc n => .raised n (ext name args env).2 (effs ++ [{ name := "call " ++ name, args := args }])
    | v => k v (ext name args env).2 (effs ++ [{ name := "call " ++ name, args := args }])

/-- a question to the world that changes nothing -/
def oracle (ext : Ext) (name : String) (args : List V) (env : Env) : V :=
  match firstExc args with
  | some n => .exc n
  | Option.none => (ext name args env).1

/-- what a loop body falls through to, and what `break` jumps to: the loop-carried locals, the environment, the effects -/
abbrev K := List V → Env → List Eff → Res

/-- `for i in range(n)`, continuation-passing: `body idx locals env effs next brk`; a `return` inside the body simply does not
    call either continuation -/
def forGo (body : Nat → List V → Env → List Eff → K → K → Res) (brk : K) : Nat → Nat → List V → Env → List Eff → Res
  | 0, _, locs, env, effs => brk locs env effs
  | r + 1, idx, locs, env, effs =>
    body idx locs env effs (fun locs env effs => forGo body brk r (idx + 1) locs env effs) brk

/-- `for i, x in enumerate(self.<list>)`: `n` is `len(self.<list>)` when the loop starts -/
def forRange (n : V) (locs : List V) (env : Env) (effs : List Eff)
    (body : Nat → List V → Env → List Eff → K → K → Res) (k : K) : Res :=
  match n with
  | .exc e => .raised e env effs
  | n => forGo body k (natOf n) 0 locs env effs

def bind (r : Res) (k : V → Env → List Eff → Res) : Res :=
  match r with
  | .ok v env effs => k v env effs
  | .raised n env effs => .raised n env effs

/-- the value of an effect-free translated function used inside an expression -/
def val (r : Res) : V :=
  match r with
  | .ok v _ _ => v
  | .raised n _ _ => .exc n

end H

end Py
