/-!
# The match part: lexer and parser (C17)

`csvpath/matching/lark_parser.py` gives the match part to Lark (Earley, dynamic lexer, WS ignored):

    match: _LB (expression)* _RB
    expression: left (WHEN action)? | REFERENCE (WHEN action)? | equality (WHEN action)? | assignment | COMMENT
    action: (function|assignment)
    left: HEADER|VARIABLE|function
    assignment: VARIABLE ASSIGN (left|REFERENCE|term)
    equality: left EQUALS (left|REFERENCE|term)
    function: /[a-zA-Z][a-zA-Z-0-9\._]*/ args
    args: LP RP | LP a (COMMA a)* RP
    a: term | VARIABLE | HEADER | function | equality | REFERENCE
    term: STRING | SIGNED_NUMBER | REGEX

and `lark_transformer.py` turns the tree into Expression/Equality/Function/Header/Variable/Term/
Reference objects.  The model is a longest-match lexer over characters followed by a
recursive-descent parser over tokens; that Lark's Earley parser computes the same tree is what the
`parse` suite compares on every run.  Import-free.

-/
namespace Model.Match

inductive Tok where
  | lb | rb | lp | rp | comma | assign | equals | when_ | comment
  | header (s : List Char)       -- the text after `#` (a quoted header keeps its quotes)
  | variable (s : List Char)
  | reference (s : List Char)
  | fname (s : List Char)
  | str (s : List Char)          -- the text between the quotes
  | num (s : List Char)          -- as written
  | regex (s : List Char)        -- as written, with the slashes
  deriving DecidableEq, Repr

/-! ## Lexer -/

def isWS (c : Char) : Bool := c == ' ' || c == '\t' || c == '\x0c' || c == '\r' || c == '\n'

/-- `[a-zA-Z-0-9\_\.]` -/
def nameCh (c : Char) : Bool := c.isAlphanum || c == '-' || c == '_' || c == '.'

/-- `[a-zA-Z-0-9 \._]` (inside a quoted header) -/
def qhCh (c : Char) : Bool := nameCh c || c == ' '

def isDigit (c : Char) : Bool := c.isDigit

/-- `SIGNED_INT`-style exponent after a mantissa: `[eE][+-]?\d+`; returns its length -/
def expLen : List Char → Nat
  | e :: cs =>
    if e == 'e' || e == 'E' then
      match cs with
      | s :: ds =>
        if s == '+' || s == '-' then
          let d := ds.takeWhile isDigit
          if d.isEmpty then 0 else 2 + d.length
        else
          let d := (s :: ds).takeWhile isDigit
          if d.isEmpty then 0 else 1 + d.length
      | [] => 0
    else 0
  | [] => 0

/-- an unsigned `NUMBER` at the head of the list: its length (0 = none).
    `INT ("." INT?)? EXP?` or `"." INT EXP?` -/
def numLen (cs : List Char) : Nat :=
  let ip := cs.takeWhile isDigit
  let r1 := cs.dropWhile isDigit
  if ip.isEmpty then
    match r1 with
    | '.' :: r2 =>
      let fp := r2.takeWhile isDigit
      if fp.isEmpty then 0 else 1 + fp.length + expLen (r2.dropWhile isDigit)
    | _ => 0
  else
    match r1 with
    | '.' :: r2 =>
      let fp := r2.takeWhile isDigit
      ip.length + 1 + fp.length + expLen (r2.dropWhile isDigit)
    | _ => ip.length + expLen r1

/-- `REGEX_INNER "/"` after the opening slash: `([^\/\\]|\\.)*` followed by the closing slash (`.` does not
    match a newline).  Returns the number of characters up to and including the closing slash. -/
def reInner : Nat → List Char → Option Nat
  | 0, _ => none
  | _ + 1, [] => none
  | _ + 1, '/' :: _ => some 1
  | f + 1, '\\' :: cs =>
    (match cs with
     | x :: r => if x != '\n' then (reInner f r).map (· + 2) else none
     | [] => none)
  | f + 1, _ :: cs => (reInner f cs).map (· + 1)

/-- the token that starts with `c` (followed by `cs`) and how many characters of `cs` it takes -/
def tokenAt (c : Char) (cs : List Char) : Option (Tok × Nat) :=
  if c == '[' then some (.lb, 0)
  else if c == ']' then some (.rb, 0)
  else if c == '(' then some (.lp, 0)
  else if c == ')' then some (.rp, 0)
  else if c == ',' then some (.comma, 0)
  else if c == '=' then
    match cs with
    | '=' :: _ => some (.equals, 1)
    | _ => some (.assign, 0)
  else if c == '"' then
    let body := cs.takeWhile (· != '"')
    match cs.dropWhile (· != '"') with
    | '"' :: _ => some (.str body, body.length + 1)
    | _ => none
  else if c == '~' then
    let body := cs.takeWhile (· != '~')
    match cs.dropWhile (· != '~') with
    | '~' :: _ => some (.comment, body.length + 1)
    | _ => none
  else if c == '#' then
    match cs with
    | '"' :: r =>
      let body := r.takeWhile qhCh
      match r.dropWhile qhCh with
      | '"' :: _ => if body.isEmpty then none else some (.header ('"' :: body ++ ['"']), body.length + 2)
      | _ => none
    | _ =>
      let body := cs.takeWhile nameCh
      if body.isEmpty then none else some (.header body, body.length)
  else if c == '@' then
    let body := cs.takeWhile nameCh
    if body.isEmpty then none else some (.variable body, body.length)
  else if c == '$' then
    let body := cs.takeWhile nameCh
    if body.isEmpty then none else some (.reference body, body.length)
  else if c == '/' then
    match reInner (cs.length + 1) cs with
    | some n => some (.regex ('/' :: cs.take n), n)
    | none => none
  else if c == '-' && cs.head? == some '>' then some (.when_, 1)
  else if c == '+' || c == '-' then
    let n := numLen cs
    if n == 0 then none else some (.num (c :: cs.take n), n)
  else if isDigit c || c == '.' then
    let n := numLen (c :: cs)
    if n == 0 then none else some (.num ((c :: cs).take n), n - 1)
  else if c.isAlpha then
    let body := cs.takeWhile nameCh
    some (.fname (c :: body), body.length)
  else none

/-- the token list of a text; the counter skips the characters the last token took -/
def lexGo : Nat → List Char → Option (List Tok)
  | _, [] => some []
  | n + 1, _ :: cs => lexGo n cs
  | 0, c :: cs =>
    if isWS c then lexGo 0 cs
    else
      match tokenAt c cs with
      | some (t, k) => (lexGo k cs).map (t :: ·)
      | none => none

def lex (s : List Char) : Option (List Tok) := lexGo 0 s

/-! ## Trees -/

inductive TermV where
  | str (s : List Char)
  | num (s : List Char)
  | regex (s : List Char)
  deriving DecidableEq, Repr

inductive Op where
  | eq | assign | when_
  deriving DecidableEq, Repr

mutual
inductive Node where
  | term (t : TermV)
  | header (s : List Char)
  | variable (s : List Char)
  | reference (s : List Char)
  | fn (name : List Char) (args : Args)
  | eq (op : Op) (l r : Node)
inductive Args where
  | nil
  | cons (a : Node) (rest : Args)
end

/-! ## Parser over tokens (fuel bounds the nesting) -/

def termOfTok : Tok → Option TermV
  | .str s => some (.str s)
  | .num s => some (.num s)
  | .regex s => some (.regex s)
  | _ => none

mutual
/-- `left: HEADER | VARIABLE | function` -/
def pLeft : Nat → List Tok → Option (Node × List Tok)
  | 0, _ => none
  | _ + 1, .header s :: r => some (.header s, r)
  | _ + 1, .variable s :: r => some (.variable s, r)
  | f + 1, .fname n :: .lp :: r =>
    match pArgs f r with
    | some (as, r') => some (.fn n as, r')
    | none => none
  | _ + 1, _ => none

/-- after `LP`: `RP | a (COMMA a)* RP` -/
def pArgs : Nat → List Tok → Option (Args × List Tok)
  | 0, _ => none
  | _ + 1, .rp :: r => some (.nil, r)
  | f + 1, ts => pArgs1 f ts

/-- `a (COMMA a)* RP` -/
def pArgs1 : Nat → List Tok → Option (Args × List Tok)
  | 0, _ => none
  | f + 1, ts =>
    match pArg f ts with
    | some (a, .comma :: r) =>
      (match pArgs1 f r with
       | some (as, r') => some (.cons a as, r')
       | none => none)
    | some (a, .rp :: r) => some (.cons a .nil, r)
    | _ => none

/-- `a: term | VARIABLE | HEADER | function | equality | REFERENCE` -/
def pArg : Nat → List Tok → Option (Node × List Tok)
  | 0, _ => none
  | f + 1, ts =>
    match ts with
    | .str s :: r => some (.term (.str s), r)
    | .num s :: r => some (.term (.num s), r)
    | .regex s :: r => some (.term (.regex s), r)
    | .reference s :: r => some (.reference s, r)
    | _ =>
      match pLeft f ts with
      | some (l, .equals :: r) =>
        (match pRhs f r with
         | some (x, r') => some (.eq .eq l x, r')
         | none => none)
      | some (l, r) => some (l, r)
      | none => none

/-- `(left | REFERENCE | term)` -/
def pRhs : Nat → List Tok → Option (Node × List Tok)
  | 0, _ => none
  | f + 1, ts =>
    match ts with
    | .str s :: r => some (.term (.str s), r)
    | .num s :: r => some (.term (.num s), r)
    | .regex s :: r => some (.term (.regex s), r)
    | .reference s :: r => some (.reference s, r)
    | _ => pLeft f ts
end

/-- `action: function | assignment` -/
def pAction (f : Nat) : List Tok → Option (Node × List Tok)
  | .variable s :: .assign :: r =>
    (match pRhs f r with
     | some (x, r') => some (.eq .assign (.variable s) x, r')
     | none => none)
  | .fname n :: r => pLeft f (.fname n :: r)
  | _ => none

def whenTail (f : Nat) (x : Node) : List Tok → Option (Node × List Tok)
  | .when_ :: r =>
    (match pAction f r with
     | some (act, r') => some (.eq .when_ x act, r')
     | none => none)
  | r => some (x, r)

/-- one `expression`; a comment yields no node -/
def pExpr (f : Nat) : List Tok → Option (Option Node × List Tok)
  | .comment :: r => some (none, r)
  | .variable s :: .assign :: r =>
    (match pRhs f r with
     | some (x, r') => some (some (.eq .assign (.variable s) x), r')
     | none => none)
  | .reference s :: r => (whenTail f (.reference s) r).map (fun p => (some p.1, p.2))
  | ts =>
    match pLeft f ts with
    | some (l, .equals :: r) =>
      (match pRhs f r with
       | some (x, r') => (whenTail f (.eq .eq l x) r').map (fun p => (some p.1, p.2))
       | none => none)
    | some (l, r) => (whenTail f l r).map (fun p => (some p.1, p.2))
    | none => none

/-- `(expression)* _RB` and nothing after it -/
def pExprs (f : Nat) : Nat → List Tok → Option (List Node)
  | 0, _ => none
  | _ + 1, [.rb] => some []
  | n + 1, ts =>
    match pExpr f ts with
    | some (some e, r) => (pExprs f n r).map (e :: ·)
    | some (none, r) => pExprs f n r
    | none => none

def parseToks (ts : List Tok) : Option (List Node) :=
  match ts with
  | .lb :: r => pExprs (3 * ts.length + 3) (ts.length + 1) r
  | _ => none

/-- text of a match part → the component trees, as `Matcher` holds them -/
def parse (s : List Char) : Option (List Node) :=
  match lex s with
  | some ts => parseToks ts
  | none => none

end Model.Match
