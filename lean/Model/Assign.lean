/-
  Model of the assignment decision in csvpath/matching/productions/equality.py:
  `_do_assignment_new_impl`, `_latch_and_onchange`, `_set_variable_if`.
  Values: None, ints, strings (enough for the qualifier table; mixed int/str ordering raises
  TypeError as in Python).  Import-free.
-/
namespace Model.Assign

inductive Val where
  | none
  | int (i : Int)
  | str (s : String)
  deriving Repr, DecidableEq, Inhabited

structure Quals where
  onmatch : Bool := false
  latch : Bool := false
  onchange : Bool := false
  increase : Bool := false
  decrease : Bool := false
  notnone : Bool := false
  asbool : Bool := false
  nocontrib : Bool := false
  deriving Repr, DecidableEq, Inhabited

/-- Python truthiness -/
def truthy : Val → Bool
  | .none => false
  | .int i => i != 0
  | .str s => s != ""

/-- ASCII lower-casing and blank stripping, enough for `"true"`/`"false"`/`"nan"` -/
def lowerAscii (s : String) : String :=
  String.ofList (s.toList.map (fun c => if 'A' ≤ c ∧ c ≤ 'Z' then Char.ofNat (c.toNat + 32) else c))

def stripBlanks (s : String) : String :=
  String.ofList ((s.toList.dropWhile (· == ' ')).reverse.dropWhile (· == ' ')).reverse

/-- `ExpressionUtility.asbool` on this value domain -/
def asbool : Val → Bool
  | .none => false
  | .int i => i != 0          -- 0 == False, 1 == True, otherwise bool(v)
  | .str s =>
    let t := lowerAscii (stripBlanks s)
    if t == "false" then false
    else if t == "true" then true
    else if s == "nan" || s == "NaN" then false
    else s != ""

/-- `a >= b`; `none` = TypeError -/
def ge? : Val → Val → Option Bool
  | .int a, .int b => some (decide (a ≥ b))
  | .str a, .str b => some (decide (a ≥ b))
  | _, _ => Option.none

def le? : Val → Val → Option Bool
  | .int a, .int b => some (decide (a ≤ b))
  | .str a, .str b => some (decide (a ≤ b))
  | _, _ => Option.none

/-- result of the decision: the value written (if any) and the vote; or a TypeError -/
inductive Out where
  | ok (write : Option Val) (vote : Bool)
  | typeError
  deriving Repr, DecidableEq, Inhabited

/-- `_set_variable_if(ret, …)` -/
def setVariableIf (q : Quals) (ret : Bool) (cur v : Val) : Out :=
  if q.notnone && v == .none then .ok Option.none (!ret)
  else
    -- increase
    let incBlock : Option Bool :=
      if !q.increase then some false
      else if (!truthy cur && !truthy v) || !truthy v then some true
      else if cur == .none then some false
      else ge? cur v
    match incBlock with
    | Option.none => .typeError
    | some true => .ok Option.none (!ret)
    | some false =>
      let decBlock : Option Bool :=
        if !q.decrease then some false
        else if (!truthy cur && !truthy v) || !truthy v then some true
        else if cur == .none then some false
        else le? cur v
      match decBlock with
      | Option.none => .typeError
      | some true => .ok Option.none (!ret)
      | some false => .ok (some v) ret

/-- `_latch_and_onchange` -/
def latchAndOnchange (q : Quals) (dm : Bool) (ret : Bool) (cur new : Val) : Out :=
  if cur != new then
    if cur == .none || !q.latch then setVariableIf q dm cur new
    else .ok Option.none ret
  else if q.onchange then .ok Option.none (!dm)
  else .ok Option.none ret

/-- `_do_assignment_new_impl`; `lm` is the answer of `line_matches()`, `dm` is `default_match()` -/
def assign (q : Quals) (cur y : Val) (lm dm : Bool) : Out :=
  let r1 : Out :=
    if !q.onmatch || lm == dm then
      if q.latch || q.onchange then latchAndOnchange q dm dm cur y
      else setVariableIf q dm cur y
    else .ok Option.none (!dm)
  match r1 with
  | .typeError => .typeError
  | .ok w ret =>
    let ret1 := if q.asbool && ret == dm then asbool y else ret
    let ret2 := if q.nocontrib then dm else ret1
    .ok w ret2

end Model.Assign
