/-
  The top level of one match, abstract in the match components: `Matcher.matches` as a function of a *world* — how component
  `i` votes in a state and what it leaves behind, how the stop and skip flags are read, what clearing the errors and the
  blank-last-line pass do.  The interpreter model's `matchExprs` is one instance (Proofs/MatchTop.lean), the translation of
  /repo's `Matcher.matches` over the Python environment another (Proofs/BridgeMatches.lean).  Import-free.
-/
namespace Model.MatchTop

structure World (σ : Type) where
  /-- number of match components -/
  n : Nat
  /-- component `i` evaluated in a state: its vote (`matches(skip=[]) is not False`) and the state it leaves -/
  evalE : Nat → σ → Bool × σ
  stopped : σ → Bool
  skip : σ → Bool
  clearSkip : σ → σ
  /-- `clear_errors()`: the errors the components queued are handled -/
  clearErrors : σ → σ
  /-- `_do_lasts()` on a blank last line -/
  doLasts : σ → σ
  /-- what the end of an ordinary match does besides (explain mode) -/
  finish : σ → σ

variable {σ : Type}

/-- the fold of one vote into `failed`: AND — a False vote sets it; OR — a True vote clears it -/
def fold (andMode failed vote : Bool) : Bool :=
  if andMode then failed || !vote else failed && !vote

/-- the component loop from component `i` on, `r` components to go: before each component the stop and skip flags are tested;
    no short circuit; after the last one the skip flag is tested once more -/
def go (w : World σ) (andMode : Bool) : Nat → Nat → σ → Bool → Bool × σ
  | 0, _, s, failed =>
    if w.skip s then (false, w.clearErrors (w.clearSkip s)) else (!failed, w.finish (w.clearErrors s))
  | r + 1, i, s, failed =>
    if w.stopped s then (false, w.clearErrors s)
    else if w.skip s then (false, w.clearErrors (w.clearSkip s))
    else go w andMode r (i + 1) (w.evalE i s).2 (fold andMode failed (w.evalE i s).1)

/-- `Matcher.matches` -/
def matchLine (w : World σ) (andMode blankLast : Bool) (s : σ) : Bool × σ :=
  if blankLast then (true, w.clearErrors (w.doLasts s)) else go w andMode w.n 0 s (!andMode)

/-- the votes of the components `i …` when none of them is cut by stop or skip, each evaluated in the state its predecessor
    leaves -/
def votes (w : World σ) : Nat → Nat → σ → List Bool
  | 0, _, _ => []
  | r + 1, i, s => (w.evalE i s).1 :: votes w r (i + 1) (w.evalE i s).2

/-- the states in which the components `i …` are evaluated -/
def states (w : World σ) : Nat → Nat → σ → List σ
  | 0, _, s => [s]
  | r + 1, i, s => s :: states w r (i + 1) (w.evalE i s).2

/-- the state after the components `i …` have been evaluated one after the other, each in the state its predecessor left -/
def afterAll (w : World σ) : Nat → Nat → σ → σ
  | 0, _, s => s
  | r + 1, i, s => afterAll w r (i + 1) (w.evalE i s).2

end Model.MatchTop
