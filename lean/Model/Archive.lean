/-
  Model of archiving a named-paths run: `ResultsManager.start_run` / `add_named_result` / `save` /
  `complete_run`, `ResultSerializer._save`, `ResultRegistrar.register_complete` (fingerprints of
  the files *after* they are written), `ResultsRegistrar.register_complete`, and the exception
  path of the serial run methods (`except → handle_error → save(result) → re-raise`, no
  `complete_run`).  Member results are data; file contents are abstract values and the hash is a
  parameter.  Import-free.
-/
namespace Model.Archive

abbrev Rec := List String

/-- what a member csvpath holds in memory when it is saved -/
structure MemberResult (ν ε : Type) where
  identity : String              -- identity_or_index
  vars : ν
  errors : List ε
  printouts : List String
  lines : List Rec
  unmatched : List Rec
  valid : Bool
  completed : Bool
  deriving Repr

/-- contents of the files of a member directory -/
inductive Content (ν ε : Type) where
  | metaInfo (identity : String)
  | vars (v : ν)
  | errors (es : List ε)
  | csv (rows : List Rec)
  | text (lines : List String)
  deriving Repr

structure MemberManifest (δ : Type) where
  fingerprints : List (String × δ)
  valid : Bool
  completed : Bool
  errorCount : Nat
  deriving Repr

structure MemberDir (ν ε δ : Type) where
  files : List (String × Content ν ε) := []
  manifest : Option (MemberManifest δ) := none
  deriving Repr

structure RunManifest where
  status : String
  allValid : Option Bool := none
  allCompleted : Option Bool := none
  errorCount : Option Nat := none
  deriving Repr, DecidableEq

structure RunDirFS (ν ε δ : Type) where
  manifest : Option RunManifest := none
  members : List (String × MemberDir ν ε δ) := []
  deriving Repr

variable {ν ε δ : Type}

def fileIn (files : List (String × Content ν ε)) (name : String) : Option (Content ν ε) :=
  (files.find? (·.1 == name)).map (·.2)

def fileOf (d : MemberDir ν ε δ) (name : String) : Option (Content ν ε) := fileIn d.files name

/-- the six files `file_fingerprints` looks at, in its order -/
def fingerprinted : List String := ["data.csv", "meta.json", "unmatched.csv", "printouts.txt", "errors.json", "vars.json"]

/-- what `ResultSerializer._save` (and the spooler) leave in the member directory: data.csv holds
    the collected lines (absent if none), meta/errors/vars always, unmatched.csv and printouts.txt
    when non-empty -/
def memberFiles (r : MemberResult ν ε) : List (String × Content ν ε) :=
  (if r.lines.isEmpty then [] else [("data.csv", Content.csv r.lines)]) ++
  [("meta.json", Content.metaInfo r.identity), ("errors.json", Content.errors r.errors), ("vars.json", Content.vars r.vars)] ++
  (if r.unmatched.isEmpty then [] else [("unmatched.csv", Content.csv r.unmatched)]) ++
  (if r.printouts.isEmpty then [] else [("printouts.txt", Content.text r.printouts)])

/-- `ResultsManager.save`: write the files, then the manifest with the fingerprints of what is
    on disk -/
def saveMember (H : Content ν ε → δ) (r : MemberResult ν ε) : MemberDir ν ε δ :=
  { files := memberFiles r,
    manifest := some { fingerprints := fingerprinted.filterMap (fun n => (fileIn (memberFiles r) n).map (fun c => (n, H c))),
                       valid := r.valid, completed := r.completed, errorCount := r.errors.length } }

/-- a serial run (`collect_paths` / `fast_forward_paths` / `next_paths`) over the members' results;
    `abortAt = some k` = member k's run raised and the policy re-raised: that member is saved, the
    exception propagates, nothing later happens.  Returns the run directory and whether the
    exception reached the caller. -/
def serialFrom (H : Content ν ε → δ) : Nat → List (MemberResult ν ε) → Option Nat →
    List (String × MemberDir ν ε δ) → List (String × MemberDir ν ε δ) × Bool
  | _, [], _, acc => (acc, false)
  | i, r :: rs, abortAt, acc =>
    let acc' := acc ++ [(r.identity, saveMember H r)]
    if abortAt == some i then (acc', true) else serialFrom H (i + 1) rs abortAt acc'

def conj (l : List Bool) : Bool := l.all id

/-- `ResultsRegistrar.register_complete` -/
def completeManifest (results : List (MemberResult ν ε)) : RunManifest :=
  { status := "complete", allValid := some (conj (results.map (fun r => r.valid))),
    allCompleted := some (conj (results.map (fun r => r.completed))),
    errorCount := some ((results.map (fun r => r.errors.length)).sum) }

def startManifest : RunManifest := { status := "start" }

def serialRun (H : Content ν ε → δ) (results : List (MemberResult ν ε)) (abortAt : Option Nat) :
    RunDirFS ν ε δ × Bool :=
  let out := serialFrom H 0 results abortAt []
  if out.2 then ({ manifest := some startManifest, members := out.1 }, true)
  else ({ manifest := some (completeManifest results), members := out.1 }, false)

end Model.Archive
