/-
  Top level of the interpreter model: `Matcher.matches` over the list of expressions, the
  blank-last-line pass (`_do_lasts`), and the instance of the run loop's abstract matcher.
  Import-free.
-/
import Model.Interp

namespace Model.Interp
open Model.Val Model.Run

/-- evaluation of one top-level expression in a view: its vote, the effects it had, and whether
    the evaluation left the modelled domain -/
def evalExpr (env : Env) (v : View) (e : Node) : Option Bool × List Effect × Option String :=
  let fuel := 200
  let r := evalM fuel env e { v := v }
  -- `Expression.matches`: a single child; `if not child.matches(): ret = False`
  let vote : Option Bool := some (r.1 == some true)
  (vote, r.2.effs, r.2.bad)

/-- `Matcher.matches` (not the blank last line): expressions in order; before each one the stop
    and skip flags are tested; every vote is folded into `failed` (AND: a False vote sets it, OR: a
    True vote clears it); no short-circuit; after the last one the skip flag is tested once more -/
def matchExprs (env : Env) : List Node → View → Bool → Option String → Bool × View × Option String
  | [], v, failed, bad =>
    -- a skip() fired by the last component: the line is skipped and the flag does not leak
    if v.skip then (false, { v with skip := false }, bad) else (!failed, v, bad)
  | e :: es, v, failed, bad =>
    if v.stopped then (false, v, bad)
    else if v.skip then (false, { v with skip := false }, bad)
    else
      let r := evalExpr env v e
      let v' := applyAll v r.2.1
      let ret := !(r.1 == some false)
      let failed' := if env.dm then (failed || !ret) else (failed && !ret)
      matchExprs env es v' failed' (bad.or r.2.2)

def matchLine (env : Env) (prog : List Node) (v : View) : Bool × View × Option String :=
  matchExprs env prog v (!env.dm) none

/-- `_find_and_actvate_lasts`: depth-first, children popped from the end -/
partial def findLasts : List Node → List Node
  | [] => []
  | stack =>
    match stack.getLast? with
    | none => []
    | some c =>
      let rest := stack.dropLast
      match c with
      | .eq _ "->" (.fn _ "last" _ _) _ => c :: findLasts rest
      | .fn _ "last" _ _ => c :: findLasts rest
      | .fn _ _ _ args => findLasts (rest ++ args)
      | .eq _ _ l r => findLasts (rest ++ [l, r])
      | _ => findLasts rest

/-- the call on a blank last line: only the `last()`s run; the answer is True -/
def doLasts (env : Env) (prog : List Node) (v : View) : View × Option String :=
  (prog.flatMap (fun e => findLasts [e])).foldl (fun (acc : View × Option String) n =>
      let r := evalM 200 env n { v := acc.1 }
      (applyAll acc.1 r.2.effs, acc.2.or r.2.bad)) (v, none)

/-- variables that exist before the first line: `counter.name` initialises its variable to 0 in
    `check_valid` -/
partial def initVars : List Node → Vars
  | [] => []
  | n :: rest =>
    let here : Vars := match n with
      | .fn _ "counter" q args => (match firstNonTerm q with | some c => [(c, Value.int 0)] | none => []) ++ initVars args
      | .fn _ _ _ args => initVars args
      | .eq _ _ l r => initVars [l, r]
      | _ => []
    let more := initVars rest
    here ++ more.filter (fun p => !(here.any (·.1 == p.1)))

/-- the matcher's own state across lines -/
structure MState where
  prog : List Node
  headers : List String
  dm : Bool
  scan : Model.Scan.St
  dataEndCount : Int
  vars : Vars
  prints : List String := []
  skip : Bool := false
  started : Bool := false      -- the Matcher is built (and `check_valid` runs) at the first call
  bad : Option String := none
  pmeta : List (Model.Val.Value × Model.Val.Value) := []
  pstatic : List (Model.Val.Value × Model.Val.Value) := []
  deriving Inhabited

/-- the interpreter as an instance of the run loop's matcher -/
def interpMatcher : MatcherSem MState where
  eval ctx rec ms0 fl :=
    let ms : MState :=
      if ms0.started then ms0
      else
        -- `Matcher.__init__` → `check_valid`: `counter.name` creates its variable (0) unless frozen
        let extra := if fl.frozen then [] else (initVars ms0.prog).filter (fun p => !(ms0.vars.any (·.1 == p.1)))
        { ms0 with started := true, vars := ms0.vars ++ extra }
    let env : Env :=
      { line := rec, headers := ms.headers, dm := ms.dm, idx := ctx.idx, dataCount := ctx.dataCount,
        dataNumber := ctx.dataNumber, dataEndCount := ms.dataEndCount, scanCount := ctx.scanCount,
        matchCount := fl.matchCount, isLastLine := ctx.endIdx == some ctx.idx,
        scanIsLast := Model.Scan.isLast ms.scan ctx.endIdx ctx.idx, pmeta := ms.pmeta, pstatic := ms.pstatic }
    let v : View :=
      { vars := ms.vars, stopped := fl.stopped, skip := ms.skip, frozen := fl.frozen, valid := fl.valid,
        advance := fl.advance, prints := ms.prints }
    if ctx.blankLast then
      let r := doLasts env ms.prog v
      (true, { ms with vars := r.1.vars, prints := r.1.prints, skip := r.1.skip, bad := ms.bad.or r.2 },
        { fl with stopped := r.1.stopped, frozen := r.1.frozen, valid := r.1.valid, advance := r.1.advance })
    else
      let r := matchLine env ms.prog v
      (r.1, { ms with vars := r.2.1.vars, prints := r.2.1.prints, skip := r.2.1.skip, bad := ms.bad.or r.2.2 },
        { fl with stopped := r.2.1.stopped, frozen := r.2.1.frozen, valid := r.2.1.valid, advance := r.2.1.advance })

end Model.Interp
