/-
  Model of the breadth-first run of csvpath/csvpaths.py (`next_by_line`, hence
  `collect_by_line` / `fast_forward_by_line`) for members that do not use the coordinator signals
  (`_stop_all`, `_fail_all`, `_skip_all`, `_advance_all` stay unset), and of one member of a serial
  run.  Parametric in every member's matcher.  Import-free.
-/
import Model.RunLoop

namespace Model.Group
open Model.Scan Model.Run

/-- one csvpath of the group: its matcher, its scanner state, its return-mode -/
structure Member (σ : Type) where
  m : MatcherSem σ
  scan : St
  cwnm : Bool := false

/-- a member's progress: loop state and the lines appended to its result -/
structure MSt (σ : Type) where
  st : LoopSt σ
  lines : List Rec := []

/-- `track_line` + `_consider_line` + `p[1].append(line)` for one member and one record -/
def memberStep {σ} (mem : Member σ) (endIdx : Option Nat) (i : Nat) (r : Rec) (ms : MSt σ) : Bool × MSt σ :=
  let res := considerLine mem.m mem.scan mem.cwnm endIdx i r (trackLine i r ms.st)
  (res.1, { st := res.2, lines := if res.1 then ms.lines ++ [r] else ms.lines })

/-- a member alone: every record until it is stopped (no finalize: `next_by_line` never
    finalizes its members) -/
def soloFrom {σ} (mem : Member σ) (endIdx : Option Nat) : Nat → List Rec → MSt σ → MSt σ
  | _, [], ms => ms
  | i, r :: rs, ms => if ms.st.fl.stopped then ms else soloFrom mem endIdx (i + 1) rs (memberStep mem endIdx i r ms).2

/-- the inner `for p in csvpath_objects` loop for one record: (keep, newly stopped count) -/
def stepMembers {σ} (endIdx : Option Nat) (ifAll : Bool) (i : Nat) (r : Rec) :
    List (Member σ × MSt σ) → Bool → Nat → List (MSt σ) × Bool × Nat
  | [], keep, cnt => ([], keep, cnt)
  | (mem, ms) :: rest, keep, cnt =>
    if ms.st.fl.stopped then
      let out := stepMembers endIdx ifAll i r rest keep cnt
      (ms :: out.1, out.2)
    else
      let res := memberStep mem endIdx i r ms
      let cnt' := if res.2.st.fl.stopped then cnt + 1 else cnt
      let keep' := if ifAll then keep && res.1 else keep || res.1
      let out := stepMembers endIdx ifAll i r rest keep' cnt'
      (res.2 :: out.1, out.2)

/-- `next_by_line`: the lines yielded to the caller and the members' final progress -/
def byLineFrom {σ} (members : List (Member σ)) (endIdx : Option Nat) (ifAll : Bool) :
    Nat → List Rec → List (MSt σ) → Nat → List Rec × List (MSt σ)
  | _, [], states, _ => ([], states)
  | i, r :: rs, states, cnt =>
    let out := stepMembers endIdx ifAll i r (members.zip states) ifAll cnt
    let y := if out.2.1 then [r] else []
    if out.2.2 == members.length then (y, out.1)
    else
      let rest := byLineFrom members endIdx ifAll (i + 1) rs out.1 out.2.2
      (y ++ rest.1, rest.2)

def byLine {σ} (members : List (Member σ)) (ifAll : Bool) (recs : List Rec) (inits : List (LoopSt σ)) :
    List Rec × List (MSt σ) :=
  byLineFrom members (endIdxOf recs) ifAll 0 recs (inits.map (fun s => { st := s })) 0

end Model.Group
