/-
  Model of csvpath/scanning/scanner.py: the PLY semantic actions as a left fold over the
  `+`/`-` list (the grammar `expression : expression (PLUS|MINUS) term | term` is left
  recursive, so LALR reduction order is list order), `includes` and `is_last`.
  Import-free (core Lean only).
-/
namespace Model.Scan

/-- `term : NUMBER | NUMBER ALL_LINES | ALL_LINES` -/
inductive Term where
  | num (n : Nat)
  | numStar (n : Nat)
  | star
  deriving Repr, DecidableEq, Inhabited

inductive Op where
  | plus
  | minus
  deriving Repr, DecidableEq, Inhabited

/-- the bracket content of a scan part: `term (op term)*` -/
structure Expr where
  first : Term
  rest : List (Op × Term)
  deriving Repr, DecidableEq, Inhabited

/-- Scanner fields written by the productions. `these` may hold `None` in Python
    (`[* + 3]` extends it with `[None]`), hence `Option Nat`. -/
structure St where
  these : List (Option Nat) := []
  all : Bool := false
  frm : Option Nat := none
  to : Option Nat := none
  deriving Repr, DecidableEq, Inhabited

/-- outcome of running the productions: the Python code can raise
    `UnexpectedProductionException` (a `*` term to the right of `-`) or a `TypeError`
    (`range(None, …)`); both abort the parse. -/
inductive PErr where
  | unexpectedProduction
  | typeError
  deriving Repr, DecidableEq, Inhabited

/-- value of `p[k]` for a `term`: `[n]` for NUMBER, `None` otherwise -/
def termVal : Term → Option (List (Option Nat))
  | .num n => some [some n]
  | _ => none

/-- `p_term` -/
def pTerm (s : St) : Term → St
  | .num _ => s
  | .numStar n => { s with frm := some n, all := true }
  | .star => { s with all := true }

/-- `p[0] = self.these if self.these else [self.from_line]` -/
def exprVal (s : St) : List (Option Nat) :=
  if s.these.isEmpty then [s.frm] else s.these

/-- `range(a, b + 1)` -/
def pyRange (a b : Nat) : List Nat :=
  (List.range (b + 1 - a)).map (· + a)

/-- append the members of `xs` that are not yet present (the `for … if i not in these: append` loop) -/
def appendNew (these : List (Option Nat)) : List Nat → List (Option Nat)
  | [] => these
  | x :: xs => if these.contains (some x) then appendNew these xs else appendNew (these ++ [some x]) xs

/-- `_move_range_to_these` (with the `is None` tests of the repaired code) -/
def moveRange (s : St) : St :=
  match s.frm, s.to with
  | some a, some b => { s with these := appendNew s.these (pyRange a b), frm := none, to := none }
  | _, _ => s

/-- `if p[k] and p[k][0] not in self.these: self.these.extend(p[k])` -/
def extendIfNew (these : List (Option Nat)) (p : Option (List (Option Nat))) : List (Option Nat) :=
  match p with
  | none => these
  | some [] => these
  | some (x :: xs) => if these.contains x then these else these ++ (x :: xs)

/-- `_add_two_lines` -/
def addTwoLines (s : St) (p1 : List (Option Nat)) (p3 : Option (List (Option Nat))) : St :=
  let s1 := moveRange s
  let t1 := extendIfNew s1.these (some p1)
  let t2 := extendIfNew t1 p3
  { s1 with these := t2 }

/-- `_collect_a_line_range` -/
def collectRange (s : St) (p1 : List (Option Nat)) (p3 : Option (List (Option Nat))) : Except PErr St :=
  match s.frm, s.to with
  | some _, some _ =>
    -- a range is pending: move it into `these`, then add the new range too
    let s1 := moveRange s
    match p1.head?, p3 with
    | some (some f), some (some t :: _) =>
        .ok { s1 with these := appendNew s1.these (pyRange f t) }
    | _, _ => .error .typeError
  | _, _ =>
    let s1 : St :=
      match p1 with
      | [x] =>
        let s' := { s with frm := x }
        if s'.these.length == 1 && s'.these.head? == some x then { s' with these := [] } else s'
      | _ => s
    match p3 with
    | some (t :: _) =>
      let s2 := { s1 with to := t }
      if p1.length > 1 then
        .ok (moveRange { s2 with frm := p1.getLast?.getD none })
      else .ok s2
    | _ => .error .unexpectedProduction

/-- `_collect_a_line_number` (a lone `term` reduced to `expression`) -/
def collectNumber (s : St) (p1 : Option (List (Option Nat))) : St :=
  match p1 with
  | some l => { s with these := extendIfNew s.these (some l) }
  | none =>
    -- `elif not self.from_line: self.from_line = p[1]` with p[1] = None
    match s.frm with
    | none => s
    | some 0 => { s with frm := none }
    | some _ => s

/-- one `expression (PLUS|MINUS) term` reduction, preceded by the `term` reduction -/
def stepOp (acc : Except PErr (St × List (Option Nat))) (ot : Op × Term) : Except PErr (St × List (Option Nat)) :=
  match acc with
  | .error e => .error e
  | .ok (s, p1) =>
    let s1 := pTerm s ot.2
    let p3 := termVal ot.2
    match ot.1 with
    | .plus =>
      let s2 := addTwoLines s1 p1 p3
      .ok (s2, exprVal s2)
    | .minus =>
      match collectRange s1 p1 p3 with
      | .error e => .error e
      | .ok s2 => .ok (s2, exprVal s2)

/-- `p_path`: the value of the expression is dropped, the scanner fields stay -/
def finish : Except PErr (St × List (Option Nat)) → Except PErr St
  | .ok (s, _) => .ok s
  | .error er => .error er

/-- the whole parse of the bracket content -/
def parse (e : Expr) : Except PErr St :=
  let s0 : St := {}
  let s1 := pTerm s0 e.first
  let s2 := collectNumber s1 (termVal e.first)
  finish (e.rest.foldl stepOp (.ok (s2, exprVal s2)))

/-- `Scanner.includes(line)` for an `int` line -/
def includes (s : St) (line : Nat) : Bool :=
  if s.frm.isNone && s.all then true
  else if s.frm.isSome && s.all then
    match s.frm with
    | some f => decide (line ≥ f)
    | none => false
  else if s.frm == some line then true
  else
    match s.frm, s.to with
    | some f, some t =>
      if f > t then decide (t ≤ line ∧ line ≤ f) else decide (f ≤ line ∧ line ≤ t)
    | _, _ =>
      if s.these.contains (some line) then true
      else
        match s.to with
        | some t => decide (line < t)
        | none => false

/-- `max(these)` over the `some` members (`None` members would make Python raise; they only
    occur together with `all_lines`, which returns earlier) -/
def maxThese : List (Option Nat) → Option Nat
  | [] => none
  | none :: xs => maxThese xs
  | some x :: xs =>
    match maxThese xs with
    | none => some x
    | some m => some (max x m)

/-- `Scanner.is_last(line)`; `endLine` is `line_monitor.physical_end_line_number` -/
def isLast (s : St) (endLine : Option Nat) (line : Nat) : Bool :=
  let (f, t) :=
    match s.frm, s.to with
    | some f, some t => if f > t then (some t, some f) else (some f, some t)
    | f, t => (f, t)
  let _ := f
  if s.all then endLine == some line
  else if t == some line then true
  else if !s.these.isEmpty && maxThese s.these == some line && t.isNone then true
  else false

/-- does `is_last(line)` raise a TypeError in Python?  `max(these)` compares None with an int
    when `these` has two or more members one of which is None (only reachable outside class K,
    e.g. `[*+3-4]` style parts that leave `all_lines` unset) -/
def isLastRaises (s : St) (line : Nat) : Bool :=
  let t :=
    match s.frm, s.to with
    | some f, some t => if f > t then some f else some t
    | _, t => t
  !s.all && !(t == some line) && s.these.length ≥ 2 && s.these.contains none

/-! ### Lexer for the bracket text (`ScanningLexer`): `t_ignore = " \t\n\r"`, NUMBER `\d+`,
    `+`, `-`, `*`. -/

inductive Tok where
  | num (n : Nat)
  | plus
  | minus
  | star
  deriving Repr, DecidableEq, Inhabited

def isIgnore (c : Char) : Bool := c == ' ' || c == '\t' || c == '\n' || c == '\r'

def isDigit (c : Char) : Bool := '0' ≤ c && c ≤ '9'

/-- lexer with an accumulator for the number being read -/
def lexAux : List Char → Option Nat → List Tok → Option (List Tok)
  | [], none, acc => some acc.reverse
  | [], some n, acc => some (Tok.num n :: acc).reverse
  | c :: cs, cur, acc =>
    if isDigit c then
      lexAux cs (some (cur.getD 0 * 10 + (c.toNat - '0'.toNat))) acc
    else
      let acc := match cur with
        | some n => Tok.num n :: acc
        | none => acc
      if isIgnore c then lexAux cs none acc
      else if c == '+' then lexAux cs none (Tok.plus :: acc)
      else if c == '-' then lexAux cs none (Tok.minus :: acc)
      else if c == '*' then lexAux cs none (Tok.star :: acc)
      else none

def lex (s : String) : Option (List Tok) := lexAux s.toList none []

/-- `term` from the token stream -/
def parseTerm : List Tok → Option (Term × List Tok)
  | Tok.num n :: Tok.star :: r => some (.numStar n, r)
  | Tok.num n :: r => some (.num n, r)
  | Tok.star :: r => some (.star, r)
  | _ => none

def parseRest : Nat → List Tok → List (Op × Term) → Option (List (Op × Term))
  | _, [], acc => some acc.reverse
  | 0, _, _ => none
  | fuel + 1, Tok.plus :: r, acc =>
    match parseTerm r with
    | some (t, r') => parseRest fuel r' ((Op.plus, t) :: acc)
    | none => none
  | fuel + 1, Tok.minus :: r, acc =>
    match parseTerm r with
    | some (t, r') => parseRest fuel r' ((Op.minus, t) :: acc)
    | none => none
  | _, _, _ => none

def parseToks (ts : List Tok) : Option Expr :=
  match parseTerm ts with
  | some (t, r) =>
    match parseRest (r.length + 1) r [] with
    | some rest => some ⟨t, rest⟩
    | none => none
  | none => none

/-- text of the bracket content → expression (`none` = PLY syntax error) -/
def parseText (s : String) : Option Expr :=
  match lex s with
  | some ts => parseToks ts
  | none => none

end Model.Scan
