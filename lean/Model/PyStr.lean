/-
  Python string helpers used by several models: `str.strip()` with CPython's whitespace table
  (`Py_UNICODE_ISSPACE`), ASCII `lower`/`upper`.  Import-free.
-/
namespace Model.PyStr

/-- `ch.isspace()` for `str` -/
def isSpace (c : Char) : Bool :=
  let n := c.toNat
  (0x09 ≤ n && n ≤ 0x0D) || (0x1C ≤ n && n ≤ 0x20) || n == 0x85 || n == 0xA0 || n == 0x1680 ||
  (0x2000 ≤ n && n ≤ 0x200A) || n == 0x2028 || n == 0x2029 || n == 0x202F || n == 0x205F || n == 0x3000

def lstripL : List Char → List Char
  | [] => []
  | c :: cs => if isSpace c then lstripL cs else c :: cs

def stripL (s : List Char) : List Char := (lstripL (lstripL s).reverse).reverse

/-- `s.strip()` -/
def strip (s : String) : String := String.ofList (stripL s.toList)

def isBlank (s : String) : Bool := s.toList.all isSpace

end Model.PyStr
