/-
  Model of csvpath/util/error.py (`ErrorCommsManager.do_i_*`, `ErrorHandler._handle_if`),
  `Expression.handle_errors_if` / `Matcher.clear_errors` (errors of a line handled in order; a
  raise abandons the rest) and the validation-mode token reader of csvpath/modes/validation_mode.py
  (`str.find` of each token, the `no-` form tested first).  Import-free.
-/
namespace Model.Err

/-- the configured error policy (`[errors] csvpath = …`) -/
structure Policy where
  raise : Bool := false
  collect : Bool := false
  stop : Bool := false
  fail : Bool := false
  print : Bool := false
  quiet : Bool := false
  deriving Repr, DecidableEq, Inhabited

/-- the words of an error policy (the fields of `Policy`), as `OnError` spells them -/
def policyTokens : List String := ["collect", "fail", "print", "quiet", "raise", "stop"]

/-- what the csvpath's `validation-mode` comment sets (None = not mentioned) -/
structure Override where
  raise : Option Bool := none
  print : Option Bool := none
  stop : Option Bool := none
  fail : Option Bool := none
  matchv : Option Bool := none      -- match / no-match
  deriving Repr, DecidableEq, Inhabited

/-- `ErrorCommsManager.do_i_*`: the override if present, else policy membership -/
def doRaise (p : Policy) (o : Override) : Bool := o.raise.getD p.raise
def doPrint (p : Policy) (o : Override) : Bool := o.print.getD p.print
def doStop (p : Policy) (o : Override) : Bool := o.stop.getD p.stop
def doFail (p : Policy) (o : Override) : Bool := o.fail.getD p.fail

/-- what handling errors changes -/
structure ESt where
  stopped : Bool := false
  valid : Bool := true
  collected : List Nat := []     -- error records (by the id/line the harness gives them)
  printed : List Nat := []
  deriving Repr, DecidableEq, Inhabited

/-- `_handle_if` for one error; the Bool says whether it raised -/
def handleOne (p : Policy) (o : Override) (s : ESt) (e : Nat) : ESt × Bool :=
  let s1 := if doStop p o then { s with stopped := true } else s
  let s2 := if p.collect then { s1 with collected := s1.collected ++ [e] } else s1
  let s3 := if doFail p o then { s2 with valid := false } else s2
  let s4 := if doPrint p o then { s3 with printed := s3.printed ++ [e] } else s3
  (s4, doRaise p o)

/-- `handle_errors_if`: in order; a raise abandons the rest -/
def handleAll (p : Policy) (o : Override) : ESt → List Nat → ESt × Bool
  | s, [] => (s, false)
  | s, e :: es =>
    let r := handleOne p o s e
    if r.2 then r else handleAll p o r.1 es

/-! ### validation-mode reader -/

/-- `s.find(t) > -1` -/
def isInfix (t s : List Char) : Bool :=
  match s with
  | [] => t.isEmpty
  | _ :: rest => t.isPrefixOf s || isInfix t rest

/-- one family: `no-x` wins, then `x`, else None -/
def readFlag (v : List Char) (tok : String) : Option Bool :=
  if isInfix ("no-" ++ tok).toList v then some false
  else if isInfix tok.toList v then some true
  else none

/-- `ValidationMode._update_settings`; `none` for the whole setting = no validation-mode comment -/
def readOverride (v : Option String) : Override :=
  match v with
  | none => {}
  | some s =>
    if s.isEmpty then {}      -- `veh and …` is falsy for ""
    else
      let cs := s.toList
      { raise := readFlag cs "raise", print := readFlag cs "print", stop := readFlag cs "stop",
        fail := readFlag cs "fail", matchv := readFlag cs "match" }

end Model.Err
