/-
  Model of csvpath/util/metadata_parser.py: the two character state machines
  (`extract_csvpath_and_comment`, `collect_metadata`) and the mode readers of csvpath/modes/*.py
  that touch the run loop.  `str.isalnum` and `str.isspace` are *parameters*: every character
  comes with Python's classification of it (supplied by the harness per character), so theorems
  about this file hold for whatever Unicode tables CPython has.
  Import-free.
-/
namespace Model.Meta

/-- a character together with Python's `c.isalnum()` and `c.isspace()` -/
structure MChar where
  c : Char
  alnum : Bool
  space : Bool
  deriving Repr, DecidableEq, Inhabited

abbrev MStr := List MChar

def hasChar (s : MStr) (ch : Char) : Bool := s.any (·.c == ch)

/-- `str.strip()` -/
def lstrip : MStr → MStr
  | [] => []
  | x :: xs => if x.space then lstrip xs else x :: xs

def strip (s : MStr) : MStr := (lstrip (lstrip s).reverse).reverse

/-- state of `extract_csvpath_and_comment`: 0 outside, 1 outer comment, 2 inside -/
inductive XSt where
  | outside | comment | inside
  deriving Repr, DecidableEq, Inhabited

/-- `extract_csvpath_and_comment`: structural recursion over the characters; `t.find("]")` on the
    rest of the string is `hasChar rest ']'`. Accumulators are kept reversed. -/
def extractGo : XSt → MStr → MStr → MStr → MStr × MStr
  | _, [], p, k => (p.reverse, k.reverse)
  | st, x :: rest, p, k =>
    if x.c == '~' then
      match st with
      | .outside => extractGo .comment rest p k
      | .comment => extractGo .outside rest p k
      | .inside => extractGo .inside rest (x :: p) k
    else if x.c == '[' then extractGo .inside rest (x :: p) k
    else if x.c == ']' then
      let st' := if st == .inside && !hasChar rest ']' then XSt.outside else st
      extractGo st' rest (x :: p) k
    else if x.c == '$' then
      match st with
      | .outside => extractGo .inside rest (x :: p) k
      | .comment => extractGo .comment rest p (x :: k)
      | .inside => extractGo .inside rest (x :: p) k
    else
      match st with
      | .outside => extractGo .outside rest p k
      | .comment => extractGo .comment rest p (x :: k)
      | .inside => extractGo .inside rest (x :: p) k

/-- (csvpath without the outer comment, the comment) -/
def extract (s : MStr) : MStr × MStr := extractGo .outside s [] []

/-- Python dict with insertion order: assignment to an existing key keeps its position -/
def dictSet (d : List (MStr × Option MStr)) (k : MStr) (v : Option MStr) : List (MStr × Option MStr) :=
  match d with
  | [] => [(k, v)]
  | (k', v') :: r => if k' == k then (k', v) :: r else (k', v') :: dictSet r k v

structure CSt where
  word : MStr := []                 -- current_word
  fields : List (MStr × Option MStr) := []
  name : Option MStr := none        -- metaname
  field : Option MStr := none       -- metafield
  deriving Repr, Inhabited

def isWs (x : MChar) : Bool := x.c == ' ' || x.c == '\n' || x.c == '\r' || x.c == '\t'

/-- one character of `collect_metadata` -/
def collectStep (s : CSt) (x : MChar) : CSt :=
  if x.c == ':' then
    let s1 : CSt :=
      match s.name with
      | some nm =>
        -- `metafield[0 : len(metafield) - len(current_word)]` raises TypeError when metafield is
        -- None; that needs a name directly followed by a second colon with no word character in
        -- between — modelled as the empty field (the harness never generates `::`; see DESIGN)
        let f := (s.field.getD [])
        let f' := f.take (f.length - s.word.length)
        { s with fields := dictSet s.fields nm (some (strip f')), name := none, field := none }
      | none => s
    { s1 with name := some (strip s1.word), word := [] }
  else if x.alnum || x.c == '-' || x.c == '_' then
    let s1 := { s with word := s.word ++ [x] }
    match s1.name with
    | some _ =>
      match s1.field with
      | none => { s1 with field := some [x] }
      | some f => { s1 with field := some (f ++ [x]) }
    | none => s1
  else if isWs x then
    let s1 :=
      match s.name, s.field with
      | some _, some f => { s with field := some (f ++ [x]) }
      | _, _ => s
    { s1 with word := [] }
  else
    let s1 :=
      match s.field with
      | some f => { s with field := some (f ++ [x]) }
      | none => if s.name.isSome then { s with field := some [x] } else s
    { s1 with word := [] }

/-- `collect_metadata`: the fields found in a comment, in dict order -/
def collect (comment : MStr) : List (MStr × Option MStr) :=
  let s := comment.foldl collectStep {}
  match s.name with
  | some nm => if nm.isEmpty then s.fields else dictSet s.fields nm (s.field.map strip)
  | none => s.fields

/-- does `collect` hit the `None[0:…]` TypeError of the Python code? (a metaname with no field
    yet when the next colon arrives) -/
def collectRaises (comment : MStr) : Bool :=
  (comment.foldl (fun (acc : CSt × Bool) x =>
      let bad := x.c == ':' && acc.1.name.isSome && acc.1.field.isNone
      (collectStep acc.1 x, acc.2 || bad)) ({}, false)).2

end Model.Meta
