/-
  Model of header handling: `LineCounter.get_lines_and_headers` / `clean_headers`,
  `CsvPath.header_index`, `Header.to_value` (csvpath/util/line_counter.py,
  csvpath/matching/productions/header.py).  `str.strip` is a parameter (Python's Unicode
  whitespace table is not modelled).  Import-free.
-/
namespace Model.Headers



/-- the characters `clean_headers` deletes -/
def removed : List Char := [';', ',', '|', '\t', '`']

/-- `header.strip()` then the five `replace(c, "")` -/
def cleanHeader (strip : String → String) (h : String) : String :=
  String.ofList ((strip h).toList.filter (fun c => !removed.contains c))

/-- the headers of a file: the cleaned cells of the first non-blank record ([] if there is none) -/
def headersOf (strip : String → String) : List (List String) → List String
  | [] => []
  | r :: rs => if r.isEmpty then headersOf strip rs else r.map (cleanHeader strip)

/-- `CsvPath.header_index(name)`: position of the first header equal to the name -/
def headerIndex : List String → String → Option Nat
  | [], _ => none
  | h :: hs, name => if h == name then some 0 else (headerIndex hs name).map (· + 1)

/-- how a csvpath names a header -/
inductive HRef where
  | name (s : String)
  | index (i : Nat)
  deriving Repr, DecidableEq

/-- `Header.to_value`: the (stripped) cell, or None when the header is unknown or the row is too
    short — never an error -/
def headerValue (strip : String → String) (headers : List String) (line : List String) : HRef → Option String
  | .index i => (line[i]?).map strip
  | .name s =>
    match headerIndex headers s with
    | none => none
    | some n => (line[n]?).map strip

end Model.Headers
