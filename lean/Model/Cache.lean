/-
  Model of the header cache of csvpath/managers/files/file_cacher.py + csvpath/util/cache.py:
  `_cache_lines_and_headers` writes the headers as one csv line (`csv.writer().writerow`);
  `cached_text(…, "csv")` reads the first non-empty line back with csv.reader.  For cells without
  comma, quote character or line break (and a list other than `['']`) QUOTE_MINIMAL writes the
  plain comma-joined line and the reader is a split on commas — this much is assumed of Python's
  csv module and is what the model covers; other header lists rely on the csv module's own round
  trip, which the harness exercises (suite `jobs`).  Import-free.
-/
import Model.PathsStore
import Model.Csv

namespace Model.Cache
open Model.Paths (Str split)

def comma : Str := [',']

/-- `",".join(headers)` -/
def joinComma : List Str → Str
  | [] => []
  | [h] => h
  | h :: rest => h ++ comma ++ joinComma rest

/-- what `cached_text(filename, "csv")` returns for the text written: no line at all for the empty
    text, else the cells of the (single) line -/
def readBack (text : Str) : List Str := if text.isEmpty then [] else split comma text

/-- header lists the cache stores faithfully -/
def safeCell (h : Str) : Bool := !(h.contains ',') && !(h.contains '"') && !(h.contains '\n') && !(h.contains '\r')

/-! as repaired: the headers go through the csv module both ways -/

/-- `csv.writer(buf)` / `csv.reader(file)`: the module's default dialect -/
def cacheDialect : Model.Csv.Dialect := ⟨',', '"', 131072⟩

/-- `_cache_lines_and_headers`: `csv.writer(buf).writerow(headers)`, written to the cache file -/
def store (headers : List Str) : Str := Model.Csv.encRecordCRLF cacheDialect headers

/-- `cached_text(filename, "csv")`: the first non-empty record `csv.reader` yields, `[]` when there
    is none, `none` when reading raises (the caller then counts the file again) -/
def load (text : Str) : Option (List Str) :=
  (Model.Csv.read cacheDialect text).map (fun recs => (recs.find? (fun r => !r.isEmpty)).getD [])

end Model.Cache
