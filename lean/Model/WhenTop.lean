/-
  The when/do operator `left -> right`, abstract in its two sides: `Equality._do_when` as a function of a *world* — what the
  left-hand side answers in a state and what it leaves behind, what running the right-hand side does — and of three facts about
  the left-hand side (logic mode, nocontrib, whether it overrides a frozen csvpath).  The interpreter model's `evalWhen` has
  the same shape; the translation of /repo's `_do_when` is proved to compute this definition (Proofs/BridgeWhen.lean).
  Import-free.
-/
namespace Model.WhenTop

structure World (σ : Type) where
  /-- the left-hand side evaluated in a state: whether it answered True, and the state it leaves -/
  evalL : σ → Bool × σ
  /-- the right-hand side run in a state -/
  evalR : σ → σ
  /-- the guard against re-entry from a look-ahead (`self.sentinel`) -/
  sentinel : σ → Bool
  setSentinel : σ → σ
  defaultMatch : σ → Bool
  setDoWhen : Bool → σ → σ
  setFrozen : Bool → σ → σ

variable {σ : Type}

/-- `Equality._do_when`: `dm` — AND mode; `nc` — the left-hand side is nocontrib; `ov` — the left-hand side overrides frozen (`last()`) -/
def whenDo (w : World σ) (dm nc ov : Bool) (s : σ) : Bool × σ :=
  if w.sentinel s then (w.defaultMatch s, s)
  else
    let l := w.evalL (w.setSentinel s)
    if l.1 then
      let s2 := if ov then w.setFrozen false l.2 else l.2
      let s3 := w.evalR (w.setDoWhen true s2)
      (!(!dm && nc), if ov then w.setFrozen true s3 else s3)
    else
      (if !dm && nc then false else nc, w.setDoWhen false l.2)

end Model.WhenTop
