/-
  Model of the run loop of csvpath/csvpath.py: `next`, `_next_line`, `_consider_line`,
  `raise_match_count_if`, `collect(nexts=n)`, `fast_forward`, `finalize`, parametric in the
  matcher.  The matcher is an arbitrary function of the line, its own state and the flags it may
  write (`stopped`, `advance_count`, `is_valid`, `_freeze_path`, `match_count`), so every theorem
  about this file holds for every csvpath, whatever its match part does.
  Import-free.  `skip_blank_lines` is the default (True).
-/
import Model.Scan

namespace Model.Run
open Model.Scan

abbrev Rec := List String

/-- the CsvPath fields a matcher may write -/
structure Flags where
  stopped : Bool := false
  advance : Nat := 0
  valid : Bool := true
  frozen : Bool := false
  matchCount : Nat := 0
  deriving Repr, DecidableEq, Inhabited

/-- read-only context handed to the matcher for one record -/
structure Ctx where
  idx : Nat                 -- line_monitor.physical_line_number
  endIdx : Option Nat       -- line_monitor.physical_end_line_number
  blankLast : Bool          -- the `is_last_line_and_blank` call (only `last()` runs)
  scanCount : Nat
  curMatchCount : Nat       -- `_current_match_count`
  dataCount : Int           -- line_monitor.data_line_count
  dataNumber : Int          -- line_monitor.data_line_number
  deriving Repr, DecidableEq, Inhabited

/-- an arbitrary matcher semantics over its own state σ -/
structure MatcherSem (σ : Type) where
  eval : Ctx → Rec → σ → Flags → Bool × σ × Flags

/-- configuration of one run (the comment modes that touch the loop) -/
structure Cfg where
  cwnm : Bool := false            -- collect_when_not_matched  (return-mode: no-matches)
  willRun : Bool := true          -- run-mode
  unmatchedAvail : Bool := false  -- unmatched-mode: keep
  collecting : Bool := false      -- set by collect()
  deriving Repr, DecidableEq, Inhabited

/-- what the loop keeps between records and what the matcher may see of it -/
structure LoopSt (σ : Type) where
  ms : σ
  fl : Flags := {}
  scanCount : Nat := 0
  curMatchCount : Nat := 0
  dataCount : Int := 0          -- LineMonitor data counters; the first record sets them
  dataNumber : Int := 0
  -- ghost fields (never read by the model)
  offered : List Nat := []      -- records handed to the match part (scanned, non-blank)
  matched : List Nat := []      -- offered records on which the matcher answered True
  declined : List Nat := []     -- offered records that did not match (incl. advanced-over ones)
  deriving Repr, Inhabited

/-- what the consumer side of `next()` accumulates -/
structure Acc where
  unmatched : List Rec := []
  unmatchedIdx : List Nat := []
  yielded : List Nat := []
  seen : Nat := 0
  deriving Repr, DecidableEq, Inhabited

/-- `LineMonitor.next_line` for the data counters (`physical_*` is the index itself) -/
def trackData (i : Nat) (r : Rec) (dc dn : Int) : Int × Int :=
  let hasData := !r.isEmpty
  if i == 0 then
    if hasData then (1, 0) else (-1, -1)
  else if hasData then
    ((if dc == -1 then 0 else dc) + 1, i)
  else (dc, dn)

def trackLine {σ} (i : Nat) (r : Rec) (st : LoopSt σ) : LoopSt σ :=
  { st with dataCount := (trackData i r st.dataCount st.dataNumber).1,
            dataNumber := (trackData i r st.dataCount st.dataNumber).2 }

def mkCtx {σ} (i : Nat) (endIdx : Option Nat) (blankLast : Bool) (st : LoopSt σ) : Ctx :=
  { idx := i, endIdx := endIdx, blankLast := blankLast, scanCount := st.scanCount,
    curMatchCount := st.curMatchCount, dataCount := st.dataCount, dataNumber := st.dataNumber }

/-- `raise_match_count_if` -/
def raiseMatchCountIf {σ} (st : LoopSt σ) : LoopSt σ :=
  if st.curMatchCount == st.fl.matchCount then
    { st with fl := { st.fl with matchCount := st.fl.matchCount + 1 } }
  else st

/-- the matcher call -/
def callMatcher {σ} (m : MatcherSem σ) (endIdx : Option Nat) (i : Nat) (blankLast : Bool) (r : Rec)
    (st : LoopSt σ) : Bool × LoopSt σ :=
  let res := m.eval (mkCtx i endIdx blankLast st) r st.ms st.fl
  (res.1, { st with ms := res.2.1, fl := res.2.2 })

/-- the record is scanned: `scan_count += 1`, `_current_match_count = match_count` -/
def offer {σ} (i : Nat) (st : LoopSt σ) : LoopSt σ :=
  { st with scanCount := st.scanCount + 1, curMatchCount := st.fl.matchCount, offered := st.offered ++ [i] }

def decAdvance {σ} (st : LoopSt σ) : LoopSt σ :=
  { st with fl := { st.fl with advance := st.fl.advance - 1 } }

/-- `if self.advance_count > 0: … matches = False else: matches = self.matches(line)` -/
def advanceOrMatch {σ} (m : MatcherSem σ) (endIdx : Option Nat) (i : Nat) (r : Rec) (st : LoopSt σ) :
    Bool × LoopSt σ :=
  if st.fl.advance > 0 then (false, decAdvance st) else callMatcher m endIdx i false r st

/-- `if self.scanner.is_last(n): self.stop()` -/
def markStop {σ} (scan : St) (endIdx : Option Nat) (i : Nat) (st : LoopSt σ) : LoopSt σ :=
  if isLast scan endIdx i then { st with fl := { st.fl with stopped := true } } else st

/-- the end of `_consider_line` for an offered record -/
def conclude {σ} (i : Nat) (b : Bool) (st : LoopSt σ) : Option Bool × LoopSt σ :=
  if b then
    (some true, { raiseMatchCountIf st with matched := (raiseMatchCountIf st).matched ++ [i] })
  else (some false, { st with declined := st.declined ++ [i] })

def freeze {σ} (st : LoopSt σ) : LoopSt σ := { st with fl := { st.fl with frozen := true } }

/-- `CsvPath._consider_line` up to (not including) the return-mode decision: the outcome is
    `none` when the record is not offered, `some b` when it is offered and `b` says whether it
    matched. -/
def considerCore {σ} (m : MatcherSem σ) (scan : St) (endIdx : Option Nat)
    (i : Nat) (r : Rec) (st : LoopSt σ) : Option Bool × LoopSt σ :=
  if endIdx == some i && r.isEmpty then
    -- last line and blank: freeze, let the matcher run its last()s, drop the answer
    (none, (callMatcher m endIdx i true r (freeze st)).2)
  else if r.isEmpty then (none, st)
  else if includes scan i then
    let bs := advanceOrMatch m endIdx i r (offer i st)
    conclude i bs.1 (markStop scan endIdx i bs.2)
  else (none, st)

/-- the return-mode decision (`collect_when_not_matched`) -/
def decide? (cwnm : Bool) : Option Bool → Bool
  | none => false
  | some b => if cwnm then !b else b

/-- `CsvPath._consider_line` -/
def considerLine {σ} (m : MatcherSem σ) (scan : St) (cwnm : Bool) (endIdx : Option Nat)
    (i : Nat) (r : Rec) (st : LoopSt σ) : Bool × LoopSt σ :=
  let res := considerCore m scan endIdx i r st
  (decide? cwnm res.1, res.2)

/-- `finalize` -/
def finalize {σ} (st : LoopSt σ) : LoopSt σ := freeze st

/-- consumer side of one record: yield or keep as unmatched -/
def accStep (keepUnm : Bool) (i : Nat) (r : Rec) (b : Bool) (acc : Acc) : Acc :=
  let acc1 := { acc with seen := acc.seen + 1 }
  if b then { acc1 with yielded := acc1.yielded ++ [i] }
  else if keepUnm then
    { acc1 with unmatched := acc1.unmatched ++ [r], unmatchedIdx := acc1.unmatchedIdx ++ [i] }
  else acc1

/-- the generator `next()` consumed with a budget of yields: `none` = to exhaustion (then
    `finalize` runs), `some k` = the consumer breaks right after the k-th yield and the generator
    is abandoned at the `yield` (no `if self.stopped`, no `finalize`).
    `keepUnm` = `collecting and unmatched_available`. -/
def runFrom {σ} (m : MatcherSem σ) (scan : St) (cwnm keepUnm : Bool) (endIdx : Option Nat) :
    Option Nat → Nat → List Rec → LoopSt σ → Acc → List Rec × LoopSt σ × Acc
  | _, _, [], st, acc => ([], finalize st, acc)
  | budget, i, r :: rs, st, acc =>
    let res := considerLine m scan cwnm endIdx i r (trackLine i r st)
    let acc1 := accStep keepUnm i r res.1 acc
    if res.1 then
      if budget == some 1 || budget == some 0 then ([r], res.2, acc1)   -- consumer breaks
      else if res.2.fl.stopped then ([r], finalize res.2, acc1)
      else
        let rest := runFrom m scan cwnm keepUnm endIdx (budget.map (· - 1)) (i + 1) rs res.2 acc1
        (r :: rest.1, rest.2)
    else
      if res.2.fl.stopped then ([], finalize res.2, acc1)
      else runFrom m scan cwnm keepUnm endIdx budget (i + 1) rs res.2 acc1

def endIdxOf (recs : List Rec) : Option Nat := if recs.isEmpty then none else some (recs.length - 1)

/-- the three entry points share one loop; they differ in `collecting` and in the budget -/
def runWith {σ} (m : MatcherSem σ) (scan : St) (cfg : Cfg) (budget : Option Nat) (recs : List Rec)
    (st : LoopSt σ) : List Rec × LoopSt σ × Acc :=
  if cfg.willRun then
    runFrom m scan cfg.cwnm (cfg.collecting && cfg.unmatchedAvail) (endIdxOf recs) budget 0 recs st {}
  else ([], finalize st, {})

/-- `CsvPath.next()` to exhaustion -/
def nextRun {σ} (m : MatcherSem σ) (scan : St) (cfg : Cfg) (recs : List Rec) (st : LoopSt σ) :=
  runWith m scan { cfg with collecting := false } none recs st

/-- `CsvPath.collect()` -/
def collectRun {σ} (m : MatcherSem σ) (scan : St) (cfg : Cfg) (recs : List Rec) (st : LoopSt σ) :=
  runWith m scan { cfg with collecting := true } none recs st

/-- `CsvPath.fast_forward()`: `next()` with the lines dropped -/
def ffRun {σ} (m : MatcherSem σ) (scan : St) (cfg : Cfg) (recs : List Rec) (st : LoopSt σ) : LoopSt σ :=
  (nextRun m scan cfg recs st).2.1

/-- `CsvPath.collect(nexts=n)`, n ≥ 0 -/
def collectN {σ} (m : MatcherSem σ) (scan : St) (cfg : Cfg) (n : Nat) (recs : List Rec) (st : LoopSt σ) :=
  runWith m scan { cfg with collecting := true } (some n) recs st

end Model.Run
