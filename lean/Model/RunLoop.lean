/-
  Model of the run loop of csvpath/csvpath.py: `next`, `_next_line`, `_consider_line`,
  `raise_match_count_if`, `collect(nexts=n)`, `fast_forward`, `finalize`, parametric in the
  matcher.  The matcher is an arbitrary function of the line, its own state and the flags it may
  write (`stopped`, `advance_count`, `is_valid`, `_freeze_path`, `match_count`), so every theorem
  about this file holds for every csvpath, whatever its match part does.
  Import-free.  `skip_blank_lines` is the default (True).
-/
import Model.Scan

namespace Model.Run
open Model.Scan

abbrev Rec := List String

/-- the CsvPath fields a matcher may write -/
structure Flags where
  stopped : Bool := false
  advance : Nat := 0
  valid : Bool := true
  frozen : Bool := false
  matchCount : Nat := 0
  deriving Repr, DecidableEq, Inhabited

/-- read-only context handed to the matcher for one record -/
structure Ctx where
  idx : Nat                 -- line_monitor.physical_line_number
  endIdx : Option Nat       -- line_monitor.physical_end_line_number
  blankLast : Bool          -- the `is_last_line_and_blank` call (only `last()` runs)
  scanCount : Nat
  curMatchCount : Nat       -- `_current_match_count`
  dataCount : Int           -- line_monitor.data_line_count
  dataNumber : Int          -- line_monitor.data_line_number
  deriving Repr, DecidableEq, Inhabited

/-- an arbitrary matcher semantics over its own state σ -/
structure MatcherSem (σ : Type) where
  eval : Ctx → Rec → σ → Flags → Bool × σ × Flags

/-- configuration of one run (the comment modes that touch the loop) -/
structure Cfg where
  cwnm : Bool := false            -- collect_when_not_matched  (return-mode: no-matches)
  willRun : Bool := true          -- run-mode
  unmatchedAvail : Bool := false  -- unmatched-mode: keep
  collecting : Bool := false      -- set by collect()
  deriving Repr, DecidableEq, Inhabited

structure RunSt (σ : Type) where
  ms : σ
  fl : Flags := {}
  scanCount : Nat := 0
  curMatchCount : Nat := 0
  dataCount : Int := 0          -- LineMonitor data counters; the first record sets them
  dataNumber : Int := 0
  unmatched : List Rec := []
  -- ghost fields (never read by the model): what was offered to the matcher / what it answered
  offered : List Nat := []
  matched : List Nat := []
  yielded : List Nat := []
  unmatchedIdx : List Nat := []
  seen : Nat := 0
  deriving Repr, Inhabited

/-- `LineMonitor.next_line` for the data counters (`physical_*` is the index itself) -/
def trackLine {σ} (i : Nat) (r : Rec) (st : RunSt σ) : RunSt σ :=
  let hasData := !r.isEmpty
  if i == 0 then
    if hasData then { st with dataCount := 1, dataNumber := 0 }
    else { st with dataCount := -1, dataNumber := -1 }
  else if hasData then
    let c := if st.dataCount == -1 then 0 else st.dataCount
    { st with dataCount := c + 1, dataNumber := i }
  else st

def mkCtx {σ} (i : Nat) (endIdx : Option Nat) (blankLast : Bool) (st : RunSt σ) : Ctx :=
  { idx := i, endIdx := endIdx, blankLast := blankLast, scanCount := st.scanCount,
    curMatchCount := st.curMatchCount, dataCount := st.dataCount, dataNumber := st.dataNumber }

/-- `raise_match_count_if` -/
def raiseMatchCountIf {σ} (st : RunSt σ) : RunSt σ :=
  if st.curMatchCount == st.fl.matchCount then
    { st with fl := { st.fl with matchCount := st.fl.matchCount + 1 } }
  else st

/-- `CsvPath._consider_line` -/
def considerLine {σ} (m : MatcherSem σ) (scan : St) (cfg : Cfg) (endIdx : Option Nat)
    (i : Nat) (r : Rec) (st : RunSt σ) : Bool × RunSt σ :=
  if endIdx == some i && r.isEmpty then
    -- last line and blank: freeze, let the matcher run its last()s, drop the answer
    let st1 := { st with fl := { st.fl with frozen := true } }
    let (_, ms, fl) := m.eval (mkCtx i endIdx true st1) r st1.ms st1.fl
    (false, { st1 with ms := ms, fl := fl })
  else if r.isEmpty then (false, st)
  else if includes scan i then
    let st1 := { st with scanCount := st.scanCount + 1, curMatchCount := st.fl.matchCount,
                         offered := st.offered ++ [i] }
    let (b, st2) :=
      if st1.fl.advance > 0 then
        (false, { st1 with fl := { st1.fl with advance := st1.fl.advance - 1 } })
      else
        let (b, ms, fl) := m.eval (mkCtx i endIdx false st1) r st1.ms st1.fl
        (b, { st1 with ms := ms, fl := fl })
    let st3 := if isLast scan endIdx i then { st2 with fl := { st2.fl with stopped := true } } else st2
    if b then
      let st4 := raiseMatchCountIf st3
      let st5 := { st4 with matched := st4.matched ++ [i] }
      (!cfg.cwnm, st5)
    else (cfg.cwnm, st3)
  else (false, st)

/-- `finalize` -/
def finalize {σ} (st : RunSt σ) : RunSt σ := { st with fl := { st.fl with frozen := true } }

/-- one record of `next()`: track, consider, yield or keep as unmatched -/
def stepRec {σ} (m : MatcherSem σ) (scan : St) (cfg : Cfg) (endIdx : Option Nat)
    (i : Nat) (r : Rec) (st : RunSt σ) : Option Rec × RunSt σ :=
  let (b, st0) := considerLine m scan cfg endIdx i r (trackLine i r st)
  let st1 := { st0 with seen := st0.seen + 1 }
  if b then (some r, { st1 with yielded := st1.yielded ++ [i] })
  else if cfg.collecting && cfg.unmatchedAvail then
    (none, { st1 with unmatched := st1.unmatched ++ [r], unmatchedIdx := st1.unmatchedIdx ++ [i] })
  else (none, st1)

/-- the generator `next()` consumed with a budget of yields: `none` = to exhaustion (then
    `finalize` runs), `some k` = the consumer breaks right after the k-th yield and the generator
    is abandoned at the `yield` (no `if self.stopped`, no `finalize`). -/
def runFrom {σ} (m : MatcherSem σ) (scan : St) (cfg : Cfg) (endIdx : Option Nat) :
    Option Nat → Nat → List Rec → RunSt σ → List Rec × RunSt σ
  | _, _, [], st => ([], finalize st)
  | budget, i, r :: rs, st =>
    match stepRec m scan cfg endIdx i r st with
    | (some y, st1) =>
      match budget with
      | some 1 => ([y], st1)                       -- consumer breaks; generator abandoned
      | some 0 => ([y], st1)                       -- `nexts = 0` behaves like 1
      | _ =>
        if st1.fl.stopped then ([y], finalize st1)
        else
          let (ys, st2) := runFrom m scan cfg endIdx (budget.map (· - 1)) (i + 1) rs st1
          (y :: ys, st2)
    | (none, st1) =>
      if st1.fl.stopped then ([], finalize st1)
      else runFrom m scan cfg endIdx budget (i + 1) rs st1

def endIdxOf (recs : List Rec) : Option Nat := if recs.isEmpty then none else some (recs.length - 1)

/-- `CsvPath.next()` to exhaustion: the yielded lines and the final state -/
def nextRun {σ} (m : MatcherSem σ) (scan : St) (cfg : Cfg) (recs : List Rec) (st : RunSt σ) :
    List Rec × RunSt σ :=
  if cfg.willRun then runFrom m scan { cfg with collecting := false } (endIdxOf recs) none 0 recs st
  else ([], finalize st)

/-- `CsvPath.collect()` -/
def collectRun {σ} (m : MatcherSem σ) (scan : St) (cfg : Cfg) (recs : List Rec) (st : RunSt σ) :
    List Rec × RunSt σ :=
  if cfg.willRun then runFrom m scan { cfg with collecting := true } (endIdxOf recs) none 0 recs st
  else ([], finalize st)

/-- `CsvPath.fast_forward()` -/
def ffRun {σ} (m : MatcherSem σ) (scan : St) (cfg : Cfg) (recs : List Rec) (st : RunSt σ) : RunSt σ :=
  (nextRun m scan cfg recs st).2

/-- `CsvPath.collect(nexts=n)`, n ≥ 0 -/
def collectN {σ} (m : MatcherSem σ) (scan : St) (cfg : Cfg) (n : Nat) (recs : List Rec) (st : RunSt σ) :
    List Rec × RunSt σ :=
  if cfg.willRun then runFrom m scan { cfg with collecting := true } (endIdxOf recs) (some n) 0 recs st
  else ([], finalize st)

end Model.Run
