/-
  Model of run-directory naming and resolution: `ResultSerializer.get_run_dir_name_from_datetime`
  (strftime "%Y-%m-%d_%H-%M-%S"), `get_run_dir` (the `.N` collision suffix) and
  `ResultsManager._find_in_dir_names` (prefix filter, sort by the parsed time, `:last`/`:first`).
  A CsvPaths instance keeps no run directory between runs (`run_time_str(pathsname)` recomputes it).
  Import-free.
-/
namespace Model.RunDir

/-- a UTC wall-clock time to the second -/
structure TS where
  y : Nat
  mo : Nat
  d : Nat
  h : Nat
  mi : Nat
  s : Nat
  deriving Repr, DecidableEq, Inhabited

def TS.valid (t : TS) : Prop :=
  1000 ≤ t.y ∧ t.y ≤ 9999 ∧ 1 ≤ t.mo ∧ t.mo ≤ 12 ∧ 1 ≤ t.d ∧ t.d ≤ 31 ∧ t.h < 24 ∧ t.mi < 60 ∧ t.s < 60

instance (t : TS) : Decidable t.valid := by unfold TS.valid; exact inferInstance

/-- chronological order as one number -/
def TS.key (t : TS) : Nat := ((((t.y * 13 + t.mo) * 32 + t.d) * 24 + t.h) * 60 + t.mi) * 60 + t.s

def digit (n : Nat) : Char := Char.ofNat (48 + n % 10)
def pad2 (n : Nat) : List Char := [digit (n / 10), digit n]
def pad4 (n : Nat) : List Char := [digit (n / 1000), digit (n / 100), digit (n / 10), digit n]

/-- the `strftime` format that `format` implements -/
def formatSpec : String := "%Y-%m-%d_%H-%M-%S"

/-- strftime "%Y-%m-%d_%H-%M-%S" -/
def format (t : TS) : List Char :=
  pad4 t.y ++ ['-'] ++ pad2 t.mo ++ ['-'] ++ pad2 t.d ++ ['_'] ++ pad2 t.h ++ ['-'] ++ pad2 t.mi ++ ['-'] ++ pad2 t.s

def dval (c : Char) : Option Nat := if '0' ≤ c ∧ c ≤ '9' then some (c.toNat - 48) else none

def num : List Char → Option Nat
  | [] => some 0
  | cs => cs.foldl (fun acc c => match acc, dval c with
      | some a, some v => some (a * 10 + v)
      | _, _ => none) (some 0)

/-- strptime "%Y-%m-%d_%H-%M-%S" on a name of exactly that shape -/
def parse : List Char → Option TS
  | [y1, y2, y3, y4, '-', m1, m2, '-', d1, d2, '_', h1, h2, '-', i1, i2, '-', s1, s2] =>
    match num [y1, y2, y3, y4], num [m1, m2], num [d1, d2], num [h1, h2], num [i1, i2], num [s1, s2] with
    | some y, some mo, some d, some h, some mi, some s => some ⟨y, mo, d, h, mi, s⟩
    | _, _, _, _, _, _ => none
  | _ => none

/-- `get_run_dir`: the plain name if unused, else the first unused `name.i` (the file system is
    finite: `fuel` bounds the search) -/
def suffixed (name : List Char) (i : Nat) : List Char := name ++ ['.'] ++ (toString i).toList

def firstFree (used : List Char → Bool) (name : List Char) : Nat → Nat → Option (List Char)
  | 0, _ => none
  | fuel + 1, i => if used (suffixed name i) then firstFree used name fuel (i + 1) else some (suffixed name i)

def getRunDir (used : List Char → Bool) (t : TS) (fuel : Nat) : Option (List Char) :=
  if used (format t) then firstFree used (format t) fuel 0 else some (format t)

/-- `sorted(names, key)[-1]` / `[0]` over (name, key) pairs: the last maximal / first minimal -/
def pickLast : List (List Char × Nat) → Option (List Char × Nat)
  | [] => none
  | x :: xs => match pickLast xs with
    | none => some x
    | some b => if x.2 > b.2 then some x else some b

def pickFirst : List (List Char × Nat) → Option (List Char × Nat)
  | [] => none
  | x :: xs => match pickFirst xs with
    | none => some x
    | some b => if x.2 ≤ b.2 then some x else some b

end Model.RunDir
