/-
  Model of the named-files store: csvpath/managers/files/file_manager.py (`add_named_file`,
  `_copy_in`, `_fingerprint`, `get_named_file`, `remove_named_file`, `named_file_names`) and
  file_registrar.py (`register_complete` skip test, `metadata_update`, `registered_file`,
  `get_fingerprint`).  The file system is abstract: the directory of one name is a list of files
  keyed by (source file name, digest); contents are opaque values, the hash function is a
  parameter.  Instances hold no state of their own, so "a fresh CsvPaths instance" is the identity
  on this model.  Import-free.
-/
namespace Model.Files

/-- one manifest entry (the fields the properties speak about) -/
structure Entry (δ : Type) where
  fingerprint : δ
  fileHome : String        -- the source file's name (the directory under the name home)
  deriving Repr, DecidableEq

/-- the directory of one named file -/
structure NameDir (κ δ : Type) where
  manifest : List (Entry δ) := []
  files : List ((String × δ) × κ) := []     -- <name home>/<source name>/<digest>.<ext> ↦ content
  deriving Repr

/-- the named-files area: name ↦ directory (absent = no such name) -/
abbrev Store (κ δ : Type) := List (String × NameDir κ δ)

variable {κ δ : Type} [DecidableEq δ]

def lookup (s : Store κ δ) (name : String) : Option (NameDir κ δ) :=
  (s.find? (·.1 == name)).map (·.2)

def setDir (s : Store κ δ) (name : String) (d : NameDir κ δ) : Store κ δ :=
  match s with
  | [] => [(name, d)]
  | (n, d') :: r => if n == name then (n, d) :: r else (n, d') :: setDir r name d

def fileAt (d : NameDir κ δ) (k : String × δ) : Option κ :=
  (d.files.find? (fun f => f.1.1 == k.1 && f.1.2 == k.2)).map (·.2)

/-- `add_named_file(name, path)`: copy in, fingerprint (keep an existing file of that digest,
    else rename the copy), append to the manifest unless the last entry has the same fingerprint
    and the same file home -/
def add (H : κ → δ) (s : Store κ δ) (name src : String) (content : κ) : Store κ δ :=
  let d := (lookup s name).getD {}
  let h := H content
  let files := match fileAt d (src, h) with
    | some _ => d.files                         -- `os.remove(fpath)`: the stored file stays
    | none => d.files ++ [((src, h), content)]  -- `os.rename(fpath, hpath)`
  let skip := match d.manifest.getLast? with
    | some e => e.fingerprint == h && e.fileHome == src
    | none => false
  let manifest := if skip then d.manifest else d.manifest ++ [{ fingerprint := h, fileHome := src }]
  setDir s name { manifest := manifest, files := files }

/-- `remove_named_file(name)` (rmtree) -/
def remove (s : Store κ δ) (name : String) : Store κ δ := s.filter (fun p => !(p.1 == name))

/-- `get_named_file(name)`: the file named by the last manifest entry -/
def get (s : Store κ δ) (name : String) : Option (String × δ) :=
  match lookup s name with
  | none => none
  | some d => d.manifest.getLast?.map (fun e => (e.fileHome, e.fingerprint))

/-- the bytes behind `get_named_file(name)` -/
def bytes (s : Store κ δ) (name : String) : Option κ :=
  match lookup s name, get s name with
  | some d, some k => fileAt d k
  | _, _ => none

/-- `get_fingerprint_for_name` -/
def fingerprint (s : Store κ δ) (name : String) : Option δ := (get s name).map (·.2)

def names (s : Store κ δ) : List String := s.map (·.1)

/-- operations of a history -/
inductive Op (κ : Type) where
  | add (name src : String) (content : κ)
  | remove (name : String)
  | newInstance
  | mutateSource (src : String) (content : κ)     -- edits a file outside the store
  deriving Repr

def step (H : κ → δ) (s : Store κ δ) : Op κ → Store κ δ
  | .add n src c => add H s n src c
  | .remove n => remove s n
  | .newInstance => s
  | .mutateSource _ _ => s

end Model.Files
