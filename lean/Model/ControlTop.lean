/-
  stop(), fail_and_stop(), skip() and fail() as functions of a *world* — what the condition, if there is one, answers in a state and
  what it leaves behind — and of how the flags are written.  The interpreter model's `stop`/`skip`/`fail` cases have the same shape;
  the translation of /repo's `Stop._decide_match`, `Skip._decide_match`, `Fail._decide_match` is proved to compute these definitions
  (Proofs/BridgeControl.lean).  Import-free.
-/
namespace Model.ControlTop

structure World (σ : Type) where
  /-- the condition evaluated in a state: whether it answered True, and the state it leaves -/
  evalChild : σ → Bool × σ
  setStopped : σ → σ
  setInvalid : σ → σ
  setSkip : σ → σ
  /-- the function's own vote is written last (`self.match = self.default_match()`) -/
  setMatch : σ → σ

variable {σ : Type}

/-- what firing a stop does: the run stops; `fail_and_stop` also fails the file -/
def fire (w : World σ) (failToo : Bool) (s : σ) : σ :=
  if failToo then w.setInvalid (w.setStopped s) else w.setStopped s

/-- `stop()`, `stop(cond)`, `fail_and_stop()`, `fail_and_stop(cond)`: without a condition it fires; with one it fires exactly when the
    condition answers True, in the state the condition left -/
def stopFn (w : World σ) (hasCond failToo : Bool) (s : σ) : σ :=
  w.setMatch (if hasCond then (if (w.evalChild s).1 then fire w failToo (w.evalChild s).2 else (w.evalChild s).2) else fire w failToo s)

/-- `skip()`, `skip(cond)` (`doOnce`: the `once` qualifier lets it act) -/
def skipFn (w : World σ) (hasCond doOnce : Bool) (s : σ) : σ :=
  w.setMatch (if doOnce then
      (if hasCond then (if (w.evalChild s).1 then w.setSkip (w.evalChild s).2 else (w.evalChild s).2) else w.setSkip s)
    else s)

/-- `fail()` -/
def failFn (w : World σ) (s : σ) : σ := w.setMatch (w.setInvalid s)

end Model.ControlTop
