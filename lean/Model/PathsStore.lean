/-
  Model of the named-paths store: csvpath/managers/paths/paths_manager.py (`_str_from_list`,
  `_get_named_paths`, `get_identified_paths_in`, `_find_one`, `_get_to`, `_get_from`) and
  paths_registrar.py (manifest append iff the fingerprint of the group file changed).
  Strings are `List Char`; identities come from the metadata model.  Import-free.
-/
import Model.Metadata

namespace Model.Paths

abbrev Str := List Char

def marker : Str := "---- CSVPATH ----".toList
def joiner : Str := "\n\n---- CSVPATH ----\n\n".toList

/-- `_str_from_list` -/
def strFromList (paths : List Str) : Str := paths.foldl (fun f p => f ++ joiner ++ p) []

/-- Python `str.split(sep)` for a non-empty separator: leftmost, non-overlapping.  Structural
    recursion over the text; `skip` counts the separator characters still to be consumed after a
    match. -/
def splitGo (sep : Str) : Nat → Str → Str → List Str
  | _, [], cur => [cur.reverse]
  | skip + 1, _ :: cs, cur => splitGo sep skip cs cur
  | 0, c :: cs, cur =>
    if sep.isPrefixOf (c :: cs) then cur.reverse :: splitGo sep (sep.length - 1) cs []
    else splitGo sep 0 cs (c :: cur)

def split (sep s : Str) : List Str := splitGo sep 0 s []

/-- `sep in s` -/
def hasInfix (sep : Str) : Str → Bool
  | [] => sep.isEmpty
  | c :: cs => sep.isPrefixOf (c :: cs) || hasInfix sep cs

/-- Python `str.isspace` restricted to what `strip()` removes in ASCII text; the harness sends
    non-ASCII whitespace classification separately when it matters (group files are compared on
    generated csvpaths whose only blanks are ASCII) -/
def isBlank (c : Char) : Bool := c == ' ' || c == '\n' || c == '\t' || c == '\r' || c == '\x0b' || c == '\x0c'

def allBlank (s : Str) : Bool := s.all isBlank

/-- `_get_named_paths`: split on the marker, drop blank pieces (no strip) -/
def getNamedPaths (groupFile : Str) : List Str := (split marker groupFile).filter (fun p => !allBlank p)

/-- the group as (identity, csvpath) pairs — identities are computed by the metadata model -/
abbrev Identified := List (Str × Str)

/-- `_find_one` -/
def findOne (g : Identified) (ident : Str) : Option Str := (g.find? (·.1 == ident)).map (·.2)

/-- `_get_to`: through the member with that identity (everything if there is none) -/
def getTo : Identified → Str → List Str
  | [], _ => []
  | (i, p) :: r, ident => if i == ident then [p] else p :: getTo r ident

/-- `_get_from`: from the first member with that identity on -/
def getFrom : Identified → Str → List Str
  | [], _ => []
  | (i, p) :: r, ident => if i == ident then p :: r.map (·.2) else getFrom r ident

/-- `CsvPath.identity`: id > Id > ID > name > Name > NAME in the metadata, else "" -/
def identityOf (fields : List (Str × Option Str)) : Option Str :=
  let get := fun (k : String) => (fields.find? (·.1 == k.toList)).map (·.2)
  match get "id" with
  | some v => v
  | none => match get "Id" with
    | some v => v
    | none => match get "ID" with
      | some v => v
      | none => match get "name" with
        | some v => v
        | none => match get "Name" with
          | some v => v
          | none => match get "NAME" with
            | some v => v
            | none => some []

/-- the manifest of one group: fingerprints of the group file, appended iff changed -/
def manifestAdd {δ : Type} [DecidableEq δ] (m : List δ) (f : δ) : List δ :=
  if m.getLast? == some f then m else m ++ [f]

end Model.Paths
