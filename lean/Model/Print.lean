import Model.PyStr
import Model.Value
/-!
# print() templates (C16)

`csvpath/matching/util/lark_print_parser.py` parses a print string with a Lark Earley grammar

    printed: (TEXT | reference | WS)+
    TEXT: /[^\$\s]+/
    reference: ROOT type name
    ROOT: /\$[^\.\$]*\./
    type: "variables" | "headers" | "metadata" | "csvpath"
    name: "." (SIMPLE_NAME | QUOTED_NAME) ("." (SIMPLE_NAME | QUOTED_NAME))? SENTINEL
    SENTINEL: /[^\.]|\.\./

(the dynamic lexer takes the longest match of each regular expression, so the language is
deterministic) and `print_parser.py` concatenates the text tokens and the values of the references,
each followed by its sentinel text.  What can be observed is the resulting string, so the model
works at the level of characters: text and white space are copied one character at a time and a
`$` starts a reference, which `parseRef` reads from the characters that follow.  The recursion is
structural: after a reference `go` skips the characters the reference consumed.
-/
namespace Model.Print
open Model.Val

/-- `common.WS` of Lark: `/[ \t\f\r\n]+/` -/
def isWS (c : Char) : Bool := c == ' ' || c == '\t' || c == '\x0c' || c == '\r' || c == '\n'

/-- a character of `TEXT`: `[^\$\s]` (Python's `\s` for `str` patterns is `str.isspace`) -/
def isText (c : Char) : Bool := c != '$' && !Model.PyStr.isSpace c

/-- the characters a `SIMPLE_NAME` cannot contain, other than white space -/
def excl : List Char :=
  ['.', '$', '!', '^', ':', ',', ';', '%', '(', ')', '-', '+', '@', '#', '{', '}', '[', ']', '&', '<', '>',
   '/', '|', '?', '"', '\'']

def isSimple (c : Char) : Bool := !excl.contains c && !Model.PyStr.isSpace c

inductive DType where
  | variables | headers | metadata | csvpath
  deriving Repr, DecidableEq

/-- what the transformer hands to the resolution step -/
structure Ref where
  root : List Char                  -- the text between `$` and the first `.`
  dtype : DType
  name : List Char                  -- unquoted
  tracking : Option (List Char)     -- the token as written (a quoted tracking name keeps its quotes)
  deriving Repr, DecidableEq

def typeOf : List Char → Option (DType × List Char)
  | 'v' :: 'a' :: 'r' :: 'i' :: 'a' :: 'b' :: 'l' :: 'e' :: 's' :: r => some (.variables, r)
  | 'h' :: 'e' :: 'a' :: 'd' :: 'e' :: 'r' :: 's' :: r => some (.headers, r)
  | 'm' :: 'e' :: 't' :: 'a' :: 'd' :: 'a' :: 't' :: 'a' :: r => some (.metadata, r)
  | 'c' :: 's' :: 'v' :: 'p' :: 'a' :: 't' :: 'h' :: r => some (.csvpath, r)
  | _ => none

/-- a name token: `(raw token, unquoted text, rest)` -/
def parseName : List Char → Option (List Char × List Char × List Char)
  | '\'' :: cs =>
    let body := cs.takeWhile (· != '\'')
    match cs.dropWhile (· != '\'') with
    | '\'' :: rest => if body.isEmpty then none else some ('\'' :: body ++ ['\''], body, rest)
    | _ => none
  | cs =>
    let body := cs.takeWhile isSimple
    if body.isEmpty then none else some (body, body, cs.dropWhile isSimple)

/-- the sentinel that ends a name: one character other than `.`, or `..` standing for a dot.
    Returns (sentinel text as printed, rest). -/
def parseSentinel : List Char → Option (List Char × List Char)
  | '.' :: '.' :: rest => some (['.'], rest)
  | '.' :: _ => none
  | c :: rest => some ([c], rest)
  | [] => none

/-- reads a reference from the characters after `$`: (reference, sentinel text, rest) -/
def parseRef (cs : List Char) : Option (Ref × List Char × List Char) :=
  let root := cs.takeWhile (fun c => c != '.' && c != '$')
  match cs.dropWhile (fun c => c != '.' && c != '$') with
  | '.' :: r1 =>
    match typeOf r1 with
    | some (t, '.' :: r2) =>
      match parseName r2 with
      | some (_, nm, r3) =>
        match r3 with
        | '.' :: '.' :: r4 => some ({ root := root, dtype := t, name := nm, tracking := none }, ['.'], r4)
        | '.' :: r4 =>
          match parseName r4 with
          | some (raw2, _, r5) =>
            match parseSentinel r5 with
            | some (sen, r6) => some ({ root := root, dtype := t, name := nm, tracking := some raw2 }, sen, r6)
            | none => none
          | none => none
        | _ =>
          match parseSentinel r3 with
          | some (sen, r4) => some ({ root := root, dtype := t, name := nm, tracking := none }, sen, r4)
          | none => none
      | none => none
    | _ => none
  | _ => none

/-- `PrintParser.transform`: the concatenation of text and of resolved references, or `none` where
    Lark raises (no terminal matches). `resolve` answers `none` when resolution itself raises or is
    outside the model. -/
def go (resolve : Ref → Option (List Char)) : Nat → List Char → Option (List Char)
  | _, [] => some []
  | n + 1, _ :: cs => go resolve n cs
  | 0, c :: cs =>
    if c == '$' then
      match parseRef cs with
      | some (r, sen, rest) =>
        match resolve r, go resolve (cs.length - rest.length) cs with
        | some v, some out => some (v ++ sen ++ out)
        | _, _ => none
      | none => none
    else if isWS c || isText c then (go resolve 0 cs).map (c :: ·)
    else none

/-- `Print._decide_match`: parse the string plus one blank, then drop one trailing blank -/
def printString (resolve : Ref → Option (List Char)) (s : List Char) : Option (List Char) :=
  match go resolve 0 (s ++ [' ']) with
  | some v =>
    if v.isEmpty then none                      -- `v[len(v) - 1]` raises IndexError
    else if v.getLast? == some ' ' then some v.dropLast else some v
  | none => none

/-! ## Resolution against the run's data (`PrintParser._handle_local`), tied by correspondence -/

structure PEnv where
  vars : List (Value × Value) := []
  headers : List String := []
  line : List String := []
  metadata : List (Value × Value) := []
  fields : List (Value × Value) := []

inductive Res where
  | ok (s : String)
  | unmodelled (why : String)
  deriving Repr

def fmtV (v : Value) : Res :=
  match pyFormat v with
  | .ok s => .ok s
  | .unmodelled w => .unmodelled w

def dictGet? (kv : List (Value × Value)) (k : String) : Option Value :=
  (kv.find? (fun p => p.1 == Value.str k)).map (·.2)

def isAsciiDigits (s : String) : Bool := !s.isEmpty && s.toList.all (fun c => '0' ≤ c && c ≤ '9')

/-- could Python's `int()` accept this text although it is not plain ASCII digits? -/
def intMaybe (s : String) : Bool :=
  s.toList.any (fun c => c.isDigit || c.toNat ≥ 128)

def headerIndex (hs : List String) (name : String) : Option Nat :=
  let i := hs.findIdx (· == name)
  if i < hs.length then some i else none

/-- `_ref_from_dict` -/
def refFromDict (data : List (Value × Value)) (name : String) (tracking : Option String) : Res :=
  match dictGet? data name with
  | none => .ok name
  | some datum =>
    match tracking with
    | none => fmtV datum
    | some t =>
      match datum with
      | .dict kv =>
        (match dictGet? kv t with
         | some .none => fmtV datum
         | some x => fmtV x
         | none => .ok "")
      | .list xs =>
        if t == "length" then .ok (toString xs.length)
        else if isAsciiDigits t then
          (match xs[t.toNat!]? with
           | some .none => fmtV datum
           | some x => fmtV x
           | none => .ok "")
        else if intMaybe t then .unmodelled "list index that int() may accept"
        else .ok ""
      | _ => .ok ""

/-- `_ref_from_list` (headers) -/
def refFromLine (env : PEnv) (name : String) : Res :=
  let i : Option Nat := match headerIndex env.headers name with
    | some i => some i
    | none => if isAsciiDigits name then some name.toNat! else none
  if (headerIndex env.headers name).isNone && !isAsciiDigits name && intMaybe name then
    .unmodelled "header name that isdigit() may accept"
  else
    match i with
    | some i => (match env.line[i]? with | some cell => .ok cell | none => .ok name)
    | none => .ok name

def resolveEnv (env : PEnv) (r : Ref) : Res :=
  if r.root != [] then .unmodelled "reference to named results"
  else if r.name.contains '.' then .unmodelled "quoted name containing a dot"
  else
    let name := String.ofList r.name
    let tracking : Option String := match r.tracking with
      | some t => let s := String.ofList t; if Model.PyStr.strip s == "" then none else some s
      | none => none
    match r.dtype with
    | .variables => refFromDict env.vars name tracking
    | .metadata => refFromDict env.metadata name tracking
    | .csvpath => refFromDict env.fields name tracking
    | .headers => refFromLine env name

inductive Outcome where
  | printed (s : String)
  | error
  | unmodelled (why : String)
  deriving Repr

/-- the whole of print's string handling against concrete data -/
def printWith (env : PEnv) (s : String) : Outcome :=
  -- first pass: is every reference inside the model?
  let probe := go (fun r => match resolveEnv env r with | .ok v => some v.toList | .unmodelled _ => some []) 0 (s.toList ++ [' '])
  let bad := goBad env 0 (s.toList ++ [' '])
  match bad with
  | some w => .unmodelled w
  | none =>
    match probe with
    | none => .error
    | some _ =>
      match printString (fun r => match resolveEnv env r with | .ok v => some v.toList | .unmodelled _ => none) s.toList with
      | some out => .printed (String.ofList out)
      | none => .error
where
  goBad (env : PEnv) : Nat → List Char → Option String
    | _, [] => none
    | n + 1, _ :: cs => goBad env n cs
    | 0, c :: cs =>
      if c == '$' then
        match parseRef cs with
        | some (r, _, rest) =>
          (match resolveEnv env r with
           | .unmodelled w => some w
           | .ok _ => goBad env (cs.length - rest.length) cs)
        | none => none
      else goBad env 0 cs

end Model.Print
