/-
  Model of the mode settings C15 names, as the `value` getters of csvpath/modes/return_mode.py, run_mode.py and
  unmatched_mode.py read them from the metadata field of the outer comment (None = the field is not there).
-/
import Model.Py
namespace Model.Modes

/-- `return-mode`: `some true` = return the lines that do not match (`collect_when_not_matched`); `none` = InputException -/
def returnMode (m : Option String) : Option Bool :=
  let rm := Model.PyStr.strip (m.getD "matches")
  if rm = "matches" then some false else if rm = "no-matches" then some true else none

/-- `run-mode`: `some false` = the csvpath is not run; `none` = InputException -/
def runMode (m : Option String) : Option Bool :=
  let rm := Model.PyStr.strip (m.getD "run")
  if rm = "run" then some true else if rm = "no-run" then some false else none

/-- `unmatched-mode`: unmatched lines are kept iff the field is there and does not contain `no-keep` -/
def unmatchedMode (m : Option String) : Bool :=
  match m with
  | none => false
  | some um => (Py.findFrom "no-keep".toList um.toList 0).isNone

/-- `source-mode`: the csvpath reads what its predecessor collected iff the field is exactly `preceding` -/
def sourceMode (m : Option String) : Bool := m == some "preceding"

end Model.Modes
