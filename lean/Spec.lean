import Spec.Scan
import Spec.Assign
import Spec.Errors
import Spec.Stores
import Spec.Print
import Spec.Match
