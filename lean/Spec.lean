import Spec.Scan
