import Spec.Scan
import Spec.Assign
