"""Lean side of every check: incremental `lake build`, grep for forbidden constructs, and
`#print axioms` for every theorem registered for the property.  Accepted axioms: propext,
Classical.choice, Quot.sound."""
import os
import re
import subprocess
import sys
import tempfile

VERIF = os.path.dirname(os.path.dirname(os.path.abspath(__file__)))
LEAN = os.path.join(VERIF, "lean")
ACCEPTED = {"propext", "Classical.choice", "Quot.sound"}
FORBIDDEN = re.compile(r"\b(sorry|admit|native_decide|bv_decide|implemented_by|unsafe)\b|^\s*axiom\s|maxHeartbeats\s+0")


def strip_comments(src):
    # remove /- ... -/ (nested not handled beyond one level, good enough for our files) and -- ...
    out = []
    depth = 0
    i = 0
    while i < len(src):
        if src.startswith("/-", i):
            depth += 1
            i += 2
        elif src.startswith("-/", i) and depth > 0:
            depth -= 1
            i += 2
        elif depth > 0:
            i += 1
        elif src.startswith("--", i):
            j = src.find("\n", i)
            i = len(src) if j < 0 else j
        else:
            out.append(src[i])
            i += 1
    return "".join(out)


def grep_forbidden():
    hits = []
    for sub in ("Model", "Spec", "Proofs", "Props", "Generated"):
        d = os.path.join(LEAN, sub)
        if not os.path.isdir(d):
            continue
        for root, _, files in os.walk(d):
            for fn in files:
                if fn.endswith(".lean"):
                    p = os.path.join(root, fn)
                    code = strip_comments(open(p, encoding="utf-8").read())
                    for ln, line in enumerate(code.split("\n"), 1):
                        if FORBIDDEN.search(line):
                            hits.append(f"{p}:{ln}: {line.strip()[:100]}")
    return hits


def lake_build(targets=None):
    cmd = ["lake", "build"] + (targets or [])
    r = subprocess.run(cmd, cwd=LEAN, capture_output=True, text=True)
    return r.returncode == 0, (r.stdout + r.stderr)


def print_axioms(modules, theorems):
    """returns {theorem: [axioms]} ; missing theorem -> None"""
    src = "".join(f"import {m}\n" for m in modules) + "".join(f"#print axioms {t}\n" for t in theorems)
    with tempfile.NamedTemporaryFile("w", suffix=".lean", dir=LEAN, delete=False, prefix="Audit_") as f:
        f.write(src)
        path = f.name
    try:
        r = subprocess.run(["lake", "env", "lean", path], cwd=LEAN, capture_output=True, text=True)
        out = r.stdout + r.stderr
    finally:
        os.unlink(path)
    res = {}
    for t in theorems:
        m = re.search(r"'" + re.escape(t) + r"' depends on axioms: \[([^\]]*)\]", out, re.S)
        if m:
            res[t] = [a.strip() for a in m.group(1).replace("\n", " ").split(",") if a.strip()]
        elif re.search(r"'" + re.escape(t) + r"' does not depend on any axioms", out):
            res[t] = []
        else:
            res[t] = None
    return res, out


def audit(check, modules, theorems):
    """fills check.obligations/discharged/axioms; records broken obligations"""
    check.obligations = list(theorems)
    # (T) regenerate the tables of the model from /repo's working tree; the *Tie theorems compare them with the model
    r = subprocess.run(["/venv/bin/python", os.path.join(VERIF, "tools", "extract.py")], capture_output=True, text=True, cwd=VERIF)
    check.extra["extract"] = (r.stdout.strip().split("\n") or [""])[-1]
    check.extra["translated_cores"] = [ln[len("extract: core "):] for ln in r.stdout.split("\n") if ln.startswith("extract: core ")]
    if r.returncode != 0:
        check.break_("tools/extract.py could not read the tables off /repo (the source no longer has the shape the translator reads)",
                     {"log_tail": (r.stdout + r.stderr)[-2000:]})
        return False
    # only what this property needs: the driver (the models) and the property's own modules, so that a proof obligation
    # of another property that no longer builds is reported by that property's check alone
    ok, log = lake_build(["driver"] + list(modules))
    if not ok:
        # which module failed?
        failed = re.findall(r"error: (\S+\.lean):(\d+)", log)
        check.break_("lake build failed", {"log_tail": log[-3000:], "errors": failed[:10]})
        return False
    hits = grep_forbidden()
    if hits:
        check.break_("forbidden construct in Lean sources", {"hits": hits[:20]})
        return False
    res, out = print_axioms(modules, theorems)
    good = True
    for t in theorems:
        ax = res.get(t)
        if ax is None:
            check.break_(f"theorem {t} not found / does not check", {"lean_output": out[-2000:]})
            good = False
            continue
        check.axioms[t] = ax
        extra = [a for a in ax if a not in ACCEPTED]
        if extra:
            check.break_(f"theorem {t} depends on unaccepted axioms {extra}", {})
            good = False
        else:
            check.discharged.append(t)
    return good


def leanchecker(check, modules):
    r = subprocess.run(["lake", "env", "leanchecker"] + modules, cwd=LEAN, capture_output=True, text=True)
    check.extra["leanchecker"] = "ok" if r.returncode == 0 else "FAILED"
    if r.returncode != 0:
        check.break_("leanchecker rejected the compiled proofs", {"out": (r.stdout + r.stderr)[-2000:]})


if __name__ == "__main__":
    print(grep_forbidden())
