#!/bin/bash
# run every claimed check (quick) with a few seeds; prints one line per run
cd "$(dirname "$0")/.."
props=$(python3 -c "import json;print(' '.join(c['property_id'] for c in json.load(open('MANIFEST.json'))['checks']))")
for s in ${SEEDS:-1 2}; do
  for p in $props; do
    out=$(VERIF_SEED=$s timeout 1200 ./verify $p --tier ${TIER:-quick} 2>&1 | grep -E "^(OK|VIOLATION|KNOWN|INFRA)" | tr '\n' ' ')
    echo "seed=$s $p rc=$? $out"
  done
done
