#!/bin/bash
# usage: tools/refround.sh     runs every quick check against each behaviour-preserving refactoring seeded/refactorings/R*.diff
# (scratch worktree); any line other than "MISSED (exit 0)" is a false alarm. Meant for `vp run`.
cd "$(dirname "$0")/.."
[ -d lean/.lake/build ] || (/venv/bin/python tools/extract.py; cd lean && lake build >/dev/null 2>&1)
wt=/tmp/refround_wt_$$
trap 'git -C /repo worktree remove --force "$wt" 2>/dev/null; rm -rf "$wt"' EXIT
for r in seeded/refactorings/R*.diff; do
  echo "== $(basename $r)"
  SEEDTEST_WT=$wt tools/seedtest.sh "$PWD/$r" C01 C02 C03 C04 C05 C06 C07 C08 C09 C10 C11 C12 C13 C14 C15 C16 C17 C18 C19 C20 2>&1 | grep -v "MISSED (exit 0)"
done
echo done
