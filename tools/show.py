import json, collections, glob, os, sys
p = sys.argv[1]
n = int(sys.argv[2]) if len(sys.argv) > 2 else 1
fs = sorted(glob.glob(f'/verif/replays/{p}-*.json'), key=os.path.getmtime)[-n:]
for f in fs:
    r = json.load(open(f))
    print('==', os.path.basename(f), r.get('count'))
    print(collections.Counter([r.get('what') or r.get('no_longer_checks')] + r['others']).most_common(8))
    c = r.get('case') or r.get('smallest_disagreeing_case')
    print(c.get('csvpath') or c.get('group'))
    print(json.dumps(c.get('oracle') or c.get('disagreements'))[:1000])
    print((c.get('input') or {}).get('recs'))
