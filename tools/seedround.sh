#!/bin/bash
# usage: tools/seedround.sh <suffix> [ids...]   e.g. tools/seedround.sh e        (all seeded/C??e)
# Runs the quick check of the property each seeded change of a round breaks, against a scratch worktree of /repo
# (SEEDTEST_WT), one after another, and prints caught / MISSED per seed. Meant for `vp run` (a snapshot of /verif):
# builds the Lean project first when .lake is missing.
cd "$(dirname "$0")/.."
suf="$1"; shift
[ -d lean/.lake/build ] || (/venv/bin/python tools/extract.py; cd lean && lake build >/dev/null 2>&1)
wt=/tmp/seedround_wt_$$
trap 'git -C /repo worktree remove --force "$wt" 2>/dev/null; rm -rf "$wt"' EXIT
ids="$@"; [ -n "$ids" ] || ids=$(ls seeded | grep -E "^C[0-9]{2}${suf}\$")
for id in $ids; do
  p=${id:0:3}
  echo "== $id: $(SEEDTEST_WT=$wt tools/seedtest.sh "$PWD/seeded/$id/patch.diff" $p 2>&1 | tail -1)"
done
