#!/venv/bin/python
"""py2lean — source translator for decision cores: selected loop-free Python methods of /repo's working tree are turned into
Lean 4 definitions over the `Py` prelude (lean/Model/Py.lean) on every run.

What is translated (anything else raises Untranslatable, which the caller turns into a stub file so that the bridging
theorem of that core — and only that one — no longer builds):

  statements   x = e | a, b = e1, e2 (names only) | self.<path> = e (a recorded effect) | if/elif/else | return [e] |
               raise X(...) [from e] | pass | docstrings | expression statements that are calls (see below)
  expressions  names, None/True/False/int/str constants, not/and/or, comparison chains (== != < <= > >= is, is not, in,
               not in), e1 if c else e2, + and -, self.<path> (an environment read), <record param>["key"], constants of enums named
               in the core's configuration (`OnError.QUIET.value`), f-strings only inside dropped calls and raise
  calls        * names in `ignore` (logging, explain mode): dropped as statements;
               * names in `effects`: recorded, in order, with their translated arguments;
               * names in `observers`: zero-argument reads of the environment (e.g. `self.default_match()`);
               * names in `pure`: prelude functions (`len`, `max`, `ExpressionUtility.asbool`, `isinstance(x, bool)`);
               * methods of the same class, or of a linked object (`links`: `self._ecm` -> class), when they are in the
                 core's function list: translated calls, keyword arguments and constant defaults resolved against the
                 callee's signature; inside an expression only effect-free callees are allowed (`Py.val`).

Every local variable is declared up front (unbound = the exception UnboundLocalError travelling as a value), every
`if` that is followed by further statements gets a join point (a local `fun` over the variables assigned in its
branches and the effect list), so the emitted term is a pure nest of `Py.cond` / `Py.letv` / `Py.eff` / `Py.bind`.
"""
import ast
import os
import re
import textwrap


class Untranslatable(Exception):
    pass


def dotted(node):
    """a.b.c / a.b() / a().b -> text, or None"""
    if isinstance(node, ast.Name):
        return node.id
    if isinstance(node, ast.Attribute):
        b = dotted(node.value)
        return None if b is None else b + "." + node.attr
    if isinstance(node, ast.Call) and not node.args and not node.keywords:
        b = dotted(node.func)
        return None if b is None else b + "()"
    return None


def lean_str(s):
    out = []
    for ch in s:
        if ch == "\\":
            out.append("\\\\")
        elif ch == '"':
            out.append('\\"')
        elif ch == "\n":
            out.append("\\n")
        elif ch == "\t":
            out.append("\\t")
        elif ch == "\r":
            out.append("\\r")
        elif ord(ch) < 32 or ord(ch) == 127:
            out.append("\\x%02x" % ord(ch))
        else:
            out.append(ch)
    return '"' + "".join(out) + '"'


def lean_int(i):
    return f"({i})" if i < 0 else str(i)


class Core:
    """one generated Lean file: a set of methods reachable from each other"""

    def __init__(self, repo, name, sources, ignore=(), effects=None, observers=(), pure=None, records=None, links=None,
                 consts=None, attr_effects=(), doc="", heap=False, opaque=None, oracles=None, ignore_targets=(), ignore_calls=(), observers_args=(), lists=None, observe_text=(), bases=None, opaque_text=None, list_calls=None, dicts=()):
        self.repo = repo
        self.name = name
        self.sources = sources  # list of (relative file, class name, [method names])
        self.ignore = [re.compile(p) for p in ignore]
        self.effects = effects or {}
        self.observers = set(observers)
        # builtins every core may use, then the core's own prelude functions
        self.pure = dict({"bool": "Py.bool_", "len": "Py.len", "max": "Py.max", "min": "Py.min"}, **(pure or {}))
        self.records = records or {}  # (class, method) -> set of record params
        self.links = links or {}  # (class, "self._ecm") -> class
        self.consts = consts or {}  # dotted text -> python constant
        self.attr_effects = [re.compile(p) for p in attr_effects]
        self.doc = doc
        # heap mode: the environment is threaded as state (attribute writes are visible to later reads); `opaque` calls go to the
        # outside world and may change it, `oracles` are questions to the world, assignments to `ignore_targets` are dropped
        self.heap = heap
        self.opaque = opaque or {}
        self.oracles = oracles or {}
        self.ignore_targets = [re.compile(p) for p in ignore_targets]
        # values the core's configuration leaves out (timers): an assignment whose right-hand side calls one of these is dropped
        # and its target name is tainted; assignments computed from tainted names are dropped too; any other use is refused
        self.ignore_calls = [re.compile(p) for p in ignore_calls]
        self.observers_args = set(observers_args)
        # object lists a `for` may run over (heap mode): "self.<path>" -> {"calls": {"[0].matches": "<world name>"}}; the fields of
        # the elements are environment keys (`Py.ikey`), the calls on them opaque calls into the world with the index first
        self.lists = lists or {}
        # calls read as one environment key each, by their source text (`isinstance(self.left, Function)`, `self._left_nocontrib(self.left)`)
        self.observe_text = set(observe_text)
        # class -> base class (methods a class inherits are looked up there); calls into the world named by their source text
        self.bases = bases or {}
        self.opaque_text = opaque_text or {}
        # calls whose result is an object list of the world (`paths = self.get_identified_paths_in(npn)`): dotted name -> list name
        self.list_calls = list_calls or {}
        # attributes that hold a dict with constant keys: `self.metadata["id"]` is the environment key `self.metadata[id]` (an absent key
        # is the value `KeyError`, which is what subscripting it raises), `"id" in self.metadata` asks whether the key is there
        self.dicts = set(dicts)
        self.loopn = 0
        self.P = "Py.H." if heap else "Py."          # statement combinators
        self.EV = " env" if heap else ""             # the environment argument of the combinators
        self.XE = "ext env" if heap else "env"       # what a translated function gets first
        self.methods = {}  # (class, method) -> ast.FunctionDef
        self.srcfile = {}
        self.emitted = {}  # lean name -> text
        self.order = []
        self.effectful = {}
        self.jp = 0
        self.written = set()   # attribute paths written (pure-environment mode)
        self.read = set()      # attribute paths read

    # ---------------------------------------------------------------- loading
    def load(self):
        for rel, cls, names in self.sources:
            path = os.path.join(self.repo, rel)
            tree = ast.parse(open(path, encoding="utf-8").read(), filename=path)
            found = None
            for node in ast.walk(tree):
                if isinstance(node, ast.ClassDef) and node.name == cls:
                    found = node
                    break
            if found is None:
                raise Untranslatable(f"class {cls} not found in {rel}")
            have = {}
            for n in found.body:
                if isinstance(n, ast.FunctionDef):
                    # of a property's getter and setter (same name) the getter is the method of that name
                    is_setter = any(isinstance(d, ast.Attribute) and d.attr in ("setter", "deleter") for d in n.decorator_list)
                    if not is_setter:
                        have[n.name] = n
            for m in names:
                if m not in have:
                    raise Untranslatable(f"method {cls}.{m} not found in {rel}")
            # every method of the class can be reached by a call (helpers a refactoring extracts are followed)
            for m, node in have.items():
                self.methods[(cls, m)] = node
                self.srcfile[(cls, m)] = rel

    # ---------------------------------------------------------------- signatures
    def signature(self, cls, m):
        f = self.methods[(cls, m)]
        a = f.args
        if a.vararg or a.kwarg or a.posonlyargs:
            raise Untranslatable(f"{cls}.{m}: *args/**kwargs/positional-only parameters")
        pos = [x.arg for x in a.args]
        if not pos or pos[0] != "self":
            raise Untranslatable(f"{cls}.{m}: not an instance method")
        pos = pos[1:]
        defaults = {}
        pd = a.defaults
        for name, d in zip(pos[len(pos) - len(pd):], pd):
            defaults[name] = d
        kwonly = [x.arg for x in a.kwonlyargs]
        for name, d in zip(kwonly, a.kw_defaults):
            if d is not None:
                defaults[name] = d
        return pos, kwonly, defaults

    def lean_name(self, cls, m, prefix):
        suffix = "" if prefix == "self" else "__via_" + re.sub(r"[^A-Za-z0-9_]", "_", prefix)
        return f"{cls}.{m}{suffix}"

    # ---------------------------------------------------------------- effect analysis
    def is_effectful(self, cls, m, seen=None):
        key = (cls, m)
        if key in self.effectful:
            return self.effectful[key]
        seen = seen or set()
        if key in seen:
            raise Untranslatable(f"recursion through {cls}.{m}")
        seen = seen | {key}
        res = False
        for node in ast.walk(self.methods[key]):
            if isinstance(node, ast.Call) and isinstance(node.func, ast.Attribute) and isinstance(node.func.value, ast.Subscript):
                res = True      # (a call on an element of an object list is a call into the world)
            if isinstance(node, ast.Assign) and any(isinstance(t, ast.Subscript) for t in node.targets):
                res = True
            if isinstance(node, ast.Call) and ast.unparse(node.func) in self.opaque_text:
                res = True
            if isinstance(node, ast.Call):
                d = dotted(node.func)
                if d is not None and (d in self.effects or d in self.opaque):
                    res = True
                tgt = self.resolve_call(cls, node)
                if tgt is not None and self.is_effectful(tgt[0], tgt[1], seen):
                    res = True
            elif isinstance(node, (ast.Assign, ast.AugAssign)):
                for t in (node.targets if isinstance(node, ast.Assign) else [node.target]):
                    if isinstance(t, ast.Attribute) and not self.ignored_target(t):
                        res = True
        self.effectful[key] = res
        return res

    def ignored_target(self, t):
        d = dotted(t)
        return d is not None and any(p.search(d) for p in self.ignore_targets)

    def tainted_value(self, value, ctx):
        for node in ast.walk(value):
            if isinstance(node, ast.Call):
                d = dotted(node.func)
                if d is not None and any(p.search(d) for p in self.ignore_calls):
                    return True
            if isinstance(node, ast.Name) and node.id in ctx.setdefault("tainted", set()):
                return True
        return False

    def resolve_call(self, cls, call):
        """(class, method, object path) when the call goes to a method in this core"""
        if not isinstance(call.func, ast.Attribute):
            return None
        obj = dotted(call.func.value)
        if obj is None:
            return None
        d = dotted(call.func)
        if ast.unparse(call) in self.observe_text or (d is not None and d in self.list_calls):
            return None
        if d is not None and (d + "()" in self.observers or d in self.effects or d in self.pure or d in self.opaque
                              or d in self.oracles or d in self.observers_args or any(p.search(d) for p in self.ignore)):
            return None
        if obj == "self":
            tcls = cls
        elif (cls, obj) in self.links:
            tcls = self.links[(cls, obj)]
        else:
            return None
        while tcls is not None:
            if (tcls, call.func.attr) in self.methods:
                return tcls, call.func.attr, obj
            tcls = self.bases.get(tcls)
        return None

    # ---------------------------------------------------------------- loops over object lists
    def elem_call(self, e, ctx):
        """(world name, [argument texts]) when `e` is `<loop element>[k].<method>(...)` of a configured object list"""
        if not (isinstance(e, ast.Call) and isinstance(e.func, ast.Attribute) and isinstance(e.func.value, ast.Subscript)):
            return None
        sub = e.func.value
        if not (isinstance(sub.value, ast.Name) and sub.value.id in ctx.get("elems", {}) and isinstance(sub.slice, ast.Constant)
                and isinstance(sub.slice.value, int)):
            return None
        full, lst, idx = ctx["elems"][sub.value.id]
        key = f"[{sub.slice.value}].{e.func.attr}"
        calls = self.lists[lst].get("calls", {})
        if key not in calls:
            raise Untranslatable(f"call of {key} on an element of {lst} is not configured")
        args = [f"(Py.V.int {idx})"] + [self.expr(a, ctx) for a in e.args] + [self.expr(kw.value, ctx) for kw in e.keywords]
        return calls[key], args

    def first_elem_call(self, test, ctx):
        """the element call a condition evaluates first, if any: `call`, `not call`, `call <op> …`"""
        if self.elem_call(test, ctx) is not None:
            return test
        if isinstance(test, ast.UnaryOp) and isinstance(test.op, ast.Not) and self.elem_call(test.operand, ctx) is not None:
            return test.operand
        if isinstance(test, ast.Compare) and self.elem_call(test.left, ctx) is not None:
            return test.left
        return None

    def hoist(self, value, ctx, pad):
        """the element call `value` evaluates first becomes an opaque call made before the statement; its value is a temporary"""
        import copy
        v2 = copy.deepcopy(value)
        callnode = self.first_elem_call(v2, ctx)
        wname, args = self.elem_call(callnode, ctx)
        self.jp += 1
        tmp = f"t_call{self.jp}"

        class Sub(ast.NodeTransformer):
            def visit_Call(self2, node):
                return ast.copy_location(ast.Name(id=tmp, ctx=ast.Load()), node) if node is callnode else self2.generic_visit(node)
        v2 = Sub().visit(v2)
        ast.fix_missing_locations(v2)
        inner = dict(ctx)
        inner["temps"] = set(ctx.get("temps", ())) | {tmp}
        return pad + f"Py.H.call ext {lean_str(wname)} [{', '.join(args)}] env effs fun {tmp} env effs =>\n", v2, inner

    def first_method_call(self, test, ctx):
        """the effectful call of a translated method a condition evaluates first, if any: `call`, `not call`, `call <op> …`"""
        def eff(n):
            if not isinstance(n, ast.Call):
                return False
            tgt = self.resolve_call(ctx["cls"], n)
            return tgt is not None and self.is_effectful(tgt[0], tgt[1])
        if eff(test):
            return test
        if isinstance(test, ast.UnaryOp) and isinstance(test.op, ast.Not) and eff(test.operand):
            return test.operand
        if isinstance(test, ast.Compare) and eff(test.left):
            return test.left
        return None

    def only_dropped(self, stmts):
        for st in stmts:
            if isinstance(st, ast.Pass):
                continue
            if isinstance(st, ast.Expr) and isinstance(st.value, ast.Call):
                d = dotted(st.value.func) or ast.unparse(st.value.func)
                if any(p.search(d) for p in self.ignore):
                    continue
            return False
        return True

    # ---------------------------------------------------------------- expressions
    def expr(self, e, ctx):
        cls, m, prefix, locs = ctx["cls"], ctx["m"], ctx["prefix"], ctx["locals"]

        def where():
            return f"{self.srcfile[(cls, m)]}:{getattr(e, 'lineno', '?')} ({cls}.{m})"

        if isinstance(e, ast.Constant):
            v = e.value
            if v is None:
                return "Py.V.none"
            if v is True:
                return "(Py.V.bool true)"
            if v is False:
                return "(Py.V.bool false)"
            if isinstance(v, int):
                return f"(Py.V.int {lean_int(v)})"
            if isinstance(v, str):
                return f"(Py.V.str {lean_str(v)})"
            raise Untranslatable(f"{where()}: constant {v!r}")
        if isinstance(e, ast.Name):
            if e.id in ctx.get("tainted", ()):
                raise Untranslatable(f"{where()}: use of {e.id}, a value the core's configuration leaves out")
            if e.id in ctx.get("elems", {}):
                raise Untranslatable(f"{where()}: the loop element {e.id} used as a value")
            if e.id in ctx.get("locallists", {}):
                raise Untranslatable(f"{where()}: the object list {e.id} used as a value")
            if e.id in ctx.get("temps", ()):
                return e.id
            if e.id in locs:
                return "v_" + e.id
            if e.id in self.consts:
                return self.const(self.consts[e.id], where())
            raise Untranslatable(f"{where()}: free name {e.id}")
        if isinstance(e, ast.UnaryOp):
            if isinstance(e.op, ast.Not):
                return f"(Py.not_ {self.expr(e.operand, ctx)})"
            if isinstance(e.op, ast.USub) and isinstance(e.operand, ast.Constant) and isinstance(e.operand.value, int):
                return f"(Py.V.int {lean_int(-e.operand.value)})"
            raise Untranslatable(f"{where()}: unary operator {ast.dump(e.op)}")
        if isinstance(e, ast.BoolOp):
            f = "Py.and_" if isinstance(e.op, ast.And) else "Py.or_"
            parts = [self.expr(x, ctx) for x in e.values]
            out = parts[-1]
            for p in reversed(parts[:-1]):
                out = f"({f} {p} {out})"
            return out
        if isinstance(e, ast.Compare):
            ops = {ast.Eq: "Py.eq", ast.NotEq: "Py.ne", ast.Lt: "Py.lt", ast.LtE: "Py.le", ast.Gt: "Py.gt", ast.GtE: "Py.ge",
                   ast.Is: "Py.is_", ast.IsNot: "Py.isnot", ast.In: "Py.in_", ast.NotIn: "Py.notin"}
            if len(e.ops) == 1 and isinstance(e.ops[0], (ast.In, ast.NotIn)) and dotted(e.comparators[0]) in self.dicts \
                    and isinstance(e.left, ast.Constant) and isinstance(e.left.value, str):
                d = dotted(e.comparators[0])
                key = f"(env {lean_str(prefix + d[4:] + '[' + e.left.value + ']')})"
                return f"(Py.haskey {key})" if isinstance(e.ops[0], ast.In) else f"(Py.not_ (Py.haskey {key}))"
            operands = [e.left] + list(e.comparators)
            terms = [self.expr(x, ctx) for x in operands]
            pieces = []
            for i, op in enumerate(e.ops):
                if type(op) not in ops:
                    raise Untranslatable(f"{where()}: comparison {ast.dump(op)}")
                pieces.append(f"({ops[type(op)]} {terms[i]} {terms[i + 1]})")
            out = pieces[-1]
            for p in reversed(pieces[:-1]):
                out = f"(Py.and_ {p} {out})"
            return out
        if isinstance(e, ast.IfExp):
            return f"(Py.ite_ {self.expr(e.test, ctx)} {self.expr(e.body, ctx)} {self.expr(e.orelse, ctx)})"
        if isinstance(e, ast.BinOp):
            if isinstance(e.op, ast.Add):
                return f"(Py.add {self.expr(e.left, ctx)} {self.expr(e.right, ctx)})"
            if isinstance(e.op, ast.Sub):
                return f"(Py.sub {self.expr(e.left, ctx)} {self.expr(e.right, ctx)})"
            raise Untranslatable(f"{where()}: binary operator {ast.dump(e.op)}")
        if isinstance(e, ast.Subscript):
            if isinstance(e.value, ast.Name) and e.value.id in ctx["records"] and isinstance(e.slice, ast.Constant) \
                    and isinstance(e.slice.value, str):
                return f"(r_{e.value.id} {lean_str(e.slice.value)})"
            if dotted(e.value) in self.dicts and isinstance(e.slice, ast.Constant) and isinstance(e.slice.value, str):
                d = dotted(e.value)
                return f"(env {lean_str(prefix + d[4:] + '[' + e.slice.value + ']')})"
            if isinstance(e.value, ast.Name) and e.value.id in ctx.get("elems", {}) and isinstance(e.slice, ast.Constant) \
                    and isinstance(e.slice.value, int):
                full, _, idx = ctx["elems"][e.value.id]
                return f"(env (Py.ikey {lean_str(full)} {idx} {lean_str('[%d]' % e.slice.value)}))"
            raise Untranslatable(f"{where()}: subscript")
        if isinstance(e, ast.Attribute):
            d = dotted(e)
            if d is None:
                raise Untranslatable(f"{where()}: attribute of a non-name")
            root = d.split(".")[0]
            if root in ctx.get("elems", {}) and "(" not in d:
                # an attribute of the loop element: a field of the element
                full, _, idx = ctx["elems"][root]
                return f"(env (Py.ikey {lean_str(full)} {idx} {lean_str(d[len(root):])}))"
            c = self.const_lookup(d)
            if c is not None:
                return self.const(c, where())
            if d.startswith("self."):
                self.read.add(prefix + d[4:])
                return f"(env {lean_str(prefix + d[4:])})"
            raise Untranslatable(f"{where()}: attribute {d}")
        if isinstance(e, ast.List):
            items = []
            if not e.elts:
                return "(Py.V.strs [])"
            for x in e.elts:
                c = self.const_lookup(dotted(x)) if dotted(x) else (("const", x.value) if isinstance(x, ast.Constant) else None)
                c = c[1] if isinstance(c, tuple) else None
                if not isinstance(c, str):
                    raise Untranslatable(f"{where()}: list display with an element that is not a string constant")
                items.append(lean_str(c))
            return f"(Py.V.strs [{', '.join(items)}])"
        if isinstance(e, ast.Call) and isinstance(e.func, ast.Attribute) and e.func.attr in ("strip", "find") and not e.keywords \
                and dotted(e.func) not in self.observers and (dotted(e.func) or "") not in self.opaque:
            recv = self.expr(e.func.value, ctx)
            if e.func.attr == "strip" and not e.args:
                return f"(Py.strip_ {recv})"
            if e.func.attr == "find" and len(e.args) == 1:
                return f"(Py.find_ {recv} {self.expr(e.args[0], ctx)})"
        if isinstance(e, ast.Call) and ast.unparse(e) in self.observe_text:
            txt = ast.unparse(e)
            return f"(env {lean_str(prefix + txt[4:] if txt.startswith('self') else txt)})"
        if isinstance(e, ast.Call):
            d = dotted(e.func)
            if d is None:
                if self.elem_call(e, ctx) is not None:
                    raise Untranslatable(f"{where()}: a call on a loop element where it cannot be evaluated first")
                raise Untranslatable(f"{where()}: call of a computed function")
            if d in self.observers_args and d.startswith("self") and not e.keywords:
                # a question to the object's surroundings with constant arguments: one environment key per argument list
                args = []
                for a in e.args:
                    c = self.const_lookup(dotted(a)) if dotted(a) else (("const", a.value) if isinstance(a, ast.Constant) else None)
                    if not isinstance(c, tuple):
                        raise Untranslatable(f"{where()}: observer {d} with a non-constant argument")
                    args.append(str(c[1]))
                return f"(env {lean_str(prefix + d[4:] + '(' + ', '.join(args) + ')')})"
            if d == "isinstance" and len(e.args) == 2 and isinstance(e.args[1], ast.Name) and e.args[1].id in ("bool", "int", "str"):
                return f"(Py.isinstance_{e.args[1].id} {self.expr(e.args[0], ctx)})"
            if d in self.pure:
                if e.keywords:
                    raise Untranslatable(f"{where()}: keywords in a call of {d}")
                return "(" + " ".join([self.pure[d]] + [self.expr(a, ctx) for a in e.args]) + ")"
            if not e.args and not e.keywords and d + "()" in self.observers and d.startswith("self"):
                return f"(env {lean_str(prefix + d[4:] + '()')})"
            if d in self.oracles:
                if not self.heap or e.keywords:
                    raise Untranslatable(f"{where()}: oracle call {d}")
                return f"(Py.H.oracle ext {lean_str(self.oracles[d])} [{', '.join(self.expr(a, ctx) for a in e.args)}] env)"
            tgt = self.resolve_call(cls, e)
            if tgt is not None:
                tcls, tm, obj = tgt
                if self.is_effectful(tcls, tm):
                    raise Untranslatable(f"{where()}: call of the effectful {tcls}.{tm} inside an expression")
                return f"({self.P}val ({self.call_text(tgt, e, ctx)} []))"
            raise Untranslatable(f"{where()}: call of {d}")
        raise Untranslatable(f"{where()}: expression {type(e).__name__}")

    def const_lookup(self, d):
        # `OnError.QUIET.value`: resolved against the objects named in consts, at translation time
        parts = d.split(".")
        if parts[0] in self.consts:
            obj = self.consts[parts[0]]
            try:
                for p in parts[1:]:
                    obj = getattr(obj, p)
            except AttributeError:
                raise Untranslatable(f"constant {d} does not exist")
            return ("const", obj)
        return None

    def const(self, c, where):
        if isinstance(c, tuple) and c and c[0] == "const":
            c = c[1]
        if c is None:
            return "Py.V.none"
        if c is True:
            return "(Py.V.bool true)"
        if c is False:
            return "(Py.V.bool false)"
        if isinstance(c, int):
            return f"(Py.V.int {lean_int(c)})"
        if isinstance(c, str):
            return f"(Py.V.str {lean_str(c)})"
        raise Untranslatable(f"{where}: constant {c!r}")

    def call_text(self, tgt, call, ctx):
        """`Cls.m env <args in signature order>` (without the effect list)"""
        tcls, tm, obj = tgt
        pos, kwonly, defaults = self.signature(tcls, tm)
        given = {}
        if len(call.args) > len(pos):
            raise Untranslatable(f"{tcls}.{tm}: too many positional arguments")
        for name, a in zip(pos, call.args):
            given[name] = a
        for kw in call.keywords:
            if kw.arg is None:
                raise Untranslatable(f"{tcls}.{tm}: ** in a call")
            if kw.arg in given or kw.arg not in pos + kwonly:
                raise Untranslatable(f"{tcls}.{tm}: argument {kw.arg}")
            given[kw.arg] = kw.value
        args = []
        elem_params = {}
        recs = self.records.get((tcls, tm), set())
        for name in pos + kwonly:
            if name in given:
                node = given[name]
            elif name in defaults:
                node = defaults[name]
            else:
                raise Untranslatable(f"{tcls}.{tm}: missing argument {name}")
            if name in recs:
                if isinstance(node, ast.Name) and node.id in ctx["records"]:
                    args.append("r_" + node.id)
                else:
                    raise Untranslatable(f"{tcls}.{tm}: record argument {name} is not a record parameter")
            elif isinstance(node, ast.Name) and node.id in ctx.get("elems", {}):
                # the loop element handed to a helper: the helper gets the index of the element
                if obj != "self":
                    raise Untranslatable(f"{tcls}.{tm}: a loop element handed to another object")
                full, lst, idx = ctx["elems"][node.id]
                elem_params[name] = (full, lst)
                args.append(idx)
            else:
                if not isinstance(node, (ast.Name, ast.Constant)) and not (isinstance(node, ast.Attribute) and (dotted(node) or "").startswith("self.")):
                    # Python evaluates arguments before the call; a name or a constant cannot raise there
                    raise Untranslatable(f"{tcls}.{tm}: argument {name} of a translated call is not a name or a constant")
                args.append(self.expr(node, ctx))
        new_prefix = ctx["prefix"] + obj[4:]
        name = self.translate(tcls, tm, new_prefix, elem_params)
        return " ".join([name, self.XE] + args)

    # ---------------------------------------------------------------- statements
    def assigned(self, stmts):
        out = []
        for s in stmts:
            for node in ast.walk(s):
                if isinstance(node, ast.Name) and isinstance(node.ctx, ast.Store) and node.id not in out \
                        and not any(p.search(node.id) for p in self.ignore_targets):
                    out.append(node.id)
                # `xs.append(e)` on a local list rebinds the local in the translation
                if isinstance(node, ast.Call) and isinstance(node.func, ast.Attribute) and node.func.attr == "append" \
                        and isinstance(node.func.value, ast.Name) and node.func.value.id not in out:
                    out.append(node.func.value.id)
        return out

    def block(self, stmts, k, ctx, ind):
        """Lean term for the statement list; `k` is the text to fall through to"""
        pad = "  " * ind
        cls, m = ctx["cls"], ctx["m"]
        P, EV = self.P, self.EV
        benv = " env" if self.heap else ""   # binder of the environment in a continuation
        if not stmts:
            return pad + k
        s, rest = stmts[0], stmts[1:]

        def where():
            return f"{self.srcfile[(cls, m)]}:{s.lineno} ({cls}.{m})"

        if isinstance(s, ast.Pass):
            return self.block(rest, k, ctx, ind)
        if isinstance(s, ast.Expr) and isinstance(s.value, ast.Constant) and isinstance(s.value.value, str):
            return self.block(rest, k, ctx, ind)
        if isinstance(s, ast.Return) and isinstance(s.value, ast.Call) and isinstance(s.value.func, ast.Name) \
                and s.value.func.id in ("all", "any") and len(s.value.args) == 1 and not s.value.keywords \
                and isinstance(s.value.args[0], ast.GeneratorExp) and len(s.value.args[0].generators) == 1 \
                and not s.value.args[0].generators[0].ifs and not s.value.args[0].generators[0].is_async:
            # `return all(E for x in xs)` is the loop `for x in xs: if not E: return False` followed by `return True` (any: dually)
            gen = s.value.args[0]
            comp = gen.generators[0]
            is_all = s.value.func.id == "all"
            test = ast.UnaryOp(op=ast.Not(), operand=gen.elt) if is_all else gen.elt
            loop = ast.For(target=comp.target, iter=comp.iter,
                           body=[ast.If(test=test, body=[ast.Return(value=ast.Constant(value=not is_all))], orelse=[])], orelse=[])
            tail = ast.Return(value=ast.Constant(value=is_all))
            for node in (loop, tail):
                ast.copy_location(node, s)
                ast.fix_missing_locations(node)
            # the loop variable of a generator expression is local to it
            ctx["locals"].update(n.id for n in ast.walk(comp.target) if isinstance(n, ast.Name))
            ctx.setdefault("genvars", set()).update(n.id for n in ast.walk(comp.target) if isinstance(n, ast.Name))
            return self.block([loop, tail], k, ctx, ind)
        if isinstance(s, ast.Return) and s.value is not None and self.elem_call(s.value, ctx) is None \
                and self.first_elem_call(s.value, ctx) is not None:
            pre, val2, inner = self.hoist(s.value, ctx, pad)
            news = ast.copy_location(ast.Return(value=val2), s)
            return pre + self.block([news] + rest, k, inner, ind)
        if isinstance(s, ast.Return) and s.value is not None and self.elem_call(s.value, ctx) is not None:
            wname, args = self.elem_call(s.value, ctx)
            return pad + f"Py.H.call ext {lean_str(wname)} [{', '.join(args)}] env effs fun t_ret env effs =>\n" + pad + f"{P}ret t_ret{EV} effs"
        if isinstance(s, (ast.Assign, ast.Return)) and s.value is not None and not isinstance(s.value, ast.Call) \
                and (isinstance(s, ast.Return) or len(s.targets) == 1) \
                and self.first_elem_call(s.value, ctx) is None and self.first_method_call(s.value, ctx) is not None:
            # `x = self._helper(...) is True` with a helper that has effects: the call is made first, its value is a temporary
            import copy
            val2 = copy.deepcopy(s.value)
            callnode = self.first_method_call(val2, ctx)
            tgt = self.resolve_call(cls, callnode)
            self.jp += 1
            tmp = f"t_call{self.jp}"

            class SubA(ast.NodeTransformer):
                def visit_Call(self2, node):
                    return ast.copy_location(ast.Name(id=tmp, ctx=ast.Load()), node) if node is callnode else self2.generic_visit(node)
            text = self.call_text(tgt, callnode, ctx)
            val2 = SubA().visit(val2)
            news = ast.Assign(targets=s.targets, value=val2) if isinstance(s, ast.Assign) else ast.Return(value=val2)
            ast.copy_location(news, s)
            ast.fix_missing_locations(news)
            inner = dict(ctx)
            inner["temps"] = set(ctx.get("temps", ())) | {tmp}
            return (pad + f"{P}bind ({text} effs) fun {tmp}{benv} effs =>\n" + self.block([news] + rest, k, inner, ind))
        if isinstance(s, ast.Assign) and len(s.targets) == 1 and self.elem_call(s.value, ctx) is None \
                and self.first_elem_call(s.value, ctx) is not None:
            pre, val2, inner = self.hoist(s.value, ctx, pad)
            news = ast.copy_location(ast.Assign(targets=s.targets, value=val2), s)
            ast.fix_missing_locations(news)
            return pre + self.block([news] + rest, k, inner, ind)
        if isinstance(s, ast.Return):
            if s.value is None:
                return pad + f"{P}ret Py.V.none{EV} effs"
            if isinstance(s.value, ast.Call):
                tgt = self.resolve_call(cls, s.value)
                if tgt is not None:
                    return pad + f"{self.call_text(tgt, s.value, ctx)} effs"
            return pad + f"{P}ret {self.expr(s.value, ctx)}{EV} effs"
        if isinstance(s, ast.Raise):
            exc = s.exc
            name = None
            if isinstance(exc, ast.Call):
                name = dotted(exc.func)
            elif exc is not None:
                name = dotted(exc)
            if name is None:
                raise Untranslatable(f"{where()}: raise without a class")
            return pad + f"{P}Res.raised {lean_str(name.split('.')[-1])}{EV} effs"
        if isinstance(s, ast.Assign) and len(s.targets) == 1 and isinstance(s.targets[0], ast.Name) and isinstance(s.value, ast.Call) \
                and dotted(s.value.func) in self.list_calls:
            if not self.heap:
                raise Untranslatable(f"{where()}: object list outside heap mode")
            for a in list(s.value.args) + [kw.value for kw in s.value.keywords]:
                self.expr(a, ctx)      # (the arguments must be translatable; the list they select is the world's)
            ctx.setdefault("locallists", {})[s.targets[0].id] = self.list_calls[dotted(s.value.func)]
            return self.block(rest, k, ctx, ind)
        if isinstance(s, ast.Assign) and len(s.targets) > 1 and all(isinstance(t, (ast.Name, ast.Attribute)) for t in s.targets):
            # `a = b = e`: e is evaluated once, the targets are assigned left to right
            self.jp += 1
            tmpn = f"chain{self.jp}"
            ctx["locals"].add(tmpn)
            stmts2 = [ast.Assign(targets=[ast.Name(id=tmpn, ctx=ast.Store())], value=s.value)]
            for t in s.targets:
                stmts2.append(ast.Assign(targets=[t], value=ast.Name(id=tmpn, ctx=ast.Load())))
            for n2 in stmts2:
                ast.copy_location(n2, s)
                ast.fix_missing_locations(n2)
            return pad + f"let v_{tmpn} : Py.V := Py.V.exc \"UnboundLocalError\"\n" + self.block(stmts2 + rest, k, ctx, ind)
        if isinstance(s, ast.Assign) and len(s.targets) == 1 and isinstance(s.targets[0], ast.Tuple) and isinstance(s.value, ast.IfExp) \
                and isinstance(s.value.body, ast.Tuple) and isinstance(s.value.orelse, ast.Tuple):
            # `x, y = (a, b) if c else (p, q)`
            news = ast.If(test=s.value.test, body=[ast.Assign(targets=s.targets, value=s.value.body)],
                          orelse=[ast.Assign(targets=s.targets, value=s.value.orelse)])
            ast.copy_location(news, s)
            ast.fix_missing_locations(news)
            return self.block([news] + rest, k, ctx, ind)
        if isinstance(s, ast.Assign) and len(s.targets) == 1 and isinstance(s.targets[0], ast.Tuple) and isinstance(s.value, ast.Tuple) \
                and len(s.targets[0].elts) == len(s.value.elts) and any(isinstance(t, ast.Attribute) for t in s.targets[0].elts) \
                and all(isinstance(t, (ast.Name, ast.Attribute)) for t in s.targets[0].elts):
            # `self.a, self.b = e1, e2`: the right-hand sides are evaluated first, then the targets are assigned left to right
            stmts2, pre = [], ""
            for v in s.value.elts:
                self.jp += 1
                tmpn = f"tup{self.jp}"
                ctx["locals"].add(tmpn)
                pre += pad + f"let v_{tmpn} : Py.V := Py.V.exc \"UnboundLocalError\"\n"
                stmts2.append(ast.Assign(targets=[ast.Name(id=tmpn, ctx=ast.Store())], value=v))
            names = [st.targets[0].id for st in stmts2]
            for t, nm in zip(s.targets[0].elts, names):
                stmts2.append(ast.Assign(targets=[t], value=ast.Name(id=nm, ctx=ast.Load())))
            for n2 in stmts2:
                ast.copy_location(n2, s)
                ast.fix_missing_locations(n2)
            return pre + self.block(stmts2 + rest, k, ctx, ind)
        if isinstance(s, (ast.Break, ast.Continue)):
            if "loop" not in ctx:
                raise Untranslatable(f"{where()}: {type(s).__name__} outside a translated loop")
            carried = ", ".join(f"v_{v}" for v in ctx["loop"])
            return pad + f"{'brk' if isinstance(s, ast.Break) else 'next'} [{carried}] env effs"
        if isinstance(s, ast.For):
            if not s.orelse and self.only_dropped(s.body):
                return self.block(rest, k, ctx, ind)        # a loop that only logs
            if not self.heap or s.orelse:
                raise Untranslatable(f"{where()}: for loop (only loops over a configured object list, in heap mode, without else)")
            it, idxname, fieldnames = s.iter, None, []
            if isinstance(it, ast.Call) and dotted(it.func) == "enumerate" and len(it.args) == 1 and not it.keywords \
                    and isinstance(s.target, ast.Tuple) and len(s.target.elts) == 2 and all(isinstance(x, ast.Name) for x in s.target.elts):
                idxname, elname, lst = s.target.elts[0].id, s.target.elts[1].id, dotted(it.args[0])
            elif isinstance(s.target, ast.Name):
                elname, lst = s.target.id, dotted(it)
            elif isinstance(s.target, ast.Tuple) and all(isinstance(x, ast.Name) for x in s.target.elts):
                # `for a, b in pairs`: the names are the fields of the element
                elname, lst = None, dotted(it)
                fieldnames = [x.id for x in s.target.elts]
            else:
                raise Untranslatable(f"{where()}: for loop target")
            if lst in ctx.get("locallists", {}):
                full = ctx["locallists"][lst]
                lst = "local:" + full
                self.lists.setdefault(lst, {})
            elif lst not in self.lists:
                raise Untranslatable(f"{where()}: for loop over {lst or ast.unparse(it)}, which is not a configured object list")
            else:
                full = ctx["prefix"] + lst[4:]
            self.loopn += 1
            idx = f"idx{self.loopn}"
            carried = [v for v in self.assigned(s.body) if v not in (idxname, elname) and v not in fieldnames]
            for node in ast.walk(s):
                if isinstance(node, ast.Name) and isinstance(node.ctx, ast.Store) and (node.id in (idxname, elname) or node.id in fieldnames) and node is not s.target \
                        and node not in getattr(s.target, "elts", []):
                    raise Untranslatable(f"{where()}: the loop variable {node.id} is assigned in the loop")
            inner = dict(ctx)
            inner["elems"] = dict(ctx.get("elems", {}), **({elname: (full, lst, idx)} if elname else {}))
            inner["loop"] = carried
            unpack = "".join(pad + f"  let v_{v} := Py.nth locs {i}\n" for i, v in enumerate(carried))
            lst_txt = ", ".join(f"v_{v}" for v in carried)
            body = self.block(list(s.body), f"next [{lst_txt}] env effs", inner, ind + 1)
            ctx.setdefault("tainted", set()).update(x for x in [idxname, elname] + fieldnames if x)
            after = self.block(rest, k, ctx, ind + 1)
            bind_i = pad + f"  let v_{idxname} := Py.V.int {idx}\n" if idxname else ""
            for kf, fn in enumerate(fieldnames):
                bind_i += pad + f"  let v_{fn} := env (Py.ikey {lean_str(full)} {idx} {lean_str('[%d]' % kf)})\n"
            return (pad + f"Py.H.forRange (env {lean_str('len(' + full + ')')}) [{lst_txt}] env effs (fun {idx} locs env effs next brk =>\n"
                    + bind_i + unpack + body + ")\n"
                    + pad + "  (fun locs env effs =>\n" + unpack + after + ")")
        if isinstance(s, (ast.Assign, ast.AugAssign)):
            if isinstance(s, ast.AugAssign):
                if not isinstance(s.op, (ast.Add, ast.Sub)):
                    raise Untranslatable(f"{where()}: augmented assignment {ast.dump(s.op)}")
                t = s.target
                value = ast.BinOp(left=ast.copy_location(ast.Attribute(value=t.value, attr=t.attr, ctx=ast.Load()), t)
                                  if isinstance(t, ast.Attribute) else ast.copy_location(ast.Name(id=t.id, ctx=ast.Load()), t),
                                  op=s.op, right=s.value)
                ast.copy_location(value, s)
            else:
                if len(s.targets) != 1:
                    raise Untranslatable(f"{where()}: chained assignment")
                t = s.targets[0]
                value = s.value
            if isinstance(t, (ast.Name, ast.Attribute)) and (self.ignored_target(t) or self.tainted_value(value, ctx)):
                if isinstance(t, ast.Name):
                    ctx.setdefault("tainted", set()).add(t.id)
                return self.block(rest, k, ctx, ind)       # bookkeeping the core's configuration leaves out (timers)
            if isinstance(t, ast.Subscript) and isinstance(t.value, ast.Name) and t.value.id in ctx.get("elems", {}) \
                    and isinstance(t.slice, ast.Constant) and isinstance(t.slice.value, int) and isinstance(s, ast.Assign):
                full, _, idx = ctx["elems"][t.value.id]
                return (pad + f"Py.H.setattr (Py.ikey {lean_str(full)} {idx} {lean_str('[%d]' % t.slice.value)}) {self.expr(value, ctx)} env effs fun env effs =>\n"
                        + self.block(rest, k, ctx, ind))
            if isinstance(t, ast.Name) and self.elem_call(value, ctx) is not None:
                wname, args = self.elem_call(value, ctx)
                return (pad + f"Py.H.call ext {lean_str(wname)} [{', '.join(args)}] env effs fun v_{t.id} env effs =>\n"
                        + self.block(rest, k, ctx, ind))
            if isinstance(t, ast.Name) and isinstance(value, ast.Call) and ast.unparse(value.func) in self.opaque_text:
                if not self.heap:
                    raise Untranslatable(f"{where()}: opaque call {ast.unparse(value.func)}")
                spec = self.opaque_text[ast.unparse(value.func)]
                args = "" if isinstance(spec, tuple) else ", ".join([self.expr(a, ctx) for a in value.args] + [self.expr(kw.value, ctx) for kw in value.keywords])
                spec = spec[0] if isinstance(spec, tuple) else spec
                return (pad + f"Py.H.call ext {lean_str(spec)} [{args}] env effs fun v_{t.id} env effs =>\n"
                        + self.block(rest, k, ctx, ind))
            if isinstance(t, ast.Name):
                if isinstance(value, ast.Call):
                    d = dotted(value.func)
                    if d in self.opaque:
                        if not self.heap:
                            raise Untranslatable(f"{where()}: opaque call {d}")
                        args = ", ".join([self.expr(a, ctx) for a in value.args] + [self.expr(kw.value, ctx) for kw in value.keywords])
                        return (pad + f"Py.H.call ext {lean_str(self.opaque[d])} [{args}] env effs fun v_{t.id} env effs =>\n"
                                + self.block(rest, k, ctx, ind))
                    tgt = self.resolve_call(cls, value)
                    if tgt is not None:
                        return (pad + f"{P}bind ({self.call_text(tgt, value, ctx)} effs) fun v_{t.id}{benv} effs =>\n"
                                + self.block(rest, k, ctx, ind))
                return pad + f"{P}letv {self.expr(value, ctx)}{EV} effs fun v_{t.id} =>\n" + self.block(rest, k, ctx, ind)
            if isinstance(t, ast.Tuple) and isinstance(value, ast.Tuple) and len(t.elts) == len(value.elts) \
                    and all(isinstance(x, ast.Name) for x in t.elts):
                tmp = [f"t_{i}" for i in range(len(t.elts))]
                out = ""
                for name, v in zip(tmp, value.elts):
                    out += pad + f"{P}letv {self.expr(v, ctx)}{EV} effs fun {name} =>\n"
                for name, x in zip(tmp, t.elts):
                    out += pad + f"let v_{x.id} := {name}\n"
                return out + self.block(rest, k, ctx, ind)
            if isinstance(t, ast.Attribute):
                d = dotted(t)
                if d is None or not d.startswith("self."):
                    raise Untranslatable(f"{where()}: assignment to {ast.unparse(t)}")
                full = ctx["prefix"] + d[4:]
                if self.heap:
                    return (pad + f"Py.H.setattr {lean_str(full)} {self.expr(value, ctx)} env effs fun env effs =>\n"
                            + self.block(rest, k, ctx, ind))
                self.written.add(full)
                return (pad + f"Py.eff {lean_str('set ' + full)} [{self.expr(value, ctx)}] effs fun effs =>\n"
                        + self.block(rest, k, ctx, ind))
            raise Untranslatable(f"{where()}: assignment target {type(t).__name__}")
        if isinstance(s, ast.Expr) and self.elem_call(s.value, ctx) is not None:
            wname, args = self.elem_call(s.value, ctx)
            return (pad + f"Py.H.call ext {lean_str(wname)} [{', '.join(args)}] env effs fun _ env effs =>\n"
                    + self.block(rest, k, ctx, ind))
        if isinstance(s, ast.Expr) and isinstance(s.value, ast.Call) and isinstance(s.value.func, ast.Attribute) \
                and s.value.func.attr == "append" and isinstance(s.value.func.value, ast.Name) \
                and s.value.func.value.id in ctx["locals"] and len(s.value.args) == 1 and not s.value.keywords:
            nm = s.value.func.value.id
            if nm in ctx.get("aliased", ()):
                raise Untranslatable(f"{where()}: append to {nm}, which has another name")
            return (pad + f"{P}letv (Py.append_ v_{nm} {self.expr(s.value.args[0], ctx)}){EV} effs fun v_{nm} =>\n"
                    + self.block(rest, k, ctx, ind))
        if isinstance(s, ast.Expr) and isinstance(s.value, ast.Call) and ast.unparse(s.value.func) in self.opaque_text:
            if not self.heap:
                raise Untranslatable(f"{where()}: opaque call {ast.unparse(s.value.func)}")
            spec = self.opaque_text[ast.unparse(s.value.func)]
            args = "" if isinstance(spec, tuple) else ", ".join([self.expr(a, ctx) for a in s.value.args] + [self.expr(kw.value, ctx) for kw in s.value.keywords])
            spec = spec[0] if isinstance(spec, tuple) else spec
            return (pad + f"Py.H.call ext {lean_str(spec)} [{args}] env effs fun _ env effs =>\n"
                    + self.block(rest, k, ctx, ind))
        if isinstance(s, ast.Expr) and isinstance(s.value, ast.Call):
            call = s.value
            d = dotted(call.func) or ast.unparse(call.func)
            if any(p.search(d) for p in self.ignore):
                return self.block(rest, k, ctx, ind)
            if d in self.effects:
                spec = self.effects[d]
                if isinstance(spec, tuple):  # (tag, False): the arguments are not part of the record
                    return (pad + f"{P}eff {lean_str(spec[0])} []{EV} effs fun effs =>\n" + self.block(rest, k, ctx, ind))
                args = [self.expr(a, ctx) for a in call.args] + [self.expr(kw.value, ctx) for kw in call.keywords]
                tag = spec + "".join(f" {kw.arg}=" for kw in call.keywords)
                return (pad + f"{P}eff {lean_str(tag)} [{', '.join(args)}]{EV} effs fun effs =>\n"
                        + self.block(rest, k, ctx, ind))
            if d in self.opaque:
                if not self.heap:
                    raise Untranslatable(f"{where()}: opaque call {d}")
                args = ", ".join([self.expr(a, ctx) for a in call.args] + [self.expr(kw.value, ctx) for kw in call.keywords])
                return (pad + f"Py.H.call ext {lean_str(self.opaque[d])} [{args}] env effs fun _ env effs =>\n"
                        + self.block(rest, k, ctx, ind))
            tgt = self.resolve_call(cls, call)
            if tgt is not None:
                return (pad + f"{P}bind ({self.call_text(tgt, call, ctx)} effs) fun _{benv} effs =>\n"
                        + self.block(rest, k, ctx, ind))
            raise Untranslatable(f"{where()}: call of {d} is neither ignored, an effect, nor a translated method")
        if isinstance(s, ast.If) and self.first_elem_call(s.test, ctx) is None and self.first_method_call(s.test, ctx) is not None:
            # `if self._helper(...)` with a helper that has effects: the call is made first, its value is a temporary
            import copy
            test2 = copy.deepcopy(s.test)
            callnode = self.first_method_call(test2, ctx)
            tgt = self.resolve_call(cls, callnode)
            self.jp += 1
            tmp = f"t_call{self.jp}"

            class SubM(ast.NodeTransformer):
                def visit_Call(self2, node):
                    return ast.copy_location(ast.Name(id=tmp, ctx=ast.Load()), node) if node is callnode else self2.generic_visit(node)
            text = self.call_text(tgt, callnode, ctx)
            news = ast.If(test=SubM().visit(test2), body=s.body, orelse=s.orelse)
            ast.copy_location(news, s)
            ast.fix_missing_locations(news)
            inner = dict(ctx)
            inner["temps"] = set(ctx.get("temps", ())) | {tmp}
            return (pad + f"{P}bind ({text} effs) fun {tmp}{benv} effs =>\n" + self.block([news] + rest, k, inner, ind))
        if isinstance(s, ast.If) and self.first_elem_call(s.test, ctx) is not None:
            # the call is an opaque call into the world: it is made first (Python evaluates it first), its value is a temporary
            callnode = self.first_elem_call(s.test, ctx)
            wname, args = self.elem_call(callnode, ctx)
            self.jp += 1
            tmp = f"t_call{self.jp}"
            class Sub(ast.NodeTransformer):
                def visit_Call(self2, node):
                    return ast.copy_location(ast.Name(id=tmp, ctx=ast.Load()), node) if node is callnode else self2.generic_visit(node)
            import copy
            test2 = copy.deepcopy(s.test)
            callnode = self.first_elem_call(test2, ctx)
            news = ast.If(test=Sub().visit(test2), body=s.body, orelse=s.orelse)
            ast.copy_location(news, s)
            ast.fix_missing_locations(news)
            inner = dict(ctx)
            inner["temps"] = set(ctx.get("temps", ())) | {tmp}
            # (ctx is copied shallowly: `tainted` and the locals stay shared)
            return (pad + f"Py.H.call ext {lean_str(wname)} [{', '.join(args)}] env effs fun {tmp} env effs =>\n"
                    + self.block([news] + rest, k, inner, ind))
        if isinstance(s, ast.If):
            test = self.expr(s.test, ctx)
            if not rest:
                a = self.block(s.body, k, ctx, ind + 1)
                b = self.block(s.orelse, k, ctx, ind + 1)
                return pad + f"{P}cond {test}{EV} effs (\n{a}) (\n{b})"
            # join point over the variables the branches assign
            vs = self.assigned(s.body + s.orelse)
            self.jp += 1
            jp = f"jp{self.jp}"
            params = " ".join(f"(v_{v} : Py.V)" for v in vs)
            henv = " (env : Py.Env)" if self.heap else ""
            call = " ".join([jp] + [f"v_{v}" for v in vs] + (["env"] if self.heap else []) + ["effs"])
            body = self.block(rest, k, ctx, ind + 1)
            a = self.block(s.body, call, ctx, ind + 1)
            b = self.block(s.orelse, call, ctx, ind + 1)
            return (pad + f"let {jp} := fun {params}{henv} (effs : List Py.Eff) =>\n{body}\n"
                    + pad + f"{P}cond {test}{EV} effs (\n{a}) (\n{b})")
        raise Untranslatable(f"{where()}: statement {type(s).__name__}")

    # ---------------------------------------------------------------- object aliases
    def unalias(self, f):
        """`csvpath = self.matcher.csvpath` followed by `csvpath.x`: a local that names an object reached from self. Every use of the local
        as the base of an attribute is rewritten to the path (sound while the method does not assign the path or the local again);
        the assignment itself goes when the local is not used in any other way."""
        import copy

        cand = {}
        stores = {}
        for node in ast.walk(f):
            if isinstance(node, ast.Name) and isinstance(node.ctx, ast.Store):
                stores[node.id] = stores.get(node.id, 0) + 1
        for node in ast.walk(f):
            if isinstance(node, ast.Assign) and len(node.targets) == 1 and isinstance(node.targets[0], ast.Name) \
                    and isinstance(node.value, ast.Attribute) and (dotted(node.value) or "").startswith("self.") \
                    and "(" not in dotted(node.value) and stores.get(node.targets[0].id) == 1:
                cand[node.targets[0].id] = node.value
        if not cand:
            return f
        used_as_base = set()
        for node in ast.walk(f):
            if isinstance(node, ast.Attribute) and isinstance(node.value, ast.Name) and node.value.id in cand:
                used_as_base.add(node.value.id)
        cand = {k: v for k, v in cand.items() if k in used_as_base}
        if not cand:
            return f
        # the path must not be written in the method
        for node in ast.walk(f):
            if isinstance(node, (ast.Assign, ast.AugAssign)):
                for t in (node.targets if isinstance(node, ast.Assign) else [node.target]):
                    d = dotted(t) if isinstance(t, ast.Attribute) else None
                    for k, v in list(cand.items()):
                        if d is not None and (dotted(v) == d or dotted(v).startswith(d + ".")):
                            del cand[k]
        if not cand:
            return f
        g = copy.deepcopy(f)

        class Sub(ast.NodeTransformer):
            def visit_Attribute(self2, node):
                self2.generic_visit(node)
                if isinstance(node.value, ast.Name) and node.value.id in cand:
                    node.value = copy.deepcopy(cand[node.value.id])
                return node
        g = Sub().visit(g)
        ast.fix_missing_locations(g)
        bare = set()
        for node in ast.walk(g):
            if isinstance(node, ast.Name) and isinstance(node.ctx, ast.Load) and node.id in cand:
                bare.add(node.id)

        class Drop(ast.NodeTransformer):
            def visit_Assign(self2, node):
                if len(node.targets) == 1 and isinstance(node.targets[0], ast.Name) and node.targets[0].id in cand \
                        and node.targets[0].id not in bare:
                    return ast.copy_location(ast.Pass(), node)
                return node
        g = Drop().visit(g)
        ast.fix_missing_locations(g)
        return g

    # ---------------------------------------------------------------- functions
    def translate(self, cls, m, prefix="self", elem_params=None):
        elem_params = elem_params or {}
        name = self.lean_name(cls, m, prefix) + "".join(f"__elem_{p}" for p in sorted(elem_params))
        if name in self.emitted:
            return name
        self.emitted[name] = None  # in progress
        f = self.unalias(self.methods[(cls, m)])
        pos, kwonly, _ = self.signature(cls, m)
        params = pos + kwonly
        recs = self.records.get((cls, m), set())
        locs = [p for p in params if p not in recs]
        for v in self.assigned(f.body):
            if v not in locs:
                locs.append(v)
        ctx = {"cls": cls, "m": m, "prefix": prefix, "locals": set(locs), "records": recs,
               "elems": {p: (full, lst, f"idx_{p}") for p, (full, lst) in elem_params.items()}}
        for node in ast.walk(f):
            if isinstance(node, ast.Name) and isinstance(node.ctx, ast.Store) and node.id in elem_params:
                raise Untranslatable(f"{cls}.{m}: the element parameter {node.id} is assigned")
        body = self.block(list(f.body), f"{self.P}ret Py.V.none{self.EV} effs", ctx, 1)
        sig = " ".join(f"(r_{p} : Py.Env)" if p in recs else (f"(idx_{p} : Nat)" if p in elem_params else f"(v_{p} : Py.V)") for p in params)
        unbound = "".join(f"  let v_{v} : Py.V := Py.V.exc \"UnboundLocalError\"\n" for v in locs if v not in params)
        src = self.srcfile[(cls, m)]
        text = (f"/-- `{cls}.{m}` ({src}:{f.lineno}), `self` = `{prefix}` -/\n"
                f"@[py_core] def {name} ({'ext : Py.Ext) (' if self.heap else ''}env : Py.Env) {sig} (effs : List Py.Eff) : {self.P}Res :=\n{unbound}{body}\n")
        self.emitted[name] = text
        self.order.append(name)
        return name

    def render(self, roots):
        self.load()
        for cls, m in roots:
            self.translate(cls, m)
        if not self.heap and self.written & self.read:
            # an attribute the core writes is also read: the plain environment is read-only, the read would not see the write
            raise Untranslatable(f"attribute(s) {sorted(self.written & self.read)} are written and read: the core needs heap mode")
        out = [f"import Model.Py\nimport Proofs.PyAttr\n/-! GENERATED by tools/py2lean.py from /repo's working tree — do not edit.\n{self.doc}\n-/\n"
               f"set_option linter.unusedVariables false\nnamespace Generated.{self.name}\n"]
        for n in self.order:
            out.append(self.emitted[n])
        out.append(f"end Generated.{self.name}\n")
        return "\n".join(out)


def stub(name, reason):
    return (f"import Model.Py\nimport Proofs.PyAttr\n/-! GENERATED by tools/py2lean.py — TRANSLATION FAILED, no definitions.\n"
            f"{reason}\n-/\nnamespace Generated.{name}\nend Generated.{name}\n")
