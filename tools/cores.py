"""The decision cores tools/py2lean.py translates on every run, and where the result goes.

Each entry: the Lean file/namespace, the methods (with the class they live in), the roots, and how the things a method
touches besides its parameters are read: dropped calls (logging, explain mode), recorded effects, environment observers,
prelude functions, record parameters, linked objects, enum constants."""
import os

import py2lean

LOGGING = [r"logger\.(debug|info|warning|error)$", r"^self\.logger\.", r"^self\.assign\(\)", r"^self\.when_do\(\)", r"^self\.equality\(\)"]


def cores(repo):
    from csvpath.util.config import OnError
    from csvpath.modes.return_mode import ReturnMode
    from csvpath.modes.run_mode import RunMode
    from csvpath.modes.unmatched_mode import UnmatchedMode
    from csvpath.modes.source_mode import SourceMode

    return [
        (py2lean.Core(
            repo, "Assign",
            [("csvpath/matching/productions/equality.py", "Equality",
              ["_do_assignment_new_impl", "_latch_and_onchange", "_set_variable_if", "_test_friendly_line_matches"])],
            ignore=LOGGING,
            effects={"self.matcher.set_variable": "set_variable"},
            observers={"self.default_match()", "self.line_matches()"},
            pure={"ExpressionUtility.asbool": "Py.asbool"},
            records={("Equality", "_do_assignment_new_impl"): {"args"}},
            doc="C14: the assignment decision (`Equality._do_assignment_new_impl` and its helpers)."),
         [("Equality", "_do_assignment_new_impl")]),
        (py2lean.Core(
            repo, "HandleIf",
            [("csvpath/util/error.py", "ErrorHandler", ["_handle_if"]),
             ("csvpath/util/error.py", "ErrorCommsManager", ["do_i_raise", "do_i_print", "do_i_stop", "do_i_fail"])],
            ignore=LOGGING,
            effects={"self._error_collector.collect_error": "collect_error", "self._csvpath.print": ("print", False)},
            links={("ErrorHandler", "self._ecm"): "ErrorCommsManager"},
            consts={"OnError": OnError},
            doc="C05: what handling one error does (`ErrorHandler._handle_if`, `ErrorCommsManager.do_i_*`)."),
         [("ErrorHandler", "_handle_if")]),
        (py2lean.Core(
            repo, "Scanner",
            [("csvpath/scanning/scanner.py", "Scanner", ["includes", "is_last"])],
            ignore=LOGGING,
            pure={"len": "Py.len", "max": "Py.max"},
            doc="C02: which lines a parsed scan part selects (`Scanner.includes`, `Scanner.is_last`)."),
         [("Scanner", "includes"), ("Scanner", "is_last")]),
        (py2lean.Core(
            repo, "ConsiderLine",
            [("csvpath/csvpath.py", "CsvPath", ["_consider_line", "raise_match_count_if", "stop"]),
             ("csvpath/util/line_monitor.py", "LineMonitor", ["is_last_line_and_blank"])],
            heap=True,
            ignore=LOGGING,
            opaque={"self.matches": "matches"},
            oracles={"self.scanner.includes": "includes", "self.scanner.is_last": "is_last"},
            links={("CsvPath", "self.line_monitor"): "LineMonitor"},
            pure={"len": "Py.len"},
            # the timing of the matcher call is bookkeeping outside every property
            ignore_calls=[r"^time\."],
            doc="C01/C02/C03/C13/C15: what `CsvPath._consider_line` does with one record (heap mode: attribute writes are state; "
                "`self.matches(line)` is an opaque call into the matcher, `self.scanner.includes/is_last` are questions to the scanner)."),
         [("CsvPath", "_consider_line")]),
        (py2lean.Core(
            repo, "Modes",
            [("csvpath/modes/return_mode.py", "ReturnMode", ["value"]),
             ("csvpath/modes/run_mode.py", "RunMode", ["value"]),
             ("csvpath/modes/unmatched_mode.py", "UnmatchedMode", ["value"]),
             ("csvpath/modes/source_mode.py", "SourceMode", ["value"])],
            heap=True,
            ignore=LOGGING,
            observers_args={"self.controller.get"},
            consts={"ReturnMode": ReturnMode, "RunMode": RunMode, "UnmatchedMode": UnmatchedMode, "SourceMode": SourceMode},
            doc="C15: how the return-mode, run-mode and unmatched-mode settings of the outer comment are read (the `value` getters; "
                "`self.controller.get(<mode>)` is the metadata field of that name)."),
         [("ReturnMode", "value"), ("RunMode", "value"), ("UnmatchedMode", "value"), ("SourceMode", "value")]),
        (py2lean.Core(
            repo, "Matches",
            [("csvpath/matching/matcher.py", "Matcher", ["matches"]),
             ("csvpath/util/line_monitor.py", "LineMonitor", ["is_last_line_and_blank"])],
            heap=True,
            ignore=LOGGING,
            opaque={"self._do_lasts": "do_lasts", "self.clear_errors": "clear_errors"},
            links={("Matcher", "self.csvpath.line_monitor"): "LineMonitor"},
            lists={"self.expressions": {"calls": {"[0].matches": "expr_matches"}}},
            doc="C01/C13: the top level of a match (`Matcher.matches`): the loop over the match components, the stop and skip cuts, "
                "the AND/OR fold of the votes (heap mode; `et[0].matches(skip=[])` is an opaque call into the component with the index of "
                "the component, `et[1]` — the vote an onmatch look-ahead may have left — a field of the element; `_do_lasts` and "
                "`clear_errors` are opaque calls)."),
         [("Matcher", "matches")]),
        (py2lean.Core(
            repo, "When",
            [("csvpath/matching/productions/equality.py", "Equality", ["_do_when"])],
            heap=True,
            ignore=LOGGING,
            opaque={"self.left.matches": "left_matches", "self.right.matches": "right_matches"},
            observers={"self.default_match()"},
            observe_text={"self._left_nocontrib(self.left)", "isinstance(self.left, Function)", "self.left.override_frozen()"},
            doc="C03/C04: the when/do operator (`Equality._do_when`): the right-hand side runs exactly when the left-hand side answers True, in the "
                "state the left-hand side leaves (heap mode; `self.left.matches`, `self.right.matches` are opaque calls into the two sides; "
                "`_left_nocontrib(self.left)`, `isinstance(self.left, Function)`, `self.left.override_frozen()` are read as facts about the left side)."),
         [("Equality", "_do_when")]),
        (py2lean.Core(
            repo, "LineMonitor",
            [("csvpath/util/line_monitor.py", "LineMonitor", ["next_line", "set_end_lines_and_reset"])],
            heap=True,
            ignore=LOGGING,
            ignore_targets=[r"_last_line_stats$"],
            pure={"len": "Py.len"},
            doc="C03: the line monitor's counters (`LineMonitor.next_line`, `set_end_lines_and_reset`): physical and data line counts and "
                "numbers as the run loop steps through the records (heap mode; the `LastLineStats` record is left out)."),
         [("LineMonitor", "next_line"), ("LineMonitor", "set_end_lines_and_reset")]),
        (py2lean.Core(
            repo, "Control",
            [("csvpath/matching/functions/lines/stop.py", "Stopper", ["_stop_me"]),
             ("csvpath/matching/functions/lines/stop.py", "Stop", ["_decide_match"]),
             ("csvpath/matching/functions/lines/stop.py", "Skipper", ["_skip_me"]),
             ("csvpath/matching/functions/lines/stop.py", "Skip", ["_decide_match"]),
             ("csvpath/matching/functions/validity/fail.py", "Fail", ["_decide_match"]),
             ("csvpath/csvpath.py", "CsvPath", ["stop"])],
            heap=True,
            ignore=LOGGING + [r"logger\.info$"],
            bases={"Stop": "Stopper", "Skip": "Skipper"},
            links={("Stopper", "self.matcher.csvpath"): "CsvPath", ("Stop", "self.matcher.csvpath"): "CsvPath"},
            opaque_text={"self.children[0].matches": "child_matches"},
            effects={"self._set_has_happened": "set_has_happened"},
            observers={"self.default_match()", "self.do_once()"},
            observe_text={"len(self.children)"},
            doc="C13/C04: what stop(), fail_and_stop(), skip() and fail() do (`Stopper._stop_me`, `Stop._decide_match`, `Skipper._skip_me`, "
                "`Skip._decide_match`, `Fail._decide_match`, with `CsvPath.stop`): heap mode; the condition, if any, is the opaque call "
                "`self.children[0].matches(skip=skip)`."),
         [("Stop", "_decide_match"), ("Skip", "_decide_match"), ("Fail", "_decide_match")]),
        (py2lean.Core(
            repo, "Select",
            [("csvpath/managers/paths/paths_manager.py", "PathsManager", ["_get_to", "_get_from", "_find_one"])],
            heap=True,
            ignore=LOGGING,
            list_calls={"self.get_identified_paths_in": "idpaths"},
            doc="C12: selecting members of a named-paths group by identity (`PathsManager._get_to`, `_get_from`, `_find_one`): loops over the "
                "(identity, csvpath) pairs `get_identified_paths_in` returns — an object list of the world, `[0]` the identity, `[1]` the csvpath."),
         [("PathsManager", "_get_to"), ("PathsManager", "_get_from"), ("PathsManager", "_find_one")]),
        (py2lean.Core(
            repo, "Last",
            [("csvpath/matching/functions/lines/last.py", "Last", ["_decide_match"]),
             ("csvpath/util/line_monitor.py", "LineMonitor", ["is_last_line"])],
            heap=True,
            ignore=LOGGING,
            links={("Last", "self.matcher.csvpath.line_monitor"): "LineMonitor"},
            oracles={"self.matcher.csvpath.scanner.is_last": "is_last"},
            # (the argument `skip=[self]` is the function itself: not part of the record)
            opaque_text={"self.children[0].matches": ("child_matches", False)},
            observe_text={"len(self.children)"},
            doc="C13: last() (`Last._decide_match`, `LineMonitor.is_last_line`): it holds on the file's last line and on the last line the scan "
                "part selects, and runs what it encloses there with the freeze lifted (heap mode; `scanner.is_last` is a question to the scanner)."),
         [("Last", "_decide_match")]),
        (py2lean.Core(
            repo, "Results",
            [("csvpath/managers/results/results_manager.py", "ResultsManager", ["is_valid", "has_lines"])],
            heap=True,
            ignore=LOGGING,
            list_calls={"self.get_named_results": "results"},
            pure={"len": "Py.len"},
            doc="C04/C20: what a named-paths group's results say as a whole (`ResultsManager.is_valid`, `has_lines`): loops over the results "
                "`get_named_results` returns — an object list of the world; `.is_valid`, `.lines` are fields of the elements."),
         [("ResultsManager", "is_valid"), ("ResultsManager", "has_lines")]),
        (py2lean.Core(
            repo, "Identity",
            [("csvpath/csvpath.py", "CsvPath", ["identity"])],
            heap=True,
            ignore=LOGGING,
            dicts={"self.metadata"},
            doc="C12: the identity of a csvpath (`CsvPath.identity`): id > Id > ID > name > Name > NAME among the fields of the outer comment "
                "(`self.metadata` is a dict with constant keys: an absent key reads as `KeyError`)."),
         [("CsvPath", "identity")]),
    ]


def generate(repo, outdir):
    """writes lean/Generated/Core<Name>.lean for every core; returns [(name, ok, message)]"""
    res = []
    for core, roots in cores(repo):
        path = os.path.join(outdir, f"Core{core.name}.lean")
        try:
            text = core.render(roots)
            ok, msg = True, "translated " + ", ".join(f"{c}.{m}" for c, m in roots)
        except py2lean.Untranslatable as e:
            text = py2lean.stub(core.name, str(e))
            ok, msg = False, f"untranslatable: {e}"
        except Exception as e:  # noqa: BLE001 - a source that does not even parse
            text = py2lean.stub(core.name, f"{e.__class__.__name__}: {e}")
            ok, msg = False, f"{e.__class__.__name__}: {e}"
        old = open(path, encoding="utf-8").read() if os.path.exists(path) else None
        if old != text:
            tmp = f"{path}.{os.getpid()}.tmp"      # (checks may run side by side: never leave a half-written file behind)
            with open(tmp, "w", encoding="utf-8") as f:
                f.write(text)
            os.replace(tmp, path)
        res.append((core.name, ok, msg))
    return res
