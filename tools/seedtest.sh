#!/bin/bash
# usage: tools/seedtest.sh <patch.diff> <Cxx> [<Cyy> ...]
# applies a seeded change, runs the quick checks of the named properties against the changed tree, and undoes the change
# straight afterwards. Prints one line per check: caught / MISSED.
# By default the change is applied to /repo's working tree. With SEEDTEST_WT=<dir> a scratch worktree of /repo at <dir>
# (created if missing, left clean) is used instead and the checks read the code from there (CSVPATH_REPO), so that /repo
# itself stays untouched while other runs are going on.
set -u
cd "$(dirname "$0")/.."
patch="$1"; shift
tree=/repo
if [ -n "${SEEDTEST_WT:-}" ]; then
  tree="$SEEDTEST_WT"
  if [ ! -d "$tree/.git" ] && [ ! -f "$tree/.git" ]; then git -C /repo worktree add -q --detach "$tree" HEAD || exit 2; fi
  git -C "$tree" checkout -q --detach "$(git -C /repo rev-parse HEAD)" || exit 2
  export CSVPATH_REPO="$tree"
fi
if ! git -C "$tree" diff --quiet; then echo "tracked files in $tree are modified; refusing" >&2; exit 2; fi
git -C "$tree" apply "$patch" || { echo "patch does not apply" >&2; exit 2; }
trap 'git -C "$tree" checkout -- .' EXIT
for p in "$@"; do
  # the evidence file belongs to runs against the unchanged tree: keep it out of the way of this run
  [ -f "evidence/$p.json" ] && cp "evidence/$p.json" "evidence/.$p.json.keep"
  out=$(VERIF_SEED=${VERIF_SEED:-20260929} ./verify "$p" --tier ${TIER:-quick} 2>&1)
  rc=$?
  [ -f "evidence/.$p.json.keep" ] && mv "evidence/.$p.json.keep" "evidence/$p.json"
  v=$(echo "$out" | grep -c '^VIOLATION')
  if [ "$rc" = 1 ] && [ "$v" -ge 1 ]; then
    echo "$p caught: $(echo "$out" | grep '^VIOLATION' | head -1)"
  elif [ "$rc" = 0 ]; then
    echo "$p MISSED (exit 0)"
  else
    echo "$p exit=$rc: $(echo "$out" | tail -2 | tr '\n' ' ' | cut -c1-300)"
  fi
done
