#!/bin/bash
# usage: tools/seedtest.sh <patch.diff> <Cxx> [<Cyy> ...]
# applies a seeded change to /repo's working tree, runs the quick checks of the named properties,
# and undoes the change straight afterwards. Prints one line per check: caught / MISSED.
set -u
cd "$(dirname "$0")/.."
patch="$1"; shift
if ! git -C /repo diff --quiet; then echo "tracked files in /repo are modified; refusing" >&2; exit 2; fi
git -C /repo apply "$patch" || { echo "patch does not apply" >&2; exit 2; }
trap 'git -C /repo checkout -- .' EXIT
for p in "$@"; do
  out=$(VERIF_SEED=${VERIF_SEED:-20260929} ./verify "$p" --tier ${TIER:-quick} 2>&1)
  rc=$?
  v=$(echo "$out" | grep -c '^VIOLATION')
  if [ "$rc" = 1 ] && [ "$v" -ge 1 ]; then
    echo "$p caught: $(echo "$out" | grep '^VIOLATION' | head -1)"
  elif [ "$rc" = 0 ]; then
    echo "$p MISSED (exit 0)"
  else
    echo "$p exit=$rc: $(echo "$out" | tail -2 | tr '\n' ' ' | cut -c1-300)"
  fi
done
