"""writes MANIFEST.json from the table below (kept in one place so it stays valid)"""
import json
import os

VERIF = os.path.dirname(os.path.dirname(os.path.abspath(__file__)))
PROPS = [json.loads(l) for l in open(os.path.join(VERIF, "properties.jsonl"))]

CLAIMED = {
    "C02": dict(
        text="Lean theorems (Props/C02.lean): for every scan part of class K with unbounded bounds the modelled scanner "
             "(PLY actions as a fold) parses it and `includes`/`is_last` equal the denotation; for every file and every "
             "non-stopping matcher the modelled run loop offers exactly the denoted non-blank records. The model is tied to "
             "/repo by the `scan` correspondence suite (scanner state, includes, is_last, run loop under the recorded matcher) "
             "and the real run is compared with the denotation on every case (exhaustive over class K for N<=5 in thorough). "
             "Source tie (T): `Scanner.includes` and `Scanner.is_last` are translated from /repo's working tree to Lean on every run "
             "(tools/py2lean.py -> Generated/CoreScanner.lean) and proved equal to the model's includes/isLast for every scanner state "
             "and line (Props/C02Tie.lean), so the denotation theorem is also stated of the translated source (c02_includes_source).",
        note="Trusts: Lean kernel + propext/Classical.choice/Quot.sound; the correspondence harness; PLY's LALR reduction order "
             "(observed, not verified); csv.reader. Proof covers class K; scan parts outside K are compared with the model only.",
        technique="Lean 4 proof (fold invariant over the + list, induction over records) + source translator with bridging theorems (includes, is_last) + model/implementation correspondence",
        design="6/C02",
    ),
}

CLAIMED["C07"] = dict(
    text="Lean theorems (Props/C07.lean), parametric in the matcher and hence valid for every csvpath: collect() returns the "
         "lines next() yields and all three entry points end in the same loop state (matcher state = variables/errors/printouts, "
         "flags, counters); collect(nexts=n) returns the first n lines and its whole result is determined by a prefix of the "
         "file (no effect of a later record). Tie: suite `methods` replays the real matcher's recorded behaviour through the "
         "Lean run loop for collect/next/fast_forward/collect(nexts=1..matches+1) and compares lines, flags, counters, matcher "
         "calls; the oracle compares the real entry points with each other and with next() iterated by hand.",
    note="Trusts Lean kernel + 3 standard axioms; the recorded-matcher harness; Python generator semantics (an abandoned "
         "generator runs no further code) as modelled by the budgeted loop.",
    technique="Lean 4 proof (induction over records, parametric matcher) + recorded-matcher correspondence",
    design="6/C07",
)
CLAIMED["C15"] = dict(
    text="Lean theorems (Props/C15.lean): for every matcher and file, return-mode no-matches yields exactly the scanned records "
         "the default mode does not (same matcher calls, same final state); with unmatched-mode keep the collected and unmatched "
         "lines partition the records read, in order; run-mode no-run reads nothing; the outer comment scanner returns scan and "
         "match text unchanged for every comment free of ~[]$ (any Unicode classification); a comment of free text followed by `key: value` fields yields exactly those fields in metadata, in order, values trimmed (c15_fields). Tie: suite `modes` (written modes, "
         "flipped return-mode, flipped print-mode, metadata fields) against the real code and the model; the metadata field "
         "scanner model is fuzzed against MetadataParser on every case. Source tie (T): the `value` getters of ReturnMode, RunMode and "
         "UnmatchedMode are translated from /repo's working tree to Lean on every run (heap mode, Generated/CoreModes.lean) and proved to "
         "read the comment's field as Model.Modes says, for every text of the field (Props/C15Tie).",
    note="print-mode is covered by model correspondence and the oracle, not by a theorem; "
         "str.isalnum/isspace are parameters of the model supplied per character by the harness.",
    technique="Lean 4 proof (run-loop invariants; character state machine) + source translator with bridging theorems (mode getters) + correspondence",
    design="6/C15",
)

CLAIMED["C14"] = dict(
    text="Lean theorem c14_table (Props/C14.lean): for all 256 qualifier subsets, all current and new values (None, unbounded "
         "ints, arbitrary strings), both line verdicts and both logic modes, the modelled assignment decision (write, vote) "
         "equals the documented decision list; corollaries latch-never-negative, nocontrib-neutral, onmatch gate, and the "
         "fold over any assignment history. Tie: suite `assign` calls the real _do_assignment_new_impl on every point of the "
         "quantifier's domain (21,504 points incl. both logic modes) and runs real csvpaths over 3-line files (sampled in "
         "quick, exhaustive in thorough), comparing with the model and with the documented table. Source tie (T): "
         "`Equality._do_assignment_new_impl`, `_latch_and_onchange`, `_set_variable_if` and `_test_friendly_line_matches` are translated "
         "from /repo's working tree to Lean on every run (Generated/CoreAssign.lean) and proved equal to the model for every qualifier "
         "set, value pair, logic mode and look-ahead answer (Props/C14Tie.assignment_source_is_model); c14_table_source states the "
         "documented table of the translated source itself.",
    note="Hypotheses of the theorem: Python can order the two values (no int vs str), and the new value is not a falsy non-None "
         "value under increase/decrease (outside the property's quantifier; those points are run and counted in the evidence).",
    technique="Lean 4 proof (case analysis over qualifier sets + integer/string order lemmas) + source translator with bridging theorem + exhaustive correspondence",
    design="6/C14",
)

CLAIMED["C05"] = dict(
    text="Lean theorems (Props/C05.lean): for all 64 policy subsets, every validation-mode override and every list of errors of a "
         "line (any length), the modelled handler leaves exactly the outcome the flags prescribe (raise/collect/stop/fail/print "
         "independent; a raise abandons the rest); the override wins over the policy for raise/print/stop/fail; the validation-mode "
         "token reader is correct on the whole table of documented settings (3^5 combinations, kernel-evaluated). Tie: suite `errors` "
         "drives the real ErrorHandler/ValidationMode on every policy x setting (unit) and real csvpaths with seven kinds of "
         "error-provoking components at chosen lines and positions (run), comparing with the model and with the flags' meaning. "
         "Source tie (T): `ErrorHandler._handle_if` and `ErrorCommsManager.do_i_raise/print/stop/fail` are translated from /repo's "
         "working tree to Lean on every run (Generated/CoreHandleIf.lean) and proved to perform the model's effects in the model's order "
         "and to raise exactly when the model does (Props/C05Tie.handle_if_source_is_model, c05_policy_source).",
    note="Which component raises what (Args validation, Python exceptions inside functions) is exercised on the real code, not modelled; "
         "'quiet' only changes logging. With validation-mode `match` the oracle demands that an erroring component counts as matching where the "
         "erroring function is the component itself, the value of its assignment or the do-part of its when (argument mismatches; exceptions "
         "that reach the Expression's own trap); a Python exception trapped inside a bare function component simply does not match, which the "
         "property's 'unless' leaves open.",
    technique="Lean 4 proof (induction over the error list; decide +kernel over the token table) + source translator with bridging theorem (_handle_if, do_i_*) + correspondence",
    design="6/C05",
)

CLAIMED["C11"] = dict(
    text="Lean theorems (Props/C11.lean), for every operation history of any length and every hash function: the store's manifests "
         "refine the abstract versioned store (one entry per change of the current version, none for a repeat); get_named_file is "
         "the current version; in every reachable state the named file exists and its bytes hash to the fingerprint in its name; "
         "the latest registration wins; stored versions keep their bytes until the name is removed; new instances and source edits "
         "change nothing. Tie: suite `files` enumerates all histories to length 2 (quick) / 3 (thorough) over 21 operations plus "
         "random longer ones against the real FileManager, comparing API and on-disk tree (real SHA-256 recomputed) with the abstract "
         "store and the Lean model after every operation.",
    note="SHA-256, shutil/os and JSON are outside the model (hash is a parameter; equality of bytes follows under injectivity).",
    technique="Lean 4 proof (refinement to an abstract versioned store + invariant over operation histories) + exhaustive short histories",
    design="6/C11",
)

CLAIMED["C12"] = dict(
    text="Lean theorems (Props/C12.lean): for every non-empty list of csvpaths none of which is blank or contains the marker, reading "
         "the group file back returns the same csvpaths in the same order, each with only blank lines around it (leftmost split "
         "proved against the self-overlapping marker); selection by identity returns the member, :to the prefix through it and "
         ":from the suffix from it; the manifest is the history of group-file fingerprints with adjacent repeats collapsed; identity "
         "precedence. Tie: suite `paths` runs histories of add / identical re-add / replace / remove / new instance on two groups "
         "against the real PathsManager, comparing get_named_paths, six selection forms per member, manifest vs SHA-256 of the "
         "group file, and the model's group text, read-back, identities and selections. Source tie (T): `PathsManager._get_to`, `_get_from` and "
         "`_find_one` — with their loops over the (identity, csvpath) pairs — are translated from /repo's working tree on every run and proved to compute "
         "the model's getTo/getFrom/findOne for every group and identity (Props/SelectTie; c12_select_source states the selection clause of the "
         "translated source). `CsvPath.identity` is translated as well and proved to compute the model's identityOf for every list of metadata fields "
         "(Props/IdentityTie).",
    note="Identities come from the metadata model (C15) with Python's character classes supplied per character; SHA-256 is outside the model.",
    technique="Lean 4 proof (string split/join round trip, list lemmas) + source translator with bridging theorems (_get_to, _get_from, _find_one incl. their loops) + correspondence over operation histories",
    design="6/C12",
)

CLAIMED["C08"] = dict(
    text="Lean theorems (Props/C08.lean), parametric in every member's matcher: after a breadth-first run each member has exactly the "
         "loop state and collected lines of its solo run, whatever the other members do and in any order; the solo run is the "
         "standalone next()/collect() run up to finalize; per record the caller's line is the union (intersection with if_all_agree) "
         "of the running members' decisions. Tie: suite `group` runs every member alone and under all six CsvPaths methods (listed "
         "and reversed order), compares lines, variables, printouts, validity, counters and the caller's lines, and replays the "
         "breadth-first runs through the Lean model under the members' recorded matcher scripts.",
    note="Serial methods are compared on the real code only (a serial run is a list of standalone runs by construction of the model). "
         "Error-message printouts carry the member's identity and are compared as error records instead.",
    technique="Lean 4 proof (product invariant over records for interleaved members) + recorded-matcher correspondence",
    design="6/C08",
)

CLAIMED["C10"] = dict(
    text="Lean theorems (Props/C10.lean): run directory names parse back to their start time for every valid time of day (24-hour "
         "format), the sort key is the calendar order, the name handed out by get_run_dir is never one already in use, over any "
         "history of runs (any groups, instances, clock readings, any number per second) the run directories are pairwise distinct, "
         ":last/:first pick a run of greatest/least start time. Tie: suite `history` runs all histories to length 2 (quick) / 3 "
         "(thorough) over 16 run kinds plus random longer ones against the real CsvPaths with an injected clock; after every run "
         "the whole archive is hashed (earlier runs byte-identical, exactly one new directory under the run's own group), names "
         "are compared with the model, chronological name order and $group.results.<prefix>:last/:first are checked through the API.",
    note="The file system is finite (the collision search is bounded by a fuel the theorem quantifies over); archive/manifest.json is the "
         "archive-level run log, not a file of an earlier run. Ties between `name` and `name.N` (same second) are outside the statement.",
    technique="Lean 4 proof (digit arithmetic round trip, freshness invariant over run histories) + exhaustive short histories",
    design="6/C10",
)

CLAIMED["C09"] = dict(
    text="Lean theorems (Props/C09.lean), for arbitrary member results and any hash function: after a serial run returns normally the "
         "run manifest says complete with all_valid/all_completed/error_count the conjunction/sum over the members, there is one "
         "directory per member named by identity (or index), and every member directory is consistent with the in-memory result — "
         "vars/errors/meta always, data/unmatched/printouts iff non-empty, every manifest fingerprint the hash of the file's final "
         "content (nothing is written after fingerprinting); and, on the model of Python's csv module, data.csv and unmatched.csv read back "
         "with csv.reader give exactly the lines held in memory, for any cell text without a carriage return (c09_csv_content). "
         "Tie: suite `archive` runs groups under all six methods over files with "
         "quotes, delimiters and newlines, reads the archive back (stdlib JSON/CSV, SHA-256 recomputed) and compares it with the "
         "in-memory results and with the model's file sets and run manifest.",
    note="JSON encodings and SHA-256 are abstract in the model (the csv encoding is modelled, Model/Csv.lean); breadth-first saving is compared on the real code and through the same "
         "member-directory model.",
    technique="Lean 4 proof (data-in/file-system-out model of save order) + on-disk correspondence",
    design="6/C09",
)
CLAIMED["C18"] = dict(
    text="Lean theorem c18_abort (Props/C09.lean): when member k's run raises and the policy re-raises, the exception reaches the caller, "
         "the run manifest stays `start`, exactly the members up to k have directories, each saved consistently (saveMember_consistent), "
         "and the next run's directory is fresh (c10_fresh_dir). Tie: suite `abort` produces abort points (member, line) by an argument "
         "error under a raise policy for all six methods, checks the exception, the member directories, errors.json line numbers, "
         "completed flags, run manifest status, untouched named-files/named-paths stores, and a follow-up run on the same instance.",
    note="Known finding abort-on-last-line-completed (see known-findings.txt). Faults are produced by csvpath errors; reader faults are not injected.",
    technique="Lean 4 proof (exception-path model over member results) + fault enumeration on the real code",
    design="6/C18",
)

CLAIMED["C20"] = dict(
    text="Lean theorems (Props/C20.lean), parametric in the stages' matchers: in a serial run every stage with source-mode preceding reads "
         "exactly the lines its predecessor collected and every other stage the origin file; a chain whose later stages are all preceding "
         "yields the composition of the stages; a variable written by one member of a group is found with that member's final value in the "
         "merged variables a reference reads; a header reference is the list of stripped cells under the header in the collected lines. "
         "Tie: suite `chain` runs chains of 2-4 filter csvpaths (preceding on a suffix) and compares every member with the same filter run "
         "alone on its predecessor's lines, the manifests' actual_data_file, and the Lean chain model under recorded matcher scripts; "
         "reference cases evaluate $g.variables.v, $g.variables.t.k, $g.headers.h and a results reference as file name after 1-3 runs of g "
         "under an injected clock. Source tie (T): `ResultsManager.has_lines` (which decides whether a referenced group has data to hand on) is translated "
         "from /repo's working tree on every run and proved to hold exactly when some member collected a line (Props/ResultsTie.c20_has_lines_source).",
    note="Known finding preceding-after-empty. Default dialect only. get_variables' first-member-wins merge is modelled as is; the statement is "
         "claimed for variables written by one member.",
    technique="Lean 4 proof (composition of parametric stage runs; list lemmas for merged variables) + source translator with bridging theorem (has_lines incl. its loop) + correspondence",
    design="6/C20",
)

CLAIMED["C06"] = dict(
    text="Lean theorems (Props/C06.lean): on the model of Python's csv module (reader state machine of _csv.c over a text-mode file, "
         "QUOTE_MINIMAL writer) reading what csv.writer wrote returns exactly the records written — same count, cells, order — for every "
         "delimiter and quote character, every cell text without a carriage return (quoted delimiters, doubled quotes, embedded line "
         "feeds, empty cells, blank and ragged records), unbounded sizes (c06_csv_roundtrip); for every matcher every returned line and "
         "every unmatched line is one of the records the reader produced, unchanged, at increasing positions (c06_identity, c06_delivered); "
         "the headers are the cleaned cells of the first non-blank record and contain none of the delimiter-like characters; #name and "
         "#index read the same cell, the index being the first position of the name; a header beyond a short row (or unknown) reads as "
         "absent. Tie: suite `reader` writes generated records with csv.writer in 8 dialects, compares the model's text with the file and "
         "the model's reader with the repo's DataFileReader (also on 1,500+ arbitrary texts with stray quotes, CR, CRLF, open quotes and "
         "small field limits: records or csv.Error), requires the real collect() to return the records, and checks headers (stand-alone "
         "and through CsvPaths with a cold and a warm header cache), #name/#index and short rows through real csvpaths.",
    note="UTF-8 decoding and the OS file layer are below the model. str.strip is a parameter of the header model. "
         "Header names in the #name clause are simple generated names (the csvpath grammar restricts how a header can be written).",
    technique="Lean 4 proof (csv writer/reader round trip by induction over records, cells and characters; run-loop lemmas; header model) + correspondence",
    design="6/C06",
)

CLAIMED["C19"] = dict(
    text="PARTIAL. The Lean run model is a function of (csvpath, records, configuration) by construction; the one explicit cross-run "
         "state, the header cache, is proved to return exactly the header list that was stored, for every header list (empty, a single "
         "empty name, names with commas, quote characters, line feeds; no carriage return, which a text-mode reader never delivers) on "
         "the model of Python's csv module (c19_cache_roundtrip_csv: writer with the default CRLF terminator, text-mode read, reader "
         "state machine); the comma split/join round trip of the code before the repair is kept (c19_cache_roundtrip). Tie: suite `jobs` "
         "runs sequences of 2-6 generated (csvpath, file) jobs in one process and requires each job to give the lines, variables, "
         "printouts, errors, headers and verdict it gives alone in a fresh subprocess — in sequence, repeated, and through "
         "CsvPaths.csvpath() with a cold and a warm cache, with header cells containing spaces, quotes and delimiter-like characters; "
         "and drives the real FileCacher/Cache on generated header lists against the model (cache file text and list read back).",
    note="Process-global Python state (module registries, warnings filters, logging handlers) has no counterpart in a pure model; "
         "history-independence of the implementation is tested, not proved.",
    technique="Lean 4 proof (csv writer/reader round trip of the header cache) + fresh-process differential testing",
    design="6/C19",
)

INTERP_NOTE = ("Component-level semantics (what each function answers) is tied by differential comparison of the Lean interpreter model "
               "(Model/Interp.lean: headers, terms, variables, ==, ->, assignments with qualifiers, ~70 functions) with the real "
               "matcher on generated programs and files, and by the executable reference semantics harness/spec_eval.py judged "
               "against the real run; the theorems cover the run loop and the top-level combination of components, not each "
               "function body. Programs outside the model's class (look-ahead qualifiers onmatch/onchange/once, aliasing of mutable "
               "values, RecursionError, functions not modelled) are run and counted as unmodelled, never judged.")
CLAIMED["C01"] = dict(
    text="Lean theorems (Props/C01.lean): for every matcher (hence every csvpath) collect() returns exactly the records the matcher "
         "accepted among the offered ones, each once, in file order (c01_runloop); for the interpreter model, on every line free of "
         "stop/skip effects the line verdict is the AND (OR in OR mode) of the component votes evaluated left to right, each in the "
         "state left by its predecessors (c01_toplevel). Tie: suite `interp` runs generated programs through the real code and the "
         "Lean interpreter+run loop (lines, variables, flags, counters, printouts) and judges the real run against the documented "
         "meaning (spec_eval) — model-vs-code breaks and spec violations are reported separately. Source tie (T): `CsvPath._consider_line` is translated from /repo's working tree to Lean on every run (heap mode) and proved to compute the run-loop model's `considerLine` for every contract-keeping matcher (Props/RunTie.consider_line_source_is_model). `Matcher.matches` — the loop over the match components, the stop and skip cuts, the AND/OR fold of the votes — is translated too (Generated/CoreMatches.lean; `for` loops over object lists since round 7) and proved to compute the abstract top level `Model.MatchTop.matchLine` for every number of components and every component that keeps the stated contract (no onmatch look-ahead); the interpreter model's top level is an instance of the same definition (Props/MatchTie).",
    note=INTERP_NOTE,
    technique="Lean 4 proof (run-loop invariant; induction over the component list) + source translator with bridging theorems (_consider_line, Matcher.matches incl. its loop) + interpreter-model correspondence + reference-semantics oracle",
    design="6/C01",
)
CLAIMED["C03"] = dict(
    text="Lean theorems (Props/C03.lean): for every matcher and file scan_count equals the number of offered records and match_count "
         "the number of matched ones (under the matcher contract CountsOK), the context shown to the matcher on each offered record "
         "carries the 1-based scan number, the match count so far and the 0-based line number, and each component is evaluated in the "
         "state produced by the effects of the earlier components of the same line (c03_sameline). Tie: suite `interp` with "
         "variable-writing programs (assignments with tracking values, push/pop/stack, counter, count family, per-line stacks of "
         "count_lines/line_number/count_scans/count) compared with the Lean interpreter and with the reference semantics after the run. Source tie (T): `CsvPath._consider_line` is translated from /repo's working tree to Lean on every run (heap mode) and proved to compute the run-loop model's `considerLine` for every contract-keeping matcher (Props/RunTie.consider_line_source_is_model). Source tie (T): `Equality._do_when` (the `->` operator) is translated from /repo's working tree on every run and proved to compute `Model.WhenTop.whenDo` — the right-hand side runs exactly when the left-hand side answers True, in the state the left-hand side left, and is not called otherwise — for every pair of sides that keep the stated contract; the interpreter model's `evalWhen` is an instance (Props/WhenTie). `LineMonitor.next_line` and `set_end_lines_and_reset` are translated too and proved to keep the counters the run-loop model keeps, for every file (Props/MonitorTie.monitor_over_file: physical count and line number, data count and line number after any list of records).",
    note=INTERP_NOTE + " tally/sum/subtotal/every/first bookkeeping is compared model-vs-code where the model has the function and otherwise "
         "only judged by the oracle when spec_eval defines it.",
    technique="Lean 4 proof (run-loop counting invariants, component sequencing) + source translator with bridging theorems (_consider_line, _do_when, LineMonitor.next_line) + interpreter-model correspondence + reference-semantics oracle",
    design="6/C03",
)
CLAIMED["C04"] = dict(
    text="Lean theorems (Props/C04.lean): on every line the verdict after the line is the verdict before AND no executed effect of the "
         "line invalidates (c04_line: only an executed fail/fail_and_stop/error-with-fail effect can clear it, and nothing sets it); "
         "over a whole run, for every file and program of the interpreter model and for every matcher that never resets the flag, the "
         "verdict never returns to True (c04_run_monotone, c04_loop_never_writes); the manifest's all_valid is the conjunction of the "
         "members' verdicts (c04_aggregate). Tie: suite `interp` with conditional fail()/fail_and_stop()/failed()/valid() and "
         "error-provoking components under all policies, and suite `validity` for results_manager.is_valid and the manifest of real "
         "named-paths runs. Source tie (T): `Equality._do_when` (the `->` operator) is translated from /repo's working tree on every run and proved to compute `Model.WhenTop.whenDo` — the right-hand side runs exactly when the left-hand side answers True, in the state the left-hand side left, and is not called otherwise — for every pair of sides that keep the stated contract; the interpreter model's `evalWhen` is an instance (Props/WhenTie). `Fail._decide_match` is translated as well: fail() always clears the verdict (Props/ControlTie.c04_fail_source); so is `ResultsManager.is_valid`, whose loop is proved to return the conjunction of the members' results for every group (Props/ResultsTie.c04_aggregate_source).",
    note=INTERP_NOTE + " Known finding result-valid-needs-start (no-run member) is listed in known-findings.txt.",
    technique="Lean 4 proof (effect-list invariant, monotonicity by induction over records) + source translator with bridging theorems (_do_when, Fail._decide_match, ResultsManager.is_valid incl. its loop) + correspondence + oracle",
    design="6/C04",
)
CLAIMED["C13"] = dict(
    text="Lean theorems (Props/C13.lean): an advancing record is scanned but not matched, leaves the matcher state, match count and "
         "validity unchanged and decrements the advance (c13_advance); a file ending in a blank record still calls the matcher once, "
         "frozen, returning no line (c13_last_blank); once the stop flag is set after a record no later record is read "
         "(c13_stop_ends_run); inside a line no component after a fired stop()/skip() is evaluated, a skipped line is not matched "
         "and skip is cleared for the next line (c13_stop_cut, c13_skip_cut). Tie: suite `interp` with conditional "
         "stop/skip/advance/last among side-effecting components over files with interior/trailing blanks and scan windows, compared "
         "with the Lean model and judged by the reference semantics (absence of later effects); suite `lookahead` judges stop/skip beside "
         "an onmatch look-ahead directly. Source tie (T): `CsvPath._consider_line` (with `raise_match_count_if`, `stop`, `LineMonitor.is_last_line_and_blank`) is translated from /repo's working tree to Lean on every run (heap mode, Generated/CoreConsiderLine.lean) and proved to compute the run-loop model's `considerLine` for every matcher that keeps the stated contract (Props/RunTie.consider_line_source_is_model). `Matcher.matches` — the loop over the match components, the stop and skip cuts, the AND/OR fold of the votes — is translated too (Generated/CoreMatches.lean; `for` loops over object lists since round 7) and proved to compute the abstract top level `Model.MatchTop.matchLine` for every number of components and every component that keeps the stated contract (no onmatch look-ahead); the interpreter model's top level is an instance of the same definition (Props/MatchTie). The control functions themselves — `Stop._decide_match` with `Stopper._stop_me` and `CsvPath.stop`, `Skip._decide_match` with `Skipper._skip_me`, `Fail._decide_match` — are translated too and proved to compute `Model.ControlTop.stopFn`/`skipFn`/`failFn` (stop(cond) stops exactly when the condition answers True, fail_and_stop fails exactly when it stops, fail() always clears the verdict) for every condition that keeps the stated contract; the interpreter model's cases are instances (Props/ControlTie); `Last._decide_match` likewise (Props/LastTie: last() holds exactly on the file's or the scan's last line and runs what it encloses only there).",
    note=INTERP_NOTE,
    technique="Lean 4 proof (case analysis of the run-loop step and the component loop) + source translator with bridging theorems (_consider_line, Matcher.matches incl. its loop, stop/skip/fail functions) + correspondence + oracle",
    design="6/C13",
)

CLAIMED["C16"] = dict(
    text="Lean theorem c16_verbatim (Props/C16.lean): for every print string written from text chunks and local references (class WF: any "
         "characters but `$`, white space of the kinds the grammar knows, names as the grammar admits them, at least one character between "
         "two references) and for every assignment of values to references, the modelled print (character-level transcription of the "
         "Lark print grammar + transformer + the trailing-blank rule) sends exactly the chunks' text with each reference replaced by its "
         "value, `..` printing one dot; wfB_sound makes the class decidable so the driver reports which generated strings the theorem "
         "covers. c16_adjacent_fails proves that two references with nothing between them are outside what holds (known finding). Tie: "
         "suite `print` compares PrintParser.transform/print() with the model on arbitrary data (unit) and on the data snapshotted at "
         "every execution of real runs, and judges the real output against the demanded text computed from the file alone, including the "
         "number of entries under onmatch/once.",
    note="Lark's Earley parser + dynamic lexer are observed, not verified; the resolution of a reference against variables/headers/metadata/"
         "runtime fields is a model function tied by correspondence, not part of the theorem (the theorem is parametric in it); which "
         "executions happen under onmatch/once is judged by the oracle only (the interpreter model has no look-ahead).",
    technique="Lean 4 proof (structural induction over chunks; scanner lemmas) + model/implementation correspondence + reference oracle",
    design="6/C16",
)

CLAIMED["C17"] = dict(
    text="Lean theorems (Props/C17.lean) on the lexer+parser model of the match grammar: c17_tokens — every list of well-shaped components "
         "(every kind, any names, any nesting depth), with comments anywhere between them, parses to exactly those components (kinds, "
         "names, operators, argument order, literal values); c17_unique — a token sequence has one reading; c17_layout — the token "
         "sequence read from the text is the same for every admissible layout (any blanks/tabs/newlines before any token, none only "
         "where the next character cannot run on into the previous token); c17_roundtrip / c17_layout_insensitive — text in any layout, "
         "with or without comments, gives the same tree. Tie: suite `parse` builds trees from the grammar over every function name the "
         "factory answers for, renders three layouts each, and compares the real Lark parse + transformer with the model and with the "
         "source tree (zero _ambig nodes demanded); mutated texts are compared model-vs-code; whole runs of re-laid-out programs (and with "
         "an outer comment without mode keys) must give identical lines, variables, printouts, errors and verdict.",
    note="That Lark's Earley parser + dynamic lexer compute what the deterministic model computes is observed on every case, not proved; "
         "name/qualifier splitting and literal conversion (int/float) are judged by the oracle against the source, not part of the "
         "theorems; numbers with exponents and names that start with a dot are outside the theorems' class (compared model-vs-code); "
         "the outer-comment clause rests on C15's c15_extract_no_comment plus whole-run comparison.",
    technique="Lean 4 proof (well-founded mutual induction over trees; scanner lemmas per token kind) + model/implementation correspondence + oracle",
    design="AB.4.1",
)

NOT_YET = "check not built yet in this revision (planned: see DESIGN.md section 6); not claimed until its theorem and correspondence suite exist"


TIE_NOTE = (" The model's tables for this property are regenerated from /repo's working tree on every run by tools/extract.py "
            "(lean/Generated/Facts.lean) and pinned to the model by the theorems of Props/%sTie.lean.")
for _pid in ("C05", "C10", "C14", "C16", "C17"):
    CLAIMED[_pid]["text"] += TIE_NOTE % _pid
    CLAIMED[_pid]["technique"] += " + generated-table tie (translator)"


def main():
    checks = []
    na = []
    for p in PROPS:
        pid = p["id"]
        if pid in CLAIMED:
            c = CLAIMED[pid]
            checks.append({
                "property_id": pid,
                "quick_cmd": f"./verify {pid} --tier quick",
                "thorough_cmd": f"./verify {pid} --tier thorough",
                "evidence_file": f"/verif/evidence/{pid}.json",
                "replay_cmd_template": f"./verify {pid} --replay {{path}}",
                "engine": "lean-model+harness",
                "level_claimed": {"category": "proof", "text": c["text"], "design_ref": c["design"]},
                "level_note": c["note"],
                "technique": c["technique"],
            })
        else:
            na.append({"property_id": pid, "reason": NA.get(pid, NOT_YET)})
    man = {
        "version": 1,
        "setup_cmd": "/venv/bin/python tools/extract.py; cd lean && (lake build || true)",
        "hooks": {
            "guard": "CSVPATH_VERIF",
            "enable": "no hooks in /repo: the harness instruments the real code in-process (monkeypatching from harness/real_run.py); "
                      "CSVPATH_VERIF=1 is set by the harness only as a marker",
            "baseline_off_cmd": "cd /repo && /venv/bin/python -m pytest -ra -q -p no:cacheprovider --timeout=900 --continue-on-collection-errors",
            "source_commits": [],
            "add_only": True,
        },
        "engines": [
            {"name": "lean-model+harness", "path": "/verif/lean, /verif/harness, /verif/verify",
             "serves_properties": sorted(CLAIMED),
             "kind_free_text": "Lean 4 model + theorems (lake build, #print axioms audit) tied to /repo by a differential correspondence harness driving the real code in-process and a compiled Lean driver over a JSON line protocol, plus a translator (tools/extract.py, tools/py2lean.py) that on every run regenerates from the source the model's tables and the Lean translation of selected decision cores (the assignment decision, the error handler, the scanner's line tests), which bridging theorems prove equal to the hand-written model"}
        ],
        "checks": checks,
        "not_applicable": na,
        "notes": "See DESIGN.md. Fix commits in /repo are listed in known-findings.txt as fixed: entries.",
    }
    with open(os.path.join(VERIF, "MANIFEST.json"), "w") as f:
        json.dump(man, f, indent=1)
    print("claimed", sorted(CLAIMED), "not claimed", len(na))


NA = {}

if __name__ == "__main__":
    main()
