#!/bin/bash
# usage: tools/confirm_seed.sh <dir with patch.diff and demo.py> <scratch worktree dir (under /tmp)>
# Confirms a seeded change the way AB.7 describes: in a scratch worktree of /repo's HEAD the demonstration exits 0 on the
# clean tree and non-zero with the patch, and every test of /root/.vp/BASELINE.json's stable_pass list still passes with
# the patch. Prints one line `<name> demo_clean=<rc> demo_mutant=<rc> stable_pass_missing=<n> [...]`; removes the worktree.
set -u
seed="$(cd "$1" && pwd)"; wt="$2"
name="$(basename "$seed")"
git -C /repo worktree add -q --detach "$wt" HEAD || exit 2
trap 'git -C /repo worktree remove --force "$wt" 2>/dev/null; rm -rf "$wt"' EXIT
cd "$wt" || exit 2
export PYTHONDONTWRITEBYTECODE=1
timeout 600 /venv/bin/python "$seed/demo.py" >"$wt/.demo_clean.log" 2>&1; c=$?
git apply "$seed/patch.diff" || { echo "$name patch does not apply"; exit 2; }
timeout 600 /venv/bin/python "$seed/demo.py" >"$wt/.demo_mut.log" 2>&1; m=$?
/venv/bin/python -m pytest -q -p no:cacheprovider --timeout=900 --continue-on-collection-errors --junitxml="$wt/.junit.xml" >"$wt/.pytest.log" 2>&1
/venv/bin/python - "$wt/.junit.xml" "$name" "$c" "$m" <<'EOF'
import json, sys
import xml.etree.ElementTree as ET
stable = set(json.load(open('/root/.vp/BASELINE.json'))['stable_pass'])
passed = set()
for tc in ET.parse(sys.argv[1]).getroot().iter('testcase'):
    if not any(ch.tag in ('failure', 'error', 'skipped') for ch in tc):
        passed.add(f"{tc.get('classname')}::{tc.get('name')}")
missing = sorted(stable - passed)
print(f"{sys.argv[2]} demo_clean={sys.argv[3]} demo_mutant={sys.argv[4]} stable_pass_missing={len(missing)} {missing[:5]}")
EOF
