"""C20 — Data and values flow between csvpaths as declared."""
from core import run_cases

MODULES = ["Props.C20", "Props.C09", "Props.ResultsTie", "Props.C15Tie"]
THEOREMS = ["Props.C20.c20_chain_inputs", "Props.C20.c20_chain_compose", "Props.C20.c20_varref", "Props.C20.c20_headerref",
            "Props.C09.c09_csv_content", "Props.ResultsTie.c20_has_lines_source", "Props.C15Tie.source_mode_source_is_model"]


def run(check, tier):
    import chain_suite as S

    n1 = 500 if tier == "quick" else 6000
    n2 = 400 if tier == "quick" else 4000
    cases = [S.gen_case_chain(check.seed, i) for i in range(n1)]
    rcases = [S.gen_case_refs(check.seed, i) for i in range(n2)]
    results = run_cases("chain_suite", "case_chain", cases, chunk=8) + run_cases("chain_suite", "case_refs", rcases, chunk=8)
    for res in results:
        if "infra_error" in res:
            check.infra.append(res["infra_error"] + res.get("trace", "")[-700:])
            continue
        c = res["case"]
        if res.get("unmodelled"):
            check.count("unmodelled")
            continue
        check.evaluations += 1
        if res["nontrivial"]:
            check.nontriv(c)
            if "stages" in c:
                check.sample({"chain": [S.stage_text(s) for s in c["stages"]], "records": c["recs"]}, 3)
        for o in res["oracle"]:
            check.violation(o["what"], {"input": c, "oracle": [o]}, finding=o.get("finding"))
        if res["disagree"] and not res["oracle"]:
            check.break_("correspondence suite `chain`: " + res["disagree"][0]["what"], {"input": c, "disagreements": res["disagree"][:3]})
    check.extra["rule"] = ("chains of 2-4 filter csvpaths with source-mode preceding on a suffix x generated files (each member compared with the same filter run "
                           "alone on its predecessor's lines; manifests' actual_data_file); reference cases: variable, tracking-variable and header "
                           "references to a group after 1-3 runs of it, and a results reference used as a file name; non-trivial = every stage collects "
                           "something and stages differ")
