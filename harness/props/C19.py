"""C19 — Results depend only on the csvpath, the file and the configuration."""
from core import run_cases

MODULES = ["Props.C19"]
THEOREMS = ["Props.C19.c19_cache_roundtrip", "Props.C19.split_join"]


def run(check, tier):
    import jobs_suite as S

    n = 48 if tier == "quick" else 1500
    cases = [S.gen_case(check.seed, i) for i in range(n)]
    results = run_cases("jobs_suite", "case_jobs", cases, chunk=1)
    njobs = 0
    for res in results:
        if "infra_error" in res:
            check.infra.append(res["infra_error"] + res.get("trace", "")[-700:])
            continue
        c = res["case"]
        if res.get("unmodelled"):
            check.count("unmodelled_" + res["unmodelled"])
            continue
        check.evaluations += 1
        njobs += len(c["jobs"])
        if res["nontrivial"]:
            check.nontriv([[j["text"], j["recs"]] for j in c["jobs"]])
            check.sample({"jobs": [j["text"] for j in c["jobs"]]}, 3)
        for o in res["oracle"]:
            check.violation(o["what"], {"input": c, "oracle": [o]}, finding=o.get("finding"))
        if res["disagree"] and not res["oracle"]:
            check.break_("correspondence suite `jobs`: " + res["disagree"][0]["what"], {"input": c})
    check.extra["jobs_run"] = njobs
    check.extra["rule"] = ("sequences of 2-6 generated (csvpath, file) jobs in one process; every job is first run alone in a fresh subprocess and must give the "
                           "same lines, variables, printouts, errors, headers and verdict in sequence, when repeated, and through CsvPaths.csvpath() with a "
                           "cold and a warm cache; 40% of the files have header cells with spaces, quotes and delimiter-like characters; non-trivial = at "
                           "least two jobs return lines")
    check.assumptions.append("PARTIAL: process-global Python state (module registries, warnings filters, logger handlers) cannot be exhibited in a pure model; "
                             "history-independence is tested against fresh processes. The cache round trip is proved for safe header lists.")
