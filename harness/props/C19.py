"""C19 — Results depend only on the csvpath, the file and the configuration."""
from core import run_cases

MODULES = ["Props.C19"]
THEOREMS = ["Props.C19.c19_cache_roundtrip_csv", "Props.C19.c19_cache_roundtrip", "Props.C19.split_join"]


def run(check, tier):
    import jobs_suite as S

    n = 60 if tier == "quick" else 1500
    cases = [S.gen_case(check.seed, i) for i in range(n)]
    results = run_cases("jobs_suite", "case_jobs", cases, chunk=1)
    njobs = 0
    for res in results:
        if "infra_error" in res:
            check.infra.append(res["infra_error"] + res.get("trace", "")[-700:])
            continue
        c = res["case"]
        if res.get("unmodelled"):
            check.count("unmodelled_" + res["unmodelled"])
            continue
        check.evaluations += 1
        njobs += len(c["jobs"])
        if res["nontrivial"]:
            check.nontriv([[j["text"], j["recs"]] for j in c["jobs"]])
            check.sample({"jobs": [j["text"] for j in c["jobs"]]}, 3)
        for o in res["oracle"]:
            check.violation(o["what"], {"input": c, "oracle": [o]}, finding=o.get("finding"))
        if res["disagree"] and not res["oracle"]:
            check.break_("correspondence suite `jobs`: " + res["disagree"][0]["what"], {"input": c})
    check.extra["jobs_run"] = njobs
    # named-paths runs on one reused CsvPaths instance (run coordination, run time, results of earlier runs stay on the instance)
    gn = 120 if tier == "quick" else 4000
    for res in run_cases("jobs_suite", "case_group_history", [S.gen_group_history(check.seed, i) for i in range(gn)], chunk=4):
        if "infra_error" in res:
            check.infra.append(res["infra_error"] + res.get("trace", "")[-700:])
            continue
        check.evaluations += 1
        check.count("group_histories")
        if res["nontrivial"]:
            check.nontriv(["group-history", res["case"]["groups"], res["case"]["runs"]])
        for o in res["oracle"]:
            check.violation(o["what"], {"input": res["case"], "oracle": [o]})
    # the header cache by itself against Model.Cache.store / load
    hn = 400 if tier == "quick" else 20000
    for res in run_cases("jobs_suite", "case_hdrcache", [S.gen_hdr(check.seed, i) for i in range(hn)], chunk=50):
        if "infra_error" in res:
            check.infra.append(res["infra_error"] + res.get("trace", "")[-700:])
            continue
        check.evaluations += 1
        check.count("header_lists_cached")
        if res.get("inside"):
            check.count("header_lists_inside_theorem")
        if res["nontrivial"]:
            check.count("header_lists_with_comma_quote_or_linefeed")
        for o in res["oracle"]:
            check.violation(o["what"], {"input": res["case"], "oracle": [o]})
        if res["disagree"] and not res["oracle"]:
            check.break_("correspondence suite `jobs`/header cache: " + res["disagree"][0]["what"], {"input": res["case"], "disagreements": res["disagree"]})
    check.extra["rule"] = ("sequences of 2-6 generated (csvpath, file) jobs in one process; every job is first run alone in a fresh subprocess and must give the "
                           "same lines, variables, printouts, errors, headers and verdict in sequence, when repeated, and through CsvPaths.csvpath() with a "
                           "cold and a warm cache; 40% of the files have header cells with spaces, quotes and delimiter-like characters; non-trivial = at "
                           "least two jobs return lines")
    check.assumptions.append("PARTIAL: process-global Python state (module registries, warnings filters, logger handlers) cannot be exhibited in a pure model; "
                             "history-independence is tested against fresh processes. The header cache round trip is proved for every header list on the csv model (c19_cache_roundtrip_csv).")
