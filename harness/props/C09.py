"""C09 — The archived results of a run say what the run did."""
from core import run_cases

MODULES = ["Props.C09"]
THEOREMS = ["Props.C09.saveMember_consistent", "Props.C09.c09_consistent", "Props.C09.c09_csv_content"]


def run(check, tier):
    import archive_suite as S

    n = 800 if tier == "quick" else 8000
    cases = [S.gen_case_archive(check.seed, i) for i in range(n)]
    results = run_cases("archive_suite", "case_archive", cases, chunk=8)
    methods = {}
    endings = {}
    for res in results:
        if "infra_error" in res:
            check.infra.append(res["infra_error"] + res.get("trace", "")[-700:])
            continue
        c = res["case"]
        if res.get("unmodelled"):
            check.count("unmodelled_" + str(res["unmodelled"]))
            continue
        check.evaluations += 1
        methods[c["method"]] = methods.get(c["method"], 0) + 1
        endings[res.get("ended")] = endings.get(res.get("ended"), 0) + 1
        texts = [S.member_text(m) for m in c["members"]]
        if res["nontrivial"]:
            check.nontriv([texts, c["recs"], c["method"]])
            check.sample({"group": texts, "method": c["method"], "records": c["recs"]}, 3)
        if res["oracle"]:
            check.violation(res["oracle"][0]["what"], {"input": c, "group": texts, "oracle": res["oracle"][:3]})
        elif res["disagree"]:
            check.break_("correspondence suite `archive`: " + res["disagree"][0]["what"], {"input": c, "disagreements": res["disagree"][:3]})
    check.extra["methods"] = methods
    check.extra["run_endings"] = endings
    check.extra["rule"] = ("groups of 1-3 generated csvpaths (all profiles incl. errors, optional identity, optional unmatched-mode keep) x files with "
                           "quotes, delimiters and newlines in cells x the six run methods; the archive is read back from disk (JSON/CSV parsed with the "
                           "stdlib, SHA-256 recomputed) and compared with the in-memory results; non-trivial = variables and collected lines present")
    check.assumptions.append("JSON/CSV serialisation and SHA-256 are outside the Lean model (abstract contents, hash as a parameter); "
                             "the bytes on disk are checked by the harness")
