"""C11 — The named-files area is a versioned, content-addressed, immutable store."""
import itertools

from core import rng, run_cases

MODULES = ["Props.C11"]
THEOREMS = ["Props.C11.c11_refines", "Props.C11.c11_get", "Props.C11.c11_content_addressed", "Props.C11.c11_latest",
            "Props.C11.c11_immutable", "Props.C11.c11_fresh_instance_and_source_edits"]


def run(check, tier):
    import files_suite as S

    ops = S.all_ops()
    cases = []
    depth = 2 if tier == "quick" else 3
    for L in range(1, depth + 1):
        for seq in itertools.product(ops, repeat=L):
            cases.append({"ops": list(seq)})
            if L <= 2:
                cases.append({"ops": list(seq), "same_mtime": True})
    r = rng(check.seed, "C11")
    extra = 600 if tier == "quick" else 20000
    for i in range(extra):
        L = r.randint(3, 6 if tier == "quick" else 8)
        # mostly adds
        nadd = sum(1 for o in ops if o["op"] == "add")
        seq = [r.choice(ops[:nadd]) if r.random() < 0.6 else r.choice(ops) for _ in range(L)]
        cases.append({"ops": seq, "same_mtime": r.random() < 0.4})
    results = run_cases("files_suite", "case_history", cases, chunk=16)
    lens = {}
    for res in results:
        if "infra_error" in res:
            check.infra.append(res["infra_error"] + res.get("trace", "")[-600:])
            continue
        check.evaluations += 1
        c = res["case"]
        lens[len(c["ops"])] = lens.get(len(c["ops"]), 0) + 1
        if res["nontrivial"]:
            check.nontriv(c["ops"])
            if len(c["ops"]) >= 4:
                check.sample({"ops": c["ops"]}, 3)
        if res["oracle"]:
            check.violation(res["oracle"][0]["what"], {"input": c, "oracle": res["oracle"][:3]})
        elif res["disagree"]:
            check.break_("correspondence suite `files`: " + res["disagree"][0]["what"], {"input": c, "disagreements": res["disagree"][:3]})
    check.extra["history_lengths"] = lens
    check.extra["exhaustive_to_length"] = depth
    check.extra["exhaustive"] = True
    check.extra["rule"] = ("all operation sequences up to the stated length over 27 operations {add(name in 2, source in 2, content in 4, two of them of equal length), mutate(source, content), "
                           "remove(name), new instance} plus random longer ones; sequences up to length 2 and 40% of the random ones are also run with every source write keeping one fixed modification time (a copy that preserves timestamps); after every operation the API and the on-disk tree are compared with the "
                           "abstract store and with the Lean model; non-trivial = at least two adds")
    check.assumptions.append("SHA-256 is a parameter of the model (theorems hold for every hash function; c11_latest gives equality of bytes "
                             "under injectivity); the harness recomputes real SHA-256 of every file on disk")
