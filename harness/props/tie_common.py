"""what the checks with a source-translator tie (C02, C05, C14) share: the prelude the translated cores are written against is
compared with CPython on every run (suite `pyops`)"""
from core import run_cases


def run_pyops(check, tier):
    import pyops_suite as S

    n = 1500 if tier == "quick" else 40000
    ops = {}
    for res in run_cases("pyops_suite", "case", [S.gen_case(check.seed, i) for i in range(n)], chunk=100):
        if "infra_error" in res:
            check.infra.append(res["infra_error"] + res.get("trace", "")[-500:])
            continue
        if res.get("skipped"):
            check.count("pyops_outside_prelude_domain")
            continue
        ops[res["case"]["f"]] = ops.get(res["case"]["f"], 0) + 1
        if res["disagree"]:
            check.break_("correspondence suite `pyops` (the translator's prelude against CPython): " + res["disagree"][0]["what"],
                         {"input": res["case"], "disagreements": res["disagree"][:3]})
    check.extra["pyops_compared"] = ops
