"""C07 — collect(), next() and fast_forward() are the same run."""
from core import run_cases

MODULES = ["Props.C07"]
THEOREMS = ["Props.C07.c07_collect_next", "Props.C07.c07_ff", "Props.C07.c07_prefix",
            "Props.C07.c07_no_later_effect", "Props.C07.c07_nexts_zero"]


def run(check, tier):
    import run_suite as S

    n = 1000 if tier == "quick" else 12000
    cases = [S.gen_case_methods(check.seed, i) for i in range(n)]
    results = run_cases("run_suite", "case_methods", cases, chunk=8)
    prof = {}
    hist = {}
    for res in results:
        if "infra_error" in res:
            check.infra.append(res["infra_error"] + res.get("trace", "")[-600:])
            continue
        c = res["case"]
        if res.get("parse_error"):
            check.count("rejected_at_parse")
            continue
        if res.get("unmodelled"):
            check.count("unmodelled_" + res["unmodelled"])
            continue
        check.evaluations += 1
        prof[c["profile"]] = prof.get(c["profile"], 0) + 1
        if res.get("raised"):
            check.count("runs_ending_in_exception")
        if res.get("stopped_early"):
            check.count("runs_stopped_early")
        b = min(res.get("nlines", 0), 6)
        hist[b] = hist.get(b, 0) + 1
        text = f"$file[{c['scan']}][{c['match']}]"
        if res["nontrivial"]:
            check.nontriv([text, c["recs"]])
            check.sample({"csvpath": text, "records": c["recs"], "lines_returned": res.get("nlines")}, 4)
        if res["oracle"]:
            check.violation(res["oracle"][0]["what"], {"input": c, "csvpath": text, "oracle": res["oracle"][:3]})
        elif res["disagree"]:
            check.break_("correspondence suite `methods`: " + res["disagree"][0]["what"],
                         {"input": c, "csvpath": text, "disagreements": res["disagree"][:3]})
    check.extra["profiles"] = prof
    check.extra["lines_returned_histogram"] = hist
    check.extra["rule"] = ("generated csvpaths (profiles control/plain/vars/errors incl. stop/skip/advance/last/print/fail) x generated files; "
                           "each case = collect, next, fast_forward on fresh instances + collect(nexts=n) for n=1..matches+1, each compared "
                           "with the Lean run-loop model under its recorded matcher script; non-trivial = returns some but not all non-blank records")
