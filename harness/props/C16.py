"""C16 — print() emits its text verbatim with references replaced by current values."""
from core import run_cases

MODULES = ["Props.C16", "Props.C16Tie"]
THEOREMS = ["Props.C16.c16_verbatim", "Props.C16.c16_verbatim_b", "Props.C16.c16_go", "Props.C16.wfB_sound", "Props.C16.c16_adjacent_fails",
            "Props.C16Tie.simple_name_class", "Props.C16Tie.text_class", "Props.C16Tie.ws_class", "Props.C16Tie.type_keywords"]

TRIGGERS = {"adjacent-references": "adjacent-references"}


def run(check, tier):
    import print_suite as S

    nu, nr = (4000, 1500) if tier == "quick" else (150000, 40000)
    cases = [S.gen_unit(check.seed, i) for i in range(nu)] + [S.gen_run(check.seed, i) for i in range(nr)]
    results = run_cases("print_suite", "case_any", cases, chunk=40)
    hist = {}
    for res in results:
        if "infra_error" in res:
            check.infra.append(res["infra_error"] + res.get("trace", "")[-700:])
            continue
        c = res["case"]
        check.evaluations += 1
        check.count("kind_" + c["kind"])
        for k, v in (res.get("model_outcomes") or {}).items():
            check.count("model_" + k, v)
        for k, v in (res.get("out_of_class") or {}).items():
            check.count("spec_out_of_class: " + k, v)
        check.count("in_theorem_class", res.get("in_class", 0))
        check.count("judged_by_spec", res.get("judged", 0))
        if res.get("parse_error"):
            check.count("csvpath_parse_error")
        if c["kind"] == "unit":
            hist[res.get("nrefs")] = hist.get(res.get("nrefs"), 0) + 1
        if res["nontrivial"]:
            check.nontriv(c["tpl"])
            check.sample({"print_string": c["tpl"], "kind": c["kind"]}, 6)
        for o in res["oracle"]:
            trig = o.get("trigger")
            check.violation(o["what"], {"input": c, "oracle": o, "text": res.get("text")}, finding=TRIGGERS.get(trig))
            break
        else:
            if res["disagree"]:
                check.break_("correspondence suite `print`: " + res["disagree"][0]["what"], {"input": c, "disagreements": res["disagree"][:3]})
    check.extra["references_per_string"] = {str(k): v for k, v in sorted(hist.items(), key=lambda kv: str(kv[0]))}
    check.extra["rule"] = ("unit: print strings of 1-6 chunks (text over letters, digits, blanks and all punctuation but $ and \"; local references of the four "
                           "types with simple/quoted names, tracking keys, stack indexes and .length; separated by 0, 1 or many characters; 15% malformed strings) "
                           "against data of all value types on a real CsvPath; run: print / print.onmatch / print.once at any position among assignments and a "
                           "guard, 2-7 records with interior blanks, 6 scan parts; every execution compared with the Lean model on the data snapshotted from "
                           "the run and judged against the text demanded from the file alone; non-trivial = at least two references (unit) or entries that "
                           "differ between lines / are fewer than the scanned lines (run)")
    check.assumptions.append("Lark's Earley parser with the dynamic lexer realises the deterministic reading of the print grammar that Model/Print.lean "
                             "transcribes (observed on every case, not proved); Python's str() of values is a parameter (`resolve`) of the theorem")
