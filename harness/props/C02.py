"""C02 — The scan part selects exactly the lines it denotes."""
import os
import sys

sys.path.insert(0, os.path.join(os.path.dirname(__file__), "..", "suites"))
from core import rng, run_cases  # noqa: E402

MODULES = ["Props.C02", "Props.C02Tie"]
THEOREMS = [
    "Props.C02.c02_parse",
    "Props.C02.c02_last_is_greatest",
    "Props.C02.c02_offered",
    "Props.C02Tie.includes_source_is_model",
    "Props.C02Tie.is_last_source_is_model",
    "Props.C02Tie.c02_includes_source",
]


def gen_cases(seed, tier):
    import scan_suite as S

    r = rng(seed, "C02")
    cases = []
    if tier == "thorough":
        # exhaustive: every K shape with bounds 0..N+2, N <= 5, every blank pattern
        for n in range(0, 6):
            ks = S.all_k_shapes(n + 2, 3)
            for k in ks:
                for blanks in S.blank_patterns(n):
                    cases.append({"scan": S.k_text(k), "k": k, "n": n, "blanks": list(blanks), "mp": 0})
        extra = 20000
    else:
        extra = 1500
    # sampled K cases up to N = 10 with random layout
    for i in range(extra):
        n = r.randint(0, 10)
        ks_kind = r.random()
        maxb = n + 2
        if ks_kind < 0.08:
            k = {"k": "all"}
        elif ks_kind < 0.2:
            k = {"k": "fromN", "n": r.randint(0, maxb)}
        elif ks_kind < 0.4:
            k = {"k": "loneRange", "a": r.randint(0, maxb), "b": r.randint(0, maxb)}
        else:
            items = []
            lo = 0
            for _ in range(r.randint(1, 4)):
                if lo > maxb:
                    break
                a = r.randint(lo, maxb)
                if r.random() < 0.5 and a < maxb:
                    b = r.randint(a + 1, maxb)
                    items.append([a, b])
                    lo = b + 1
                else:
                    items.append([a])
                    lo = a + 1
            if not items or (len(items) == 1 and len(items[0]) == 2):
                k = {"k": "loneRange", "a": items[0][0], "b": items[0][1]} if items else {"k": "all"}
            else:
                k = {"k": "list", "items": items}
        blanks = [r.random() < 0.3 for _ in range(n)]
        case = {"scan": S.layout(S.k_text(k), r), "k": k, "n": n, "blanks": blanks, "mp": r.randint(0, 1)}
        if i % 5 == 4:
            # the apostrophe as the quote character, and records that end in a lone double quote (a ditto mark)
            case["quote"] = "'"
            case["ditto"] = [r.random() < 0.4 for _ in range(n)]
        cases.append(case)
    # scan parts outside K: correspondence only (includes what PLY rejects)
    toks = ["+", "-", "*", "0", "1", "2", "3", "5", "7", "10", " "]
    for i in range(extra // 3):
        n = r.randint(0, 8)
        ln = r.randint(1, 7)
        txt = "".join(r.choice(toks) for _ in range(ln))
        # mostly-valid stream: term (op term)*
        if r.random() < 0.8:
            terms = []
            for _ in range(r.randint(1, 5)):
                t = r.choice(["*", str(r.randint(0, 9)), str(r.randint(0, 9)) + "*", str(r.randint(0, 12))])
                terms.append(t)
            txt = terms[0] + "".join(r.choice(["+", "-"]) + t for t in terms[1:])
        blanks = [r.random() < 0.3 for _ in range(n)]
        cases.append({"scan": txt, "k": None, "n": n, "blanks": blanks, "mp": 0})
    return cases


def run(check, tier):
    import tie_common

    tie_common.run_pyops(check, tier)
    import scan_suite as S

    cases = gen_cases(check.seed, tier)
    # spec tie: the Python denotation equals Spec.Scan.K.den as evaluated by the Lean driver
    ks = []
    seen = set()
    for c in cases:
        if c["k"] is not None:
            key = S.k_text(c["k"])
            if key not in seen and len(ks) < 400:
                seen.add(key)
                ks.append(c["k"])
    import driver

    bad = S.den_check(ks, 14)
    if bad:
        check.infra.append(f"oracle and Spec.Scan disagree: {bad[:2]}")
        return
    check.count("spec_den_crosschecked", len(ks))
    results = run_cases("scan_suite", "case_scan", cases, chunk=32)
    kinds = {}
    for res in results:
        if "infra_error" in res:
            check.infra.append(res["infra_error"] + " " + res.get("trace", "")[-400:])
            continue
        check.evaluations += 1
        c = res["case"]
        if c["k"] is not None:
            kinds[c["k"]["k"]] = kinds.get(c["k"]["k"], 0) + 1
        else:
            kinds["outside-K"] = kinds.get("outside-K", 0) + 1
        if res.get("unmodelled"):
            check.count("outside_K_is_last_raises")
        if res.get("rejected"):
            check.count("rejected_by_both")
        if res["nontrivial"]:
            check.nontriv([c["scan"], c["n"], c["blanks"]])
        if res["oracle"]:
            check.violation(res["oracle"][0]["what"], {"input": c, "oracle": res["oracle"],
                                                       "csvpath": f"$file[{c['scan']}][yes()]"})
        elif res["disagree"]:
            check.break_("correspondence suite `scan`: " + res["disagree"][0]["what"],
                         {"input": c, "disagreements": res["disagree"]})
        if len(check.samples) < 5 and res["nontrivial"]:
            check.sample({"scan": c["scan"], "records": c["n"], "blank": c["blanks"], "offered": res.get("offered")})
    check.extra["case_kinds"] = kinds
    check.extra["exhaustive"] = tier == "thorough"
    check.extra["rule"] = ("class-K scan parts (exhaustive for N<=5 with bounds<=N+2 in thorough; sampled N<=10) x blank patterns; "
                           "non-trivial = the scan offers some but not all non-blank records; plus scan parts outside K for "
                           "correspondence of the scanner model (state, includes, is_last, exception class)")
