"""C05 — Errors in match components are handled exactly as the error policy says."""
from core import run_cases

MODULES = ["Props.C05", "Props.C05Tie"]
THEOREMS = ["Props.C05.c05_policy", "Props.C05.c05_override", "Props.C05.c05_validation_tokens",
            "Props.C05Tie.policy_words",
            "Props.C05Tie.handle_if_source_is_model", "Props.C05Tie.c05_policy_source"]


def run(check, tier):
    import tie_common

    tie_common.run_pyops(check, tier)
    import errors_suite as S

    ucases = S.gen_unit_cases(check.seed, tier)
    rcases = S.gen_run_cases(check.seed, tier)
    ures = run_cases("errors_suite", "case_unit", ucases, chunk=32)
    rres = run_cases("errors_suite", "case_run", rcases, chunk=16)
    icases = S.gen_import_cases(check.seed, tier)
    for res in run_cases("errors_suite", "case_import", icases, chunk=4):
        if "infra_error" in res:
            check.infra.append(res["infra_error"] + res.get("trace", "")[-600:])
            continue
        check.evaluations += 1
        if res.get("nontrivial"):
            check.nontriv(["import", res["case"]["policy"], res["case"]["tokens"], res["case"]["kind"], res["case"]["bad"], res["case"]["method"]])
        if res["oracle"]:
            check.violation(res["oracle"][0]["what"], {"input": res["case"], "oracle": res["oracle"][:2]})
    check.extra["import_cases"] = len(icases)
    pols = set()
    kinds = {}
    for res in ures + rres:
        if "infra_error" in res:
            check.infra.append(res["infra_error"] + res.get("trace", "")[-600:])
            continue
        if res.get("parse_error"):
            check.count("rejected_at_parse")
            continue
        check.evaluations += 1
        c = res["case"]
        pols.add(tuple(sorted(c["policy"])))
        if "kind" in c:
            kinds[c["kind"]] = kinds.get(c["kind"], 0) + 1
            if res.get("nontrivial"):
                check.nontriv([c["policy"], c["tokens"], c["kind"], c["n"], c["bad"], c["place"]])
                check.sample({"csvpath": res.get("text"), "policy": c["policy"], "bad_lines": c["bad"]}, 4)
        else:
            check.nontriv(["unit", c["policy"], c["vmode"], c["n"]])
        if res["oracle"]:
            check.violation(res["oracle"][0]["what"], {"input": c, "csvpath": res.get("text"), "oracle": res["oracle"][:4]})
        elif res["disagree"]:
            check.break_("correspondence suite `errors`: " + res["disagree"][0]["what"], {"input": c, "disagreements": res["disagree"][:3]})
    check.extra["policies_seen"] = len(pols)
    check.extra["error_kinds"] = kinds
    check.extra["unit_cases"] = len(ucases)
    check.extra["run_cases"] = len(rcases)
    check.extra["rule"] = ("unit: all 64 policy subsets x validation-mode token sets (sampled in quick, all 243 in thorough) x 1-3 errors through the real "
                           "ErrorHandler; run: real csvpaths with an error-provoking component (7 kinds: argument mismatch, Python exception, nested, "
                           "right-hand side, assignment) at chosen lines, first or last in the match part; non-trivial = some but not all lines error; "
                           "import: the erroring component written in another named csvpath and brought in with import(), run through CsvPaths, against the "
                           "same component written inline (error lines, verdict, stop, printouts, lines)")
