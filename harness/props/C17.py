"""C17 — What runs is what was written: parsing is unambiguous and layout-insensitive."""
from core import run_cases

MODULES = ["Props.C17", "Props.C17Tie"]
THEOREMS = ["Props.C17.c17_tokens", "Props.C17.c17_unique", "Props.C17.c17_comments", "Props.C17.c17_layout",
            "Props.C17.c17_roundtrip", "Props.C17.c17_layout_insensitive",
            "Props.C17Tie.variable_class", "Props.C17Tie.reference_class", "Props.C17Tie.header_class", "Props.C17Tie.quoted_header_class", "Props.C17Tie.fn_first_class", "Props.C17Tie.fn_rest_class", "Props.C17Tie.ws_class"]


def run(check, tier):
    import parse_suite as S

    np_, nr = (2500, 700) if tier == "quick" else (120000, 30000)
    cases = [S.gen_case(check.seed, i) for i in range(np_)] + [S.gen_run_case(check.seed, i) for i in range(nr)]
    results = run_cases("parse_suite", "case_any", cases, chunk=25)
    comps = {}
    nfun = None
    for res in results:
        if "infra_error" in res:
            check.infra.append(res["infra_error"] + res.get("trace", "")[-700:])
            continue
        c = res["case"]
        check.evaluations += 1
        check.count("kind_" + c["kind"])
        for k, v in (res.get("counts") or {}).items():
            if k == "components":
                comps[v] = comps.get(v, 0) + 1
            else:
                check.count(k, v)
        nfun = res.get("nfunctions", nfun)
        if res["nontrivial"]:
            check.nontriv(res.get("text"))
            check.sample({"csvpath_or_match_part": res.get("text"), "kind": c["kind"]}, 6)
        if res["oracle"]:
            check.violation(res["oracle"][0]["what"], {"input": c, "text": res.get("text"), "oracle": res["oracle"][:2]})
        elif res["disagree"]:
            check.break_("correspondence suite `parse`: " + res["disagree"][0]["what"], {"input": c, "disagreements": res["disagree"][:2]})
    check.extra["components_per_source"] = {str(k): v for k, v in sorted(comps.items())}
    check.extra["function_names_probed_from_factory"] = nfun
    check.extra["rule"] = ("tree: component trees from the documented grammar (0-5 components, depth<=4; headers simple/quoted/indexed, variables and "
                           "functions with qualifiers, references, strings over all printable punctuation, signed/decimal numbers, regex terms with "
                           "escapes; every function name the factory answers for, read from /repo on every run) rendered in three layouts (dense, two "
                           "random with newlines/tabs and ~comments~ between components); 20% mutated texts compared with the model only; "
                           "run: generated programs of the interpreter suite re-laid-out four ways (and an outer comment without mode keys), whole runs "
                           "compared; non-trivial = at least two components with a function or equality / a run that returns some but not all lines")
    check.assumptions.append("Lark's Earley parser with the dynamic lexer computes what the deterministic lexer+parser of Model/Match.lean computes "
                             "(compared on every case incl. malformed texts; zero _ambig nodes demanded on every parse)")
