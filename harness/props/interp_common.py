"""Shared driver for the interpreter-level properties (C01, C03, C04, C13): every case is run on
the real code, compared with the Lean interpreter model (correspondence) and judged against the
reference semantics S (oracle).  Known findings are matched by the trigger S reports."""
from core import run_cases

# trigger reported by S  ->  known-finding id
TRIGGERS = {"lt-is-le": "lt-is-le"}


def run_interp_cases(check, cases, what, owns, fn="case_spec"):
    """`owns`: which S-violations belong to this property (list of substrings of the `what` text);
    other differences from S are left to the property that owns them (attribution, DESIGN 2.7)"""
    results = run_cases("interp_suite", fn, cases, chunk=16)
    stats = {"model_agrees": 0, "model_unmodelled": 0, "spec_judged": 0, "spec_outside_core": 0, "real_errors": 0}
    for res in results:
        if "infra_error" in res:
            check.infra.append(res["infra_error"] + res.get("trace", "")[-700:])
            continue
        c = res["case"]
        check.evaluations += 1
        text = f"{'' if c['and'] else '~ logic-mode: OR ~ '}$file[{c['scan']}][{c['match']}]"
        if res.get("skipped"):
            if "errors" in res["skipped"]:
                stats["real_errors"] += 1
            else:
                stats["model_unmodelled"] += 1
        elif not res["disagree"]:
            stats["model_agrees"] += 1
        if res.get("spec_note"):
            if "outside" in res["spec_note"]:
                stats["spec_outside_core"] += 1
        else:
            stats["spec_judged"] += 1
        if res["nontrivial"]:
            check.nontriv([text, c["recs"]])
            check.sample({"csvpath": text, "records": c["recs"]}, 4)
        mine = [v for v in res.get("spec", []) if any(o in v["what"] for o in owns)]
        if mine:
            fid = None
            for t in res.get("triggers", []):
                if t in TRIGGERS:
                    fid = TRIGGERS[t]
            check.violation(mine[0]["what"], {"input": c, "csvpath": text, "oracle": mine[:3], "triggers": res.get("triggers")},
                            finding=fid)
        elif res["disagree"]:
            check.break_(f"correspondence suite `interp` ({what}): " + res["disagree"][0]["what"],
                         {"input": c, "csvpath": text, "disagreements": res["disagree"][:3]})
    check.extra.setdefault("interp_stats", {}).update(stats)
