"""C12 — Named-paths groups round-trip and select by identity."""
from core import run_cases

MODULES = ["Props.C12", "Props.SelectTie", "Props.IdentityTie"]
THEOREMS = ["Props.C12.c12_roundtrip", "Props.C12.c12_pieces_shape", "Props.C12.c12_select", "Props.C12.c12_manifest",
            "Props.C12.c12_identity_precedence",
            "Props.SelectTie.get_to_source_is_model", "Props.SelectTie.get_from_source_is_model", "Props.SelectTie.find_one_source_is_model",
            "Props.SelectTie.c12_select_source",
            "Props.IdentityTie.identity_source_is_model", "Props.IdentityTie.c12_identity_precedence_source"]


def run(check, tier):
    import tie_common

    tie_common.run_pyops(check, tier)      # the translator's prelude against CPython (the heap-mode bridges are written against it)
    import paths_suite as S

    n = 800 if tier == "quick" else 8000
    cases = [S.gen_history(check.seed, i) for i in range(n)]
    results = run_cases("paths_suite", "case_history", cases, chunk=8)
    for res in results:
        if "infra_error" in res:
            check.infra.append(res["infra_error"] + res.get("trace", "")[-600:])
            continue
        check.evaluations += 1
        c = res["case"]
        if res["nontrivial"]:
            check.nontriv([[o["op"], o.get("group"), [t for _, t in o.get("list", [])]] for o in c["ops"]])
            check.sample({"ops": [[o["op"], o.get("group"), [i for i, _ in o.get("list", [])]] for o in c["ops"]]}, 4)
        if res["oracle"]:
            check.violation(res["oracle"][0]["what"], {"input": c, "oracle": res["oracle"][:3]})
        elif res["disagree"]:
            check.break_("correspondence suite `paths`: " + res["disagree"][0]["what"], {"input": c, "disagreements": res["disagree"][:3]})
    check.extra["rule"] = ("histories (1-5 ops) of add / identical re-add / replace / remove / new instance over 2 group names with lists of 1-5 "
                           "generated csvpaths (optional id/name metadata, inner comments, newlines); after every op: get_named_paths, the six "
                           "selection forms per identified member, manifest fingerprints vs SHA-256 of group.csvpaths; non-trivial = at least two adds")
