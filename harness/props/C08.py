"""C08 — A csvpath gives the same results alone, in a serial run and breadth-first."""
from core import run_cases

MODULES = ["Props.C08"]
THEOREMS = ["Props.C08.c08_byline", "Props.C08.c08_solo_is_standalone", "Props.C08.c08_union"]


def run(check, tier):
    import group_suite as S

    n = 320 if tier == "quick" else 4000
    cases = [S.gen_case(check.seed, i) for i in range(n)]
    results = run_cases("group_suite", "case_group", cases, chunk=4)
    sizes = {}
    for res in results:
        if "infra_error" in res:
            check.infra.append(res["infra_error"] + res.get("trace", "")[-700:])
            continue
        c = res["case"]
        if res.get("parse_error"):
            check.count("rejected_at_parse")
            continue
        if res.get("unmodelled"):
            check.count("unmodelled_" + str(res["unmodelled"]))
            continue
        check.evaluations += 1
        sizes[len(c["members"])] = sizes.get(len(c["members"]), 0) + 1
        texts = [S.member_text(m, "file") for m in c["members"]]
        if res["nontrivial"]:
            check.nontriv([texts, c["recs"]])
            check.sample({"group": texts, "records": c["recs"], "if_all_agree": c["if_all_agree"]}, 3)
        if res["oracle"]:
            check.violation(res["oracle"][0]["what"], {"input": c, "group": texts, "oracle": res["oracle"][:3]})
        elif res["disagree"]:
            check.break_("correspondence suite `group`: " + res["disagree"][0]["what"], {"input": c, "group": texts, "disagreements": res["disagree"][:3]})
    check.extra["group_sizes"] = sizes
    check.extra["rule"] = ("groups of 1-4 generated csvpaths (no cross-path signals, references or rewriting functions) x generated files; each member "
                           "alone (CsvPath) vs the six CsvPaths run methods, in the listed and (half the cases) the reversed order; breadth-first runs "
                           "also replayed through the Lean model under the recorded matcher scripts; non-trivial = at least two members with different lines")
