"""C10 — Every run gets its own run directory and never touches an earlier run's results."""
import itertools

from core import rng, run_cases

MODULES = ["Props.C10", "Props.C10Tie"]
THEOREMS = ["Props.C10.c10_format_parse", "Props.C10.c10_key_chrono", "Props.C10.c10_fresh_dir", "Props.C10.c10_history",
            "Props.C10.c10_last", "Props.C10.c10_first",
            "Props.C10Tie.run_dir_format", "Props.C10Tie.format_example"]
METHODS = ["collect_paths", "fast_forward_paths", "next_paths", "collect_by_line", "fast_forward_by_line", "next_by_line"]


def run(check, tier):
    import history_suite as S

    r = rng(check.seed, "C10")
    kinds = S.all_kinds()
    cases = []
    depth = 2 if tier == "quick" else 3
    for L in range(1, depth + 1):
        for seq in itertools.product(kinds, repeat=L):
            # only collecting methods leave data.csv for the :last/:first references; the method is
            # drawn per run so that all six occur at every position over the enumeration
            runs = [dict(k, method=r.choice(["collect_paths", "next_paths", "collect_by_line", "next_by_line"])) for k in seq]
            cases.append({"runs": runs})
    extra = 150 if tier == "quick" else 3000
    for i in range(extra):
        L = r.randint(3, 5 if tier == "quick" else 8)
        # a quarter of the runs leave no data.csv (fast_forward): a reference to such a run must not resolve to another run's data
        runs = [dict(r.choice(kinds), method=r.choice(METHODS if r.random() < 0.5 else ["collect_paths", "next_paths", "collect_by_line", "next_by_line"]))
                for _ in range(L)]
        cases.append({"runs": runs})
    # bursts: many runs of one group inside the same second (the `.N` suffix search has to keep going)
    nburst = 24 if tier == "quick" else 400
    for i in range(nburst):
        g = r.choice(S.GROUPS)
        L = r.randint(4, 7 if tier == "quick" else 12)
        runs = []
        for k in range(L):
            clock = "same" if r.random() < 0.85 else r.choice(["plus1", "same"])
            other = r.random() < 0.15
            runs.append({"group": (S.GROUPS[1 - S.GROUPS.index(g)] if other else g), "instance": r.choice(["new", "reused"]), "clock": clock,
                         "method": r.choice(["collect_paths", "next_paths", "collect_by_line", "next_by_line"])})
        cases.append({"runs": runs})
    # abandoned runs: a consumer walks away from next_paths()/next_by_line() after one line, then the instance is used again
    nab = 40 if tier == "quick" else 600
    for i in range(nab):
        L = r.randint(3, 6)
        runs = []
        for k in range(L):
            kind = dict(r.choice(kinds))
            kind["method"] = r.choice(["collect_paths", "next_paths", "collect_by_line", "next_by_line"])
            if k < L - 1 and r.random() < 0.4:
                kind["method"] = r.choice(["next_paths", "next_by_line"])
                kind["abandon"] = True
            if k > 0 and r.random() < 0.6:
                kind["instance"] = "reused"
            runs.append(kind)
        cases.append({"runs": runs})
    # histories that cross the end of daylight saving time in a zone that has it (01:00 UTC on the last Sunday of October)
    for i in range(12 if tier == "quick" else 200):
        L = r.randint(3, 6)
        g = r.choice(S.GROUPS)
        runs = [{"group": g if r.random() < 0.8 else S.GROUPS[1 - S.GROUPS.index(g)], "instance": r.choice(["new", "reused"]),
                 "clock": r.choice(["plus1", "plus1", "same"]),
                 "method": r.choice(["collect_paths", "next_paths", "collect_by_line", "next_by_line"])} for _ in range(L)]
        cases.append({"runs": runs, "tz": r.choice(["Europe/London", "Europe/Berlin", "WET0WEST,M3.5.0/1,M10.5.0/2"])})
    results = run_cases("history_suite", "case_history", cases, chunk=4)
    lens = {}
    for res in results:
        if "infra_error" in res:
            check.infra.append(res["infra_error"] + res.get("trace", "")[-700:])
            continue
        check.evaluations += 1
        c = res["case"]
        lens[len(c["runs"])] = lens.get(len(c["runs"]), 0) + 1
        if res["nontrivial"]:
            check.nontriv(c["runs"])
            if len(c["runs"]) >= 3:
                check.sample(c["runs"], 3)
        if res["oracle"]:
            check.violation(res["oracle"][0]["what"], {"input": c, "oracle": res["oracle"][:3]})
        elif res["disagree"]:
            check.break_("correspondence suite `history`: " + res["disagree"][0]["what"], {"input": c, "disagreements": res["disagree"][:3]})
    check.extra["history_lengths"] = lens
    check.extra["exhaustive_to_length"] = depth
    check.extra["exhaustive"] = True
    check.extra["rule"] = ("all run histories up to the stated length over 16 run kinds {2 groups} x {new, reused instance} x {clock: same second, +1 s, "
                           "12:59:59->13:00, 23:59:59->00:00} (method drawn per run) plus random longer ones, with an injected clock; after every run the "
                           "whole archive tree is hashed and compared, directory names are compared with the model, and $group.results.<prefix>:last/:first "
                           "are resolved through the API; non-trivial = at least two runs")
    check.assumptions.append("fast_forward methods leave no data.csv: a :last/:first reference to such a run may fail to resolve or name that run's "
                             "(absent) data.csv, but must never resolve to another run's data")
