"""C13 — stop, skip, advance and last control the run as documented."""
import interp_common
from core import rng

MODULES = ["Props.C13", "Props.RunTie", "Props.MatchTie", "Props.ControlTie", "Props.LastTie", "Props.WhenTie"]
THEOREMS = ["Props.C13.c13_advance", "Props.C13.c13_last_blank", "Props.C13.c13_stop_ends_run", "Props.C13.c13_stop_cut", "Props.C13.c13_skip_cut",
            "Props.RunTie.consider_line_source_is_model", "Props.RunTie.advance_source",
            "Props.MatchTie.matches_source_is_model", "Props.MatchTie.c13_stop_cut_source", "Props.MatchTie.c13_skip_cut_source",
            "Props.ControlTie.stop_source_is_model", "Props.ControlTie.skip_source_is_model", "Props.ControlTie.c13_stop_cond_source",
            "Props.ControlTie.interp_stop_is_instance", "Props.ControlTie.interp_skip_is_instance",
            "Props.LastTie.last_source_is_model", "Props.LastTie.c13_last_source", "Props.LastTie.interp_last", "Props.WhenTie.c13_when_override_source"]


def structured(seed, i):
    """a conditional control function at a chosen position among marker components, firing on a
    chosen line, under a scan window, over a file with or without interior/trailing blanks"""
    r = rng(seed, "C13-structured", i)
    n = r.randint(2, 7)
    recs = []
    for j in range(n):
        if j > 0 and r.random() < 0.15:
            recs.append([])
        else:
            recs.append([f"r{j}", str(j), "x"])
    if r.random() < 0.3:
        recs.append([])
    fire = r.randint(0, len(recs) - 1)
    k = r.randint(1, 5)
    pos = r.randint(0, k)
    markers = [f'push("m{j}", line_number())' for j in range(k)]
    kind = r.choice(["stop", "skip", "advance", "last"])
    cond = f"#1 == {fire}"
    if kind == "stop":
        ctl = r.choice([f"{cond} -> stop()", f"stop(in(#1, \"{fire}\"))"])
    elif kind == "skip":
        ctl = r.choice([f"{cond} -> skip()", f"skip(in(#1, \"{fire}\"))"])
    elif kind == "advance":
        ctl = f"{cond} -> advance({r.randint(1, 3)})"
    else:
        ctl = r.choice(['last() -> push("lastseen", line_number())', "last.nocontrib() -> @l = line_number()"])
        pos = k  # a `last() ->` component comes last
    comps = markers[:pos] + [ctl] + markers[pos:]
    scan = r.choice(["*", "*", f"{r.randint(0, 2)}*", f"{r.randint(0, 2)}-{r.randint(2, len(recs))}"])
    if kind == "advance" and r.random() < 0.5 and len(recs) >= 4:
        # an advance that carries the run over the last line the scan selects: the run ends there all the same, and a last() component
        # (which also fires on a trailing blank line) must not see any later line
        hi = r.randint(1, len(recs) - 2)
        scan = f"{r.randint(0, min(1, hi))}-{hi}"
        if recs[-1]:
            recs.append([])
        comps = comps + [r.choice(['last.nocontrib() -> @l = line_number()', 'last() -> push("lastseen", line_number())'])]
    return {"recs": recs, "scan": scan, "match": " ".join(comps), "and": r.random() < 0.8, "profile": "C13-structured",
            "kind": kind, "pos": pos, "k": k, "fire": fire}


def run(check, tier):
    import tie_common

    tie_common.run_pyops(check, tier)      # the translator's prelude against CPython (the heap-mode bridges are written against it)
    import interp_suite as S

    n = 1500 if tier == "quick" else 60000
    cases = [structured(check.seed, i) for i in range(n)] + [S.gen_case(check.seed, i, "control") for i in range(n // 2)]
    interp_common.run_interp_cases(check, cases, "C13 profile", owns=["returned lines", "variables", "match_count", "scan_count", "validity", "printouts"])
    # stop()/skip() next to a component with the onmatch look-ahead: judged directly on what the user sees
    import lookahead_suite as LS
    from core import run_cases

    lcases = [LS.gen_case(check.seed, i) for i in range(400 if tier == "quick" else 20000)]
    nla = 0
    for res in run_cases("lookahead_suite", "case", lcases, chunk=16):
        if "infra_error" in res:
            check.infra.append(res["infra_error"] + res.get("trace", "")[-600:])
            continue
        if res.get("skipped"):
            check.count("lookahead_skipped_" + str(res["skipped"]))
            continue
        check.evaluations += 1
        nla += 1
        if res.get("nontrivial"):
            check.nontriv(["lookahead", res["case"]["match"], res["case"]["fire"], len(res["case"]["recs"])])
        if res["oracle"]:
            check.violation(res["oracle"][0]["what"], {"input": res["case"], "csvpath": res["text"], "oracle": res["oracle"][:3]})
    check.extra["lookahead_cases"] = nla
    kinds = {}
    for c in cases:
        kinds[c.get("kind", "generated")] = kinds.get(c.get("kind", "generated"), 0) + 1
    check.extra["control_kinds"] = kinds
    check.extra["rule"] = ("a conditional stop/skip/advance/last at every position among 1-5 marker components (push of line_number), every firing line, scan windows, "
                           "files with and without interior/trailing blank records, plus generated control-profile csvpaths; judged against S (which markers ran on "
                           "which lines, which lines are returned, counters) and compared with the interpreter model")
