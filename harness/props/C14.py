"""C14 — Assignment qualifiers decide the vote and the write per the documented table."""
import itertools

from core import rng, run_cases

MODULES = ["Props.C14", "Props.C14Tie"]
THEOREMS = ["Props.C14.c14_table", "Props.C14.c14_latch_never_negative", "Props.C14.c14_nocontrib_neutral",
            "Props.C14.c14_onmatch_gate", "Props.C14.c14_history", "Props.C14.c14_outside_quantifier",
            "Props.C14Tie.qualifier_words",
            "Props.C14Tie.assignment_source_is_model", "Props.C14Tie.c14_table_source"]


def run(check, tier):
    import tie_common

    tie_common.run_pyops(check, tier)
    import assign_suite as S

    units = S.all_unit_cases()
    results = run_cases("assign_suite", "case_unit", units, chunk=256)
    outside = run_cases("assign_suite", "case_unit", S.outside_unit_cases(), chunk=256)
    n_out_diff = 0
    for res in results + outside:
        if "infra_error" in res:
            check.infra.append(res["infra_error"] + res.get("trace", "")[-500:])
            continue
        if res.get("infra"):
            check.infra.append(res["infra"])
            continue
        check.evaluations += 1
        c = res["case"]
        if res.get("outside_differs"):
            n_out_diff += 1
        if c["cur"] is not None and c["y"] is not None:
            check.nontriv(["unit", c["quals"], c["cur"], c["y"], c["lm"], c["dm"]])
        if res["oracle"]:
            check.violation(res["oracle"][0]["what"], {"input": c, "oracle": res["oracle"]})
        elif res["disagree"]:
            check.break_("correspondence suite `assign` (unit): " + res["disagree"][0]["what"], {"input": c, "disagreements": res["disagree"]})
    check.extra["unit_points"] = len(units)
    check.extra["outside_quantifier_points_run"] = len(outside)
    check.extra["outside_quantifier_points_where_code_differs_from_docs"] = n_out_diff
    # run level
    vals = [None, "1", "2", "3"]
    runs = []
    if tier == "thorough":
        for mask in range(256):
            q = [S.QUALS[i] for i in range(8) if mask >> i & 1]
            vs = vals if ("increase" in q or "decrease" in q) else vals + ["true", "false"]
            for ys in itertools.product(vs, repeat=3):
                for rm in (True, False):
                    for dm in (True, False):
                        if not dm and "onmatch" in q:
                            continue  # quantifier of C01: onmatch only in AND mode
                        runs.append({"quals": q, "ys": list(ys), "rest": [rm, rm, rm], "dm": dm})
    else:
        r = rng(check.seed, "C14-runs")
        for i in range(1200):
            q = [x for x in S.QUALS if r.random() < 0.3]
            vs = vals if ("increase" in q or "decrease" in q) else vals + ["true", "false"]
            dm = r.random() < 0.7 or "onmatch" in q
            runs.append({"quals": q, "ys": [r.choice(vs) for _ in range(3)], "rest": [r.random() < 0.6 for _ in range(3)], "dm": dm})
    rres = run_cases("assign_suite", "case_run", runs, chunk=16)
    for res in rres:
        if "infra_error" in res:
            check.infra.append(res["infra_error"] + res.get("trace", "")[-500:])
            continue
        if res.get("skipped"):
            check.count("run_level_skipped_" + str(res["skipped"]))
            continue
        check.evaluations += 1
        c = res["case"]
        text = "@x" + "".join("." + x for x in c["quals"]) + ' = #v #m == "y"'
        if len(set(map(str, c["ys"]))) > 1:
            check.nontriv(["run", c["quals"], c["ys"], c["rest"], c["dm"]])
            check.sample({"csvpath": f"$file[1*][{text}]", "y per line": c["ys"], "rest matches": c["rest"], "AND": c["dm"]}, 4)
        if res["oracle"]:
            check.violation(res["oracle"][0]["what"], {"input": c, "csvpath": f"$file[1*][{text}]", "oracle": res["oracle"][:3]})
        elif res["disagree"]:
            check.break_("correspondence suite `assign` (run): " + res["disagree"][0]["what"], {"input": c, "disagreements": res["disagree"][:3]})
    check.extra["run_level_cases"] = len(runs)
    check.extra["exhaustive"] = tier == "thorough"
    check.extra["rule"] = ("unit level: all 256 qualifier subsets x current,new in {absent,1,2,3}(+'true','false' without increase/decrease) x "
                           "line verdict x logic mode through the real _do_assignment_new_impl; run level: real csvpaths `@x.<quals> = #v #m == \"y\"` "
                           "over 3-line files (x observed after each prefix, vote observed through the returned lines); non-trivial = both values "
                           "present (unit) / y varies over the file (run)")
