"""C04 — The validity verdict is False exactly when the csvpath failed the file."""
import interp_common
from core import rng, run_cases

MODULES = ["Props.C04", "Props.WhenTie", "Props.ControlTie", "Props.ResultsTie"]
THEOREMS = ["Props.C04.c04_line", "Props.C04.c04_run_monotone", "Props.C04.c04_loop_never_writes", "Props.C04.c04_aggregate", "Props.C04.c04_unexecuted_branch",
            "Props.WhenTie.when_source_is_model", "Props.WhenTie.c04_unexecuted_branch_source", "Props.WhenTie.interp_is_instance",
            "Props.ControlTie.fail_source_is_model", "Props.ControlTie.c04_fail_source", "Props.ControlTie.interp_fail_is_instance", "Props.ResultsTie.c04_aggregate_source"]


def run(check, tier):
    import tie_common

    tie_common.run_pyops(check, tier)      # the translator's prelude against CPython (the heap-mode bridges are written against it)
    import interp_suite as S

    n = 2000 if tier == "quick" else 60000
    cases = []
    for i in range(n):
        c = S.gen_case(check.seed, i, "control")
        r = rng(check.seed, "C04-extra", i)
        k = r.random()
        if k < 0.4:
            c["match"] = S.add_component(c["match"], r.choice(['#n == 2 -> fail()', 'above(#n, 4) -> fail()', 'fail_and_stop(below(#n, 1))']))
        if r.random() < 0.5:
            c["match"] = S.add_component(c["match"], r.choice(['push("vs", valid())', 'push("fs", failed())']))
        if r.random() < 0.3:
            # the csvpath's own validation-mode (with and without fail): a well-typed program must not notice it
            c["vmode"] = r.choice(["print, no-raise, fail", "no-raise, fail", "fail", "no-fail", "no-raise, no-stop"])
        cases.append(c)
    interp_common.run_interp_cases(check, cases, "C04 profile", owns=["validity"])
    # aggregation over a named-paths run, and error policies with and without fail
    g = run_cases("validity_suite", "case_group_validity", [{"seed": check.seed, "i": i} for i in range(60 if tier == "quick" else 2000)], chunk=4)
    for res in g:
        if "infra_error" in res:
            check.infra.append(res["infra_error"] + res.get("trace", "")[-700:])
            continue
        check.evaluations += 1
        if res.get("nontrivial"):
            check.nontriv(res["case"])
        for o in res["oracle"]:
            check.violation(o["what"], {"input": res["case"], "oracle": [o]}, finding=o.get("finding"))
    # a fail() guarded by a function that errors: under every error policy the verdict is False exactly when the policy says fail
    import errors_suite as E

    ecases = E.gen_run_cases(check.seed, tier)[: 400 if tier == "quick" else 8000]
    er = rng(check.seed, "C04-guard")
    for c in ecases:
        c["kind"] = er.choice(E.GUARD_KINDS)
    for res in run_cases("errors_suite", "case_run", ecases, chunk=16):
        if "infra_error" in res:
            check.infra.append(res["infra_error"] + res.get("trace", "")[-700:])
            continue
        if "parse_error" in res:
            check.count("guard_parse_error")
            continue
        check.evaluations += 1
        check.count("guarded_fail_runs")
        if res.get("nontrivial"):
            check.count("guarded_fail_runs_with_errors")
        for o in res["oracle"]:
            if o["what"].startswith("fail flag"):
                check.violation("a fail() guarded by an erroring function: " + o["what"], {"input": res["case"], "csvpath": res["text"], "oracle": [o]})
    check.extra["rule"] = ("generated csvpaths with conditional fail()/fail_and_stop() and per-line valid()/failed() pushes x generated files, judged against S; "
                           "plus named-paths groups (members that fail, error under policies with/without fail, or never run) checked for "
                           "results_manager.is_valid and the run manifest's all_valid being the conjunction of the members' verdicts")
