"""C18 — A run that aborts still leaves a truthful, readable record."""
from core import run_cases

MODULES = ["Props.C09", "Props.C10"]
THEOREMS = ["Props.C09.c18_abort", "Props.C09.saveMember_consistent", "Props.C10.c10_fresh_dir"]


def run(check, tier):
    import archive_suite as S

    n = 600 if tier == "quick" else 8000
    cases = [S.gen_case_abort(check.seed, i) for i in range(n)]
    results = run_cases("archive_suite", "case_abort", cases, chunk=8)
    methods = {}
    for res in results:
        if "infra_error" in res:
            check.infra.append(res["infra_error"] + res.get("trace", "")[-700:])
            continue
        check.evaluations += 1
        c = res["case"]
        methods[c["method"]] = methods.get(c["method"], 0) + 1
        texts = [S.member_text(m) for m in c["members"]]
        check.nontriv([texts, c["k"], c["line"], c["method"], len(c["recs"])])
        check.sample({"group": texts, "aborting_member": c["k"], "line": c["line"], "method": c["method"]}, 3)
        if res["oracle"]:
            for o in res["oracle"]:
                check.violation(o["what"], {"input": c, "group": texts, "oracle": [o]}, finding=o.get("finding"))
        if res["disagree"] and not res["oracle"]:
            check.break_("correspondence suite `abort`: " + res["disagree"][0]["what"], {"input": c, "disagreements": res["disagree"][:3]})
    check.extra["methods"] = methods
    check.extra["rule"] = ("abort points (member k of 1-4, line of a 2-8 line file) produced by an argument error under a raise policy, for the six run methods, "
                           "followed by one further run on the same instance; checks exception at the caller, member directories, errors.json line, completed "
                           "flags, run manifest status, untouched named-files/named-paths stores and the follow-up run; every case is distinct")
