"""C15 — Comment mode settings take effect; matched and unmatched partition the file."""
from core import run_cases

MODULES = ["Props.C15", "Props.C15Tie"]
THEOREMS = ["Props.C15.c15_complement", "Props.C15.c15_partition", "Props.C15.c15_norun",
            "Props.C15.c15_extract", "Props.C15.c15_extract_no_comment", "Props.C15.c15_fields",
            "Props.C15Tie.return_mode_source_is_model", "Props.C15Tie.run_mode_source_is_model",
            "Props.C15Tie.unmatched_mode_source_is_model", "Props.C15Tie.source_mode_source_is_model", "Props.C15Tie.c15_settings"]


def run(check, tier):
    import tie_common

    tie_common.run_pyops(check, tier)
    import run_suite as S

    n = 1400 if tier == "quick" else 16000
    cases = [S.gen_case_modes(check.seed, i) for i in range(n)]
    results = run_cases("run_suite", "case_modes", cases, chunk=8)
    combos = set()
    for res in results:
        if "infra_error" in res:
            check.infra.append(res["infra_error"] + res.get("trace", "")[-600:])
            continue
        c = res["case"]
        text = f"~{c['comment']}~$file[{c['scan']}][{c['match']}]"
        if res.get("parse_error") and not res["oracle"]:
            check.count("rejected_at_parse")
            continue
        check.evaluations += 1
        combos.add(tuple(sorted((k, str(v)) for k, v in c["modes"].items())))
        if res.get("raised"):
            check.count("runs_ending_in_exception")
        if res["nontrivial"]:
            check.nontriv([text, c["recs"]])
            check.sample({"csvpath": text, "records": c["recs"]}, 4)
        if res["oracle"]:
            check.violation(res["oracle"][0]["what"], {"input": c, "csvpath": text, "oracle": res["oracle"][:3]})
        elif res["disagree"]:
            check.break_("correspondence suite `modes`: " + res["disagree"][0]["what"],
                         {"input": c, "csvpath": text, "disagreements": res["disagree"][:3]})
    check.extra["mode_combinations_seen"] = len(combos)
    check.extra["rule"] = ("generated csvpaths x generated outer comments (free text, metadata fields, mode settings in random order/layout) "
                           "x generated files; each case runs the written modes, the flipped return-mode and the flipped print-mode; "
                           "non-trivial = both the default and the no-matches run return lines")
    check.assumptions.append("metadata `key: value` clause: extract (comment removal) is proved; the field scanner (collect_metadata) "
                             "is tied by correspondence with the real MetadataParser on every case, not yet by a theorem")
