"""C03 — Variables and run counters end up with the values the csvpath assigns."""
import interp_common

MODULES = ["Props.C03", "Props.RunTie", "Props.WhenTie", "Props.MonitorTie", "Props.MatchTie"]
THEOREMS = ["Props.C03.c03_scan_count", "Props.C03.c03_match_count", "Props.C03.c03_ctx_counts", "Props.C03.c03_sameline", "Props.C03.c03_when_order",
            "Props.C03.c03_position_functions", "Props.RunTie.consider_line_source_is_model", "Props.RunTie.advance_source",
            "Props.WhenTie.when_source_is_model", "Props.WhenTie.c03_when_order_source", "Props.WhenTie.interp_is_instance",
            "Props.MonitorTie.next_line_source_is_model", "Props.MonitorTie.monitor_over_file", "Props.MonitorTie.physical_after_file", "Props.MonitorTie.set_end_source", "Props.MatchTie.matches_source_is_model", "Props.MatchTie.c03_sameline_source"]


def run(check, tier):
    import tie_common

    tie_common.run_pyops(check, tier)      # the translator's prelude against CPython (the heap-mode bridges are written against it)
    import interp_suite as S
    from core import rng

    n = 2500 if tier == "quick" else 120000
    cases = []
    for i in range(n):
        c = S.gen_case(check.seed, i, "vars" if i % 6 else "onmatch")
        r = rng(check.seed, "C03-extra", i)
        # observe the position functions and the store at every line through pushes
        extra = r.choice(['push("cl", count_lines())', 'push("ln", line_number())', 'push("cs", count_scans())', 'push("cn", count())',
                          'push("vv", @v)', 'push("tt", @t)', ""])
        if extra:
            c["match"] = S.add_component(c["match"], extra)
        cases.append(c)
    interp_common.run_interp_cases(check, cases, "C03 profile", owns=["variables", "match_count", "scan_count"])
    check.extra["rule"] = ("generated csvpaths that write variables (assignments with and without tracking values and qualifiers, push/pop/counter/put, "
                           "position functions pushed at every line) x generated files; compared with the interpreter model and judged against S (final "
                           "variables, scan_count, match_count); non-trivial = some but not all records returned")
