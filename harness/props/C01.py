"""C01 — Returned lines are exactly the scanned lines that satisfy the match part."""
import interp_common

MODULES = ["Props.C01", "Props.RunTie", "Props.MatchTie"]
THEOREMS = ["Props.C01.c01_runloop", "Props.C01.c01_toplevel", "Props.C01.c01_compare_ints", "Props.C01.c01_not", "Props.C01.c01_and",
            "Props.C01.c01_or",
            "Props.C01.c01_strings_math", "Props.RunTie.consider_line_source_is_model", "Props.RunTie.advance_source",
            "Props.MatchTie.matches_source_is_model", "Props.MatchTie.c01_toplevel_source", "Props.MatchTie.interp_is_instance"]


def run(check, tier):
    import tie_common

    tie_common.run_pyops(check, tier)      # the translator's prelude against CPython (the heap-mode bridges are written against it)
    import interp_suite as S

    n = 2500 if tier == "quick" else 120000
    cases = []
    for i in range(n):
        prof = ["plain", "plain", "control", "vars", "onmatch"][i % 5]
        cases.append(S.gen_case(check.seed, i, prof))
    interp_common.run_interp_cases(check, cases, "C01 profile", owns=["returned lines"])
    # the comparison family on present cells (numbers as people write them among them): never an error, lines as documented
    ccases = [S.gen_cmp_case(check.seed, i) for i in range(400 if tier == "quick" else 20000)]
    interp_common.run_interp_cases(check, ccases, "comparison family", owns=["returned lines", "comparison of two cells"], fn="case_cmp")
    check.extra["rule"] = ("generated csvpaths over the modelled core function set (depth<=3, 1-5 components, both logic modes, generated scan parts) x generated "
                           "files (ragged rows, blanks, numeric/text cells); each run compared with the Lean interpreter model and judged against the reference "
                           "semantics S (lines returned = scanned lines on which the components hold); non-trivial = some but not all non-blank records returned")
    check.assumptions.append("component-level meaning (what each function decides) is tied to the code by correspondence with the interpreter model and judged "
                             "against S by the oracle; the theorems cover the run loop and the matcher's aggregation, not each function")
