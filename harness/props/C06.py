"""C06 — Lines are delivered as they are in the file; headers are the first data line."""
from core import run_cases

MODULES = ["Props.C06"]
THEOREMS = ["Props.C06.c06_identity", "Props.C06.c06_headers", "Props.C06.c06_clean", "Props.C06.c06_name_index",
            "Props.C06.c06_index_is_first", "Props.C06.c06_short_row"]


def run(check, tier):
    import reader_suite as S

    n = 1500 if tier == "quick" else 60000
    cases = [S.gen_case(check.seed, i) for i in range(n)]
    results = run_cases("reader_suite", "case_reader", cases, chunk=32)
    dial = {}
    for res in results:
        if "infra_error" in res:
            check.infra.append(res["infra_error"] + res.get("trace", "")[-700:])
            continue
        c = res["case"]
        if res.get("unmodelled"):
            check.count("dialect_cannot_roundtrip_with_csv_module")
            continue
        check.evaluations += 1
        d = repr(c["delim"]) + repr(c["quote"])
        dial[d] = dial.get(d, 0) + 1
        if res["nontrivial"]:
            check.nontriv([c["recs"], c["delim"], c["quote"]])
            check.sample({"records": c["recs"][:4], "delimiter": c["delim"], "quotechar": c["quote"]}, 3)
        if res["oracle"]:
            check.violation(res["oracle"][0]["what"], {"input": c, "oracle": res["oracle"][:3]})
        elif res["disagree"]:
            check.break_("correspondence suite `reader`: " + res["disagree"][0]["what"], {"input": c, "disagreements": res["disagree"][:3]})
    check.extra["dialects"] = dial
    check.extra["rule"] = ("0-12 records of 0-6 cells of arbitrary text (unicode, quotes, delimiters, newlines, no CR), blank records anywhere, ragged rows, written "
                           "with csv.writer in 4 delimiters x 2 quote characters; the real collect() with [yes()] must return the records; headers, #name/#index "
                           "and short rows checked through real csvpaths; non-trivial = at least two data records (with a short row in the header cases)")
    check.assumptions.append("PARTIAL: Python's csv reader/writer and UTF-8 decoding are parameters of the model (exercised, not proved); the theorems cover "
                             "everything between the reader and the caller")
