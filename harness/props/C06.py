"""C06 — Lines are delivered as they are in the file; headers are the first data line."""
from core import run_cases

MODULES = ["Props.C06"]
THEOREMS = ["Props.C06.c06_identity", "Props.C06.c06_headers", "Props.C06.c06_clean", "Props.C06.c06_name_index",
            "Props.C06.c06_index_is_first", "Props.C06.c06_short_row", "Props.C06.c06_csv_roundtrip", "Props.C06.c06_delivered"]


def run(check, tier):
    import reader_suite as S

    n = 1500 if tier == "quick" else 60000
    cases = [S.gen_case(check.seed, i) for i in range(n)]
    results = run_cases("reader_suite", "case_reader", cases, chunk=32)
    dial = {}
    for res in results:
        if "infra_error" in res:
            check.infra.append(res["infra_error"] + res.get("trace", "")[-700:])
            continue
        c = res["case"]
        if res.get("unmodelled"):
            check.count("dialect_cannot_roundtrip_with_csv_module")
            continue
        check.evaluations += 1
        d = repr(c["delim"]) + repr(c["quote"])
        dial[d] = dial.get(d, 0) + 1
        if res["nontrivial"]:
            check.nontriv([c["recs"], c["delim"], c["quote"]])
            check.sample({"records": c["recs"][:4], "delimiter": c["delim"], "quotechar": c["quote"]}, 3)
        if res["oracle"]:
            check.violation(res["oracle"][0]["what"], {"input": c, "oracle": res["oracle"][:3]})
        elif res["disagree"]:
            check.break_("correspondence suite `reader`: " + res["disagree"][0]["what"], {"input": c, "disagreements": res["disagree"][:3]})
    check.extra["dialects"] = dial
    # the csv model on arbitrary text (correspondence only)
    raws = [S.gen_raw(check.seed, i) for i in range(n)]
    nerr = 0
    for res in run_cases("reader_suite", "case_raw", raws, chunk=64):
        if "infra_error" in res:
            check.infra.append(res["infra_error"] + res.get("trace", "")[-700:])
            continue
        check.evaluations += 1
        check.count("raw_texts")
        if res["error"]:
            nerr += 1
        if res["nontrivial"]:
            check.count("raw_texts_with_quotes_and_two_records")
        if res["disagree"]:
            check.break_("correspondence suite `reader`: " + res["disagree"][0]["what"], {"input": res["case"], "disagreements": res["disagree"][:3]})
    check.extra["raw_texts_raising_csv_error"] = nerr
    check.extra["rule"] = ("0-12 records of 0-6 cells of arbitrary text (unicode, quotes, delimiters, newlines, no CR), blank records anywhere, ragged rows, written "
                           "with csv.writer in 4 delimiters x 2 quote characters; the real collect() with [yes()] must return the records; headers, #name/#index "
                           "and short rows checked through real csvpaths; non-trivial = at least two data records (with a short row in the header cases)")
    check.extra["rule_raw"] = ("texts of up to 30 tokens (plain characters incl. U+2028, VT, FS, NEL; delimiter; quote; doubled quote; LF; CR; CRLF; the other "
                               "quote and delimiters), with and without a final line end, field size limit default or 1/2/4: the csv model's reader against "
                               "DataFileReader (csv.reader over a text-mode file) — records or csv.Error")
    check.assumptions.append("Python's csv module is modelled (Model/Csv.lean: reader state machine of Modules/_csv.c, QUOTE_MINIMAL writer) and tied to the "
                             "real module by this suite; UTF-8 decoding and the OS file layer are below the model")
