"""Reads the component tree off the real Matcher (built by Lark + LarkTransformer) into the JSON
form the Lean interpreter model takes."""
import realenv  # noqa: F401


def value_json(v):
    if v is None or isinstance(v, (bool, str)):
        return v
    if isinstance(v, int):
        return v
    if isinstance(v, float):
        if v == int(v) and abs(v) < 2 ** 53:
            return {"f": int(v)}
        raise Unmodelled("non-integral float literal")
    raise Unmodelled(f"literal of type {type(v).__name__}")


class Unmodelled(Exception):
    pass


def extract(matcher):
    from csvpath.matching.productions import Equality, Header, Reference, Term, Variable
    from csvpath.matching.functions.function import Function

    counter = [0]

    def nid():
        counter[0] += 1
        return counter[0]

    def node(n):
        if isinstance(n, Term):
            return {"k": "term", "id": nid(), "v": value_json(n.value)}
        if isinstance(n, Header):
            name = n.name
            d = {"k": "header", "id": nid(), "quals": list(n.qualifiers or [])}
            if isinstance(name, int) or f"{name}".isdecimal():
                d["index"] = int(name)
            else:
                d["name"] = name
            return d
        if isinstance(n, Variable):
            return {"k": "var", "id": nid(), "name": n.name, "quals": list(n.qualifiers or [])}
        if isinstance(n, Reference):
            raise Unmodelled("reference")
        if isinstance(n, Equality):
            if n.op == ",":
                raise Unmodelled("bare argument list")
            i = nid()
            return {"k": "eq", "id": i, "op": n.op, "l": node(n.left), "r": node(n.right)}
        if isinstance(n, Function):
            i = nid()
            ch = n.children
            if len(ch) == 0:
                args = []
            elif len(ch) == 1 and isinstance(ch[0], Equality) and ch[0].op == ",":
                args = [node(c) for c in ch[0].children]
            else:
                args = [node(c) for c in ch]
            return {"k": "fn", "id": i, "name": n.name, "quals": list(n.qualifiers or []), "args": args}
        raise Unmodelled(f"node {type(n).__name__}")

    prog = []
    for e, _ in matcher.expressions:
        if len(e.children) != 1:
            raise Unmodelled("expression with several children")
        prog.append(node(e.children[0]))
    return prog


def prog_of(text):
    """parse a csvpath disposably and return its match part as model JSON"""
    from csvpath import CsvPath

    p = CsvPath()
    m = p.parse(text, disposably=True)
    return extract(m), p
