"""Generator of csvpaths inside the interpreter model's function set (type-directed, mostly
valid).  No `==` nested inside functions, no `onmatch`/`onchange`/`once`, counters and `every`
always carry a name qualifier."""

WORDS = ["x", "y", "zed", "Fish", "bat man", "fish", "FISH", "X"]


def hdr(r):
    return r.choice(["#a", "#b", "#n", "#c", "#0", "#2", "#1", "#3"])


def nhdr(r):
    return r.choice(["#n", "#n", "#2", "#b"])


def sterm(r):
    return '"' + r.choice(["x", "y", "zed", "Fish", "fish", "bat man", "1", "3", "1.0", ""]) + '"'


def nterm(r):
    return str(r.choice([0, 1, 2, 3, 5, 10]))


def var(r):
    return "@" + r.choice(["v", "w", "cnt", "t"])


def numval(r, d=0):
    k = r.random()
    if d >= 2 or k < 0.55:
        return r.choice([nhdr, nterm, nterm])(r)
    if k < 0.75:
        return r.choice(["count_lines()", "line_number()", "count()", "count_scans()"])
    if k < 0.8:
        return f"int({nhdr(r)})"
    return f"{r.choice(['add', 'subtract', 'multiply'])}({numval(r, d+1)}, {numval(r, d+1)})"


def value(r, d=0):
    k = r.random()
    if d >= 2 or k < 0.35:
        return r.choice([hdr, sterm, nterm, var, nhdr])(r)
    if k < 0.45:
        return f"concat({value(r, d+1)}, {value(r, d+1)})"
    if k < 0.52:
        return f"{r.choice(['lower', 'upper', 'strip'])}({r.choice([hdr, sterm])(r)})"
    if k < 0.58:
        return f"length({hdr(r)})"
    if k < 0.78:
        return numval(r, d)
    if k < 0.86:
        return r.choice(["count_headers()", "count_headers_in_line()", "total_lines()", "line_number()"])
    if k < 0.92:
        return f'peek("s", {r.randint(0, 2)})'
    return f'get("{r.choice(["v", "w", "t", "s"])}")'


def cond(r, d=0):
    k = r.random()
    if d == 0 and k < 0.14:
        # `==` between two values, top level only (a function of an equality is outside the model);
        # near-miss pairs (case variants, 1 / 1.0 / 01) come from the data pools
        return f"{r.choice([hdr, hdr, var, nhdr])(r)} == {r.choice([sterm, sterm, nterm, hdr, var])(r)}"
    if d >= 2 or k < 0.22:
        return r.choice([lambda: hdr(r), lambda: "yes()", lambda: "no()", lambda: var(r)])()
    if k < 0.4:
        f = r.choice(["above", "below", "gt", "lt", "gte", "lte"])
        return f"{f}({numval(r, 1)}, {numval(r, 1)})"
    if k < 0.48:
        return f"{r.choice(['between', 'beyond', 'range'])}({nhdr(r)}, {nterm(r)}, {nterm(r)})"
    if k < 0.56:
        return f"not({cond(r, d+1)})"
    if k < 0.66:
        more = f", {cond(r, d+1)}" if r.random() < 0.3 else ""
        return f"{r.choice(['and', 'or'])}({cond(r, d+1)}, {cond(r, d+1)}{more})"
    if k < 0.73:
        return f"{r.choice(['exists', 'empty'])}({hdr(r)})"
    if k < 0.79:
        # in(): a haystack of terms, of cells and variables (per-line values), or both
        hay = r.choice(['"x|y|3"', '"x|y|3"', hdr(r), f'"x|3", {hdr(r)}', f"{hdr(r)}, {hdr(r)}", var(r), f'{hdr(r)}, "fish|1"'])
        return f"in({hdr(r)}, {hay})"
    if k < 0.84:
        return f"equals({value(r, 1)}, {value(r, 1)})"
    if k < 0.88:
        return f"starts_with({hdr(r)}, {sterm(r)})"
    if k < 0.92:
        return r.choice(["firstline()", "firstscan()", "last()"])
    if k < 0.96:
        return f"every.{r.choice(['ea', 'eb'])}({hdr(r)}, {r.randint(2, 3)})"
    return r.choice(["failed()", "valid()"])


def quals(r, options, p):
    return "".join("." + q for q in options if r.random() < p)


def effect(r):
    k = r.random()
    if k < 0.22:
        return f'push{quals(r, ["notnone", "distinct"], 0.15)}("s", {value(r, 1)})'
    if k < 0.4:
        return f"{var(r)}{quals(r, ['latch', 'onchange', 'increase', 'decrease', 'notnone', 'asbool', 'nocontrib'], 0.1)} = {value(r)}"
    if k < 0.48:
        return f"@v.{r.choice(['k1', 'k2'])} = {value(r, 1)}"
    if k < 0.58:
        return f"counter.{r.choice(['ca', 'cb'])}({r.randint(1, 3)})"
    if k < 0.66:
        return '@p = pop("s")'
    if k < 0.76:
        return f'print("{r.choice(["hello", "a line", "x=1; y=2", "two  blanks", "a=$.headers.a, n=$.headers.n;", "line $.csvpath.line_number: $.variables.cnt", "$.variables.v.k1|$.variables.s.length|$.csvpath.count_scans", "[$.headers.0] $.variables.t..", "$.csvpath.count_lines $.headers.b"])}")'
    if k < 0.84:
        return f'put("w", {value(r, 1)})'
    if k < 0.9:
        return f"@t = {r.choice(['count_lines()', 'count_scans()', 'line_number()', 'add(@t, 1)'])}"
    if k < 0.97:
        # the named bookkeeping of C03
        return r.choice([f"first{quals(r, ['seen'], 0.5)}({hdr(r)})", f"tally{quals(r, ['tl'], 0.4)}({hdr(r)})",
                         f"tally({hdr(r)}, {hdr(r)})", f"sum{quals(r, ['total'], 0.5)}({nhdr(r)})",
                         f"subtotal{quals(r, ['st'], 0.5)}({hdr(r)}, {nhdr(r)})"])
    return 'stack("s")'


def control(r):
    k = r.random()
    c = cond(r, 1)
    if k < 0.25:
        return r.choice([f"stop({c})", f"{c} -> stop()"]) if not c.startswith(("#", "@")) else f"{c} -> stop()"
    if k < 0.5:
        return r.choice([f"skip({c})", f"{c} -> skip()"]) if not c.startswith(("#", "@")) else f"{c} -> skip()"
    if k < 0.65:
        return f"{c} -> advance({r.randint(1, 3)})"
    if k < 0.85:
        return r.choice([f"{c} -> fail()", f"fail_and_stop({c})", f"{c} -> fail_all()"]) if not c.startswith(("#", "@")) else f"{c} -> fail()"
    return f"last() -> {effect(r)}"


PROFILES = {"plain": (0.6, 0.4, 0.0), "control": (0.35, 0.35, 0.3), "vars": (0.3, 0.65, 0.05)}


def pure_cond(r, d=0):
    """a condition over cells and literals only (no variables, no effects)"""
    k = r.random()
    if d >= 2 or k < 0.25:
        return r.choice([hdr(r), f'{hdr(r)} == {sterm(r)}', f"{nhdr(r)} == {nterm(r)}"])
    if k < 0.5:
        return f"{r.choice(['above', 'below', 'gt', 'lte', 'gte'])}({nhdr(r)}, {nterm(r)})"
    if k < 0.6:
        return f"not({pure_cond(r, d + 1)})" if d > 0 else f"not({hdr(r)})"
    if k < 0.7:
        return f"{r.choice(['and', 'or'])}({r.choice(['exists', 'empty'])}({hdr(r)}), {r.choice(['exists', 'empty'])}({hdr(r)}))"
    if k < 0.8:
        return f"{r.choice(['exists', 'empty'])}({hdr(r)})"
    if k < 0.9:
        hay = r.choice(['"x|y|3|Fish"', '"x|y|3|Fish"', hdr(r), f'"x|3", {hdr(r)}', f"{hdr(r)}, {hdr(r)}"])
        return f"in({hdr(r)}, {hay})"
    return f"starts_with({hdr(r)}, {sterm(r)})"


def onmatch_part(r):
    """1-3 pure conditions and one component that acts only on matching lines"""
    conds = [pure_cond(r) for _ in range(r.randint(1, 3))]
    eff = r.choice([f'push.onmatch("om", {hdr(r)})', 'print.onmatch("m $.csvpath.line_number $.headers.a")', f"@hit.onmatch = {hdr(r)}",
                    f"counter.onmatch.cm({r.randint(1, 2)})", f'push.onmatch("ln", line_number())', f"@last_a.onmatch.notnone = {hdr(r)}",
                    # the function on the right keeps its own books on every scanned line; only the write waits for a match
                    f"@run.onmatch = sum.tot({nhdr(r)})", f"@clk.onmatch = counter.clicks({r.randint(1, 3)})",
                    f"@run.onmatch = sum.tot({nhdr(r)})"])
    comps = conds[:]
    comps.insert(r.randint(0, len(comps)), eff)
    return r.choice([" ", "\n"]).join(comps)


def component(r, profile):
    pc, pe, pk = PROFILES[profile]
    k = r.random()
    if k < pc:
        c = cond(r)
        if r.random() < 0.3:
            return f"{c} -> {effect(r)}"
        return c
    if k < pc + pe:
        return effect(r)
    return control(r)


def match_part(r, profile="plain", max_components=5):
    if profile == "onmatch":
        return onmatch_part(r)
    comps = [component(r, profile) for _ in range(r.randint(1, max_components))]
    if r.random() < 0.15:
        # a variable filled from a cell (possibly empty, blank or the word None) and then used as an existence test
        comps += [f"@e = {hdr(r)}", r.choice(["@e", "not(@e)", "@e -> push(\"es\", line_number())", "or(@e, no())"])]
    if profile == "vars" and r.random() < 0.12:
        # count(x) for a condition x keeps one counter per truth value; the counters are read back by key
        comps += r.choice([[f"count.cr({hdr(r)} == {sterm(r)})", "@crf = @cr.False", "@crt = @cr.True"],
                           [f"count.cn({nhdr(r)} == {nterm(r)})", 'push("cf", @cn.False)']])
    # a `last() ->` component, if any, comes last (quantifier of C01)
    comps.sort(key=lambda c: c.startswith("last() ->"))
    return r.choice([" ", "\n", "  "]).join(comps)


def gen_file(r, max_recs=9):
    """files for the interpreter suite: mostly full rows (missing cells make most functions raise an
    argument error, which is C05's domain), some blanks and short rows kept"""
    recs = []
    n = r.randint(0, max_recs)
    for i in range(n):
        if i == 0 and r.random() < 0.9:
            recs.append(["a", "b", "n", "c"])
            continue
        if r.random() < 0.12:
            recs.append([])
            continue
        width = 4 if r.random() < 0.92 else r.randint(1, 5)
        row = []
        for j in range(width):
            if j == 2:
                # (numbers as people write them — thousands separators, currency signs — are text to the comparison functions)
                row.append(str(r.choice([0, 1, 2, 3, 5, 10, 12, -1])) if r.random() < 0.88 else
                           r.choice(["1.0", "01", "3.0", "1", "1,200", "$4", "2;5", "€9", "1,0"]))
            elif j == 1:
                row.append(str(r.randint(0, 4)) if r.random() < 0.6 else r.choice(WORDS))
            else:
                row.append(r.choice(WORDS) if r.random() < 0.88 else r.choice(["", "", " pad ", "true", "None", "  "]))
        recs.append(row)
    return recs
