"""Adapters around the real csvpath code (imported from /repo's working tree).

`run_single` runs one CsvPath and records, for every call the run loop makes to the matcher, what
the run loop had established before the call (line number, scan count, ...) and what the matcher
left behind (answer and the flags it may write).  The recording is the *matcher script* that
drives the parametric Lean run-loop model, so the run loop is compared with its model for any
csvpath, whatever functions it uses.
"""
import os
import realenv

realenv.enter()
from csvpath import CsvPath  # noqa: E402
from csvpath.util.printer import Printer  # noqa: E402


from csvpath.util.printer import StdOutPrinter  # noqa: E402

STDOUT_LOG = []


def _quiet_print_to(self, name, string):
    """StdOutPrinter.print_to without the write to the terminal: the harness records what
    standard-out printing would have shown"""
    self._count += 1
    STDOUT_LOG.append([name if isinstance(name, (str, type(None))) else "<stream>", string])
    self._last_line = string


StdOutPrinter.print_to = _quiet_print_to


class RecPrinter(Printer):
    """records every print() entry"""

    def __init__(self):
        self.entries = []
        self._last = None

    @property
    def last_line(self):
        return self._last

    @property
    def lines_printed(self):
        return len(self.entries)

    def print(self, string):
        self.print_to(None, string)

    def print_to(self, name, string):
        self.entries.append([name, string])
        self._last = string


def _exc_class(e):
    return e.__class__.__name__


def make_path(csvpath_text, *, delimiter=",", quotechar='"', policy=None):
    p = CsvPath(delimiter=delimiter, quotechar=quotechar)
    if policy is not None:
        p.config.csvpath_errors_policy = policy
    rp = RecPrinter()
    p.add_printer(rp)
    del STDOUT_LOG[:]
    return p, rp


def snapshot_flags(p):
    return {
        "stopped": bool(p.stopped),
        "advance": int(p.advance_count),
        "valid": bool(p.is_valid),
        "frozen": bool(p._freeze_path),
        "match_count": int(p.match_count),
    }


def instrument(p):
    """wrap p.matches to record the script"""
    script = []
    calls = []
    orig = p.matches

    def wrapped(line):
        lm = p.line_monitor
        calls.append(
            {
                "idx": lm.physical_line_number,
                "blank_last": bool(lm.is_last_line_and_blank(line)),
                "scan_count": p.scan_count,
                "cur_match_count": p._current_match_count,
                "data_count": lm.data_line_count,
                "data_number": lm.data_line_number,
            }
        )
        try:
            b = orig(line)
        except Exception:
            script.append({"raised": True, **snapshot_flags(p)})
            raise
        e = {"b": bool(b is True), **snapshot_flags(p)}
        # the collect() function narrows the returned line to these header indexes (applied by the caller of the matcher)
        e["limit"] = list(p.limit_collection_to or [])
        script.append(e)
        return b

    p.matches = wrapped
    return script, calls


def run_single(csvpath_text, method="collect", n=None, *, policy=None, delimiter=",", quotechar='"', presets=None):
    """run one csvpath; returns a dict with everything observable. `presets`: public attributes set on the fresh CsvPath
    before the text is parsed (`OR`, `collect_when_not_matched`): modes given programmatically instead of in a comment"""
    p, rp = make_path(csvpath_text, delimiter=delimiter, quotechar=quotechar, policy=policy)
    for k, v in (presets or {}).items():
        setattr(p, k, v)
    out = {"method": method}
    try:
        p.parse(csvpath_text)
    except Exception as e:  # noqa: BLE001
        out["parse_error"] = _exc_class(e)
        return out, p
    script, calls = instrument(p)
    lines = None
    try:
        if method == "collect":
            lines = p.collect()
        elif method == "collectN":
            lines = p.collect(nexts=n)
        elif method == "next":
            lines = [l[:] for l in p.next()]
        elif method == "nextkeep":
            # a caller that keeps the yielded lists themselves until the run is over (`list(path.next())`)
            kept = list(p.next())
            lines = [l[:] for l in kept]
        elif method == "ff":
            p.fast_forward()
            lines = []
        else:
            raise ValueError(method)
    except Exception as e:  # noqa: BLE001
        out["raised"] = _exc_class(e)
    out["lines"] = lines
    out["flags"] = snapshot_flags(p)
    out["scan_count"] = p.scan_count
    out["unmatched"] = p.unmatched
    out["script"] = script
    out["calls"] = calls
    out["variables"] = p.variables
    out["vars_canon"] = None
    out["printouts"] = rp.entries
    out["stdout"] = list(STDOUT_LOG)
    out["errors"] = [[e.line_count, e.error.__class__.__name__] for e in (p.errors or [])]
    out["headers"] = p.headers
    out["metadata"] = p.metadata
    return out, p


def write_xlsx(name, sheets):
    """a workbook with one worksheet per entry of `sheets` ({sheet name: records}); returns its path"""
    import pylightxl as xl

    os.makedirs("data", exist_ok=True)
    path = os.path.join("data", name)
    db = xl.Database()
    for ws, recs in sheets.items():
        db.add_ws(ws=ws)
        for i, rec in enumerate(recs, 1):
            for j, cell in enumerate(rec, 1):
                db.ws(ws).update_index(row=i, col=j, val=cell)
    if os.path.exists(path):
        os.remove(path)
    xl.writexl(db=db, fn=path)
    return path


def write_file(name, records, delimiter=",", quotechar='"'):
    path = os.path.join("data", name)
    realenv.write_csv(path, records, delimiter=delimiter, quotechar=quotechar)
    return path
