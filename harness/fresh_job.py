"""Runs one (csvpath, file) job in a fresh process and prints its result as JSON.
usage: fresh_job.py <json request on stdin>   (own private work dir, removed at exit)"""
import json
import os
import sys

sys.path.insert(0, os.path.dirname(os.path.abspath(__file__)))
sys.path.insert(0, os.path.join(os.path.dirname(os.path.abspath(__file__)), "suites"))


def main():
    req = json.load(sys.stdin)
    devnull = open(os.devnull, "w")
    real_stdout = os.dup(1)
    os.dup2(devnull.fileno(), 1)
    import real_run
    from run_suite import canon_vars

    if req.get("sheets"):
        path = real_run.write_xlsx("book.xlsx", req["sheets"]) + "#" + req["sheet"]
    else:
        path = real_run.write_file(req.get("fname", "job.csv"), req["recs"])
    text = req["text"].replace("$FILE", "$" + path)
    out, _ = real_run.run_single(text, "collect", policy=req.get("policy", ["collect", "print"]))
    res = {k: out.get(k) for k in ("lines", "printouts", "errors", "parse_error", "raised", "headers")}
    res["variables"] = canon_vars(out.get("variables"))
    res["valid"] = (out.get("flags") or {}).get("valid")
    os.dup2(real_stdout, 1)
    sys.stdout = os.fdopen(1, "w")
    print(json.dumps(res))


if __name__ == "__main__":
    main()
