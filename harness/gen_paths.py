"""Generators: CSV files and csvpath match parts (type-directed over a table of the documented
core functions).  Every random choice comes from the `random.Random` passed in."""

HEADERS = ["a", "b", "n", "c"]
WORDS = ["x", "y", "zed", "Fish", "bat man", "", "true", "false", "None", " pad "]


def gen_file(r, *, min_recs=0, max_recs=9, header=True, blanks=True, ragged=True):
    recs = []
    n = r.randint(min_recs, max_recs)
    for i in range(n):
        if i == 0 and header and r.random() < 0.9:
            recs.append(list(HEADERS))
            continue
        if blanks and r.random() < 0.15:
            recs.append([])
            continue
        width = 4
        if ragged and r.random() < 0.2:
            width = r.randint(1, 5)
        row = []
        for j in range(width):
            if j == 2:
                row.append(str(r.choice([0, 1, 2, 3, 5, 10, 12, -1])) if r.random() < 0.9 else r.choice(["", "q"]))
            elif j == 1:
                row.append(str(r.randint(0, 4)) if r.random() < 0.6 else r.choice(WORDS))
            else:
                row.append(r.choice(WORDS[:5]) if r.random() < 0.8 else r.choice(WORDS))
        recs.append(row)
    return recs


# ------------------------------------------------------------------------------------------------
# value and match expressions
# ------------------------------------------------------------------------------------------------
def hdr(r):
    return r.choice(["#a", "#b", "#n", "#c", "#0", "#2", "#1"])


def num_hdr(r):
    return r.choice(["#n", "#n", "#2", "#b"])


def sterm(r):
    return '"' + r.choice(["x", "y", "zed", "Fish", "bat man", "1", "3"]) + '"'


def nterm(r):
    return str(r.choice([0, 1, 2, 3, 5, 10]))


def var(r):
    return "@" + r.choice(["v", "w", "cnt", "t"])


def value(r, depth=0):
    """an expression used for its value"""
    k = r.random()
    if depth >= 2 or k < 0.35:
        return r.choice([hdr, sterm, nterm, var, num_hdr])(r)
    if k < 0.45:
        return f"concat({value(r, depth+1)}, {value(r, depth+1)})"
    if k < 0.52:
        return f"{r.choice(['lower', 'upper', 'strip'])}({r.choice([hdr, sterm])(r)})"
    if k < 0.6:
        return f"length({hdr(r)})"
    if k < 0.72:
        return f"{r.choice(['add', 'subtract', 'multiply'])}({numval(r, depth+1)}, {numval(r, depth+1)})"
    if k < 0.78:
        return f"int({num_hdr(r)})"
    if k < 0.86:
        return r.choice(["count()", "count_lines()", "count_scans()", "line_number()", "count_headers()",
                         "count_headers_in_line()", "total_lines()"])
    if k < 0.9:
        return f"peek(\"s\", {r.randint(0, 2)})"
    if k < 0.94:
        return f"get(\"{r.choice(['v','w','t'])}\")"
    return f"sum.{r.choice(['sa','sb'])}({num_hdr(r)})"


def numval(r, depth=0):
    k = r.random()
    if depth >= 2 or k < 0.6:
        return r.choice([num_hdr, nterm, nterm])(r)
    if k < 0.8:
        return r.choice(["count_lines()", "line_number()", "count()"])
    return f"{r.choice(['add', 'subtract', 'multiply'])}({numval(r, depth+1)}, {numval(r, depth+1)})"


def cond(r, depth=0):
    """an expression used for its truth"""
    k = r.random()
    if depth >= 2 or k < 0.25:
        return r.choice([
            lambda: hdr(r),
            lambda: f"{hdr(r)} == {sterm(r)}",
            lambda: f"{num_hdr(r)} == {nterm(r)}",
            lambda: "yes()",
            lambda: "no()",
        ])()
    if k < 0.4:
        f = r.choice(["above", "below", "gt", "lt", "gte", "lte"])
        return f"{f}({numval(r, 1)}, {numval(r, 1)})"
    if k < 0.48:
        return f"{r.choice(['between', 'beyond', 'range'])}({num_hdr(r)}, {nterm(r)}, {nterm(r)})"
    if k < 0.56:
        return f"not({cond(r, depth+1)})"
    if k < 0.66:
        return f"{r.choice(['and', 'or'])}({cond(r, depth+1)}, {cond(r, depth+1)})"
    if k < 0.72:
        return f"{r.choice(['exists', 'empty'])}({hdr(r)})"
    if k < 0.78:
        return f"in({hdr(r)}, \"x|y|3\")"
    if k < 0.82:
        return f"equals({value(r, 1)}, {value(r, 1)})"
    if k < 0.86:
        return f"starts_with({hdr(r)}, {sterm(r)})"
    if k < 0.9:
        return f"{r.choice(['min_length', 'max_length'])}({hdr(r)}, {r.randint(1, 4)})"
    if k < 0.94:
        return r.choice(["firstline()", "firstscan()", "firstmatch()", "last()", "after_blank()"])
    if k < 0.97:
        return f"every.{r.choice(['ea','eb'])}({hdr(r)}, {r.randint(2, 3)})"
    return r.choice(["failed()", "valid()", "any()", "all()", "missing()"])


def quals(r, options, p=0.3):
    qs = [q for q in options if r.random() < p]
    return "".join("." + q for q in qs)


def effect(r):
    """a component whose interest is its side effect"""
    k = r.random()
    if k < 0.2:
        return f"push{quals(r, ['onmatch', 'notnone', 'distinct'], 0.15)}(\"s\", {value(r, 1)})"
    if k < 0.3:
        return f"{var(r)}{quals(r, ['onmatch', 'latch', 'onchange', 'increase', 'decrease', 'notnone', 'asbool', 'nocontrib'], 0.12)} = {value(r)}"
    if k < 0.36:
        return f"@v.{r.choice(['k1', 'k2'])} = {value(r, 1)}"
    if k < 0.44:
        return f"counter.{r.choice(['ca', 'cb'])}({r.randint(1, 3)})"
    if k < 0.5:
        return f"tally{r.choice(['', '.ta'])}({hdr(r)})"
    if k < 0.56:
        return f"subtotal.{r.choice(['st1','st2'])}({hdr(r)}, {num_hdr(r)})"
    if k < 0.62:
        return f"@p = pop(\"s\")"
    if k < 0.7:
        tmpl = r.choice(["line $.csvpath.line_number", "v=$.variables.v | c=$.csvpath.count_matches",
                         "a=$.headers.a | n=$.headers.n", "hello", "s=$.variables.s.length"])
        return f"print{quals(r, ['onmatch', 'once'], 0.2)}(\"{tmpl}\")"
    if k < 0.76:
        return f"first{r.choice(['', '.fa'])}({hdr(r)})"
    if k < 0.8:
        return f"track.{r.choice(['tr'])}({hdr(r)}, {hdr(r)})"
    if k < 0.85:
        return f"put(\"w\", {value(r, 1)})"
    if k < 0.9:
        return f"@t = {r.choice(['count()', 'count_lines()', 'count_scans()', 'line_number()'])}"
    return f"stack(\"s\")"


def control(r):
    k = r.random()
    c = cond(r, 1)
    if k < 0.25:
        return r.choice([f"stop({c})", f"{c} -> stop()"])
    if k < 0.5:
        return r.choice([f"skip({c})", f"{c} -> skip()"])
    if k < 0.65:
        return f"{c} -> advance({r.randint(1, 3)})"
    if k < 0.8:
        return r.choice([f"{c} -> fail()", f"fail_and_stop({c})", f"{c} -> fail()"])
    return f"last() -> {effect(r)}"


def errorish(r):
    return r.choice([
        'add("five", 1)', "int(#a)", "subtract(#c, 2)", 'substring(#a, -1)', 'above(#n, "x")',
        "multiply(#a, #c)", "float(#c)", 'push("", #a)', "mod(#n, 0)", "divide(#n, 0)",
    ])


def component(r, profile):
    k = r.random()
    pc, pe, pk, px = profile  # cond, effect, control, error
    if k < pc:
        c = cond(r)
        if r.random() < 0.25:
            return f"{c} -> {effect(r)}"
        return c
    if k < pc + pe:
        return effect(r)
    if k < pc + pe + pk:
        return control(r)
    return errorish(r)


PROFILES = {
    "plain": (0.6, 0.4, 0.0, 0.0),
    "control": (0.35, 0.35, 0.3, 0.0),
    "errors": (0.35, 0.3, 0.1, 0.25),
    "vars": (0.3, 0.65, 0.05, 0.0),
}


def match_part(r, profile="plain", max_components=5):
    n = r.randint(1, max_components)
    comps = [component(r, PROFILES[profile]) for _ in range(n)]
    sep = r.choice([" ", "\n", "  "])
    return sep.join(comps)


def scan_part(r, n):
    k = r.random()
    if k < 0.5:
        return "*"
    if k < 0.7:
        return f"{r.randint(0, max(n, 1))}*"
    if k < 0.85:
        a, b = r.randint(0, n + 1), r.randint(0, n + 1)
        return f"{a}-{b}"
    a = r.randint(0, n)
    return f"{a}+{a + r.randint(1, 3)}"
