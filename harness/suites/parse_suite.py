"""Suite `parse` (C17): generated component trees x random layouts → the real Lark parser and
transformer vs the Lean lexer/parser model (Model/Match.lean) and vs the source tree itself."""
import re

import driver
from core import rng

WS = [" ", " ", " ", "  ", "\n", "\t", "\n    ", "\r\n", " \n "]
NAME_START = "abcxyzABC"
NAME_CH = "abcxyzABC019_-"


def name_ch(c):
    return (c.isascii() and c.isalnum()) or c in "-_."


# ---------------------------------------------------------------- function table, read off /repo on every run

_FUNCS = None


def _csvpath():
    from csvpath import CsvPath

    return CsvPath()


def function_names():
    """every name FunctionFactory.get_function answers for: candidates are read from the factory's source text on every run
    and each is probed against the real factory"""
    global _FUNCS
    if _FUNCS is None:
        import csvpath.matching.functions.function_factory as ff
        import inspect
        from types import SimpleNamespace

        src = inspect.getsource(ff.FunctionFactory.get_function)
        src = "\n".join(line for line in src.split("\n") if not line.strip().startswith("#"))
        cand = set(re.findall(r'name == "([a-z_A-Z0-9]+)"', src))
        for grp in re.findall(r"name in \[(.*?)\]", src, flags=re.S):
            cand.update(re.findall(r'"([a-z_A-Z0-9]+)"', grp))
        m = SimpleNamespace(csvpath=_csvpath())
        names = []
        for n in sorted(cand):
            try:
                if ff.FunctionFactory.get_function(m, name=n, child=None) is not None:
                    names.append(n)
            except Exception:  # noqa: BLE001
                pass
        _FUNCS = names
    return _FUNCS


# ---------------------------------------------------------------- trees

def gen_simple_name(r, quals=True):
    n = r.choice(NAME_START) + "".join(r.choice(NAME_CH) for _ in range(r.randint(0, 5)))
    if quals and r.random() < 0.35:
        for _ in range(r.randint(1, 2)):
            n += "." + r.choice(["onmatch", "nocontrib", "latch", "asbool", "k1", "my_key", "notnone", "increase", "x-y"])
    return n


def gen_term(r):
    k = r.random()
    if k < 0.45:
        return {"k": "term", "t": "str", "v": "".join(r.choice("abc XYZ019.,;:#@$~[]()=->/'!?") for _ in range(r.randint(0, 8)))}
    if k < 0.9:
        v = r.choice(["0", "5", "42", "-3", "+7", "2.5", "-0.25", ".5", "10.", "007", "1000000", "3.0", "-.5"])
        return {"k": "term", "t": "num", "v": v}
    # regex terms, with the escapes docs/terms.md documents (a slash inside a regex is written \\/)
    body = "".join(r.choice(["a", "b", "c", ".", "+", "*", "?", "[", "]", "(", ")", "^", "$", "|", "0", "1", "9", " ", "~", "~", '"', "#",
                             "\\d", "\\/", "\\.", "\\\\", "\\s"]) for _ in range(r.randint(1, 6)))
    return {"k": "term", "t": "regex", "v": "/" + body + "/"}


def gen_header(r):
    if r.random() < 0.2:
        return {"k": "header", "name": '"' + r.choice(["a b", "Last Year Number", "x.y z", "the-name", "0 1"]) + '"'}
    if r.random() < 0.2:
        return {"k": "header", "name": str(r.randint(0, 12))}
    return {"k": "header", "name": gen_simple_name(r)}


def gen_var(r):
    return {"k": "var", "name": gen_simple_name(r)}


def gen_ref(r):
    return {"k": "ref", "name": r.choice(["p", "orders", "my-paths"]) + "." + r.choice(["variables", "headers", "csvpath", "metadata"]) + "." + gen_simple_name(r, False)}


def gen_fn(r, depth, names):
    name = r.choice(names)
    if r.random() < 0.3:
        name += "." + r.choice(["onmatch", "nocontrib", "asbool", "once", "onchange", "my_name", "distinct"])
    n = r.choice([0, 1, 1, 2, 2, 3, 4])
    return {"k": "fn", "name": name, "args": [gen_arg(r, depth - 1, names) for _ in range(n)]}


def gen_left(r, depth, names):
    k = r.random()
    if k < 0.35 or depth <= 0:
        return gen_header(r) if r.random() < 0.6 else gen_var(r)
    return gen_fn(r, depth, names)


def gen_rhs(r, depth, names):
    k = r.random()
    if k < 0.45:
        return gen_term(r)
    if k < 0.55:
        return gen_ref(r)
    return gen_left(r, depth, names)


def gen_arg(r, depth, names):
    k = r.random()
    if k < 0.3:
        return gen_term(r)
    if k < 0.4:
        return gen_ref(r)
    if k < 0.55 and depth > 0:
        return {"k": "eq", "op": "==", "l": gen_left(r, depth - 1, names), "r": gen_rhs(r, depth - 1, names)}
    return gen_left(r, depth, names)


def gen_action(r, depth, names):
    if r.random() < 0.4:
        return {"k": "eq", "op": "=", "l": gen_var(r), "r": gen_rhs(r, depth, names)}
    return gen_fn(r, depth, names)


def gen_expr(r, depth, names):
    k = r.random()
    if k < 0.2:
        return {"k": "eq", "op": "=", "l": gen_var(r), "r": gen_rhs(r, depth, names)}
    if k < 0.3:
        x = gen_ref(r)
    elif k < 0.55:
        x = {"k": "eq", "op": "==", "l": gen_left(r, depth, names), "r": gen_rhs(r, depth, names)}
    else:
        x = gen_left(r, depth, names)
    if r.random() < 0.3:
        return {"k": "eq", "op": "->", "l": x, "r": gen_action(r, depth, names)}
    return x


def gen_tree(r, names):
    depth = r.choice([1, 2, 2, 3, 4])
    return [gen_expr(r, depth, names) for _ in range(r.randint(0, 5))]


# ---------------------------------------------------------------- rendering

def tokens_of(n):
    k = n["k"]
    if k == "term":
        return ['"' + n["v"] + '"'] if n["t"] == "str" else [n["v"]]
    if k == "header":
        return ["#" + n["name"]]
    if k == "var":
        return ["@" + n["name"]]
    if k == "ref":
        return ["$" + n["name"]]
    if k == "fn":
        out = [n["name"], "("]
        for i, a in enumerate(n["args"]):
            if i:
                out.append(",")
            out += tokens_of(a)
        return out + [")"]
    return tokens_of(n["l"]) + [n["op"]] + tokens_of(n["r"])


def need_sep(prev, nxt):
    """would the two token texts lex differently when written without a gap? (may over-approximate)"""
    if prev in ("->", "=", "==", "(", ")", ",", "[", "]"):
        return prev == "=" and nxt.startswith("=")
    if prev[0] in '"~/':
        return False
    if prev[0] == "#" and prev.endswith('"'):
        return False
    return name_ch(nxt[0])       # names and numbers run on into name characters


def gap(r, required, dense):
    if not required and (dense or r.random() < 0.35):
        return ""
    return r.choice(WS) if not dense else " "


def render(tree, r, style):
    """style: 'dense' (no optional gaps), 'loose' (random gaps, comments between components)"""
    dense = style == "dense"
    toks = []          # (text, is_expression_boundary_before)
    toks.append(("[", False))
    for e in tree:
        first = True
        for t in tokens_of(e):
            toks.append((t, first))
            first = False
    toks.append(("]", True))
    out = ""
    prev = None
    for t, boundary in toks:
        if prev is not None:
            g = gap(r, need_sep(prev, t), dense)
            if boundary and not dense and r.random() < 0.2:
                g = gap(r, False, False) + "~" + r.choice([" a note ", "", "x", " two\nlines ", " #a == 1 "]) + "~" + gap(r, False, False)
            out += g
        out += t
        prev = t
    return out


# ---------------------------------------------------------------- S: what the tree must be

def split_name(raw):
    parts = raw.split(".")
    return parts[0], parts[1:]


def spec_node(n):
    k = n["k"]
    if k == "term":
        if n["t"] == "str":
            return {"k": "term", "v": n["v"]}
        if n["t"] == "regex":
            return {"k": "term", "v": n["v"]}
        v = n["v"]
        return {"k": "term", "v": float(v) if "." in v else int(v)}
    if k == "header":
        if n["name"].startswith('"'):
            return {"k": "header", "name": n["name"][1:-1], "quals": []}
        nm, q = split_name(n["name"])
        return {"k": "header", "name": nm, "quals": q}
    if k in ("var", "ref"):
        if k == "ref":
            return {"k": "ref", "raw": n["name"]}
        nm, q = split_name(n["name"])
        return {"k": k, "name": nm, "quals": q}
    if k == "fn":
        nm, q = split_name(n["name"])
        return {"k": "fn", "name": nm, "quals": q, "args": [spec_node(a) for a in n["args"]]}
    return {"k": "eq", "op": n["op"], "l": spec_node(n["l"]), "r": spec_node(n["r"])}


def real_node(n):
    from csvpath.matching.productions import Equality, Header, Reference, Term, Variable
    from csvpath.matching.functions.function import Function

    if isinstance(n, Term):
        return {"k": "term", "v": n.value}
    if isinstance(n, Header):
        return {"k": "header", "name": n.name, "quals": list(n.qualifiers or [])}
    if isinstance(n, Variable):
        return {"k": "var", "name": n.name, "quals": list(n.qualifiers or [])}
    if isinstance(n, Reference):
        return {"k": "ref", "raw": getattr(n, "_verif_raw", None)}
    if isinstance(n, Function):
        ch = n.children
        if len(ch) == 1 and isinstance(ch[0], Equality) and ch[0].op == ",":
            args = [real_node(c) for c in ch[0].children]
        else:
            args = [real_node(c) for c in ch]
        return {"k": "fn", "name": n.name, "quals": list(n.qualifiers or []), "args": args}
    if isinstance(n, Equality):
        return {"k": "eq", "op": n.op, "l": real_node(n.left), "r": real_node(n.right)}
    return {"k": "unknown", "type": type(n).__name__}


def model_to_spec_form(n):
    """the model's tree (raw names and literals) in the form of spec_node"""
    k = n["k"]
    if k == "term":
        return spec_node({"k": "term", "t": n["t"], "v": n["v"]})
    if k in ("header", "var", "ref"):
        return spec_node({"k": k, "name": n["name"]})
    if k == "fn":
        nm, q = split_name(n["name"])
        return {"k": "fn", "name": nm, "quals": q, "args": [model_to_spec_form(a) for a in n["args"]]}
    return {"k": "eq", "op": n["op"], "l": model_to_spec_form(n["l"]), "r": model_to_spec_form(n["r"])}


def same(a, b):
    """tree equality with Python's == on literal values but not across int/float/bool/str"""
    if isinstance(a, str) and isinstance(b, str):      # lark Tokens are str subclasses
        return str(a) == str(b)
    if type(a) is not type(b):
        return False
    if isinstance(a, dict):
        return a.keys() == b.keys() and all(same(a[k], b[k]) for k in a)
    if isinstance(a, list):
        return len(a) == len(b) and all(same(x, y) for x, y in zip(a, b))
    return a == b


def unknown_function(nodes, names):
    """does the tree hold something the grammar admits but the productions refuse to build: a function the factory does not know,
    or a header/variable whose name before the first dot is empty (`@.x`)"""
    for n in nodes:
        if n["k"] in ("var", "header") and not n["name"].startswith('"') and n["name"].split(".")[0].strip() == "":
            return True
        if n["k"] == "fn":
            if n["name"].split(".")[0] not in names or unknown_function(n["args"], names):
                return True
        elif n["k"] == "eq":
            if unknown_function([n["l"], n["r"]], names):
                return True
    return False


def count_ambig(tree):
    from lark import Tree

    n = 0
    stack = [tree]
    while stack:
        t = stack.pop()
        if isinstance(t, Tree):
            if t.data == "_ambig":
                n += 1
            stack.extend(t.children)
    return n


def real_parse(match_text):
    """(trees in spec form | None, exception class | None, number of _ambig nodes)"""
    from csvpath.matching.matcher import Matcher
    from csvpath.matching.productions import Reference
    from csvpath.matching.lark_parser import LarkParser

    try:
        raw = LarkParser().parse(match_text)
    except Exception as e:  # noqa: BLE001
        return None, type(e).__name__, 0
    amb = count_ambig(raw)
    orig_cv = Matcher.check_valid
    orig_ref = Reference.__init__

    def ref_init(self, matcher, *, value=None, name=None):
        self._verif_raw = name
        try:
            orig_ref(self, matcher, value=value, name=name)
        except Exception:  # noqa: BLE001  (a reference outside a named-paths run cannot resolve; the tree node is what matters here)
            pass

    Matcher.check_valid = lambda self: None
    Reference.__init__ = ref_init
    try:
        m = Matcher(csvpath=_csvpath(), data=match_text, line=None, headers=None)
        out = []
        for e, _ in m.expressions:
            if len(e.children) != 1:
                out.append({"k": "unknown", "type": "expression with %d children" % len(e.children)})
            else:
                out.append(real_node(e.children[0]))
        return out, None, amb
    except Exception as e:  # noqa: BLE001
        return None, type(e).__name__, amb
    finally:
        Matcher.check_valid = orig_cv
        Reference.__init__ = orig_ref


# ---------------------------------------------------------------- cases

def vary_inner_ws(nodes):
    """doubles one blank inside the first string, quoted header or regex that has one; True if something changed"""
    for n in nodes:
        if n["k"] == "term" and n["t"] in ("str", "regex") and " " in n["v"]:
            n["v"] = n["v"].replace(" ", "  ", 1)
            return True
        if n["k"] == "header" and n["name"].startswith('"') and " " in n["name"]:
            n["name"] = n["name"].replace(" ", "  ", 1)
            return True
        if n["k"] == "fn" and vary_inner_ws(n["args"]):
            return True
        if n["k"] == "eq" and (vary_inner_ws([n["l"]]) or vary_inner_ws([n["r"]])):
            return True
    return False


def gen_case(seed, i):
    r = rng(seed, "parse", i)
    kind = "tree" if r.random() < 0.8 else "malformed"
    return {"kind": kind, "i": i, "seed": seed}


def mutate(text, r):
    ops = ["del", "dup", "ins", "swap"]
    for _ in range(r.randint(1, 2)):
        if not text:
            break
        j = r.randrange(len(text))
        op = r.choice(ops)
        if op == "del":
            text = text[:j] + text[j + 1:]
        elif op == "dup":
            text = text[:j] + text[j] + text[j:]
        elif op == "ins":
            text = text[:j] + r.choice(list("()[],=->#@$\"~/. 1a")) + text[j:]
        else:
            k = r.randrange(len(text))
            lst = list(text)
            lst[j], lst[k] = lst[k], lst[j]
            text = "".join(lst)
    return text


def case_parse(case):
    import realenv  # noqa: F401
    import real_run  # noqa: F401  (enters the private work dir, makes csvpath importable)

    r = rng(case["seed"], "parse-case", case["i"])
    names = function_names()
    res = {"case": case, "disagree": [], "oracle": [], "nontrivial": False, "counts": {}}
    tree = gen_tree(r, names)
    layouts = [render(tree, r, "dense"), render(tree, r, "loose"), render(tree, r, "loose")]
    want = [spec_node(e) for e in tree]
    res["text"] = layouts[1]
    res["nfunctions"] = len(names)
    if case["kind"] == "malformed":
        text = mutate(layouts[1], r)
        got, exc, amb = real_parse(text)
        m = driver.ask({"op": "parse", "text": text})
        res["text"] = text
        if "unmodelled" in m:
            res["counts"]["unmodelled"] = 1
            return res
        res["counts"]["malformed_accepted" if got is not None else "malformed_rejected"] = 1
        if amb:
            res["oracle"].append({"what": "parse: the Earley parser reports an ambiguity (_ambig node)", "text": text, "ambig": amb})
        if "tree" in m and unknown_function(m["tree"], names):
            # the grammar admits the text but the factory has no such function: both sides must refuse to build it
            res["counts"]["malformed_unknown_function"] = 1
            if got is not None:
                res["disagree"].append({"what": "parse: the code builds a function the factory does not list", "text": text})
            return res
        if (got is None) != ("rejected" in m):
            res["disagree"].append({"what": "parse: model and code disagree on whether the text parses", "text": text, "real_error": exc, "model": m})
        elif got is not None:
            mt = [model_to_spec_form(e) for e in m["tree"]]
            if not same(mt, got):
                res["disagree"].append({"what": "parse: model and code build different trees", "text": text, "real": got, "model": mt})
        return res
    trees = []
    for text in layouts:
        got, exc, amb = real_parse(text)
        m = driver.ask({"op": "parse", "text": text})
        if amb:
            res["oracle"].append({"what": "parse: the Earley parser reports an ambiguity (_ambig node)", "text": text, "ambig": amb})
        if got is None:
            res["oracle"].append({"what": "parse: a csvpath assembled from the documented grammar does not parse", "text": text, "error": exc})
        elif not same(got, want):
            res["oracle"].append({"what": "parse: the tree differs from the source (kinds, names, qualifiers, operators, argument order, literals)", "text": text,
                                  "got": got, "want": want})
        if "unmodelled" in m:
            res["counts"]["unmodelled"] = res["counts"].get("unmodelled", 0) + 1
        elif "rejected" in m:
            if got is not None:
                res["disagree"].append({"what": "parse: the model rejects a text the code parses", "text": text, "model": m})
        else:
            mt = [model_to_spec_form(e) for e in m["tree"]]
            if got is not None and not same(mt, got):
                res["disagree"].append({"what": "parse: model and code build different trees", "text": text, "real": got, "model": mt})
        trees.append(got)
    # a second source that differs from the first only by white space *inside* a quoted token: it is a different program
    # and must get its own tree, whatever was parsed before in this process
    import copy as _copy
    import random as _random

    tree2 = _copy.deepcopy(tree)
    if vary_inner_ws(tree2):
        st = r.getstate()
        r1 = _random.Random(0)
        r1.setstate(st)
        r2 = _random.Random(0)
        r2.setstate(st)
        ta, tb = render(tree, r1, "loose"), render(tree2, r2, "loose")
        ga, _ea, _ = real_parse(ta)
        gb, eb, _ = real_parse(tb)
        want2 = [spec_node(e) for e in tree2]
        res["counts"]["inner_whitespace_variant"] = 1
        if gb is None or not same(gb, want2):
            res["oracle"].append({"what": "parse: a source differing only by white space inside a quoted token did not get its own tree",
                                  "first": ta, "second": tb, "got": gb, "want": want2, "error": eb})
    if trees[0] is not None and any(not same(trees[0], t) for t in trees[1:] if t is not None):
        res["oracle"].append({"what": "parse: two layouts of the same components give different trees", "texts": layouts})
    res["nontrivial"] = len(tree) >= 2 and any(e["k"] in ("fn", "eq") for e in tree)
    res["counts"]["components"] = len(tree)
    return res


# ---- layout-insensitivity of whole runs

def py_tokens(text):
    """split a match part into token texts (mirror of Model.Match.tokenAt for the generators' programs)"""
    out, i = [], 0
    n = len(text)
    while i < n:
        c = text[i]
        if c in " \t\f\r\n":
            i += 1
            continue
        if c in "[](),":
            out.append(c)
            i += 1
        elif c == "=":
            if text[i:i + 2] == "==":
                out.append("==")
                i += 2
            else:
                out.append("=")
                i += 1
        elif c in '"~/':
            j = text.index(c, i + 1)
            out.append(text[i:j + 1])
            i = j + 1
        elif c == "#" and text[i + 1:i + 2] == '"':
            j = text.index('"', i + 2)
            out.append(text[i:j + 1])
            i = j + 1
        elif c in "#@$":
            j = i + 1
            while j < n and name_ch(text[j]):
                j += 1
            out.append(text[i:j])
            i = j
        elif text[i:i + 2] == "->":
            out.append("->")
            i += 2
        elif c.isalpha():
            j = i + 1
            while j < n and name_ch(text[j]):
                j += 1
            out.append(text[i:j])
            i = j
        elif c.isdigit() or c in "+-.":
            m = re.match(r"[+-]?(\d+\.?\d*|\.\d+)", text[i:])
            if not m:
                raise ValueError("not a token: " + text[i:i + 10])
            out.append(m.group(0))
            i += len(m.group(0))
        else:
            raise ValueError("not a token: " + text[i:i + 10])
    return out


def relayout(match_text, r, dense=False):
    toks = py_tokens("[" + match_text + "]")
    out, prev = "", None
    for idx, t in enumerate(toks):
        if prev is not None:
            g = gap(r, need_sep(prev, t), dense)
            if not dense and (idx == 1 or idx == len(toks) - 1) and r.random() < 0.3:
                # the text of a comment between components is inert, whatever it looks like (field-like, mode-like)
                g += r.choice(["~ a comment ~", "~ a comment ~", "~ logic-mode: OR ~", "~ return-mode: no-matches ~", "~ id: inner note: x ~",
                               "~ run-mode: no-run ~", "~ checks: the b column ~"]) + gap(r, False, False)
            out += g
        out += t
        prev = t
    return out


def gen_run_case(seed, i):
    import gen_interp as GI
    import gen_paths as G

    r = rng(seed, "parse-run", i)
    recs = GI.gen_file(r)
    return {"kind": "run", "recs": recs, "scan": G.scan_part(r, len(recs)), "match": GI.match_part(r, r.choice(["plain", "control", "vars"])),
            "and": r.random() < 0.75, "seed": seed, "i": i}


def case_run(case):
    import real_run
    from run_suite import canon_vars, has_cycle

    r = rng(case["seed"], "parse-run-layout", case["i"])
    res = {"case": case, "disagree": [], "oracle": [], "nontrivial": False, "counts": {}}
    path = real_run.write_file("in.csv", case["recs"])
    mode = "" if case["and"] else "~ logic-mode: OR ~ "
    try:
        variants = ["[" + case["match"] + "]", relayout(case["match"], r, dense=True), relayout(case["match"], r), relayout(case["match"], r)]
    except ValueError as e:
        res["counts"]["untokenisable"] = 1
        res["note"] = str(e)
        return res
    outer = ["", "", "~ this csvpath checks things ~ ", ""]
    # one case in four has its mode given programmatically, on the instance, before the text is parsed: an outer comment
    # without mode settings must leave that alone too
    presets = None
    if case["and"] and case["i"] % 4 == 3:
        presets = r.choice([{"OR": True}, {"collect_when_not_matched": True}, {"OR": True, "collect_when_not_matched": True}])
        res["counts"]["programmatic_modes"] = 1
    outs = []
    for v, o in zip(variants, outer):
        sep = r.choice(["", " ", "\n"])
        text = f"{o}{mode}${path}[{case['scan']}]{sep}{v}"
        out, _p = real_run.run_single(text, "collect", policy=["collect"], presets=presets)
        if has_cycle(out.get("variables")):
            res["counts"]["cyclic"] = 1
            return res
        vs = {k: x for k, x in (out.get("variables") or {}).items() if not str(k).startswith("_intx_")}
        outs.append({"text": text, "parse_error": out.get("parse_error"), "raised": out.get("raised"), "lines": out.get("lines"),
                     "variables": canon_vars(vs), "printouts": [p[1] for p in (out.get("printouts") or [])] if not out.get("errors") else None,
                     "errors": [e[1] for e in (out.get("errors") or [])], "valid": (out.get("flags") or {}).get("valid")})
    base = outs[0]
    for o in outs[1:]:
        for key in ("parse_error", "raised", "lines", "variables", "printouts", "errors", "valid"):
            if o[key] != base[key]:
                res["oracle"].append({"what": f"layout: {key} of a run changes with whitespace/comments between components", "a": base["text"], "b": o["text"],
                                      "got_a": base[key], "got_b": o[key]})
                break
    res["nontrivial"] = bool(base["lines"]) and len(base["lines"]) < len([x for x in case["recs"] if x])
    res["text"] = outs[2]["text"]
    return res


def case_any(case):
    return case_run(case) if case["kind"] == "run" else case_parse(case)
