"""Suite `files` (C11): operation histories over the named-files store."""
import hashlib
import itertools
import json
import os

import driver
from core import rng

NAMES = ["orders", "stock"]
SOURCES = ["alpha.csv", "beta.csv"]
# (the last content has the length of the first: an edit that keeps the size)
CONTENTS = [b"a,b\n1,2\n", b"a,b\n3,4\n5,6\n", b"x\n", b"a,b\n1,3\n"]
FIXED_MTIME = 1700000000


def all_ops():
    ops = []
    for n in NAMES:
        for s in SOURCES:
            for c in range(len(CONTENTS)):
                ops.append({"op": "add", "name": n, "src": s, "content": c})
    for s in SOURCES:
        for c in range(len(CONTENTS)):
            ops.append({"op": "mutate", "src": s, "content": c})
    for n in NAMES:
        ops.append({"op": "remove", "name": n})
    ops.append({"op": "new"})
    return ops


def sha(b):
    return hashlib.sha256(b).hexdigest()


def observe(cp, tracked):
    """everything observable about the named-files area through the API and on disk"""
    import realenv  # noqa: F401

    fm = cp.file_manager
    obs = {"names": sorted(fm.named_file_names), "state": {}}
    for n in NAMES:
        st = {}
        p = fm.get_named_file(n)
        st["path"] = p
        if p is not None:
            try:
                with open(p, "rb") as f:
                    st["bytes"] = f.read()
            except OSError as e:
                # get_named_file names something that is not there: judged by the oracle (bytes differ from what was registered)
                st["bytes"] = f"unreadable: {e.__class__.__name__}".encode()
            try:
                st["fingerprint"] = fm.get_fingerprint_for_name(n)
            except Exception as e:  # noqa: BLE001
                st["fingerprint"] = f"raised {e.__class__.__name__}"
            home = fm.named_file_home(n)
            with open(os.path.join(home, "manifest.json")) as f:
                man = json.load(f)
            st["manifest"] = [[m["fingerprint"], os.path.basename(m["file_home"]), m["file"]] for m in man]
            files = {}
            for root, _, fs in os.walk(home):
                for fn in fs:
                    if fn == "manifest.json":
                        continue
                    with open(os.path.join(root, fn), "rb") as f:
                        files[os.path.relpath(os.path.join(root, fn), home)] = f.read()
            st["files"] = files
        obs["state"][n] = st
    return obs


def case_history(case):
    """case: {ops: [...]}"""
    import real_run
    import realenv
    from csvpath import CsvPaths

    realenv.reset_dirs()
    os.makedirs("data/src", exist_ok=True)
    ops = case["ops"]
    res = {"case": case, "disagree": [], "oracle": []}
    cp = CsvPaths()
    spec = {}  # name -> list of (digest, src) ; registered: name -> {(src,digest): bytes}
    registered = {}
    model = driver.ask({"op": "files", "names": NAMES, "ops": ops})["after"]
    for i, op in enumerate(ops):
        kind = op["op"]
        if kind == "add":
            b = CONTENTS[op["content"]]
            sp = os.path.join("data/src", op["src"])
            with open(sp, "wb") as f:
                f.write(b)
            if case.get("same_mtime"):
                os.utime(sp, (FIXED_MTIME, FIXED_MTIME))     # a copy that keeps timestamps (cp -p, rsync -t, a restore)
            cp.file_manager.add_named_file(name=op["name"], path=sp)
            d = sha(b)
            v = spec.setdefault(op["name"], [])
            if not v or v[-1] != (d, op["src"]):
                v.append((d, op["src"]))
            registered.setdefault(op["name"], {})[(op["src"], d)] = b
            spec.setdefault("_last_" + op["name"], None)
            spec["_last_" + op["name"]] = b
        elif kind == "mutate":
            sp = os.path.join("data/src", op["src"])
            with open(sp, "wb") as f:
                f.write(CONTENTS[op["content"]])
            if case.get("same_mtime"):
                os.utime(sp, (FIXED_MTIME, FIXED_MTIME))
        elif kind == "remove":
            if op["name"] in cp.file_manager.named_file_names:
                cp.file_manager.remove_named_file(op["name"])
            spec.pop(op["name"], None)
            registered.pop(op["name"], None)
            spec.pop("_last_" + op["name"], None)
        elif kind == "new":
            cp = CsvPaths()
        obs = observe(cp, registered)
        m = model[i]
        # ---- oracle: the abstract versioned, content-addressed, immutable store ----
        want_names = sorted(n for n in NAMES if n in spec)
        if obs["names"] != want_names:
            res["oracle"].append({"what": "named_file_names", "step": i, "got": obs["names"], "want": want_names})
        for n in NAMES:
            st = obs["state"][n]
            if n not in spec:
                if st["path"] is not None:
                    res["oracle"].append({"what": "get_named_file of an unknown/removed name is not None", "step": i, "name": n})
                continue
            v = spec[n]
            last = spec["_last_" + n]
            if st["path"] is None:
                res["oracle"].append({"what": "get_named_file is None for a registered name", "step": i, "name": n})
                continue
            if st["bytes"] != last:
                res["oracle"].append({"what": "get_named_file does not hold the most recent content registered", "step": i, "name": n})
            stem = os.path.basename(st["path"])
            if stem != sha(st["bytes"]) + ".csv":
                res["oracle"].append({"what": "file name is not the SHA-256 of its bytes", "step": i, "name": n, "file": stem})
            if st["fingerprint"] != v[-1][0]:
                res["oracle"].append({"what": "get_fingerprint_for_name", "step": i, "name": n, "got": st["fingerprint"], "want": v[-1][0]})
            got_man = [(x[0], x[1]) for x in st["manifest"]]
            if got_man != v:
                res["oracle"].append({"what": "manifest entries (one per change of the current version, none for a repeat)",
                                      "step": i, "name": n, "got": got_man, "want": v})
            for (src, d), b in registered[n].items():
                rel = os.path.join(src, d + ".csv")
                if st["files"].get(rel) != b:
                    res["oracle"].append({"what": "a registered version is missing or modified on disk", "step": i, "name": n, "file": rel})
        # ---- model correspondence (digest ids ↔ sha) ----
        dig = {i2: sha(b) for i2, b in enumerate(CONTENTS)}
        if sorted(m["names"]) != obs["names"]:
            res["disagree"].append({"what": "files: names", "step": i, "real": obs["names"], "model": m["names"]})
        for ms in m["state"]:
            st = obs["state"][ms["name"]]
            if ms["get"] is None:
                if st["path"] is not None:
                    res["disagree"].append({"what": "files: get", "step": i, "name": ms["name"], "real": st["path"], "model": None})
                continue
            if st["path"] is None:
                res["disagree"].append({"what": "files: get", "step": i, "name": ms["name"], "real": None, "model": ms["get"]})
                continue
            want_tail = os.path.join(ms["name"], ms["get"][0], dig[ms["get"][1]] + ".csv")
            if not st["path"].endswith(want_tail):
                res["disagree"].append({"what": "files: get", "step": i, "real": st["path"], "model": want_tail})
            if st["bytes"] != CONTENTS[ms["bytes"]]:
                res["disagree"].append({"what": "files: bytes", "step": i, "name": ms["name"]})
            mm = [[dig[x[0]], x[1]] for x in ms["manifest"]]
            if mm != [[x[0], x[1]] for x in st["manifest"]]:
                res["disagree"].append({"what": "files: manifest", "step": i, "real": st["manifest"], "model": mm})
            mf = sorted(os.path.join(x[0], dig[x[1]] + ".csv") for x in ms["files"])
            if mf != sorted(st["files"]):
                res["disagree"].append({"what": "files: files on disk", "step": i, "real": sorted(st["files"]), "model": mf})
        if res["oracle"] or res["disagree"]:
            break
    res["nontrivial"] = sum(1 for o in ops if o["op"] == "add") >= 2
    return res
