"""Suite `jobs` (C19): a job's result must not depend on what ran before it in the process, on
the header/line-count cache being cold or warm, or on how the CsvPath was created."""
import json
import os
import subprocess
import sys

import gen_paths as G
import driver
from core import rng
from run_suite import canon_vars, has_recursion_error

HARNESS = os.path.dirname(os.path.dirname(os.path.abspath(__file__)))
HEADER_CELLS = ["a", "b", "n", "c", "first name", " padded ", "x;y", "q|r", "it's", 'say "hi"', '"q"', "tab\there", "back`tick", "ünï",
                # a removed character at the edge next to a blank: cleaning is not idempotent on these
                "price ;", "; qty", "a |", "` b", "x ,", "\t lead",
                # line boundaries inside a header cell (what str.splitlines would cut at)
                "unit\nprice", "a\u2028b", "v\x0bw", "p\x85q"]


def gen_job(r):
    recs = G.gen_file(r, min_recs=1, max_recs=7)
    if r.random() < 0.4 and recs:
        for j, rec in enumerate(recs):
            if rec:
                recs[j] = [r.choice(HEADER_CELLS) for _ in rec]
                break
    if r.random() < 0.3:
        # date-like cells (some with zone abbreviations the date parser only warns about)
        for rec in recs[1:]:
            if len(rec) > 3 and r.random() < 0.7:
                rec[3] = r.choice(["2024-01-05 10:00 EST", "2024-02-01", "3 Jan 2021 PST", "2021-12-31T23:59:59"])
    prof = r.choice(["plain", "vars", "control", "errors"])
    mp = G.match_part(r, prof, max_components=4)
    if r.random() < 0.2:
        # process-wide interpreter state that earlier jobs may have touched (compiled patterns, warning filters, date parsing)
        mp += " " + r.choice(['regex(/x.*/, #0)', 'exact(/[a-z]+/, #1)', '@d = date(#3)', 'date(#0)', '@dd = datetime(#3)',
                              'push("up", upper(#0))'])
    if r.random() < 0.35:
        # what the line monitor knows about the whole file (handed over by copy when a CsvPaths creates the CsvPath)
        mp += " " + r.choice(['push("tl", total_lines())', '@tl = total_lines()', 'print("of $.csvpath.total_lines")',
                              '@pc = percent("line")', 'push("cl", count_lines())'])
    return {"recs": recs, "text": f"$FILE[{G.scan_part(r, len(recs))}][{mp}]", "profile": prof}


# function families that keep state outside the CsvPath (compiled patterns, warning filters, parsers, printers): every ordered
# pair of families is run as job 0 / job 1 of some history (all pairs in the thorough tier, a sample in the quick tier)
FAMILIES = {
    "regex": 'regex(/x.*/, #0)',
    "exact": 'exact(/[a-z]+/, #0)',
    "date": '@d = date(#3)',
    "datetime": '@dt = datetime(#3)',
    "print": 'print("p $.csvpath.line_number $.headers.0")',
    "stats": '@mx = max(#2)',
    "strings": 'push("u", upper(#0))',
    # functions that share a class with a sibling (the factory builds them with an extra argument)
    "median": '@md = median(#2, "line")',
    "average": '@av = average(#2, "line")',
    "min": '@mn = min(#2)',
    "sum": '@s = sum(#2)',
    "tally": 'tally(#0)',
}
FAMILY_PAIRS = [(a, b) for a in FAMILIES for b in FAMILIES if a != b]
# a family after itself: whatever the first resolution of a function leaves behind in the process must not change the second
SAME_FAMILY = [(a, a) for a in FAMILIES]


def family_pair(seed, j):
    """the j-th family case of a run: first every family after itself, then the ordered pairs of different families"""
    if j < len(SAME_FAMILY):
        return SAME_FAMILY[j]
    return FAMILY_PAIRS[(j + seed) % len(FAMILY_PAIRS)]


def gen_case(seed, i):
    r = rng(seed, "jobs", i)
    jobs = [gen_job(r) for _ in range(r.randint(2, 6))]
    if i % 3 == 0:
        a, b = family_pair(seed, i // 3)
        for job, fam in ((jobs[0], a), (jobs[1], b)):
            recs = [["a", "b", "n", "c"]] + [[r.choice(["x1", "abc", "Fish"]), str(k), str(r.randint(0, 9)),
                                              r.choice(["2024-01-05 10:00 EST", "2024-02-01", "3 Jan 2021 PST"])] for k in range(r.randint(2, 4))]
            job["recs"] = recs
            job["text"] = f"$FILE[*][{FAMILIES[fam]}]"
            job.pop("sheets", None)
    if r.random() < 0.25 and i % 3 != 0:
        # the jobs read worksheets of one workbook (`book.xlsx#sheet`): the sheets differ in header row and length
        names = ["one", "two", "three"][: r.randint(2, 3)]
        sheets = {}
        for nm in names:
            recs = [rec for rec in G.gen_file(r, min_recs=2, max_recs=6, blanks=False, ragged=False)]
            recs[0] = [f"{nm}_{c}" for c in "abcd"]
            sheets[nm] = recs
        for job in jobs:
            job["sheets"] = sheets
            job["sheet"] = r.choice(names)
            job["recs"] = sheets[job["sheet"]]
    for k, job in enumerate(jobs):
        job["fname"] = f"job{k}.csv"
    return {"jobs": jobs}


def fresh(job):
    p = subprocess.run(["/venv/bin/python", os.path.join(HARNESS, "fresh_job.py")], input=json.dumps(job), capture_output=True,
                       text=True, timeout=120, env={**os.environ, "PYTHONPATH": os.environ.get("CSVPATH_REPO", "/repo"), "PYTHONDONTWRITEBYTECODE": "1"})
    if p.returncode != 0 or not p.stdout.strip():
        raise RuntimeError(f"fresh job failed: {p.stderr[-400:]}")
    return json.loads(p.stdout.strip().splitlines()[-1])


def summarise(out):
    return {"lines": out.get("lines"), "printouts": out.get("printouts"), "errors": out.get("errors"), "parse_error": out.get("parse_error"),
            "raised": out.get("raised"), "headers": out.get("headers"), "variables": canon_vars(out.get("variables")),
            "valid": (out.get("flags") or {}).get("valid")}


def unsafe_headers(recs):
    first = next((r_ for r_ in recs if r_), None)
    if first is None:
        return False
    import re

    cleaned = [re.sub(r"[;,|\t`]", "", c.strip()) for c in first]
    return cleaned == [""] or any(c.startswith('"') or "\n" in c or "\r" in c for c in cleaned) or any('"' in c for c in cleaned)


def case_jobs(case):
    import real_run
    import realenv
    from csvpath import CsvPaths

    res = {"case": case, "disagree": [], "oracle": [], "nontrivial": False}
    realenv.reset_dirs()
    refs = []
    for job in case["jobs"]:
        refs.append(fresh(job))
    if any(r_.get("raised") == "RecursionError" or any(e[1] == "RecursionError" for e in (r_.get("errors") or [])) for r_ in refs):
        res["unmodelled"] = "RecursionError"
        return res
    # the same jobs, one after another in this process
    for k, job in enumerate(case["jobs"]):
        if job.get("sheets"):
            path = real_run.write_xlsx("book.xlsx", job["sheets"]) + "#" + job["sheet"]
        else:
            path = real_run.write_file(job.get("fname", "job.csv"), job["recs"])
        text = job["text"].replace("$FILE", "$" + path)
        out, _ = real_run.run_single(text, "collect", policy=["collect", "print"])
        got = summarise(out)
        want = refs[k]
        for key in want:
            if got.get(key) != want[key]:
                res["oracle"].append({"what": f"a job's {key} depends on what ran earlier in the process", "job": k,
                                      "in_sequence": got.get(key), "fresh_process": want[key], "csvpath": job["text"]})
        # repeat: identical results
        out2, _ = real_run.run_single(text, "collect", policy=["collect", "print"])
        if summarise(out2) != got:
            res["oracle"].append({"what": "repeating a run gave different results", "job": k, "csvpath": job["text"]})
        # created by a CsvPaths instance, cold cache then warm cache (new instance, same cache dir)
        # "carried": whatever the earlier jobs of this history left in the cache directory
        for temp in ("carried", "cold", "warm"):
            if temp == "cold":
                import shutil

                shutil.rmtree("cache", ignore_errors=True)
                os.makedirs("cache", exist_ok=True)
            cps = CsvPaths()
            p = cps.csvpath()
            p.config.csvpath_errors_policy = ["collect", "print"]
            rp = real_run.RecPrinter()
            p.add_printer(rp)
            o = {}
            try:
                p.parse(text)
                lines = p.collect()
                o = {"lines": lines, "printouts": rp.entries, "errors": [[e.line_count, e.error.__class__.__name__] for e in (p.errors or [])],
                     "parse_error": None, "raised": None, "headers": p.headers, "variables": canon_vars(p.variables), "valid": bool(p.is_valid)}
            except Exception as e:  # noqa: BLE001
                o = {"raised_any": e.__class__.__name__}
            if want.get("parse_error") or want.get("raised"):
                if "raised_any" not in o:
                    res["oracle"].append({"what": f"a CsvPaths-created csvpath ({temp} cache) did not fail where the direct one does", "job": k})
                continue
            if "raised_any" in o:
                res["oracle"].append({"what": f"a CsvPaths-created csvpath ({temp} cache) raised {o['raised_any']}", "job": k, "csvpath": job["text"]})
                continue
            for key in ("lines", "printouts", "errors", "headers", "variables", "valid"):
                if o[key] != want[key]:
                    fid = None
                    res["oracle"].append({"what": f"result differs with a {temp} cache / CsvPaths-created instance: {key}", "job": k,
                                          "got": o[key], "fresh_direct": want[key], "csvpath": job["text"], "records": job["recs"][:3],
                                          "finding": fid})
                    break
    res["nontrivial"] = sum(1 for r_ in refs if r_.get("lines")) >= 2
    return res


# ---- the header cache by itself: FileCacher writes a header list, Cache reads it back (model: Model.Cache.store / load) ----
HDR_ALPHABET = list("abcXY01 _-.") + [",", '"', "'", "\n", ";", "|", "\t", "é", "日", "\u2028", "\r"]


def gen_hdr(seed, i):
    r = rng(seed, "hdrcache", i)
    n = r.choice([0, 1, 1, 2, 3, 5, 8])
    hs = []
    for _ in range(n):
        k = r.random()
        if k < 0.15:
            hs.append("")
        elif k < 0.5:
            hs.append(r.choice(["id", "first name", "amount", "a,b", 'say "hi"', '"', "x\ny"]))
        else:
            hs.append("".join(r.choice(HDR_ALPHABET) for _ in range(r.randint(1, 7))))
    return {"headers": hs, "file": f"data/h{i % 7}.csv"}


def case_hdrcache(case):
    import hashlib
    import os
    import shutil

    import real_run  # noqa: F401  (enters the private working directory)
    from csvpath import CsvPaths
    from csvpath.util.line_monitor import LineMonitor

    res = {"case": case, "disagree": [], "oracle": [], "nontrivial": False}
    shutil.rmtree("cache", ignore_errors=True)
    cps = CsvPaths()
    cacher = cps.file_manager.cacher
    hs = case["headers"]
    try:
        cacher._cache_lines_and_headers(case["file"], LineMonitor(), hs)
        cdir = cps.config.cache_dir_path
        name = hashlib.sha256(case["file"].encode("utf-8")).hexdigest() + ".csv"
        with open(os.path.join(cdir, name), "r", encoding="utf-8", newline="") as f:
            text = f.read()
        back = CsvPaths().file_manager.cacher.cache.cached_text(case["file"], "csv")
    except Exception as e:  # noqa: BLE001
        res["oracle"].append({"what": f"the header cache raised {e.__class__.__name__}: {e}"})
        return res
    m = driver.ask({"op": "hdrcache", "headers": hs, "text": text})
    if m["text"] != text:
        res["disagree"].append({"what": "header cache: text of the cache file", "real": text, "model": m["text"]})
    if m["load_of"] != back:
        res["disagree"].append({"what": "header cache: list read back", "real": back, "model": m["load_of"]})
    inside = not any("\r" in h for h in hs)
    if inside and back != hs:
        res["oracle"].append({"what": "the header cache returns a different header list than was stored (warm differs from cold)",
                              "stored": hs, "returned": back})
    res["inside"] = inside
    res["nontrivial"] = inside and any(c in h for h in hs for c in ',"\n')
    return res


# ---- named-paths runs on one reused CsvPaths instance: every run must give what the same run gives on a new instance ----
GROUP_MEMBERS = ['$[*][yes()]', '$[1*][#1 == "x" push("s", #0)]', '$[1*][@c = count() print("l $.csvpath.line_number")]',
                 '$[1*][line_number() == 2 -> stop_all()]', '$[1*][line_number() == 1 -> fail_all()]', '$[1*][#1 == "y" -> skip_all()]',
                 '$[1*][line_number() == 1 -> advance_all(1)]', '$[1*][line_number() == 2 -> stop()]', '$[1*][@t = total_lines() yes()]',
                 '$[*][line_number() == 3 -> fail()]',
                 # a member that adds a header to its own line, and members whose outcome depends on the headers they are given
                 '$[*][append("checked", "yes")]', '$[*][@hc = count_headers() yes()]', '$[1*][print("$.csvpath.headers")]',
                 '$[1*][@hn = header_name(2) yes()]']


def gen_group_history(seed, i):
    r = rng(seed, "group-history", i)
    groups = {}
    for g in ("ga", "gb"):
        groups[g] = [r.choice(GROUP_MEMBERS) for _ in range(r.randint(1, 3))]
    recs = [["a", "b"]] + [[f"v{k}", r.choice(["x", "y"])] for k in range(1, r.randint(3, 6))]
    runs = [{"group": r.choice(["ga", "gb"]), "method": r.choice(["collect_paths", "fast_forward_paths", "next_paths", "collect_by_line",
                                                                  "fast_forward_by_line", "next_by_line"])} for _ in range(r.randint(2, 4))]
    return {"groups": groups, "recs": recs, "runs": runs}


def _obs(caller, mobs, raised):
    keep = ("identity", "lines", "printouts", "valid", "result_valid", "stopped", "match_count", "scan_count", "errors", "line_number")
    return {"caller": caller, "raised": raised,
            "members": [dict({k: m.get(k) for k in keep}, variables=canon_vars(m.get("variables"))) for m in mobs]}


def case_group_history(case):
    import real_group as RG
    import realenv

    res = {"case": case, "disagree": [], "oracle": [], "nontrivial": len(case["runs"]) >= 2}
    # reference: every run on a new instance, in a store of its own
    refs = []
    for run in case["runs"]:
        realenv.reset_dirs()
        cp = RG.new_csvpaths(policy=["collect"], csvpath_policy=["collect", "print"])
        for g, paths in case["groups"].items():
            RG.setup_group(cp, g, paths, "food", case["recs"])
        refs.append(_obs(*RG.run_group(cp, run["group"], "food", run["method"])))
    # the history on one instance
    realenv.reset_dirs()
    cp = RG.new_csvpaths(policy=["collect"], csvpath_policy=["collect", "print"])
    for g, paths in case["groups"].items():
        RG.setup_group(cp, g, paths, "food", case["recs"])
    for k, run in enumerate(case["runs"]):
        got = _obs(*RG.run_group(cp, run["group"], "food", run["method"]))
        if got != refs[k]:
            key = next((x for x in ("raised", "caller") if got[x] != refs[k][x]), "members")
            res["oracle"].append({"what": f"a named-paths run on a reused CsvPaths gives other results than on a new instance ({key})", "run": k,
                                  "reused": got[key] if key != "members" else got["members"], "new_instance": refs[k][key] if key != "members" else refs[k]["members"]})
            break
    return res
